// C19 — (1) cumulative_histogram / sub_histogram / normalize on EVERY histogram over a small key grid
// (ops1d/ops2d/ops3d), (2) fill_histogram over every kind of view (strided, flipped, transposed, rotated,
// subsampled, sub-image, const, nth-channel, planar) with every content and mask (views), (3) the
// std::vector / std::array / std::map fillers against the sparse histogram (stdfill).
#include "c19_model.hpp"
#include <memory>
#include <functional>
using namespace c19;

// ---------------------------------------------------------------- ops: all histograms on a key grid
template <class Hist, size_t D>
static void ops_grid(vh::Ctx& ctx, const char* gname, std::vector<Key<D>> const& keys, std::vector<double> const& states)
{
    // states[0] means "bin absent"
    const size_t n = keys.size(), S = states.size();
    long total_h = 1; for (size_t i = 0; i < n; ++i) total_h *= long(S);
    const long CH = 256;
    for (long base = 0; base < total_h; base += CH)
    {
        if (!ctx.take()) continue;
        ctx.cur = std::string(gname) + "/chunk=" + std::to_string(base);
        std::map<std::string, long> caps;
        for (long idx = base; idx < std::min(total_h, base + CH); ++idx)
        {
            Hist h; long j = idx; std::string code; long present = 0;
            for (size_t i = 0; i < n; ++i)
            {
                size_t s = size_t(j % long(S)); j /= long(S);
                code += char('0' + s);
                if (s) { h[tuple_of<typename Hist::key_type>(keys[i])] = states[s]; ++present; }
            }
            std::string id = std::string(gname) + "/h=" + code;
            long f0 = ctx.nfail;
            derived_all(ctx, caps, id, h);
            ++ctx.evaluations;
            if (present >= 2) ++ctx.nontrivial;
            ctx.san_take(id);
            if (ctx.nfail == f0 && present >= 3) ctx.sample(id + " ok (" + std::to_string(present) + " bins)");
        }
        if (ctx.timed_out()) return;
    }
}
VH_GROUP(ops1d)
{
    std::vector<Key<1>> keys; for (long k : {-2L, -1L, 0L, 1L, 2L, 5L, 300L}) keys.push_back(Key<1>{{k}});
    std::vector<double> st = {-1, 0, 1, 2, 1000000};
    st.resize(size_t(ctx.B("S", 4)));
    ops_grid<gil::histogram<int>, 1>(ctx, "ops1d", keys, st);
}
VH_GROUP(ops2d)
{
    std::vector<Key<2>> keys; for (long a : {0L, 1L, 2L}) for (long b : {0L, 1L, 2L}) keys.push_back(Key<2>{{a, b}});
    std::vector<double> st = {-1, 1, 0.5, 2, 0};      // bins hold doubles: a non-integral count (as after normalize()) is in the alphabet
    st.resize(size_t(ctx.B("S", 3)));
    ops_grid<gil::histogram<int, int>, 2>(ctx, "ops2d", keys, st);
}
VH_GROUP(ops3d)
{
    std::vector<Key<3>> keys; for (long a : {0L, 1L}) for (long b : {0L, 1L}) for (long c : {0L, 2L}) keys.push_back(Key<3>{{a, b, c}});
    std::vector<double> st = {-1, 1, 0.5, 2, 0};      // bins hold doubles: a non-integral count (as after normalize()) is in the alphabet
    st.resize(size_t(ctx.B("S", 3)));
    ops_grid<gil::histogram<int, int, int>, 3>(ctx, "ops3d", keys, st);
}
VH_GROUP(ops4d)
{
    std::vector<Key<4>> keys; for (long a : {0L, 1L}) for (long b : {1L, 2L}) for (long c : {0L}) for (long d : {0L, 2L}) keys.push_back(Key<4>{{a, b, c, d}});
    std::vector<double> st = {-1, 1, 0.5, 2, 0};      // bins hold doubles: a non-integral count (as after normalize()) is in the alphabet
    st.resize(size_t(ctx.B("S", 3)));
    ops_grid<gil::histogram<int, short, long, int>, 4>(ctx, "ops4d", keys, st);
}

// ---------------------------------------------------------------- views
struct ViewCase
{
    vh::Ctx& ctx; std::string name; int w, h, nch; std::vector<long> const& vals; long BW;
    std::array<int, 3> sel; size_t D; long fails = 0;
};

template <class Hist, class View>
static void check_view(ViewCase& vc, const char* kind, View const& v, std::array<int, Hist::dimension()> sel)
{
    constexpr size_t D = Hist::dimension();
    vh::Ctx& ctx = vc.ctx;
    const int w = vc.w, h = vc.h, npx = w * h;
    if (v.width() != w || v.height() != h) { ctx.fail(vc.name + "/" + kind, "harness-view-shape", "harness bug"); return; }
    for (long bw = 1; bw <= vc.BW; ++bw)
        for (long mi = -1; mi < (1L << npx); ++mi)
        {
            bool has_mask = mi >= 0;
            std::vector<std::vector<bool>> mask;
            if (has_mask)
            {
                mask.assign(size_t(h), std::vector<bool>(size_t(w), false));
                for (int p = 0; p < npx; ++p) mask[size_t(p / w)][size_t(p % w)] = (mi >> p) & 1;
            }
            Hist hist; hist[tuple_of<typename Hist::key_type>(Key<D>{})] = 9;   // replaced by the fill
            if (has_mask) gil::fill_histogram(v, hist, size_t(bw), false, true, true, mask);
            else gil::fill_histogram(v, hist, size_t(bw));
            Model<D> want; long counted = 0;
            for (int p = 0; p < npx; ++p)
            {
                if (has_mask && !((mi >> p) & 1)) continue;
                Key<D> k; for (size_t i = 0; i < D; ++i) k[i] = vc.vals[size_t(p) * vc.nch + sel[i]] / bw;
                want[k] += 1; ++counted;
            }
            ++ctx.evaluations; if (counted) ++ctx.nontrivial;
            ++ctx.witness[std::string("view:") + kind];
            std::string d = diff_counts(bins_of(hist), want);
            auto id = [&]() {
                std::string s = vc.name + "/" + kind + "/" + std::to_string(w) + "x" + std::to_string(h) + "/px=";
                for (int p = 0; p < npx; ++p) { if (p) s += ","; for (int c = 0; c < vc.nch; ++c) { if (c) s += "."; s += std::to_string(vc.vals[size_t(p) * vc.nch + c]); } }
                s += "/m="; if (has_mask) for (int p = 0; p < npx; ++p) s += ((mi >> p) & 1) ? '1' : '0'; else s += "-";
                return s + "/bw=" + std::to_string(bw);
            };
            if (!d.empty() && ++vc.fails <= 64) ctx.fail(id(), "replace:bin-count", d);
            if (d.empty() && hist.sum() != double(counted) && ++vc.fails <= 64) ctx.fail(id(), "mass", "");
            if (d.empty() && counted >= 3 && has_mask) ctx.sample(id() + " ok");
            ctx.san_take_lazy(id);
        }
}

// underlying buffer U (uw x uh, row stride `rb` bytes) + placement of logical pixel (x,y)
template <class P> struct Under
{
    int uw, uh; std::ptrdiff_t rb; std::unique_ptr<vh::GuardBuf> buf;
    using view_t = typename gil::type_from_x_iterator<P*>::view_t;
    Under(int uw_, int uh_, int extra_row_bytes = 0) : uw(uw_), uh(uh_), rb(std::ptrdiff_t(uw_) * sizeof(P) + extra_row_bytes)
    {
        size_t n = uh ? size_t(uh - 1) * size_t(rb) + size_t(uw) * sizeof(P) : 0;
        buf.reset(new vh::GuardBuf(n ? n : 1, 9));      // every byte 9: a stray read shows up as a bin 9
    }
    view_t view() { return gil::interleaved_view(uw, uh, reinterpret_cast<P*>(buf->data()), rb); }
    void put(int ux, int uy, long const* ch, int nch)
    {
        using C = typename gil::channel_type<P>::type;
        C* p = reinterpret_cast<C*>(buf->data() + uy * rb + std::ptrdiff_t(ux) * sizeof(P));
        for (int c = 0; c < nch; ++c) p[c] = C(ch[c]);
    }
};

template <class P, class Hist>
static void views_of(vh::Ctx& ctx, const char* tname, int nch, std::array<int, Hist::dimension()> sel, long PX, long BW, long SH)
{
    using C = typename gil::channel_type<P>::type;
    for (auto sh : shapes(SH))
    {
        if (sh.w == 0) continue;
        if (!ctx.take()) continue;
        const int w = sh.w, h = sh.h, npx = w * h;
        ctx.cur = std::string(tname) + "/" + std::to_string(w) + "x" + std::to_string(h);
        long ncont = 1; for (int i = 0; i < npx; ++i) ncont *= PX;
        std::vector<long> vals(size_t(npx) * nch);
        for (long ci = 0; ci < ncont; ++ci)
        {
            long j = ci;
            for (int p = 0; p < npx; ++p) { pixel_value(int(j % PX), 4, nch, &Alpha<C>::v, &vals[size_t(p) * nch]); j /= PX; }
            ViewCase vc{ctx, tname, w, h, nch, vals, BW};
            auto fill = [&](Under<P>& u, std::function<void(int, int, int&, int&)> place) {
                for (int y = 0; y < h; ++y) for (int x = 0; x < w; ++x) { int ux, uy; place(x, y, ux, uy); u.put(ux, uy, &vals[size_t(y * w + x) * nch], nch); }
            };
            { Under<P> u(w, h); fill(u, [&](int x, int y, int& a, int& b) { a = x; b = y; }); check_view<Hist>(vc, "plain", u.view(), sel);
              typename gil::type_from_x_iterator<P const*>::view_t cv = u.view(); check_view<Hist>(vc, "const", cv, sel); if (!u.buf->intact()) ctx.fail(ctx.cur, "canary", ""); }
            { Under<P> u(w, h, 5); fill(u, [&](int x, int y, int& a, int& b) { a = x; b = y; }); check_view<Hist>(vc, "padded-rows", u.view(), sel); }
            { Under<P> u(w + 2, h + 2); fill(u, [&](int x, int y, int& a, int& b) { a = x + 1; b = y + 1; }); check_view<Hist>(vc, "subimage", gil::subimage_view(u.view(), 1, 1, w, h), sel); }
            { Under<P> u(w, h); fill(u, [&](int x, int y, int& a, int& b) { a = w - 1 - x; b = y; }); check_view<Hist>(vc, "flip-lr", gil::flipped_left_right_view(u.view()), sel); }
            { Under<P> u(w, h); fill(u, [&](int x, int y, int& a, int& b) { a = x; b = h - 1 - y; }); check_view<Hist>(vc, "flip-ud", gil::flipped_up_down_view(u.view()), sel); }
            { Under<P> u(h, w); fill(u, [&](int x, int y, int& a, int& b) { a = y; b = x; }); check_view<Hist>(vc, "transposed", gil::transposed_view(u.view()), sel); }
            { Under<P> u(h, w); fill(u, [&](int x, int y, int& a, int& b) { a = y; b = w - 1 - x; }); check_view<Hist>(vc, "rot90cw", gil::rotated90cw_view(u.view()), sel); }
            { Under<P> u(w, h); fill(u, [&](int x, int y, int& a, int& b) { a = w - 1 - x; b = h - 1 - y; }); check_view<Hist>(vc, "rot180", gil::rotated180_view(u.view()), sel); }
            { Under<P> u(2 * w - 1, 2 * h - 1); fill(u, [&](int x, int y, int& a, int& b) { a = 2 * x; b = 2 * y; }); check_view<Hist>(vc, "subsampled", gil::subsampled_view(u.view(), 2, 2), sel); }
            if (ctx.timed_out()) return;
        }
    }
}

// planar rgb8 and nth_channel_view: the model is taken from a snapshot made before the fill
static void views_planar(vh::Ctx& ctx, long PX, long BW, long SH)
{
    for (auto sh : shapes(SH))
    {
        if (sh.w == 0) continue;
        if (!ctx.take()) continue;
        const int w = sh.w, h = sh.h, npx = w * h;
        ctx.cur = "planar/" + std::to_string(w) + "x" + std::to_string(h);
        long ncont = 1; for (int i = 0; i < npx; ++i) ncont *= PX;
        std::vector<long> vals(size_t(npx) * 3);
        for (long ci = 0; ci < ncont; ++ci)
        {
            long j = ci;
            for (int p = 0; p < npx; ++p) { pixel_value(int(j % PX), 4, 3, &Alpha<uint8_t>::v, &vals[size_t(p) * 3]); j /= PX; }
            ViewCase vc{ctx, "rgb8", w, h, 3, vals, 1};   // bin width 1 only, see note below
            vh::GuardBuf r(size_t(npx), 9), g(size_t(npx), 9), b(size_t(npx), 9);
            auto load = [&]() { for (int p = 0; p < npx; ++p) { r.data()[p] = uint8_t(vals[p * 3]); g.data()[p] = uint8_t(vals[p * 3 + 1]); b.data()[p] = uint8_t(vals[p * 3 + 2]); } };
            load();
            auto pv = gil::planar_rgb_view(w, h, r.data(), g.data(), b.data(), w);
            check_view<gil::histogram<int, int, int>>(vc, "planar", pv, {{0, 1, 2}});
            bool modified1 = false; for (int p = 0; p < npx; ++p) modified1 = modified1 || r.data()[p] != uint8_t(vals[p * 3]);
            // with bin width > 1 histogram::fill divides the channels of a *proxy reference* in place, i.e. it rewrites
            // the planar source image (observation outside the C19 statement: counted, never failed). Each fill below
            // therefore runs on freshly loaded planes.
            for (long bw = 2; bw <= BW; ++bw)
            {
                load();
                gil::histogram<int, int, int> hist;
                gil::fill_histogram(pv, hist, size_t(bw));
                Model<3> want; for (int p = 0; p < npx; ++p) want[Key<3>{{vals[p * 3] / bw, vals[p * 3 + 1] / bw, vals[p * 3 + 2] / bw}}] += 1;
                ++ctx.evaluations; ++ctx.nontrivial; ++ctx.witness["view:planar-bw>1"];
                std::string d = diff_counts(bins_of(hist), want);
                std::string id = "rgb8/planar/" + std::to_string(w) + "x" + std::to_string(h) + "/ci=" + std::to_string(ci) + "/bw=" + std::to_string(bw);
                if (!d.empty()) ctx.fail(id, "replace:bin-count", d);
                bool mod = false; for (int p = 0; p < npx; ++p) mod = mod || r.data()[p] != uint8_t(vals[p * 3]) || g.data()[p] != uint8_t(vals[p * 3 + 1]) || b.data()[p] != uint8_t(vals[p * 3 + 2]);
                if (mod) ++ctx.counters["planar_source_rewritten_by_fill"];
                ctx.san_take(id);
            }
            if (modified1) ++ctx.counters["planar_source_rewritten_by_fill_bw1"];
            // nth_channel_view of an interleaved rgb8 view: 1-channel view with a byte-step iterator
            {
                Under<gil::rgb8_pixel_t> u(w, h);
                for (int p = 0; p < npx; ++p) u.put(p % w, p / w, &vals[size_t(p) * 3], 3);
                std::vector<long> g1; g1.resize(size_t(npx)); for (int p = 0; p < npx; ++p) g1[size_t(p)] = vals[size_t(p) * 3 + 1];
                ViewCase v1{ctx, "rgb8", w, h, 1, g1, BW};
                check_view<gil::histogram<int>>(v1, "nth-channel<1>", gil::nth_channel_view(u.view(), 1), {{0}});
            }
            if (!r.intact() || !g.intact() || !b.intact()) ctx.fail(ctx.cur, "canary", "");
            if (ctx.timed_out()) return;
        }
    }
}

VH_GROUP(views)
{
    long PX = ctx.B("PX", 3), BW = ctx.B("BW", 2), SH = ctx.B("SH", 4);
    views_of<gil::gray8_pixel_t, gil::histogram<int>>(ctx, "gray8", 1, {{0}}, PX, BW, SH);
    views_of<gil::gray16_pixel_t, gil::histogram<int>>(ctx, "gray16", 1, {{0}}, PX, BW, SH);
    views_of<gil::rgb8_pixel_t, gil::histogram<int, int, int>>(ctx, "rgb8", 3, {{0, 1, 2}}, PX, BW, SH);
    views_planar(ctx, PX, BW, SH);
}

// ---------------------------------------------------------------- std container fillers
template <class C, class View>
static void std_random_access(vh::Ctx&, std::string const&, View const&, Model<1> const&, bool, std::false_type) {}
template <class C, class View>
static void std_random_access(vh::Ctx& ctx, std::string const& cid, View const& v, Model<1> const& hm, bool acc, std::true_type)
{
    constexpr long NB = long(std::numeric_limits<C>::max()) + 1;
    std::vector<int> vec = {0, 3, 0, 0, 0, 0, 0, 2};       // shorter than the channel range on purpose
    gil::fill_histogram(v, vec, acc);
    Model<1> vm; for (size_t i = 0; i < vec.size(); ++i) if (vec[i]) vm[Key<1>{{long(i)}}] = vec[i];
    ++ctx.witness["std_vector"];
    if (vm != hm) ctx.fail(cid, "std-vector-differs", diff_counts(vm, hm));
    static std::array<long, NB> arr;
    arr.fill(0); arr[1] = 3; arr[7] = 2;
    gil::fill_histogram(v, arr, acc);
    Model<1> am; for (size_t i = 0; i < arr.size(); ++i) if (arr[i]) am[Key<1>{{long(i)}}] = double(arr[i]);
    ++ctx.witness["std_array"];
    if (am != hm) ctx.fail(cid, "std-array-differs", diff_counts(am, hm));
}
template <class C, bool RandomAccess, class View, class GView>
static void std_case(vh::Ctx& ctx, std::string const& id, View const& v, GView const& gray_v)
{
    // the sparse histogram the containers have to agree with: same (gray) pixels, bin width 1
    for (int acc = 0; acc < 2; ++acc)
    {
        gil::histogram<int> h; h(1) = 3; h(7) = 2;
        gil::fill_histogram(gray_v, h, 1, acc != 0);
        auto hm = nonzero(bins_of(h));
        std::string cid = id + (acc ? "/acc" : "/rep");
        ++ctx.evaluations; if (v.width() * v.height() > 0) ++ctx.nontrivial;
        {
            std::map<int, int> m; m[1] = 3; m[7] = 2;
            gil::fill_histogram(v, m, acc != 0);
            Model<1> mm; for (auto const& kv : m) if (kv.second) mm[Key<1>{{kv.first}}] = kv.second;
            ++ctx.witness["std_map"];
            if (mm != hm) ctx.fail(cid, "std-map-differs", diff_counts(mm, hm));
        }
        std_random_access<C>(ctx, cid, v, hm, acc != 0, std::integral_constant<bool, RandomAccess>());
        ctx.san_take(cid);
    }
}
template <class P, bool RA>
static void std_of(vh::Ctx& ctx, const char* tname, int A, long PX, long SH)
{
    using C = typename gil::channel_type<P>::type;
    const int nch = gil::num_channels<P>::value;
    for (auto sh : shapes(SH))
    {
        if (!ctx.take()) continue;
        const int w = sh.w, h = sh.h, npx = w * h;
        ctx.cur = std::string("std/") + tname + "/" + std::to_string(w) + "x" + std::to_string(h);
        long ncont = 1; for (int i = 0; i < npx; ++i) ncont *= PX;
        std::vector<long> vals(size_t(npx) * nch);
        for (long ci = 0; ci < ncont; ++ci)
        {
            long j = ci;
            for (int p = 0; p < npx; ++p) { pixel_value(int(j % PX), A, nch, &Alpha<C>::v, &vals[size_t(p) * nch]); j /= PX; }
            Under<P> u(w, h);
            std::string id = std::string("std/") + tname + "/" + std::to_string(w) + "x" + std::to_string(h) + "/px=";
            for (int p = 0; p < npx; ++p) { u.put(p % w, p / w, &vals[size_t(p) * nch], nch); if (p) id += ","; for (int c = 0; c < nch; ++c) { if (c) id += "."; id += std::to_string(vals[size_t(p) * nch + c]); } }
            auto v = u.view();
            // for colour views the containers see the gray-converted pixels; so does the reference histogram
            std_case<C, RA>(ctx, id, v, gil::color_converted_view<gil::pixel<C, gil::gray_layout_t>>(v));
            if (ci < 3 && npx >= 2) ctx.sample(id + " vector/array/map == sparse histogram");
            if (ctx.timed_out()) return;
        }
    }
}
VH_GROUP(stdfill)
{
    long PX = ctx.B("PX", 5), SH = ctx.B("SH", 4), SH16 = ctx.B("SH16", 2);
    std_of<gil::gray8_pixel_t, true>(ctx, "gray8", 5, PX, SH);
    std_of<gil::gray8s_pixel_t, false>(ctx, "gray8s", 5, PX, SH);
    std_of<gil::gray16_pixel_t, true>(ctx, "gray16", 5, PX, SH16);
    std_of<gil::rgb8_pixel_t, true>(ctx, "rgb8", 5, std::min(PX, 4L), std::min(SH, 3L));
}

// The histogram's key type is NARROWER than the view's channel type, and the bin width is chosen so that every bin index fits the
// key type: the bin of a sample v is v / bin_width (the division happens on the sample, not on a sample already narrowed to the key
// type).  gray16 into histogram<unsigned char> with bin width 256; gray8 (values above 127) into histogram<signed char> with bin
// width 2; free function (sparse and dense) and member fill.
VH_GROUP(narrow_keys)
{
    if (!ctx.take()) return;
    auto run = [&](auto px_tag, auto hist_tag, const char* name, std::vector<long> const& vals, long bw) {
        using Px = decltype(px_tag); using H = decltype(hist_tag);
        gil::image<Px, false> img(int(vals.size()), 1);
        for (size_t i = 0; i < vals.size(); ++i) gil::view(img)(int(i), 0)[0] = typename gil::channel_type<Px>::type(vals[i]);
        std::map<long, long> want; for (long v : vals) ++want[v / bw];
        for (int mode = 0; mode < 3; ++mode)
        {
            H h;
            if (mode == 0) gil::fill_histogram(gil::const_view(img), h, size_t(bw));
            else if (mode == 1) gil::fill_histogram(gil::const_view(img), h, size_t(bw), false, false);
            else h.fill(gil::const_view(img), size_t(bw));
            std::map<long, long> got; for (auto const& kv : h) if (kv.second != 0) got[long(std::get<0>(kv.first))] += long(kv.second);
            ++ctx.evaluations; ++ctx.nontrivial;
            if (got != want)
            {
                std::string g, w2; for (auto& kv : got) g += std::to_string(kv.first) + ":" + std::to_string(kv.second) + " "; for (auto& kv : want) w2 += std::to_string(kv.first) + ":" + std::to_string(kv.second) + " ";
                ctx.fail(std::string("narrow_keys/") + name + "/bw=" + std::to_string(bw) + (mode == 0 ? "/sparse" : mode == 1 ? "/dense" : "/member"), "bin!=value/bin_width", "got " + g + "expected " + w2);
            }
        }
        ++ctx.witness["key_type_narrower_than_channel"];
    };
    run(gil::gray16_pixel_t(), gil::histogram<unsigned char>(), "gray16>u8", {0, 255, 256, 300, 4660, 32768, 65279, 65535}, 256);
    run(gil::gray16_pixel_t(), gil::histogram<unsigned char>(), "gray16>u8", {0, 511, 512, 1000, 65535 / 2, 65535}, 512);
    run(gil::gray8_pixel_t(), gil::histogram<signed char>(), "gray8>s8", {0, 1, 127, 128, 200, 254, 255}, 2);
    run(gil::gray8_pixel_t(), gil::histogram<signed char>(), "gray8>s8", {0, 3, 130, 255}, 4);
}

VH_MAIN
