// C04 — TU 8: source and destination of the SAME colour space and channel type but DIFFERENT channel order
// (rgb8 <-> bgr8, rgba8 -> abgr8, rgb16 -> bgr16): compatible pixels, so copy_pixels / copy_and_convert_pixels /
// transform_pixels must pair channels by colour; a byte-wise fast path (memmove) is wrong here.  Const and mutable
// sources (they select different std::copy overloads), contiguous / padded / sub-view on both sides.
#include "c04_common.hpp"
namespace c04 {
template <> struct Name<gil::abgr8_pixel_t> { static const char* get() { return "abgr8"; } };
template <> struct Name<gil::bgr16_pixel_t> { static const char* get() { return "bgr16"; } };
}
using namespace c04;

using R8  = FamI<gil::rgb8_pixel_t>;
using R8c = FamI<gil::rgb8_pixel_t, true>;
using B8  = FamI<gil::bgr8_pixel_t>;
using B8c = FamI<gil::bgr8_pixel_t, true>;
using A8c = FamI<gil::rgba8_pixel_t, true>;
using AB8 = FamI<gil::abgr8_pixel_t>;
using R16c = FamI<gil::rgb16_pixel_t, true>;
using B16 = FamI<gil::bgr16_pixel_t>;

VH_GROUP(pairs_layouts)
{
    vh::ubsan_counts() = false;
    int N = int(ctx.B("N", 4)), X0 = int(ctx.B("X0", 3));
    PairRunner<R8c, B8, R8c, false>::run(ctx, N, X0);
    PairRunner<R8, B8, R8, false>::run(ctx, N, X0);
    PairRunner<B8c, R8, B8c, false>::run(ctx, N, X0);
    PairRunner<A8c, AB8, A8c, false>::run(ctx, N, X0);
    PairRunner<R16c, B16, R16c, false>::run(ctx, N, X0);
    ++ctx.witness["cross_layout_pairs"];
}
VH_MAIN

// equal_pixels / image equality on packed pixels whose channel bits do not fill the bit field (rgb555 in uint16_t: bit 15 unused).
// "equal_pixels returns true exactly when all corresponding pixels compare equal", and pixels compare by channel: views that agree in
// every channel are equal whatever their unused bits hold (a byte-wise comparison is wrong here), and one differing channel bit at any
// position makes them unequal.  Shapes 0..N x 0..N, contiguous and padded rows, the differing pixel at every position.
VH_GROUP(equal_packed_padding)
{
    vh::ubsan_counts() = false;
    namespace mp = boost::mp11;
    using P555 = gil::packed_pixel_type<uint16_t, mp::mp_list_c<unsigned, 5, 5, 5>, gil::rgb_layout_t>::type;
    const int N = int(ctx.B("N", 4));
    for (int pad = 0; pad < 2; ++pad) for (int w = 0; w <= N; ++w) for (int h = 0; h <= N; ++h)
    {
        if (!ctx.take()) continue;
        const int stride = w + pad;      // in pixels
        std::vector<P555> A(size_t(stride) * h + 1, P555{uint16_t(0x7FFF)}), B(A.size(), P555{uint16_t(0x0000)});      // padding pixels differ on purpose
        auto va = gil::interleaved_view(w, h, A.data(), std::ptrdiff_t(stride) * 2), vb = gil::interleaved_view(w, h, B.data(), std::ptrdiff_t(stride) * 2);
        auto fill = [&]() { for (int y = 0; y < h; ++y) for (int x = 0; x < w; ++x) { uint16_t bits = uint16_t((y * 37 + x * 11 + 5) * 257u) & 0x7FFF; A[size_t(y) * stride + x] = P555{bits}; B[size_t(y) * stride + x] = P555{bits}; } };
        const std::string base = vh::S() << "equal_packed_padding/rgb555/" << w << "x" << h << (pad ? "/padded" : "/contiguous");
        fill();
        ++ctx.evaluations;
        if (!gil::equal_pixels(va, vb)) ctx.fail(base + "/identical", "equal_pixels:false-for-equal-views", "");
        for (int y = 0; y < h; ++y) for (int x = 0; x < w; ++x)
        {
            fill(); B[size_t(y) * stride + x] = P555{uint16_t(A[size_t(y) * stride + x]._bitfield ^ 0x8000u)};
            ++ctx.evaluations; ++ctx.nontrivial;
            const std::string id = vh::S() << base << "/unused-bit@" << x << "," << y;
            if (!gil::equal_pixels(va, vb)) ctx.fail(id, "equal_pixels:false-for-equal-views", "the views differ only in the unused bit 15 of one pixel");
            { using CV = typename decltype(va)::const_t; if (!gil::equal_pixels(CV(va), CV(vb))) ctx.fail(id + "/const", "equal_pixels:false-for-equal-views", ""); }
            fill(); B[size_t(y) * stride + x] = P555{uint16_t(A[size_t(y) * stride + x]._bitfield ^ 0x0001u)};
            ++ctx.evaluations; ++ctx.nontrivial;
            if (gil::equal_pixels(va, vb)) ctx.fail(vh::S() << base << "/channel-bit@" << x << "," << y, "equal_pixels:true-for-different-views", "");
        }
        ++ctx.witness["equal_packed_unused_bits"];
    }
}
