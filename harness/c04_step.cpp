// C04 — TU 3: rgb8, sources with a run-time x step (flipped_left_right, subsampled(2,1); over interleaved and
// over planar memory) into every destination family; destination-only algorithms and equal_pixels for them.
#include "c04_common.hpp"
using namespace c04;

using I8  = FamI<gil::rgb8_pixel_t>;
using P8  = FamP<uint8_t>;
using X8  = FamX<I8>;
using XP8 = FamX<P8>;
using T8  = FamT<I8>;

#define C04_BOUNDS vh::ubsan_counts() = false; int N = int(ctx.B("N", 4)), X0 = int(ctx.B("X0", 3));

VH_GROUP(pairs_x)
{
    C04_BOUNDS
    PairRunner<X8, I8, XP8>::run(ctx, N, X0);
    PairRunner<X8, P8, X8>::run(ctx, N, X0);
    PairRunner<X8, X8, P8>::run(ctx, N, X0);
    PairRunner<X8, T8, I8>::run(ctx, N, X0);
    PairRunner<XP8, P8, I8, false>::run(ctx, N, X0);
    PairRunner<P8, XP8, I8, false>::run(ctx, N, X0);
    PairRunner<XP8, XP8, I8, false>::run(ctx, N, X0);
}
VH_GROUP(dst_x)
{
    C04_BOUNDS
    run_dst<X8>(ctx, N, X0);
    run_dst<XP8>(ctx, N, X0);
}
VH_GROUP(equal_x)
{
    C04_BOUNDS
    EqualRunner<X8, I8>::run(ctx, N, X0);
    EqualRunner<X8, P8>::run(ctx, N, X0);
    EqualRunner<X8, X8>::run(ctx, N, X0);
    EqualRunner<X8, T8>::run(ctx, N, X0);
    EqualRunner<XP8, P8>::run(ctx, N, X0);
    EqualRunner<XP8, XP8>::run(ctx, N, X0);
}
VH_MAIN
