// C12 TIFF: bgr8 comes back with r/b swapped; rgba comes back premultiplied; 1-bit + CCITT loses pixels (bit order)
#include <boost/gil.hpp>
#include <boost/gil/extension/io/tiff.hpp>
#include <sstream>
#include <iostream>
using namespace boost::gil;
template <class Img, class P> void rt(const char* what, P px, int comp) {
    Img a(1, 1), b; view(a)(0, 0) = px;
    image_write_info<tiff_tag> wi; wi._compression = comp;
    std::stringstream ss(std::ios::in | std::ios::out | std::ios::binary); write_view(ss, view(a), wi);
    ss.seekg(0); read_image(ss, b, tiff_tag());
    std::cout << what << ": " << (view(a)(0, 0) == view(b)(0, 0) ? "identical" : "DIFFERENT") << "\n";
}
int main() {
    rt<bgr8_image_t>("bgr8 (b=10,g=20,r=30)", bgr8_pixel_t(10, 20, 30), COMPRESSION_NONE);
    rt<rgba8_image_t>("rgba8 (200,100,50,alpha 128)", rgba8_pixel_t(200, 100, 50, 128), COMPRESSION_NONE);
    gray1_image_t::value_type one; at_c<0>(one) = 1;
    rt<gray1_image_t>("gray1 white, no compression", one, COMPRESSION_NONE);
    rt<gray1_image_t>("gray1 white, CCITT T.6", one, COMPRESSION_CCITTFAX4);
}
