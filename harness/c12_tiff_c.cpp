// C12 TIFF, part C: rgba and cmyk types
// the TIFF writer builds an x_iterator from a byte pointer: does not compile for the x-step view of a bit-aligned
// image (subsampled) -> not covered for gray1/2/4
#define TIFF_ORGS(Img) (gil::is_bit_aligned<typename Img::value_type>::value ? (1 | 2 | 8) : 31)
#include "c12_tiff.hpp"
using Tested = c12::Supported<Fmt::tag>;
using Part = mp::mp_list<gil::rgba8_image_t, gil::rgba16_image_t, gil::cmyk8_image_t, gil::cmyk16_image_t>;
static_assert(mp::mp_all_of_q<Part, c12::IsRW<gil::tiff_tag>>::value, "part C types must be supported");
VH_GROUP(roundtrip) { tiff_roundtrip<Part>(ctx); }
VH_MAIN
