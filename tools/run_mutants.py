#!/usr/bin/env python3
"""run_mutants.py [CNN ...] — apply each mutants/CNN_*.patch (and seeded/CNN*/patch.diff) to a scratch copy of /repo's
include tree (under /verif/build/mut, removed afterwards), run the property's quick check against it and record whether it
printed VIOLATION.  Writes mutants/RESULTS.tsv (development-time evidence for DESIGN.md §6; not a registered check)."""
import sys, os, glob, subprocess, shutil, time
VERIF = os.path.dirname(os.path.dirname(os.path.abspath(__file__)))
args = sys.argv[1:]
SEEDED_FIRST = '--seeded-first' in args
SKIP_TAG = next((a.split('=', 1)[1] for a in args if a.startswith('--skip-done=')), None)   # skip rows already measured with this tag
TAG = next((a.split('=', 1)[1] for a in args if a.startswith('--tag=')), '')
props = [a for a in args if not a.startswith('--')]
rows = []
res = os.path.join(VERIF, 'mutants', 'RESULTS.tsv')
def load():
    old = {}
    if os.path.exists(res):
        for l in open(res):
            f = l.rstrip('\n').split('\t')
            if len(f) >= 3: old[f[1]] = f
    return old
def record(r):
    old = load(); old[r[1]] = [str(x) for x in r]
    with open(res + '.tmp', 'w') as fh:
        for k in sorted(old): fh.write('\t'.join(old[k]) + '\n')
    os.replace(res + '.tmp', res)
_m, _s = sorted(glob.glob(os.path.join(VERIF, 'mutants', 'C*_*.patch'))), sorted(glob.glob(os.path.join(VERIF, 'seeded', '*', 'patch.diff')))
pats = _s + _m if SEEDED_FIRST else _m + _s
done = load()
for pth in pats:
    name = os.path.basename(pth) if pth.endswith('.patch') else 'seeded/' + os.path.basename(os.path.dirname(pth))
    pid = (os.path.basename(pth) if pth.endswith('.patch') else os.path.basename(os.path.dirname(pth)))[:3]
    if props and pid not in props: continue
    if SKIP_TAG and name in done and len(done[name]) >= 6 and done[name][5] == SKIP_TAG: continue
    scratch = os.path.join(VERIF, 'build', 'mut', name.replace('/', '_'))
    shutil.rmtree(scratch, ignore_errors=True)
    os.makedirs(scratch)
    shutil.copytree('/repo/include', os.path.join(scratch, 'include'))
    a = subprocess.run(['git', 'apply', '--unsafe-paths', '--directory=' + scratch, pth], cwd='/', stdout=subprocess.PIPE, stderr=subprocess.STDOUT, text=True)
    if a.returncode != 0:
        a = subprocess.run(['patch', '-p1', '-d', scratch, '-i', pth], stdout=subprocess.PIPE, stderr=subprocess.STDOUT, text=True)
    if a.returncode != 0:
        prev = done.get(name)
        verdict = 'PATCH-DOES-NOT-APPLY'
        if prev and len(prev) >= 3 and not prev[2].startswith('PATCH-DOES-NOT-APPLY'):
            verdict += ' on this tree (overlaps a later fix); earlier: %s%s' % (prev[2], (' on ' + prev[5]) if len(prev) >= 6 and prev[5] else '')
        rows.append((pid, name, verdict, prev[3] if prev and len(prev) >= 4 else '', 0, TAG)); record(rows[-1]); shutil.rmtree(scratch, ignore_errors=True); print(rows[-1], flush=True); continue
    t0 = time.time()
    r = subprocess.run([sys.executable, os.path.join(VERIF, 'tools', 'vcheck.py'), pid, '--tier', 'quick', '--repo', scratch, '--no-evidence'],
                       cwd=VERIF, stdout=subprocess.PIPE, stderr=subprocess.STDOUT, text=True)
    out = r.stdout
    viol = [l for l in out.splitlines() if l.startswith('VIOLATION')]
    sigs = sorted(set(l.split('sig=')[1].split(' ')[0] for l in out.splitlines() if l.strip().startswith('case=') and 'sig=' in l))
    verdict = 'CAUGHT' if (r.returncode == 1 and viol) else ('BUILD-ERROR' if 'BUILD-ERROR' in out else 'MISSED rc=%d' % r.returncode)
    rows.append((pid, name, verdict, ','.join(sigs)[:200], round(time.time() - t0), TAG))
    record(rows[-1])
    print(rows[-1], flush=True)
    shutil.rmtree(scratch, ignore_errors=True)
    shutil.rmtree(os.path.join(VERIF, 'replays', pid), ignore_errors=True)
