// Adam7-interlaced PNG: read_image decodes wrongly (one row buffer is reused for all rows across the passes)
#include <boost/gil.hpp>
#include <boost/gil/extension/io/png.hpp>
#include <sstream>
#include <iostream>
using namespace boost::gil;
static void wr(png_structp p, png_bytep d, png_size_t n) { static_cast<std::string*>(png_get_io_ptr(p))->append((char*)d, n); }
int main() {
    std::string out; unsigned char rows[4][5]; png_bytep rp[4];
    for (int y = 0; y < 4; ++y) { rp[y] = rows[y]; for (int x = 0; x < 5; ++x) rows[y][x] = (unsigned char)(10 * y + x); }
    png_structp p = png_create_write_struct(PNG_LIBPNG_VER_STRING, 0, 0, 0); png_infop i = png_create_info_struct(p);
    png_set_write_fn(p, &out, wr, 0);
    png_set_IHDR(p, i, 5, 4, 8, PNG_COLOR_TYPE_GRAY, PNG_INTERLACE_ADAM7, PNG_COMPRESSION_TYPE_DEFAULT, PNG_FILTER_TYPE_DEFAULT);
    png_write_info(p, i); png_write_image(p, rp); png_write_end(p, i); png_destroy_write_struct(&p, &i);
    gray8_image_t img; std::istringstream in(out); read_image(in, img, png_tag());
    for (int y = 0; y < 4; ++y) { for (int x = 0; x < 5; ++x) std::cout << " " << int(view(img)(x, y)[0]); std::cout << "   (expected " << 10 * y << ".." << 10 * y + 4 << ")\n"; }
}
