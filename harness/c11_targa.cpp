// C11 for TARGA
#include "c11_formats.hpp"
#include <boost/gil/extension/io/targa.hpp>
using namespace c11;
static void go(vh::Ctx& ctx, bool pairs)
{
    vh::ubsan_counts() = true;
    Opts o = opts_from(ctx);
    for_seeds(ctx, "targa", [&](Seed const& s) {
        if (s.channels == 4) seed_units<gil::targa_tag, gil::rgba8_image_t>(ctx, s, o, pairs);
        else seed_units<gil::targa_tag, gil::rgb8_image_t>(ctx, s, o, pairs);
    });
}
VH_GROUP(single) { go(ctx, false); }
VH_GROUP(pairs) { go(ctx, true); }
VH_MAIN
