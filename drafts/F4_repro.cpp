// F4 repro: g++ -std=c++14 -DNDEBUG -I/repo/include F4_repro.cpp && ./a.out [1]
// Otsu on a 16-bit (or signed) image never updates `max` (threshold.hpp: `if (src_it[x] > min) min = ...`).
#include <boost/gil/image.hpp>
#include <boost/gil/typedefs.hpp>
#include <boost/gil/image_processing/threshold.hpp>
#include <cstdio>
namespace gil = boost::gil;
int main(int argc, char**)
{
    gil::gray16_image_t src(2, 1), dst(2, 1);
    if (argc == 1) { gil::view(src)(0, 0) = 0; gil::view(src)(1, 0) = 0; }       // constant image: max-min == 0
    else           { gil::view(src)(0, 0) = 65535; gil::view(src)(1, 0) = 1; }   // index (65535-1)*255/(0-1) < 0
    std::puts("calling threshold_optimal ...");
    gil::threshold_optimal(gil::const_view(src), gil::view(dst));   // SIGFPE (no argument) / wild histogram write, SIGSEGV (argument)
    std::printf("returned: %d %d\n", int(gil::view(dst)(0, 0)[0]), int(gil::view(dst)(1, 0)[0]));
}
