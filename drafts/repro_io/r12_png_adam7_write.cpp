// extra: image_write_info<png_tag>::_interlace_method = ADAM7 is passed to libpng but every row is written once -> crash
#include <boost/gil.hpp>
#include <boost/gil/extension/io/png.hpp>
#include <sstream>
using namespace boost::gil;
int main() {
    gray8_image_t a(4, 4);
    image_write_info<png_tag> wi; wi._interlace_method = PNG_INTERLACE_ADAM7;
    std::stringstream ss(std::ios::in | std::ios::out | std::ios::binary);
    write_view(ss, const_view(a), wi);        // SIGSEGV / libpng error longjmp into a dead frame
}
