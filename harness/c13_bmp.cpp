// C13 for BMP: every generated BMP seed (gen/seeds.py -> io_seeds.hpp) and the repo's sample BMPs.
#include "c13_common.hpp"
#include "io_seeds.hpp"
#include <boost/gil/extension/io/bmp.hpp>
#include <dirent.h>

namespace gil = boost::gil;
using c13::SeedView; using c13::Opts; using ioc::Flat; using ioc::Emit;

struct BmpFmt : c13::DefaultDevices
{
    using tag = gil::bmp_tag;
    static const char* name() { return "bmp"; }
    using conv_list = boost::mp11::mp_list<gil::gray8_image_t, gil::rgb8_image_t, gil::bgr8_image_t, gil::rgba8_image_t,
                                           gil::rgb16_image_t, gil::cmyk8_image_t>;
    using any_t = gil::any_image<gil::gray8_image_t, gil::rgb8_image_t, gil::rgba8_image_t>;

    template <class Img> static Flat to_expected_space(Flat const& full, int exp_channels) { return c13::first_channels(full, exp_channels); }

    template <class Img, class Info> static std::string depth_check(Info const& info, SeedView const& sv)
    {
        int file_bpp = sv.file_bpp;
        if (file_bpp && int(info._bits_per_pixel) != file_bpp)
            return std::string(vh::S() << "info._bits_per_pixel=" << info._bits_per_pixel << " file declares " << file_bpp);
        int img_bits = 8 * int(gil::num_channels<typename Img::view_t>::value);
        if ((info._bits_per_pixel == 24 || info._bits_per_pixel == 32) && int(info._bits_per_pixel) != img_bits)
            return std::string(vh::S() << "info._bits_per_pixel=" << info._bits_per_pixel << " native image has " << img_bits);
        return "";
    }

    // scanline rows: palette -> rgba8, 15/16 bit -> rgb8, 24 -> bgr8, 32 -> bgra8 (reader documentation / repo tests)
    template <class Img, class Reader> static int scan_row(Reader& r, gil::byte_t* p, std::vector<double>& out)
    {
        long w = r._info._width;
        int bpp = r._info._bits_per_pixel;
        if (bpp <= 8) { auto v = gil::interleaved_view(w, 1, reinterpret_cast<gil::rgba8_pixel_t const*>(p), std::ptrdiff_t(r._scanline_length)); for (long x = 0; x < w; ++x) ioc::flat_px(v(x, 0), out); return 4; }
        if (bpp <= 16) { auto v = gil::interleaved_view(w, 1, reinterpret_cast<gil::rgb8_pixel_t const*>(p), std::ptrdiff_t(r._scanline_length)); for (long x = 0; x < w; ++x) ioc::flat_px(v(x, 0), out); return 3; }
        if (bpp == 24) { auto v = gil::interleaved_view(w, 1, reinterpret_cast<gil::bgr8_pixel_t const*>(p), std::ptrdiff_t(r._scanline_length)); for (long x = 0; x < w; ++x) ioc::flat_px(v(x, 0), out); return 3; }
        auto v = gil::interleaved_view(w, 1, reinterpret_cast<gil::bgra8_pixel_t const*>(p), std::ptrdiff_t(r._scanline_length)); for (long x = 0; x < w; ++x) ioc::flat_px(v(x, 0), out); return 4;
    }

    template <class Img> static void view_exact(Emit& e, ioc::Source const& src, int d, Flat const& full)
    { c13::view_exact_interleaved<BmpFmt, Img>(e, src, d, full); }
};

// native GIL type of a BMP (what reader::apply / is_allowed accept without conversion)
static bool native_is_rgba(int bpp, int header_size, int compression)
{
    if (bpp <= 8) return header_size == 40 && compression != 1 && compression != 2;
    return bpp == 32;
}

static void run_one(vh::Ctx& ctx, SeedView const& sv, bool rgba, Opts const& o)
{
    ioc::run_unit(ctx, sv.name, [&](Emit& e) {
        if (rgba) c13::check_seed<BmpFmt, gil::rgba8_image_t>(e, sv, o);
        else c13::check_seed<BmpFmt, gil::rgb8_image_t>(e, sv, o);
    });
}

VH_GROUP(seeds)
{
    vh::ubsan_counts() = false;
    long allrect = ctx.B("allrect", 0);
    Opts o; o.devmask = int(ctx.B("devmask", 7));
    for (Seed const& s : io_seeds())
    {
        if (std::string(s.format) != "bmp") continue;
        if (!ctx.take()) continue;
        ctx.cur = s.name;
        ioc::ScratchFile file(std::string("c13-") + s.name, "bmp", s.bytes);
        SeedView sv;
        sv.name = s.name; sv.bytes = &s.bytes; sv.path = file.path;
        sv.expected = &s.expected; sv.expected_alt = &s.expected_alt; sv.exp_channels = s.channels; sv.exp_w = s.w; sv.exp_h = s.h;
        sv.file_bpp = s.prop("bpp");
        sv.subrects = (allrect && s.w * s.h <= 20) || (s.w <= 5 && s.h <= 4);
        int comp = s.prop("compression");
        sv.scan_expected = !(comp == 1 || comp == 2);     // GIL documents: no scanline reader for run-length encoded BMP
        ++ctx.witness[std::string("bmp_bpp") + std::to_string(s.prop("bpp"))];
        if (comp == 1 || comp == 2) ++ctx.witness["bmp_rle"];
        if (s.prop("top_down")) ++ctx.witness["bmp_top_down"];
        if (s.prop("header_size") == 12) ++ctx.witness["bmp_os2"];
        if (s.prop("header_size") == 108) ++ctx.witness["bmp_v4"];
        if (s.prop("clr_used")) ++ctx.witness["bmp_reduced_palette"];
        run_one(ctx, sv, native_is_rgba(s.prop("bpp"), s.prop("header_size"), comp), o);
        ctx.san_take(std::string(s.name) + "/<parent>");
        if (ctx.timed_out()) return;
    }
}

// the repo's own sample files, once each (no sub-rectangles: they are 127x64 and larger)
VH_GROUP(samples)
{
    vh::ubsan_counts() = false;
    std::string dir = "/repo/test/extension/io/images/bmp";
    std::vector<std::string> names;
    if (DIR* d = opendir(dir.c_str()))
    {
        while (dirent* de = readdir(d)) { std::string n = de->d_name; if (n.size() > 4 && n.substr(n.size() - 4) == ".bmp") names.push_back(n); }
        closedir(d);
    }
    std::sort(names.begin(), names.end());
    Opts o; o.devmask = int(ctx.B("devmask", 7));
    for (auto const& n : names)
    {
        if (!ctx.take()) continue;
        ctx.cur = n;
        ioc::ScratchFile dummy("c13-sample", "bmp");
        std::vector<unsigned char> bytes;
        { FILE* f = fopen((dir + "/" + n).c_str(), "rb"); if (!f) continue; unsigned char b[65536]; size_t r; while ((r = fread(b, 1, sizeof b, f)) > 0) bytes.insert(bytes.end(), b, b + r); fclose(f); }
        if (bytes.size() < 30) continue;
        auto u16 = [&](size_t o) { return int(bytes[o] | (bytes[o + 1] << 8)); };
        auto u32 = [&](size_t o) { return long(bytes[o] | (bytes[o + 1] << 8) | (bytes[o + 2] << 16) | (long(bytes[o + 3]) << 24)); };
        int hs = int(u32(14)); int bpp = hs == 12 ? u16(24) : u16(28); int comp = hs == 12 ? 0 : int(u32(30));
        SeedView sv;
        sv.name = "sample:" + n; sv.bytes = &bytes; sv.path = dir + "/" + n;
        sv.file_bpp = bpp; sv.subrects = false; sv.big = true;
        sv.scan_expected = !(comp == 1 || comp == 2);
        ++ctx.witness["sample_files"];
        run_one(ctx, sv, native_is_rgba(bpp, hs, comp), o);
        if (ctx.timed_out()) return;
    }
}

VH_MAIN
