// F13d: palette BMP with a V4 (108-byte) header: colour table read from offset 54 with 3-byte entries
#include <boost/gil.hpp>
#include <boost/gil/extension/io/bmp.hpp>
#include <sstream>
#include <iostream>
using namespace boost::gil;
static void le(std::string& s, unsigned v, int n) { for (int i = 0; i < n; ++i) s += char(v >> (8 * i)); }
int main() {   // 1x1, 8 bit, V4 header, two palette entries {red, green}; the pixel is index 1 (green)
    std::string f = "BM"; le(f, 14 + 108 + 8 + 4, 4); le(f, 0, 4); le(f, 14 + 108 + 8, 4);
    le(f, 108, 4); le(f, 1, 4); le(f, 1, 4); le(f, 1, 2); le(f, 8, 2); le(f, 0, 4); le(f, 4, 4); le(f, 0, 4); le(f, 0, 4); le(f, 2, 4); le(f, 0, 4);
    f += std::string(68, '\0');                                      // masks, colour space, endpoints, gamma
    f += std::string("\0\0\xff\0" "\0\xff\0\0", 8) + std::string("\1\0\0\0", 4);
    rgb8_image_t img; std::istringstream in(f); read_image(in, img, bmp_tag());
    auto p = view(img)(0, 0);
    std::cout << "expected green (0,255,0), got " << int(p[0]) << "," << int(p[1]) << "," << int(p[2]) << "\n";
}
