// vs_groups.hpp — the organisation groups shared by the C01/C02/C03 view-space TUs; the including TU defines
// VS_POLICY (oracle evaluated in every state), VS_UBSAN (do UBSan reports count) and VS_SET (which organisations).
#pragma once
static vs::Limits vs_limits(vh::Ctx& ctx)
{
    vs::Limits l; l.depth = int(ctx.B("depth", 3)); l.subimage_mode = int(ctx.B("subimage", 1)); l.max_sub = int(ctx.B("maxsub", 3));
    l.conv = ctx.B("conv", 1) != 0; l.chan = ctx.B("chan", 1) != 0; l.probe = ctx.B("probe", 0) != 0; return l;
}
#define ORG_GROUP(gname, OrgT) VH_GROUP(gname) { vh::ubsan_counts() = VS_UBSAN; vs::explore_org<OrgT, VS_POLICY>(ctx, ctx.B("N", 3), vs_limits(ctx), int(ctx.B("pads", 2))); }
#ifndef VS_SET
#define VS_SET 0
#endif
#if VS_SET == 0
ORG_GROUP(rgb8, ORgb8)
ORG_GROUP(gray8, OGray8)
ORG_GROUP(rgb16, ORgb16)
#elif VS_SET == 1
ORG_GROUP(bgr8, OBgr8)
ORG_GROUP(rgba8, ORgba8)
ORG_GROUP(rgb32f, ORgb32f)
#elif VS_SET == 2
ORG_GROUP(argb8, OArgb8)
ORG_GROUP(cmyk8, OCmyk8)
ORG_GROUP(gray16, OGray16)
#elif VS_SET == 3
ORG_GROUP(rgb8_planar, ORgb8p)
ORG_GROUP(rgba16_planar, ORgba16p)
#elif VS_SET == 4
ORG_GROUP(packed_rgb565, OP565)
ORG_GROUP(packed_bgr556, OP556)
ORG_GROUP(packed_rgb332, OP332)
#elif VS_SET == 5
ORG_GROUP(bits_gray1, OB1)
ORG_GROUP(bits_gray2, OB2)
ORG_GROUP(bits_gray4, OB4)
ORG_GROUP(bits_gray3, OB3)
#elif VS_SET == 6
ORG_GROUP(bits_rgb121, OB121)
ORG_GROUP(bits_rgb222, OB222)
ORG_GROUP(bits_bgr565, OB565)
#elif VS_SET == 7
ORG_GROUP(virtual_rgb8, OrgVirtual)
#endif
