// any_image: reading a Win32 palette BMP (native rgba8) or an ASCII PBM (native gray8) through any_image throws
#include <boost/gil.hpp>
#include <boost/gil/extension/dynamic_image/any_image.hpp>
#include <boost/gil/extension/io/bmp.hpp>
#include <boost/gil/extension/io/pnm.hpp>
#include <sstream>
#include <iostream>
using namespace boost::gil;
static void le(std::string& s, unsigned v, int n) { for (int i = 0; i < n; ++i) s += char(v >> (8 * i)); }
int main() {
    std::string f = "BM"; le(f, 62, 4); le(f, 0, 4); le(f, 58, 4);
    le(f, 40, 4); le(f, 1, 4); le(f, 1, 4); le(f, 1, 2); le(f, 8, 2); le(f, 0, 4); le(f, 4, 4); le(f, 0, 4); le(f, 0, 4); le(f, 1, 4); le(f, 0, 4);
    f += std::string("\0\xff\0\0", 4) + std::string("\0\0\0\0", 4);
    any_image<gray8_image_t, rgb8_image_t, rgba8_image_t> a; std::istringstream in(f);
    try { read_image(in, a, bmp_tag()); std::cout << "bmp ok\n"; } catch (std::exception const& e) { std::cout << "bmp palette via any_image: " << e.what() << "\n"; }
    any_image<gray1_image_t, gray8_image_t, rgb8_image_t> p; std::istringstream in2("P1\n2 1\n0 1\n");
    try { read_image(in2, p, pnm_tag()); std::cout << "pnm ok\n"; } catch (std::exception const& e) { std::cout << "P1 via any_image: " << e.what() << "\n"; }
}
