// C12 for TIFF (shared by the c12_tiff_*.cpp TUs, which split the pixel types to keep compile time in bounds).
// Variants: {strip, tiled 16x16} x every lossless compression scheme libtiff is configured with here
// (NONE, LZW, PACKBITS, ADOBE_DEFLATE, DEFLATE, LZMA, ZSTD; CCITT RLE / T.4 / T.6 for 1-bit images only).
// Destinations: file name, TIFF* handle (TIFF has no FILE* device: file_stream_device<tiff_tag> takes a name or a
// TIFF*), std::ostream.
#include "c12_common.hpp"
#include <boost/gil/extension/io/tiff.hpp>

namespace gil = boost::gil;
namespace mp = boost::mp11;
using ioc::Flat; using ioc::Emit;

// cost: 0 = no compression (GIL's own strip / tile code, full product), 1 = cheap codec, 2 = codec whose context set-up
// costs ~10 ms per image (LZMA, ZSTD): reduced organisation / destination product (bounds slow_orgs, slow_dests,
// slow_contents) -- the codec runs below GIL's layer, so organisation and destination are independent of it.
struct TiffVariant { const char* name; bool tiled; int compression; bool bilevel_only; int cost; int tw = 16, th = 16; };
static const TiffVariant VARIANTS[] = {
    {"strip-none", false, COMPRESSION_NONE, false, 0},    {"tile16-none", true, COMPRESSION_NONE, false, 0},
    {"tile32x16-none", true, COMPRESSION_NONE, false, 0, 32, 16}, {"tile16x32-none", true, COMPRESSION_NONE, false, 0, 16, 32},
    {"strip-lzw", false, COMPRESSION_LZW, false, 1},         {"tile16-lzw", true, COMPRESSION_LZW, false, 1},
    {"strip-packbits", false, COMPRESSION_PACKBITS, false, 1}, {"tile16-packbits", true, COMPRESSION_PACKBITS, false, 1},
    {"strip-adobe-deflate", false, COMPRESSION_ADOBE_DEFLATE, false, 1}, {"tile16-adobe-deflate", true, COMPRESSION_ADOBE_DEFLATE, false, 1},
    {"strip-deflate", false, COMPRESSION_DEFLATE, false, 1}, {"tile16-deflate", true, COMPRESSION_DEFLATE, false, 1},
#ifdef COMPRESSION_LZMA
    {"strip-lzma", false, COMPRESSION_LZMA, false, 2},    {"tile16-lzma", true, COMPRESSION_LZMA, false, 2},
#endif
#ifdef COMPRESSION_ZSTD
    {"strip-zstd", false, COMPRESSION_ZSTD, false, 2},    {"tile16-zstd", true, COMPRESSION_ZSTD, false, 2},
#endif
    {"strip-ccittrle", false, COMPRESSION_CCITTRLE, true, 1}, {"strip-ccitt-t4", false, COMPRESSION_CCITTFAX3, true, 1},
    {"strip-ccitt-t6", false, COMPRESSION_CCITTFAX4, true, 1}, {"tile16-ccitt-t6", true, COMPRESSION_CCITTFAX4, true, 1},
};
static const int NVARIANTS = int(sizeof(VARIANTS) / sizeof(VARIANTS[0]));

struct Fmt
{
    using tag = gil::tiff_tag;
    static const char* name() { return "tiff"; }
    static const char* ext() { return "tif"; }
    static int nvariants() { return NVARIANTS; }
    static const char* variant_name(int v) { return VARIANTS[v].name; }
    static gil::image_write_info<tag> info(int v)
    {
        gil::image_write_info<tag> i;
        i._compression = VARIANTS[v].compression;
        if (VARIANTS[v].tiled) { i._is_tiled = true; i._tile_width = VARIANTS[v].tw; i._tile_length = VARIANTS[v].th; }
        return i;
    }
    static bool dest_supported(int) { return true; }
    template <class V> static void write_handle(std::string const& path, V const& v, int var)
    {
        TIFF* t = TIFFOpen(path.c_str(), "w");
        if (!t) throw std::runtime_error("harness: TIFFOpen failed");
        gil::write_view(t, v, info(var));          // GIL's tiff device owns the handle (TIFFClose)
    }
    template <class Img> struct Orgs : std::integral_constant<int, TIFF_ORGS(Img)> {};
    template <class Img> static void judge(Emit& e, Flat const& want, Flat const& got, int) { c12::judge_exact(e, want, got); }
};

static void tiff_quiet(const char*, const char*, va_list) {}

template <class Types> inline void tiff_roundtrip(vh::Ctx& ctx)
{
    vh::ubsan_counts() = false;
    TIFFSetErrorHandler(tiff_quiet); TIFFSetWarningHandler(tiff_quiet);
    c12::Bounds b = c12::bounds_from(ctx);
    long only_var = ctx.B("variant", -1);
    mp::mp_for_each<mp::mp_transform<mp::mp_identity, Types>>([&](auto Id) {
        using Img = typename decltype(Id)::type;
        bool bilevel = std::is_same<Img, gil::gray1_image_t>::value;
        for (int var = 0; var < NVARIANTS; ++var)
        {
            if (only_var >= 0 && var != only_var) continue;
            if (VARIANTS[var].bilevel_only && !bilevel) continue;
            if (!TIFFIsCODECConfigured(uint16_t(VARIANTS[var].compression))) { ++ctx.counters[std::string("codec_not_configured_") + VARIANTS[var].name]; continue; }
            ++ctx.witness[VARIANTS[var].tiled ? "tiff_tiled" : "tiff_strip"];
            ++ctx.witness[std::string("tiff_") + VARIANTS[var].name];
            c12::Bounds bv = b;
            if (VARIANTS[var].cost == 2)
            {
                bv.orgmask = int(ctx.B("slow_orgs", 1)); bv.destmask = int(ctx.B("slow_dests", 4)); bv.contentmask = int(ctx.B("slow_contents", 9));
            }
            else if (VARIANTS[var].cost == 1)
            {
                bv.orgmask = int(ctx.B("mid_orgs", 31)); bv.destmask = int(ctx.B("mid_dests", 7)); bv.contentmask = int(ctx.B("mid_contents", 15));
            }
            c12::run_type<Fmt, Img>(ctx, var, bv);
        }
    });
}
