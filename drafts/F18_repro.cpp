// F18 (C18): ycbcr_709 -> rgb is broken for every input: (cb-128) is pushed through channel_convert<uint8_t>(int)
// (a range map of int32 to uint8), 1.042 is written for 1.402, and nothing is clamped.
// g++ -std=c++14 -I/repo/include F18_repro.cpp && ./a.out        expected: round trip within 2 levels
#include <boost/gil.hpp>
#include <boost/gil/extension/toolbox/color_spaces/ycbcr.hpp>
#include <cstdio>
int main()
{
    namespace gil = boost::gil;
    gil::rgb8_pixel_t p(0, 0, 0), q, w(255, 255, 255), v;
    gil::ycbcr_709_8_pixel_t y;
    gil::color_convert(p, y); gil::color_convert(y, q);
    std::printf("black rgb8(0,0,0) -> ycbcr709(%d,%d,%d) -> rgb8(%d,%d,%d)\n", y[0], y[1], y[2], q[0], q[1], q[2]);
    gil::color_convert(w, y); gil::color_convert(y, v);
    std::printf("white rgb8(255,255,255) -> ycbcr709(%d,%d,%d) -> rgb8(%d,%d,%d)\n", y[0], y[1], y[2], v[0], v[1], v[2]);
    return !(q == p && v == w);
}
