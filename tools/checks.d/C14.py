# registry fragment for C14 (exec'd by tools/checks.py with CHECKS, ASSUME_COMMON, NOT_APPLICABLE in scope)
#
# Compile probes.  Three run-time overloads named by the statement (transposed_view, nth_channel_view and the
# deprecated any_color_converted_view on any_image_view) are ill-formed in the unchanged tree for EVERY type list.
# A harness TU that calls them would not build, and a build error is "broken check", not a verdict.  So this
# fragment compiles three 10-line programs with `g++ -fsyntax-only` against the tree under test (--repo /
# VERIF_REPO / /repo; ~2 s, cached in build/c14_probe/ under a hash of the tree's boost/gil) and passes
# -DC14_NO_TRANSPOSED / -DC14_NO_NTH / -DC14_NO_ANYCC to the C14 TUs whose probe failed.  harness/c14_api.cpp
# reports each such define as the failure `does-not-compile`; the lock-step searches run without that letter.
# Once the tree is repaired the probes pass, the defines vanish and the letters join the search (and become
# required witnesses).  Probing happens only when vcheck.py is invoked for C14 or with --build-all.
import os as _c14_os, sys as _c14_sys, subprocess as _c14_sp, hashlib as _c14_hl, json as _c14_json

_C14_PROBES = dict(
    NO_TRANSPOSED='auto t = boost::gil::transposed_view(v); return int(t.width());',
    NO_NTH='auto t = boost::gil::nth_channel_view(v, 0); return int(t.width());',
    NO_ANYCC='auto t = boost::gil::any_color_converted_view<boost::gil::gray8_pixel_t>(v); return int(t.width());',
)
_C14_PROBE_SRC = '''#include <boost/gil.hpp>
#include <boost/gil/extension/dynamic_image/dynamic_image_all.hpp>
int main() {
    boost::gil::any_image<boost::gil::gray8_image_t, boost::gil::rgb8_image_t> img(boost::gil::rgb8_image_t(3, 2));
    auto v = boost::gil::const_view(img);
    %s
}
'''


def _c14_repo():
    argv = _c14_sys.argv
    for k, a in enumerate(argv):
        if a == '--repo' and k + 1 < len(argv):
            return argv[k + 1]
        if a.startswith('--repo='):
            return a[len('--repo='):]
    return _c14_os.environ.get('VERIF_REPO', '/repo')


def _c14_probe():
    """-> sorted list of the NO_* names whose probe does not compile against the tree under test"""
    argv = _c14_sys.argv[1:]
    if not ('C14' in argv or '--build-all' in argv):
        return []
    repo = _c14_repo()
    root = _c14_os.path.join(repo, 'include', 'boost', 'gil')
    if not _c14_os.path.isdir(root):
        return []
    h = _c14_hl.sha256(_c14_os.path.realpath(repo).encode())
    for d, dirs, files in _c14_os.walk(root):
        dirs.sort()
        for f in sorted(files):
            with open(_c14_os.path.join(d, f), 'rb') as fh:
                h.update(f.encode()); h.update(fh.read())
    verif = _c14_os.path.dirname(_c14_os.path.dirname(_c14_os.path.dirname(_c14_os.path.abspath(__file__))))
    cdir = _c14_os.path.join(verif, 'build', 'c14_probe')
    cfile = _c14_os.path.join(cdir, h.hexdigest()[:20] + '.json')
    if _c14_os.path.exists(cfile):
        try:
            with open(cfile) as fh:
                return _c14_json.load(fh)
        except (ValueError, OSError):
            pass
    procs = {}
    for name, body in _C14_PROBES.items():
        p = _c14_sp.Popen(['g++', '-std=c++14', '-fsyntax-only', '-w', '-DNDEBUG', '-I', _c14_os.path.join(repo, 'include'),
                           '-x', 'c++', '-'], stdin=_c14_sp.PIPE, stdout=_c14_sp.DEVNULL, stderr=_c14_sp.PIPE)
        procs[name] = (p, _C14_PROBE_SRC % body)
    broken = []
    for name, (p, src) in sorted(procs.items()):
        _, err = p.communicate(src.encode())
        # only a diagnosed error inside the dynamic_image extension counts; anything else (no compiler, missing
        # tree) leaves the letter in, and the ordinary BUILD-ERROR path reports it
        if p.returncode != 0 and b'error' in err and b'dynamic_image' in err:
            broken.append(name)
    try:
        _c14_os.makedirs(cdir, exist_ok=True)
        with open(cfile + '.tmp%d' % _c14_os.getpid(), 'w') as fh:
            _c14_json.dump(broken, fh)
        _c14_os.replace(cfile + '.tmp%d' % _c14_os.getpid(), cfile)
    except OSError:
        pass
    return broken


_c14_broken = _c14_probe()
_c14_defs = ['-DC14_' + n for n in _c14_broken]


def _c14_tu(name, src, extra=(), algo=False):
    deps = ['harness/c14_common.hpp'] + (['harness/c14_algo.hpp'] if algo else [])
    # -O0: these TUs are thousands of tiny template instantiations; code generation under ASan dominates the build
    # (views TU: 390 s at -O1 vs 58 s at -O0), the run time is seconds either way, and ASan sees more at -O0.
    return dict(name=name, src='harness/' + src, deps=deps, opt=0, flags=list(extra) + _c14_defs)


_c14_W = ['-DC14_WIDE']
_c14_tus = [
    _c14_tu('c14_api', 'c14_api.cpp'),
    _c14_tu('c14_views_c', 'c14_views.cpp'),
    _c14_tu('c14_views_m', 'c14_views.cpp', ['-DC14_MUTABLE']),
    _c14_tu('c14_image', 'c14_image.cpp'),
    _c14_tu('c14_copy', 'c14_copy.cpp', algo=True),
    _c14_tu('c14_convert', 'c14_convert.cpp', algo=True),
    _c14_tu('c14_unary', 'c14_unary.cpp', algo=True),
    _c14_tu('c14_resample', 'c14_resample.cpp', algo=True),
    # 8-alternative type list (thorough only)
    _c14_tu('c14_api_w', 'c14_api.cpp', _c14_W),
    _c14_tu('c14_views_cw', 'c14_views.cpp', _c14_W),
    _c14_tu('c14_views_mw', 'c14_views.cpp', _c14_W + ['-DC14_MUTABLE']),
    _c14_tu('c14_image_w', 'c14_image.cpp', _c14_W),
    _c14_tu('c14_copy_w', 'c14_copy.cpp', _c14_W, algo=True),
    _c14_tu('c14_convert_w1', 'c14_convert.cpp', _c14_W + ['-DC14_PART=1'], algo=True),
    _c14_tu('c14_convert_w2', 'c14_convert.cpp', _c14_W + ['-DC14_PART=2'], algo=True),
    _c14_tu('c14_unary_w', 'c14_unary.cpp', _c14_W, algo=True),
    _c14_tu('c14_resample_w', 'c14_resample.cpp', _c14_W, algo=True),
]

_c14_wit = ['compile_probes_reported', 'apply_operation_run',
            'op_flipped_up_down', 'op_flipped_left_right', 'op_rotated90cw', 'op_rotated90ccw', 'op_rotated180',
            'op_subimage_point', 'op_subimage_xywh', 'op_subsampled_point', 'op_subsampled_xy',
            'op_color_converted', 'op_color_converted_cc', 'root_empty',
            'recreate_default_alignment', 'recreate_alignment8', 'assign_from_any_image', 'assign_from_concrete_image',
            'assign_switches_alternative', 'copy_construct', 'deep_copy_poked', 'shallow_view_poked', 'equal_images_compared',
            'form_AA', 'form_AC', 'form_CA', 'form_MA', 'form_XA', 'form_AX', 'bad_cast_thrown', 'destination_written_and_equal',
            'pairs_compatible_distinct_types', 'pairs_incompatible', 'pairs_converting', 'pairs_copying', 'result_0', 'result_1',
            'fill_written_and_equal', 'fill_view_r180', 'fill_view_sub', 'foreach_mutated_and_equal', 'foreach_order_sensitive',
            'resample_pixels_maps', 'resize_view_run', 'resample_subimage_run', 'assign_from_other_type_list']
if 'NO_TRANSPOSED' not in _c14_broken: _c14_wit += ['op_transposed', 'transposed_view_compiles']
if 'NO_NTH' not in _c14_broken: _c14_wit += ['op_nth_channel', 'nth_channel_view_compiles']
if 'NO_ANYCC' not in _c14_broken: _c14_wit += ['any_color_converted_view_run']

CHECKS['C14'] = dict(
    level='model_checking',
    technique='lock-step explicit-state search on the implementation: state = (any_image / any_image_view variant, concrete '
              'object of the held type on a twin buffer with identical injective contents); every transition (view factory, '
              'recreate, assignment, copy, algorithm overload) is applied to both sides through the run-time overload and '
              'the static overload; the invariant (held alternative = static result type, dimensions/size/num_channels '
              'equal, every pixel equal) is evaluated on the result of every transition',
    rule='views: roots = every alternative x every shape 0..3 x {const_view, view}; alphabet = flipped_up_down, '
         'flipped_left_right, transposed, rotated90cw/ccw, rotated180, subimage (every non-empty sub-rectangle + the empty '
         'one; thorough: every empty one too; both overloads), subsampled (steps 1..SS in x and y; both overloads), '
         'nth_channel (every channel), color_converted (<gray8> default converter, <rgb8> stateful user converter); '
         'nth_channel and color_converted at most once per path; depth-first to the depth bound with expansion '
         'de-duplicated on (static types, held index, hash of everything observable through the concrete side). '
         'images: closure of {recreate (4 call forms x every shape), assignment from any_image and from a concrete image '
         '(every alternative x every shape), copy construction} from one root per alternative, value-semantics probes '
         '(deep image copy/assign/==, shallow view copy/assign/==) in every state. '
         'algorithms: every ORDERED pair of alternatives x every shape 0..3 x 6 call forms (any/any, any/concrete, '
         'concrete/any, mutable-any/any, step-variant source, step-variant destination) for copy_pixels, equal_pixels '
         '(4 content modes), copy_and_convert_pixels (default and user converter), resample_pixels (5 affine maps x 2 '
         'samplers x destination shapes); fill_pixels: every (view alternative, pixel type) pair x 3 views; '
         'for_each_pixel: every alternative x const/mutable x 3 views. A case is non-trivial when the view it compares '
         'is non-empty; states are distinct by the canonical key.',
    assumptions=ASSUME_COMMON + [
        'type lists: quick {gray8, rgb8, rgb8 planar, rgb16, cmyk8}; thorough additionally the 8-list that adds bgr8, rgba8, gray16',
        '"compatible" = same colour space (as a set of colours) and same channel type, from a hand-written table; '
        'the oracle for every result is the same GIL operation on the concrete object, as the statement says '
        '(what the concrete operations compute is the subject of C02/C04/C09/C17)',
        'run-time overloads that do not compile for any type list are reported as failures (sig does-not-compile) from '
        'g++ -fsyntax-only probes made by the registry fragment; the searches then run without that letter',
        'UBSan reports are not counted (the statement does not speak about undefined behaviour; factories on empty '
        'views form null-based addresses); ASan reports are failures of the case in flight',
        'any_image equality/copy oracles are relative to the concrete image (image(w,0) has dimensions 0x0 and a copy '
        'of a recreate()d w x 0 image is 0x0 in this tree - an image-level matter, not a dynamic_image one)'],
    tus=_c14_tus,
    runs=dict(
        quick=[dict(tu='c14_api', group='api', shards=1),
               dict(tu='c14_views_c', group='views', bounds=dict(S=3, depth=3, SS=2, subfull=0), shards=4),
               dict(tu='c14_views_m', group='views', bounds=dict(S=3, depth=3, SS=2, subfull=0), shards=4),
               dict(tu='c14_image', group='image', bounds=dict(S=3), shards=5),
               dict(tu='c14_copy', group='copy', shards=2),
               dict(tu='c14_copy', group='equal', shards=2),
               dict(tu='c14_convert', group='convert', shards=2),
               dict(tu='c14_convert', group='convert_cc', shards=2),
               dict(tu='c14_unary', group='fill', shards=1),
               dict(tu='c14_unary', group='foreach', shards=1),
               # 8 alternatives (adds bgr8, rgba8, gray16): compatible pixels of another channel order (rgb8 <-> bgr8) in every binary algorithm
               dict(tu='c14_unary_w', group='fill', shards=2),
               dict(tu='c14_unary_w', group='foreach', shards=1),
               dict(tu='c14_api_w', group='api', shards=1),
               dict(tu='c14_copy_w', group='copy', shards=2),
               dict(tu='c14_copy_w', group='equal', shards=2),
               dict(tu='c14_convert_w1', group='convert', shards=2),
               dict(tu='c14_convert_w2', group='convert_cc', shards=2),
               dict(tu='c14_resample', group='resample_nn', bounds=dict(dstall=0), shards=3),
               dict(tu='c14_resample', group='resample_bl', bounds=dict(dstall=0), shards=3)],
        thorough=[dict(tu='c14_api', group='api', shards=1),
                  dict(tu='c14_api_w', group='api', shards=1),
                  dict(tu='c14_views_c', group='views', bounds=dict(S=3, depth=5, SS=3, subfull=1), shards=10),
                  dict(tu='c14_views_m', group='views', bounds=dict(S=3, depth=5, SS=3, subfull=1), shards=10),
                  dict(tu='c14_views_cw', group='views', bounds=dict(S=3, depth=4, SS=3, subfull=1), shards=12),
                  dict(tu='c14_views_mw', group='views', bounds=dict(S=3, depth=4, SS=3, subfull=1), shards=12),
                  dict(tu='c14_image', group='image', bounds=dict(S=3), shards=5),
                  dict(tu='c14_image_w', group='image', bounds=dict(S=3), shards=8),
                  dict(tu='c14_copy', group='copy', shards=2),
                  dict(tu='c14_copy', group='equal', shards=2),
                  dict(tu='c14_copy_w', group='copy', shards=4),
                  dict(tu='c14_copy_w', group='equal', shards=4),
                  dict(tu='c14_convert', group='convert', shards=2),
                  dict(tu='c14_convert', group='convert_cc', shards=2),
                  dict(tu='c14_convert_w1', group='convert', shards=4),
                  dict(tu='c14_convert_w2', group='convert_cc', shards=4),
                  dict(tu='c14_unary', group='fill', shards=1),
                  dict(tu='c14_unary', group='foreach', shards=1),
                  dict(tu='c14_unary_w', group='fill', shards=2),
                  dict(tu='c14_unary_w', group='foreach', shards=1),
                  dict(tu='c14_resample', group='resample_nn', bounds=dict(dstall=1), shards=5),
                  dict(tu='c14_resample', group='resample_bl', bounds=dict(dstall=1), shards=5),
                  dict(tu='c14_resample_w', group='resample_nn', bounds=dict(dstall=1), shards=8),
                  dict(tu='c14_resample_w', group='resample_bl', bounds=dict(dstall=1), shards=8)]),
    witnesses_required=dict(all=_c14_wit),
    deadline=dict(quick=600, thorough=3000),
)
