// Observation (C18, compile-time): gray_alpha.hpp declares alpha_gray_layout_t as layout<gray_alpha_layout_t, ...>
// (a layout over a *layout* instead of over the colour space gray_alpha_t), so every alpha_gray*_pixel_t is
// unusable with get_color / color_convert.   g++ -std=c++14 -I/repo/include -fsyntax-only F_C18_alpha_gray_layout_repro.cpp
#include <boost/gil.hpp>
#include <boost/gil/extension/toolbox/color_spaces/gray_alpha.hpp>
int main()
{
    namespace gil = boost::gil;
    gil::alpha_gray8_pixel_t p(255, 7);
    gil::rgba8_pixel_t q;
    gil::color_convert(p, q);          // error: static assertion failed: T should be element of Types
    return q[3];
}
