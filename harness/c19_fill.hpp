// c19_fill.hpp — exhaustive enumeration of fill_histogram / histogram::fill cases for one type
// configuration (channel type, #channels, histogram key types, selected channels).
#pragma once
#include "c19_model.hpp"
#include <unordered_set>

namespace c19 {

template <class T> struct KeyName;
template <> struct KeyName<int> { static const char* n() { return "i"; } };
template <> struct KeyName<long> { static const char* n() { return "l"; } };
template <> struct KeyName<short> { static const char* n() { return "s"; } };
template <> struct KeyName<unsigned char> { static const char* n() { return "u8"; } };
template <> struct KeyName<unsigned short> { static const char* n() { return "u16"; } };

template <class C, int NCH, class Hist, size_t... Dims>
struct Cfg
{
    using chan_t = C;
    using hist_t = Hist;
    using key_t = typename Hist::key_type;
    static constexpr int nch = NCH;
    static constexpr size_t D = Hist::dimension();
    using pixel_t = gil::pixel<C, typename LayoutOf<NCH>::type>;
    using view_t = typename gil::type_from_x_iterator<pixel_t*>::view_t;

    static std::array<int, D> sel()
    {
        std::array<int, D> a; const int d[] = {int(Dims)..., 0};
        for (size_t i = 0; i < D; ++i) a[i] = sizeof...(Dims) ? d[i] : int(i);
        return a;
    }
    template <size_t... I> static std::string keynames(mp::index_sequence<I...>)
    {
        std::string s; const char* n[] = {KeyName<typename std::tuple_element<I, key_t>::type>::n()...};
        for (size_t i = 0; i < D; ++i) { if (i) s += ","; s += n[i]; }
        return s;
    }
    static std::string name()
    {
        std::string s = std::string("c") + Alpha<C>::n() + "x" + std::to_string(NCH);
        if (sizeof...(Dims)) s += "<" + Axes<Dims...>::name() + ">";
        return s + ">" + keynames(mp::make_index_sequence<D>{});
    }
    template <class V> static void free_short(V const& v, Hist& h, size_t bw, bool acc) { gil::fill_histogram<Dims...>(v, h, bw, acc); }
    template <class V> static void free_full(V const& v, Hist& h, size_t bw, bool acc, bool sparse, bool am,
                                             std::vector<std::vector<bool>> const& m, key_t lo, key_t hi, bool sl)
    { gil::fill_histogram<Dims...>(v, h, bw, acc, sparse, am, m, lo, hi, sl); }
    template <class V> static void mem_short(V const& v, Hist& h, size_t bw) { h.template fill<Dims...>(v, bw); }
    template <class V> static void mem_full(V const& v, Hist& h, size_t bw, bool am, std::vector<std::vector<bool>> const& m, key_t lo, key_t hi, bool sl)
    { h.template fill<Dims...>(v, bw, am, m, lo, hi, sl); }
};

enum Mode { REP = 0, ACC = 1, MEM = 2, REP_DENSE = 3, ACC_DENSE = 4 };
inline const char* mode_name(int m) { static const char* n[] = {"rep", "acc", "mem", "rep-dense", "acc-dense"}; return n[m]; }

template <class CFG>
struct FillRunner
{
    static constexpr size_t D = CFG::D;
    using C = typename CFG::chan_t;
    using Hist = typename CFG::hist_t;
    using key_t = typename CFG::key_t;
    using K = Key<D>;
    static constexpr bool is_signed = std::is_signed<C>::value;

    vh::Ctx& ctx;
    long A, PX, BW, LB, SH;
    std::string cname = CFG::name();
    std::array<int, D> sel = CFG::sel();
    std::vector<std::pair<K, K>> boxes;                       // limit boxes
    struct DenseOpt { long lo, hi; bool sl; };
    std::vector<DenseOpt> dense;
    std::unordered_set<uint64_t> seen;                        // distinct result histograms (derived ops run once each)
    void report(std::string const& id, const char* sig, std::string const& d)
    {
        long n = ++caps[sig];
        if (n <= 64) ctx.fail(id, sig, d); else ++ctx.counters[std::string("failures_not_printed:") + sig];
    }
    std::map<std::string, long> caps;

    template <size_t I> static long kmin() { return long((std::numeric_limits<typename std::tuple_element<I, key_t>::type>::min)()); }
    template <size_t I> static long kmax() { return long((std::numeric_limits<typename std::tuple_element<I, key_t>::type>::max)()); }
    template <size_t... I> static K kmins(mp::index_sequence<I...>) { return {{kmin<I>()...}}; }
    template <size_t... I> static K kmaxs(mp::index_sequence<I...>) { return {{kmax<I>()...}}; }

    void build_limits()
    {
        K mn = kmins(mp::make_index_sequence<D>{}), mx = kmaxs(mp::make_index_sequence<D>{});
        if (D == 1)
        {
            // every ordered pair of {min, 0|-1, 1|0, 2|1, max}
            long L[5] = {mn[0], is_signed ? -1 : 0, is_signed ? 0 : 1, is_signed ? 1 : 2, mx[0]};
            for (long lo : L) for (long hi : L) { K a, b; a[0] = lo; b[0] = hi; boxes.push_back({a, b}); }
        }
        else
        {
            long m = 1; while (m < 6) { long p = 1; for (size_t i = 0; i < D; ++i) p *= (m + 1); if (p > LB) break; ++m; }
            // per-axis interval list, most important first; code -1 = that key type's min, -2 = max
            const long U[6][2] = {{-1, -2}, {1, 2}, {0, 1}, {2, -2}, {-1, 0}, {2, 1}};
            const long S[6][2] = {{-1, -2}, {-1, 0}, {0, 1}, {1, -2}, {-1, -1}, {1, -1}};   // for signed: second column literal except codes below
            long total = 1; for (size_t i = 0; i < D; ++i) total *= m;
            for (long idx = 0; idx < total; ++idx)
            {
                K a, b; long j = idx;
                for (size_t ax = 0; ax < D; ++ax)
                {
                    int e = int(j % m); j /= m;
                    if (!is_signed)
                    {
                        a[ax] = U[e][0] == -1 ? mn[ax] : U[e][0];
                        b[ax] = U[e][1] == -2 ? mx[ax] : U[e][1];
                    }
                    else
                    {
                        // signed list: (min,max) (-1,0) (0,1) (1,max) (min,-1) (1,-1)
                        static const int lo_is_min[6] = {1, 0, 0, 0, 1, 0}, hi_is_max[6] = {1, 0, 0, 1, 0, 0};
                        a[ax] = lo_is_min[e] ? mn[ax] : S[e][0];
                        b[ax] = hi_is_max[e] ? mx[ax] : S[e][1];
                    }
                }
                boxes.push_back({a, b});
            }
        }
        if (D == 1)
        {
            const long Ld[4] = {0, 1, 2, 7};
            for (long lo : Ld) for (long hi : Ld) if (lo <= hi) { dense.push_back({lo, hi, false}); dense.push_back({lo, hi, true}); }
        }
    }

    static std::string px_str(std::vector<long> const& vals, int npx)
    {
        std::string s;
        for (int p = 0; p < npx; ++p)
        {
            if (p) s += ",";
            for (int c = 0; c < CFG::nch; ++c) { if (c) s += "."; s += std::to_string(vals[p * CFG::nch + c]); }
        }
        return s;
    }

    // model of one fill: rounding 0 = floor, 1 = trunc (only differs for negative channels)
    void model_fill(Model<D>& m, std::vector<long> const& vals, int w, int h, long bw, long maskbits, bool has_mask,
                    bool has_lim, K const& lo, K const& hi, int rounding, long& counted, long& mask_excl, long& lim_excl, bool& collide) const
    {
        counted = mask_excl = lim_excl = 0; collide = false;
        Model<D> fresh;
        for (int y = 0; y < h; ++y)
            for (int x = 0; x < w; ++x)
            {
                int p = y * w + x;
                if (has_mask && !((maskbits >> p) & 1)) { ++mask_excl; continue; }
                K k;
                for (size_t i = 0; i < D; ++i)
                {
                    long v = vals[p * CFG::nch + sel[i]];
                    k[i] = rounding ? div_trunc(v, bw) : div_floor(v, bw);
                }
                bool ok = true;
                if (has_lim) for (size_t i = 0; i < D; ++i) ok = ok && lo[i] <= k[i] && k[i] <= hi[i];
                if (!ok) { ++lim_excl; continue; }
                m[k] += 1; ++counted;
                if (++fresh[k] > 1) collide = true;
            }
    }

    void run_case(typename CFG::view_t const& view, std::vector<long> const& vals, int w, int h, long bw,
                  long maskbits, bool has_mask, std::vector<std::vector<bool>> const& mask,
                  bool has_lim, K const& lo, K const& hi, int mode, bool dense_sl)
    {
        // previous contents: bin (1,..,1) = 3 and bin (7,..,7) = 2
        K p1, p2; p1.fill(1); p2.fill(7);
        Hist hist;
        bool prepop = mode != MEM;
        if (prepop) { hist[tuple_of<key_t>(p1)] = 3; hist[tuple_of<key_t>(p2)] = 2; }
        bool acc = mode == ACC || mode == ACC_DENSE;
        bool is_dense = mode == REP_DENSE || mode == ACC_DENSE;
        bool setlimits = is_dense ? dense_sl : has_lim;
        K mn = kmins(mp::make_index_sequence<D>{}), mx = kmaxs(mp::make_index_sequence<D>{});
        key_t tlo = tuple_of<key_t>((has_lim || is_dense) ? lo : mn), thi = tuple_of<key_t>((has_lim || is_dense) ? hi : mx);

        if (mode == MEM)
        {
            if (!has_mask && !has_lim) { CFG::mem_short(view, hist, size_t(bw)); ++ctx.witness["default_args_path"]; }
            else CFG::mem_full(view, hist, size_t(bw), has_mask, mask, tlo, thi, setlimits);
        }
        else if (!is_dense && !has_mask && !has_lim) { CFG::free_short(view, hist, size_t(bw), acc); ++ctx.witness["default_args_path"]; }
        else CFG::free_full(view, hist, size_t(bw), acc, !is_dense, has_mask, mask, tlo, thi, setlimits);
        ++ctx.evaluations;

        auto got = bins_of(hist);
        bool model_lim = is_dense ? dense_sl : has_lim;
        std::string d; long counted = 0, mex = 0, lex = 0; bool collide = false; Model<D> want;
        for (int rounding = 0; rounding < (is_signed ? 2 : 1); ++rounding)
        {
            want.clear();
            if (acc) { want[p1] = 3; want[p2] = 2; }
            model_fill(want, vals, w, h, bw, maskbits, has_mask, model_lim, lo, hi, rounding, counted, mex, lex, collide);
            d = diff_counts(got, want);
            if (d.empty()) break;
        }
        if (counted) ++ctx.nontrivial;
        if (mex) ++ctx.witness["mask_excluded"];
        if (lex) ++ctx.witness["limit_excluded"];
        if (collide) ++ctx.witness["bin_collision"];
        if (acc && counted) ++ctx.witness["accumulate_added"];
        if (mode == REP && prepop) ++ctx.witness["replace_cleared"];
        if (is_dense && got.size() > nonzero(got).size()) ++ctx.witness["dense_zero_bins"];
        if (is_signed && counted) { for (auto const& kv : want) if (kv.first[0] < 0) { ++ctx.witness["negative_key"]; break; } }
        if (bw > 1 && counted) ++ctx.witness["bin_width_gt1"];

        auto id = [&]() {
            std::string s = cname + "/" + std::to_string(w) + "x" + std::to_string(h) + "/px=" + px_str(vals, w * h) + "/m=";
            if (has_mask) for (int p = 0; p < w * h; ++p) s += ((maskbits >> p) & 1) ? '1' : '0'; else s += "-";
            s += "/bw=" + std::to_string(bw) + "/lim=";
            if (has_lim || is_dense) s += kstr(lo) + ".." + kstr(hi) + (is_dense ? (dense_sl ? "set" : "unset") : ""); else s += "-";
            return s + "/" + mode_name(mode);
        };
        if (!d.empty())
        {
            static const char* sigs[] = {"replace:bin-count", "accumulate:bin-count", "fill:bin-count", "replace-dense:bin-count", "accumulate-dense:bin-count"};
            if (is_signed) { d += "; histogram has"; for (auto const& kv : got) d += " " + kstr(kv.first) + ":" + std::to_string(long(kv.second)); }
            report(id(), sigs[mode], d);
        }
        else if (ctx.sample_seen < 4096 && counted >= 2 && (mex || lex)) ctx.sample(id() + " -> " + std::to_string(nonzero(got).size()) + " bins, mass " + std::to_string(long(total(got))));
        // mass conservation, through GIL's own sum()
        double want_total = total(want);
        if (d.empty() && hist.sum() != want_total) report(id(), "mass", "sum()=" + std::to_string(hist.sum()) + " model " + std::to_string(want_total));
        ctx.san_take_lazy(id);

        // derived operations once per distinct resulting histogram of this configuration
        uint64_t hsh = mhash(got);
        if (seen.insert(hsh).second)
        {
            ++ctx.counters["distinct_result_histograms"];
            derived_all(ctx, caps, id(), hist);
            ctx.san_take_lazy(id);
        }
    }

    void unit(Shape sh, long bw)
    {
        const int w = sh.w, h = sh.h, npx = w * h;
        caps.clear(); seen.clear();   // per unit, so that case ids do not depend on the sharding
        ctx.cur = cname + "/" + std::to_string(w) + "x" + std::to_string(h) + "/bw=" + std::to_string(bw);
        long ncont = 1; for (int i = 0; i < npx; ++i) ncont *= PX;
        vh::GuardBuf buf(size_t(npx ? npx : 1) * sizeof(typename CFG::pixel_t), 0xEE);
        std::vector<long> vals(size_t(npx) * CFG::nch);
        K none; none.fill(0);
        for (long ci = 0; ci < ncont; ++ci)
        {
            long j = ci;
            for (int p = 0; p < npx; ++p)
            {
                pixel_value(int(j % PX), int(A), CFG::nch, &Alpha<C>::v, &vals[size_t(p) * CFG::nch]);
                j /= PX;
            }
            C* raw = reinterpret_cast<C*>(buf.data());
            for (size_t i = 0; i < vals.size(); ++i) raw[i] = C(vals[i]);
            auto view = gil::interleaved_view(w, h, reinterpret_cast<typename CFG::pixel_t*>(buf.data()), std::ptrdiff_t(w) * sizeof(typename CFG::pixel_t));
            for (long mi = -1; mi < (npx ? (1L << npx) : 0); ++mi)
            {
                bool has_mask = mi >= 0;
                std::vector<std::vector<bool>> mask;
                if (has_mask)
                {
                    mask.assign(size_t(h), std::vector<bool>(size_t(w), false));
                    for (int p = 0; p < npx; ++p) mask[size_t(p / w)][size_t(p % w)] = (mi >> p) & 1;
                }
                for (long li = -1; li < long(boxes.size()); ++li)
                    for (int mode = REP; mode <= MEM; ++mode)
                        run_case(view, vals, w, h, bw, mi, has_mask, mask, li >= 0, li >= 0 ? boxes[size_t(li)].first : none,
                                 li >= 0 ? boxes[size_t(li)].second : none, mode, false);
                for (auto const& dn : dense)
                    for (int mode = REP_DENSE; mode <= ACC_DENSE; ++mode)
                    {
                        K a, b; a.fill(dn.lo); b.fill(dn.hi);
                        run_case(view, vals, w, h, bw, mi, has_mask, mask, false, a, b, mode, dn.sl);
                    }
            }
            // the source pixels are not the histogram's to change (not a clause of C19: counted, not failed)
            for (size_t i = 0; i < vals.size(); ++i) if (raw[i] != C(vals[i])) { ++ctx.counters["source_view_modified"]; break; }
            if (!buf.intact()) ctx.fail(ctx.cur, "canary", "bytes around the source buffer changed");
            if ((ci & 15) == 0 && ctx.timed_out()) return;
        }
        ++ctx.witness["units"];
        ++ctx.witness[std::string("cfg:") + cname];
    }

    void run()
    {
        build_limits();
        ctx.counters["limit_boxes:" + cname] = long(boxes.size());
        for (auto sh : shapes(SH))
            for (long bw = 1; bw <= BW; ++bw)
            {
                if (!ctx.take()) continue;
                unit(sh, bw);
                if (ctx.timed_out()) return;
            }
    }
};

template <class CFG> void run_cfg(vh::Ctx& ctx)
{
    FillRunner<CFG> r{ctx, ctx.B("A", 4), ctx.B("PX", 4), ctx.B("BW", 3), ctx.B("LB", 27), ctx.B("SH", 4)};
    long space = 1; for (int i = 0; i < CFG::nch; ++i) space *= r.A;
    if (r.PX > space) r.PX = space;
    r.run();
}

} // namespace c19
