// C14 (images) — lock-step state search over any_image itself.
//
// state      = (any_image a holding alternative i, concrete image of type i), plus the value semantics probes.
// transitions (each applied to both sides):
//   recreate   a.recreate(w,h) | a.recreate(point) | a.recreate(w,h,8) | a.recreate(point,8)   for every shape
//   assignAny  a = b   where b is an any_image holding alternative j (every j) of every shape
//   assignImg  a = img where img is a concrete image of alternative j (every j) of every shape
//   copy       any_image q(a); the original is then modified and destroyed
// invariant in every state: a.index() is the held alternative (recreate preserves it, assignment switches it to
//   j); dimensions()/width()/height()/num_channels() equal the concrete image's (num_channels also the hand table);
//   view(a) / const_view(a) hold the alternative view_t / const_view_t of the held image type, with equal
//   dimensions/size/num_channels and equal pixels; and the value-semantics clauses of the statement:
//   copy / assignment / == of any_image are deep, of any_image_view shallow (observed by poking one pixel).
// The contents of a state are a function of (held, shape, how it was produced), so the reachable state space is
// finite; the search runs breadth-first to closure from one root per alternative (bound `depth` caps it, 0 = none),
// so every state is reached by a shortest path and failure ids carry the complete path.
#include "c14_common.hpp"
#include <tuple>
#include <deque>

using namespace c14;

namespace {

using Shadow = mp::mp_rename<Images, std::tuple>;

struct Pair
{
    AnyImage a;
    Shadow c;
    int held = 0;
};

struct Search
{
    vh::Ctx& ctx;
    std::string root;
    std::vector<std::string> path;
    std::unordered_map<uint64_t, int> seen;
    struct Item { Pair p; std::vector<std::string> path; };
    std::deque<Item> queue;               // breadth-first frontier (states are deep copies)
    int S = 3, maxdepth = 0;
    long unit_fails = 0;
    explicit Search(vh::Ctx& c) : ctx(c) {}
    std::string id() const
    {
        std::string s = root;
        for (size_t i = 0; i < path.size(); ++i) { s += (i ? ">" : "/"); s += path[i]; }
        return s;
    }
    void fail(const char* sig, std::string const& detail)
    {
        if (++unit_fails > 64) return;
        ctx.fail(id(), sig, detail);
    }
};

template <class V> bool poke(V const& v)   // flips one bit of channel 0 of the last pixel; false if the view is empty
{
    if (v.width() <= 0 || v.height() <= 0) return false;
    typename V::reference r = v(v.width() - 1, v.height() - 1);
    using ch_t = typename gil::channel_type<V>::type;
    r[0] = ch_t(r[0] ^ 1);
    return true;
}
struct PokeAny { template <class Im> bool operator()(Im& im) const { return poke(gil::view(im)); } };
struct PokeAnyView { template <class V> bool operator()(V const& v) const { return poke(v); } };

// ---- invariant + value-semantics probes of one state; returns the canonical key
uint64_t check(Search& s, Pair& p)
{
    vh::Ctx& ctx = s.ctx;
    ++ctx.evaluations;
    uint64_t key = 0;
    mp::mp_with_index<N>(std::size_t(p.held), [&](auto I) {
        constexpr int i = decltype(I)::value;
        using image_t = Img<i>;
        image_t& ci = std::get<i>(p.c);
        AnyImage& a = p.a;
        if (int(a.index()) != i) { s.fail("wrong-alternative-index", vh::S() << "index " << a.index() << " expected " << i); return; }
        if (!bv::holds_alternative<image_t>(a)) s.fail("wrong-alternative-type", INFO[i].name);
        auto d = a.dimensions();
        if (d.x != ci.width() || d.y != ci.height() || a.width() != ci.width() || a.height() != ci.height())
            s.fail("dimensions-differ", vh::S() << d.x << "x" << d.y << " vs " << ci.width() << "x" << ci.height());
        if (a.num_channels() != std::size_t(INFO[i].nch) || std::size_t(gil::num_channels<image_t>::value) != std::size_t(INFO[i].nch))
            s.fail("num_channels-differs", vh::S() << a.num_channels() << " vs " << INFO[i].nch);
        // view / const_view of the variant vs of the concrete image
        AnyView av = gil::view(a);
        AnyCView acv = gil::const_view(a);
        Diff df;
        int rc = held_vs_concrete(av, gil::view(ci), df);
        if (rc == 1 || rc == 3) s.fail("view:wrong-alternative", vh::S() << "view(any_image) holds #" << av.index());
        if (rc == 2) s.fail("view:pixels-differ", df.str());
        rc = held_vs_concrete(acv, gil::const_view(ci), df);
        if (rc == 1 || rc == 3) s.fail("const_view:wrong-alternative", vh::S() << "const_view(any_image) holds #" << acv.index());
        if (rc == 2) s.fail("const_view:pixels-differ", df.str());
        if (int(av.index()) != i || int(acv.index()) != i) s.fail("view:wrong-alternative-index", vh::S() << av.index() << "," << acv.index());
        if (av.dimensions() != gil::view(ci).dimensions() || acv.dimensions() != ci.dimensions() || av.width() != ci.width() || acv.height() != ci.height())
            s.fail("view:dimensions-differ", "");
        if (av.size() != std::size_t(gil::view(ci).size()) || acv.size() != std::size_t(ci.width() * ci.height())) s.fail("view:size-differs", vh::S() << av.size());
        if (av.num_channels() != std::size_t(INFO[i].nch) || acv.num_channels() != std::size_t(INFO[i].nch)) s.fail("view:num_channels-differs", vh::S() << av.num_channels());
        const bool nonempty = ci.width() > 0 && ci.height() > 0;
        if (nonempty) ++ctx.nontrivial;

        // --- any_image: copy construction, assignment and == are deep
        {
            AnyImage cp(a);
            image_t ccp(ci);                   // the same operation on the concrete image
            if (int(cp.index()) != i) s.fail("image-copy-changed-alternative", vh::S() << cp.index());
            else if (held_vs_concrete(gil::const_view(cp), gil::const_view(ccp), df) != 0) s.fail("image-copy-differs-from-concrete-copy", df.str());
            const bool ceq = (ccp == ci);
            if ((cp == a) != ceq || (cp != a) == ceq) s.fail("image-copy-equality-differs", vh::S() << "cp == a gives " << (cp == a) << ", concrete copy == concrete gives " << ceq);
            if (nonempty && !(cp == a)) s.fail("image-equality-not-deep", "equal pixels in two buffers compare unequal");
            // shallow view equality: equal images in different buffers have unequal views
            if (nonempty && (gil::view(cp) == av)) s.fail("view-equality-not-shallow", "view(copy) == view(original)");
            if (nonempty && (gil::const_view(cp) == acv)) s.fail("view-equality-not-shallow", "const_view(copy) == const_view(original)");
            bool poked = bv::visit(PokeAny(), cp);
            if (poked != (ccp.width() > 0 && ccp.height() > 0)) s.fail("harness:poke", "");
            if (poked)
            {
                ++ctx.witness["deep_copy_poked"];
                if (cp == a || !(cp != a)) s.fail("image-equality-not-deep", "copy modified in one pixel still compares equal");
                if (held_vs_concrete(gil::const_view(a), gil::const_view(ci), df) != 0) s.fail("image-copy-not-deep", "modifying the copy changed the original: " + df.str());
            }
            AnyImage as;                       // default: first alternative, 0x0
            as = a;
            image_t cas;
            cas = ci;
            if (int(as.index()) != i) s.fail("image-assign-wrong-alternative", vh::S() << as.index());
            else if (held_vs_concrete(gil::const_view(as), gil::const_view(cas), df) != 0) s.fail("image-assign-differs-from-concrete-assign", df.str());
            if ((as == a) != (cas == ci)) s.fail("image-assign-equality-differs", vh::S() << "as == a gives " << (as == a));
            // assignment from an any_image over a different (sub-)list of image types
            {
                gil::any_image<image_t> single{image_t(ci)};
                AnyImage ax;
                ax = single;
                if (int(ax.index()) != i) s.fail("image-assign-from-other-list-wrong-alternative", vh::S() << ax.index());
                else if (held_vs_concrete(gil::const_view(ax), gil::const_view(ccp), df) != 0) s.fail("image-assign-from-other-list-differs", df.str());
                ++ctx.witness["assign_from_other_type_list"];
            }
            if (bv::visit(PokeAny(), as))
            {
                if (as == a) s.fail("image-equality-not-deep", "assigned image modified in one pixel still compares equal");
                if (held_vs_concrete(gil::const_view(a), gil::const_view(ci), df) != 0) s.fail("image-assign-not-deep", "modifying the assigned image changed the source: " + df.str());
            }
        }
        // --- any_image_view: copy, assignment and == are shallow
        {
            AnyView v2(av);
            AnyView v3;
            v3 = av;
            AnyCView c2(acv);
            if (!(v2 == av) || !(v3 == av) || (v2 != av) || !(c2 == acv)) s.fail("view-copy-not-equal", "copied any_image_view != original");
            if (v2.index() != av.index() || v3.index() != av.index()) s.fail("view-copy-changed-alternative", "");
            // construction / assignment from the concrete view of the held image: same alternative, same pixels (shallow)
            AnyView v4(gil::view(bv::get<i>(a)));
            AnyView v5;
            v5 = gil::view(bv::get<i>(a));
            if (int(v4.index()) != i || int(v5.index()) != i || !(v4 == av) || !(v5 == av)) s.fail("view-from-concrete-view-differs", vh::S() << v4.index() << "," << v5.index());
            if (bv::visit(PokeAnyView(), v2))
            {
                ++ctx.witness["shallow_view_poked"];
                // the write through the copy must be visible in the any_image (and so differ from the concrete image)
                if (held_vs_concrete(gil::const_view(a), gil::const_view(ci), df) == 0) s.fail("view-copy-not-shallow", "write through a copied view did not reach the image");
                bv::visit(PokeAnyView(), v3);   // undo through the assigned copy
                if (held_vs_concrete(gil::const_view(a), gil::const_view(ci), df) != 0) s.fail("view-assign-not-shallow", "write through an assigned view did not reach the image: " + df.str());
            }
        }
        std::ptrdiff_t rs_a = bv::get<i>(a)._view.pixels().row_size(), rs_c = ci._view.pixels().row_size();
        // key: held alternative, both row sizes, both alignments (they steer later recreate calls), contents, dimensions
        key = vh::mix(vh::mix(uint64_t(i) * 977 + uint64_t(rs_a) * 31 + uint64_t(rs_c), obs_hash(gil::const_view(ci))), uint64_t(ci.width()) * 16 + uint64_t(ci.height()));
        key = vh::mix(key, uint64_t(bv::get<i>(a)._align_in_bytes) * 64 + uint64_t(ci._align_in_bytes));
    });
    ctx.san_take_lazy([&] { return s.id(); });
    return key;
}

struct PaintAny { int seed; template <class Im> void operator()(Im& im) const { paint(gil::view(im), int(sizeof(typename gil::channel_type<Im>::type)) * 8, seed); } };

void arrive(Search& s, Pair& q, int depth)
{
    vh::Ctx& ctx = s.ctx;
    ++ctx.transitions;
    uint64_t key = check(s, q);
    auto it = s.seen.find(key);
    bool fresh = it == s.seen.end();
    if (fresh) { ++ctx.states; s.seen[key] = depth; if (depth > ctx.counters["max_depth"]) ctx.counters["max_depth"] = depth; }
    else ++ctx.counters["revisits"];
    if (fresh && (s.maxdepth == 0 || depth < s.maxdepth) && s.unit_fails <= 64) s.queue.push_back(Search::Item{q, s.path});   // a deep copy
    else { ++ctx.traces; if (s.path.size() >= 2) ctx.sample(vh::S() << s.id() << " -> " << INFO[q.held].name << " " << q.a.width() << "x" << q.a.height()); }
}

void explore(Search& s, Pair const& p, int depth)
{
    vh::Ctx& ctx = s.ctx;
    // --- recreate, 4 call forms x every shape
    for (int form = 0; form < 4; ++form)
        for (int h = 0; h <= s.S; ++h) for (int w = 0; w <= s.S; ++w)
        {
            Pair q(p);
            std::ptrdiff_t rs_a = -1, rs_c = -2, cw = -1, ch = -1;
            mp::mp_with_index<N>(std::size_t(q.held), [&](auto I) {
                constexpr int i = decltype(I)::value;
                auto& ci = std::get<i>(q.c);
                switch (form)
                {
                case 0: q.a.recreate(w, h); ci.recreate(w, h); break;
                case 1: q.a.recreate(gil::point_t(w, h)); ci.recreate(gil::point_t(w, h)); break;
                case 2: q.a.recreate(w, h, 8); ci.recreate(w, h, 8); break;
                default: q.a.recreate(gil::point_t(w, h), 8); ci.recreate(gil::point_t(w, h), 8); break;
                }
                if (int(q.a.index()) == i) { rs_a = bv::get<i>(q.a)._view.pixels().row_size(); rs_c = ci._view.pixels().row_size(); }
                cw = ci.width(); ch = ci.height();
                paint(gil::view(ci), INFO[i].bits, 0);
            });
            s.path.push_back(vh::S() << "recreate" << form << "(" << w << "," << h << ")");
            ++ctx.witness[form < 2 ? "recreate_default_alignment" : "recreate_alignment8"];
            if (int(q.a.index()) != q.held) s.fail("recreate-changed-alternative", vh::S() << "index " << q.a.index() << " expected " << q.held);
            else if (form >= 2 && rs_a != rs_c) s.fail("recreate-row-size-differs", vh::S() << rs_a << " vs " << rs_c);   // same explicit alignment on both sides
            if (q.a.width() != cw || q.a.height() != ch) s.fail("recreate-dimensions", vh::S() << q.a.width() << "x" << q.a.height() << " concrete " << cw << "x" << ch);
            bv::visit(PaintAny{0}, q.a);       // contents after recreate are unspecified: give both sides seed 0
            arrive(s, q, depth + 1);
            s.path.pop_back();
            if (ctx.timed_out()) return;
        }
    // --- assignment from an any_image / from a concrete image holding alternative j, every shape
    for (int form = 0; form < 2; ++form)
        for (int j = 0; j < N; ++j)
            for (int h = 0; h <= s.S; ++h) for (int w = 0; w <= s.S; ++w)
            {
                Pair q(p);
                bool expected_eq_before = false, got_eq_before = false, eq_after = false, ceq_after = false, ne_after_poke = true;
                bool b_nonempty = false;
                mp::mp_with_index<N>(std::size_t(j), [&](auto J) {
                    constexpr int jj = decltype(J)::value;
                    using image_j = Img<jj>;
                    image_j bj(w, h);
                    paint(gil::view(bj), INFO[jj].bits, 2);
                    AnyImage b{bj};
                    // == between two any_images: deep, false across alternatives
                    got_eq_before = (q.a == b);
                    if (q.held == jj) expected_eq_before = (std::get<jj>(q.c) == bj);
                    if (form == 0) q.a = b; else q.a = bj;
                    // concrete side: the same assignment when the type stays, a fresh copy when the alternative switches
                    if (q.held == jj) std::get<jj>(q.c) = bj;
                    else
                    {
                        mp::mp_with_index<N>(std::size_t(q.held), [&](auto I) { std::get<decltype(I)::value>(q.c) = Img<decltype(I)::value>(); });
                        std::get<jj>(q.c) = image_j(bj);
                    }
                    q.held = jj;
                    b_nonempty = bj.width() > 0 && bj.height() > 0;
                    eq_after = (q.a == b);
                    ceq_after = (std::get<jj>(q.c) == bj);
                    if (bv::visit(PokeAny(), b)) ne_after_poke = (q.a != b) && !(q.a == b);
                });
                s.path.push_back(vh::S() << (form == 0 ? "assignAny(" : "assignImg(") << INFO[j].name << "," << w << "x" << h << ")");
                ++ctx.witness[form == 0 ? "assign_from_any_image" : "assign_from_concrete_image"];
                if (p.held != j) ++ctx.witness["assign_switches_alternative"];
                if (got_eq_before != expected_eq_before) s.fail("image-equality-differs", vh::S() << "a == b gives " << got_eq_before << " expected " << expected_eq_before);
                if (expected_eq_before) ++ctx.witness["equal_images_compared"];
                if (eq_after != ceq_after) s.fail("image-assign-equality-differs", vh::S() << "a = b; a == b gives " << eq_after << ", concrete gives " << ceq_after);
                if (b_nonempty && !eq_after) s.fail("image-equality-not-deep", "a = b; a == b is false for a non-empty image");
                if (b_nonempty && !ne_after_poke) s.fail("image-assign-not-deep", "modifying the source after assignment: a == b still true");
                arrive(s, q, depth + 1);    // the invariant there re-compares a with the concrete copy: b's modification must not show
                s.path.pop_back();
                if (ctx.timed_out()) return;
            }
    // --- copy construction; the original is modified and destroyed before the copy is looked at
    {
        Pair* orig = new Pair(p);
        Pair q(*orig);
        bv::visit(PokeAny(), orig->a);
        delete orig;
        s.path.push_back("copy");
        ++ctx.witness["copy_construct"];
        arrive(s, q, depth + 1);
        s.path.pop_back();
    }
}

struct RootLoop
{
    vh::Ctx& ctx; int S, maxdepth;
    template <class I> void operator()(I) const
    {
        constexpr int i = I::value;
        if (!ctx.take()) return;
        Search s(ctx);
        s.S = S; s.maxdepth = maxdepth;
        s.root = std::string("image/") + INFO[i].name + "/2x1";
        ctx.cur = s.root;
        Pair p;
        Img<i> im(2, 1);
        paint(gil::view(im), INFO[i].bits, 0);
        p.a = AnyImage(im);
        std::get<i>(p.c) = im;
        p.held = i;
        uint64_t key = check(s, p);
        ++ctx.states; s.seen[key] = 0;
        ++ctx.witness[std::string("root_") + INFO[i].name];
        s.queue.push_back(Search::Item{p, {}});
        while (!s.queue.empty() && !ctx.timed_out())
        {
            Search::Item it = std::move(s.queue.front());
            s.queue.pop_front();
            s.path = it.path;
            explore(s, it.p, int(it.path.size()));
        }
        s.path.clear();
        ctx.san_take(s.root + "/<unattributed>");
    }
};

} // namespace

VH_GROUP(image)
{
    vh::ubsan_counts() = false;
    mp::mp_for_each<mp::mp_iota_c<N>>(RootLoop{ctx, int(ctx.B("S", 3)), int(ctx.B("depth", 0))});
}

VH_MAIN
