// C16 (part 1) — threshold_binary / threshold_truncate, arithmetic channel types (see c16_threshold.hpp).
#include "c16_threshold.hpp"

namespace gil = boost::gil;
using namespace c16;

VH_GROUP(thr_u8) { vh::ubsan_counts() = false; run_gray<uint8_t, gil::gray8_pixel_t, true>(ctx, "u8"); }
VH_GROUP(thr_s8) { vh::ubsan_counts() = false; run_gray<int8_t, gil::gray8s_pixel_t, true>(ctx, "s8"); }
VH_GROUP(thr_u16) { vh::ubsan_counts() = false; run_gray<uint16_t, gil::gray16_pixel_t, true>(ctx, "u16"); }
VH_GROUP(thr_s16) { vh::ubsan_counts() = false; run_gray<int16_t, gil::gray16s_pixel_t, true>(ctx, "s16"); }
VH_GROUP(thr_mixed) { vh::ubsan_counts() = false; run_gray_mixed<uint16_t, gil::gray16_pixel_t, uint8_t, gil::gray8_pixel_t>(ctx, "u16>u8"); run_gray_mixed<int8_t, gil::gray8s_pixel_t, uint8_t, gil::gray8_pixel_t>(ctx, "s8>u8"); run_gray_mixed<uint8_t, gil::gray8_pixel_t, int16_t, gil::gray16s_pixel_t>(ctx, "u8>s16"); }
VH_GROUP(thr_layouts) { vh::ubsan_counts() = false; run_gray_layouts(ctx); }
VH_GROUP(thr_f32) { vh::ubsan_counts() = false; run_gray<float, gil::pixel<float, gil::gray_layout_t>, true>(ctx, "f32"); }

// rgb8: per-channel ramps r = i, g = 255 - i, b = 7 i + 3 (mod 256): every channel sees every value, and at
// every pixel the three channels hold different values, so an output that depends on another channel differs.
VH_GROUP(thr_rgb8)
{
    vh::ubsan_counts() = false;
    using Px = gil::rgb8_pixel_t;
    const int w = 16, h = 16;
    Buf<Px> src(w, h), dst(w, h);
    auto swv = src.view(); auto sv = src.cview(); auto dv = dst.view();
    auto chan = [](int i, int c) -> uint8_t { return uint8_t(c == 0 ? i : c == 1 ? 255 - i : (7 * i + 3) & 255); };
    for (int i = 0; i < 256; ++i) for (int c = 0; c < 3; ++c) swv(i % w, i / w)[c] = chan(i, c);
    const std::vector<uint8_t> maxes = Sets<uint8_t>::maxes();
    for (int ti = 0; ti < 256; ++ti)
    {
        if (!ctx.take()) continue;
        const uint8_t t = uint8_t(ti);
        ctx.cur = vh::S() << "thr/rgb8/t=" << ti;
        for (int mode = 0; mode < NMODES; ++mode)
        {
            const bool explicit_max = mode == BIN_REG_MAX || mode == BIN_INV_MAX;
            std::vector<uint8_t> ms = explicit_max ? maxes : std::vector<uint8_t>{255};
            for (uint8_t m : ms)
            {
                dst.fill_bytes(0xA5);
                call(mode, sv, dv, t, m);
                ++ctx.evaluations; ++ctx.nontrivial;
                long bad = 0; std::string first;
                for (int i = 0; i < 256; ++i) for (int c = 0; c < 3; ++c)
                {
                    uint8_t v = chan(i, c), got = dv(i % w, i / w)[c], exp = expect<uint8_t>(mode, v, t, m);
                    if (got != exp) { if (!bad) first = vh::S() << "pixel " << i << " channel " << c << " value " << int(v) << " -> " << int(got) << " expected " << int(exp); ++bad; }
                }
                ctx.counters["value_threshold_pairs"] += 768;
                std::string id;
                auto mkid = [&]() { if (id.empty()) { id = vh::S() << "thr/rgb8/" << MODE_NAME[mode] << "/t=" << ti; if (explicit_max) id += "/M=" + vstr(m); } return id; };
                if (bad) ctx.fail(mkid(), std::string("threshold!=documented-comparison:") + (mode < TR_T_REG ? "binary" : "truncate"), vh::S() << bad << " wrong channel value(s); first: " << first);
                if (!dst.g.intact()) ctx.fail(mkid(), "write-outside-destination");
                if (!src.g.intact()) ctx.fail(mkid(), "write-into-source-surroundings");
                ctx.san_take_lazy(mkid);
                ++ctx.witness["thr_type_rgb8"];
                ++ctx.witness["thr_channels_differ_per_pixel"];
                if (mode == TR_Z_REG && ti == 128) ctx.sample(vh::S() << mkid() << ": 768 channel values, each as documented for its own value");
            }
        }
        if (ctx.timed_out()) return;
    }
}

VH_MAIN
