// C14 (api) — (1) turns the compile probes of the registry fragment into failures: a run-time overload named by the
// statement that does not compile for ANY any_image_view cannot "produce exactly the result of the same operation
// on the concrete object".  tools/checks.d/C14.py compiles three tiny programs with `g++ -fsyntax-only` against
// the tree under test and passes -DC14_NO_TRANSPOSED / -DC14_NO_NTH / -DC14_NO_ANYCC to every C14 TU whose probe
// failed (the lock-step searches then run without that letter instead of failing to build).
// (2) the deprecated aliases of the dynamic_image extension that the other TUs do not touch:
// any_color_converted_view<P>(any view[, cc]) and apply_operation(variant[, variant], visitor), in lock step with
// color_converted_view / variant2::visit on the concrete object, every alternative x every shape.
#include "c14_common.hpp"

using namespace c14;

namespace {

struct biased_cc
{
    int bias = 0;
    biased_cc() {}
    explicit biased_cc(int b) : bias(b) {}
    template <class S, class D> void operator()(S const& s, D& d) const
    {
        gil::default_color_converter()(s, d);
        using ch = typename gil::channel_type<D>::type;
        d[0] = ch(d[0] + ch(bias));
    }
};

struct DimsVisitor
{
    using result_type = long;
    template <class V> long operator()(V const& v) const { return long(v.width()) * 100 + long(v.height()) * 10 + long(gil::num_channels<V>::value); }
};
struct PairVisitor
{
    using result_type = long;
    template <class V1, class V2> long operator()(V1 const& a, V2 const& b) const
    {
        return long(gil::num_channels<V1>::value) * 1000 + long(gil::num_channels<V2>::value) * 100 + long(a.width()) * 10 + long(b.height());
    }
};

template <class AV, class CV> void lockstep(vh::Ctx& ctx, std::string const& id, AV const& av, CV const& cv, int nch)
{
    Diff d;
    int rc = held_vs_concrete(av, cv, d);
    ++ctx.evaluations; ++ctx.transitions; ++ctx.traces; ++ctx.states;
    if (rc == 1 || rc == 3) ctx.fail(id, "wrong-alternative-type", vh::S() << "holds #" << av.index());
    if (rc == 2) ctx.fail(id, "pixels-differ", d.str());
    if (av.index() != ExpectedIndex<AV, CV>::value) ctx.fail(id, "wrong-alternative-index", vh::S() << av.index());
    if (av.width() != cv.width() || av.height() != cv.height() || av.size() != std::size_t(cv.size())) ctx.fail(id, "dimensions-differ", "");
    if (av.num_channels() != std::size_t(nch)) ctx.fail(id, "num_channels-differs", vh::S() << av.num_channels());
    if (cv.width() > 0 && cv.height() > 0) ++ctx.nontrivial;
}

struct Loop
{
    vh::Ctx& ctx; int S;
    template <class I> void operator()(I) const
    {
        constexpr int i = I::value;
        using image_t = Img<i>;
        if (!ctx.take()) return;
        for (int h = 0; h <= S; ++h) for (int w = 0; w <= S; ++w)
        {
            const std::string base = std::string("api/") + INFO[i].name + "/" + shape_s(w, h);
            ctx.cur = base;
            image_t ci(w, h);
            paint(gil::view(ci), INFO[i].bits, 0);
            AnyImage ai{image_t(w, h)};
            paint(gil::view(bv::get<i>(ai)), INFO[i].bits, 0);
            AnyCView av = gil::const_view(ai);
            auto cv = gil::const_view(ci);
#ifndef C14_NO_ANYCC
            lockstep(ctx, base + "/any_color_converted_view<gray8>", gil::any_color_converted_view<gil::gray8_pixel_t>(av), gil::color_converted_view<gil::gray8_pixel_t>(cv), 1);
            lockstep(ctx, base + "/any_color_converted_view<rgb8>(cc)", gil::any_color_converted_view<gil::rgb8_pixel_t>(av, biased_cc(3)), gil::color_converted_view<gil::rgb8_pixel_t>(cv, biased_cc(3)), 3);
            ++ctx.witness["any_color_converted_view_run"];
#endif
            // deprecated apply_operation == variant2::visit == the visitor on the concrete view
            long want = DimsVisitor()(cv);
            long got1 = gil::apply_operation(av, DimsVisitor());
            long got2 = bv::visit(DimsVisitor(), av);
            ++ctx.evaluations; ++ctx.transitions; ++ctx.traces;
            if (got1 != want || got2 != want) ctx.fail(base + "/apply_operation(unary)", "result-differs-from-concrete", vh::S() << got1 << "," << got2 << " vs " << want);
            AnyView mv = gil::view(ai);
            long want2 = PairVisitor()(cv, gil::view(ci));
            long got3 = gil::apply_operation(av, mv, PairVisitor());
            ++ctx.evaluations; ++ctx.transitions; ++ctx.traces;
            if (got3 != want2) ctx.fail(base + "/apply_operation(binary)", "result-differs-from-concrete", vh::S() << got3 << " vs " << want2);
            ++ctx.witness["apply_operation_run"];
            ctx.san_take_lazy([&] { return base; });
        }
    }
};

} // namespace

VH_GROUP(api)
{
    vh::ubsan_counts() = false;
#ifndef C14_WIDE     // the probes do not depend on the type list: report them once (the 5-alternative build is in both tiers)
    if (ctx.take())
    {
        ++ctx.evaluations;
#ifdef C14_NO_TRANSPOSED
        ctx.fail("api/transposed_view(any_image_view)", "does-not-compile", "gil::transposed_view(any_image_view<...> const&) is ill-formed for every type list (probe: tools/checks.d/C14.py)");
#else
        ++ctx.witness["transposed_view_compiles"];
#endif
        ++ctx.evaluations;
#ifdef C14_NO_NTH
        ctx.fail("api/nth_channel_view(any_image_view)", "does-not-compile", "gil::nth_channel_view(any_image_view<...> const&, int) is ill-formed for every type list (probe: tools/checks.d/C14.py)");
#else
        ++ctx.witness["nth_channel_view_compiles"];
#endif
        ++ctx.evaluations;
#ifdef C14_NO_ANYCC
        ctx.fail("api/any_color_converted_view(any_image_view)", "does-not-compile", "deprecated gil::any_color_converted_view<P>(any_image_view<...> const&[, cc]) is ill-formed for every type list (probe: tools/checks.d/C14.py)");
#else
        ++ctx.witness["any_color_converted_view_compiles"];
#endif
        ++ctx.witness["compile_probes_reported"];
    }
#endif
    mp::mp_for_each<mp::mp_iota_c<N>>(Loop{ctx, int(ctx.B("S", 3))});
}

VH_MAIN
