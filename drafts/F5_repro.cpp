// F5 (C18): hsv -> rgb with hue == 1 falls through `switch(floor(6h))` and returns black instead of red.
// g++ -std=c++14 -I/repo/include F5_repro.cpp && ./a.out      expected: both lines (255,0,0)
#include <boost/gil.hpp>
#include <boost/gil/extension/toolbox/color_spaces/hsv.hpp>
#include <cstdio>
int main()
{
    namespace gil = boost::gil;
    gil::hsv32f_pixel_t h0(0.f, 1.f, 1.f), h1(1.f, 1.f, 1.f);
    gil::rgb8_pixel_t a, b;
    gil::color_convert(h0, a);
    gil::color_convert(h1, b);
    std::printf("hue 0 -> (%d,%d,%d)\nhue 1 -> (%d,%d,%d)\n", a[0], a[1], a[2], b[0], b[1], b[2]);
    return (a == b) ? 0 : 1;
}
