// c09_common.hpp — clause checker for C09 (default colour conversion between gray/rgb/rgba/cmyk).
// One template, Pair<SrcPixel, DstPixel>, evaluates every clause of the property statement that
// applies to the ordered pair on one source pixel; the groups only differ in which source pixels
// they enumerate (all 2^24, planes, lattices).  The oracles are transcriptions of the statement:
//   range        every destination channel inside [min,max] of its channel type
//   neutrals     black->black, white->white between rgb, opaque rgba and cmyk
//                  (cmyk black: K = max, or C = M = Y = max; cmyk white: all min)
//   grey         rgb8 (v,v,v) -> gray8 v exactly;  gray v -> rgb (v',v',v') with v' = channel_convert(v)
//   luminance    rgb -> gray within one unit of 0.30r+0.59g+0.11b and monotone in each channel
//                  (unit = the coarser of the two channel steps; float counts as 1/65535)
//   round trip   rgb -> cmyk -> rgb within one 8-bit level (same channel type on all three pixels)
//   from rgba    == conversion of the alpha-premultiplied rgb pixel (premultiplication = channel_multiply,
//                  which C07 validates; for uint8 additionally the independent round(r*a/255))
//   to rgba      alpha = max, or channel_convert(source alpha) when the source has one
//   same space   every channel == channel_convert (C06 validates that layer)
// Nothing else is looked at (e.g. what gray->cmyk puts into K).
#pragma once
#include "vh.hpp"
#include <boost/gil.hpp>
#include <boost/mp11.hpp>
#include <array>
#include <cmath>
#include <type_traits>

namespace c09 {
namespace gil = boost::gil;
namespace mp = boost::mp11;
using ld = long double;

// ---- channel models ---------------------------------------------------------------------------
template <class T> struct Ch;
template <class T, int LO, long HI> struct IntCh
{
    static constexpr bool is_float = false;
    static ld lo() { return LO; }
    static ld hi() { return HI; }
    static ld unit() { return 1.0L / (ld(HI) - ld(LO)); }
    static T at(long idx) { return T(LO + idx); }                 // idx in 0..HI-LO
    static T bump(T v) { return T(v + 1); }
    static std::string str(T v) { return std::to_string(long(v)); }
};
template <> struct Ch<uint8_t> : IntCh<uint8_t, 0, 255> { static const char* tag() { return "8"; } };
template <> struct Ch<int8_t> : IntCh<int8_t, -128, 127> { static const char* tag() { return "8s"; } };
template <> struct Ch<uint16_t> : IntCh<uint16_t, 0, 65535> { static const char* tag() { return "16"; } };
template <> struct Ch<int16_t> : IntCh<int16_t, -32768, 32767> { static const char* tag() { return "16s"; } };
template <> struct Ch<gil::float32_t>
{
    static constexpr bool is_float = true;
    static const char* tag() { return "32f"; }
    static ld lo() { return 0; }
    static ld hi() { return 1; }
    static ld unit() { return 1.0L / 65535.0L; }
    static gil::float32_t bump(gil::float32_t v) { return gil::float32_t(std::nextafter(float(v), 2.0f)); }
    static std::string str(gil::float32_t v) { char b[40]; snprintf(b, sizeof b, "%.9g", double(float(v))); return b; }
};
template <class T> inline ld norm(T v) { return (ld(v) - Ch<T>::lo()) / (Ch<T>::hi() - Ch<T>::lo()); }
template <class T> inline bool is_lo(T v) { return ld(v) == Ch<T>::lo(); }
template <class T> inline bool is_hi(T v) { return ld(v) == Ch<T>::hi(); }

// lattices (index offsets from the channel minimum for integral types)
template <class T> inline std::vector<T> lattice(long big);
inline std::vector<long> lat8(long big)
{
    std::vector<long> v = {0, 1, 64, 127, 128, 191, 254, 255};
    if (big) { const long more[] = {2, 16, 32, 85, 100, 170, 200, 253}; v.insert(v.end(), more, more + 8); }
    std::sort(v.begin(), v.end());
    return v;
}
inline std::vector<long> lat16(long big)
{
    std::vector<long> v = {0, 1, 128, 255, 256, 257, 4096, 16383, 21845, 32767, 32768, 43690, 49151, 65278, 65279, 65534, 65535};
    if (big) { const long more[] = {2, 127, 129, 254, 258, 511, 512, 8191, 8192, 10000, 32639, 32896, 50000, 65024, 65280, 65533}; v.insert(v.end(), more, more + 16); }
    std::sort(v.begin(), v.end());
    return v;
}
template <> inline std::vector<uint8_t> lattice<uint8_t>(long big) { std::vector<uint8_t> r; for (long i : lat8(big)) r.push_back(uint8_t(i)); return r; }
template <> inline std::vector<int8_t> lattice<int8_t>(long big) { std::vector<int8_t> r; for (long i : lat8(big)) r.push_back(int8_t(i - 128)); return r; }
template <> inline std::vector<uint16_t> lattice<uint16_t>(long big) { std::vector<uint16_t> r; for (long i : lat16(big)) r.push_back(uint16_t(i)); return r; }
template <> inline std::vector<int16_t> lattice<int16_t>(long big) { std::vector<int16_t> r; for (long i : lat16(big)) r.push_back(int16_t(i - 32768)); return r; }
template <> inline std::vector<gil::float32_t> lattice<gil::float32_t>(long big)
{
    std::vector<float> v = {0.f, 5.9604645e-8f, 1.f / 65535.f, 1.f / 255.f, 0.04045f, 0.1f, 0.2f, 0.25f, 1.f / 3.f, 0.5f, 0.59f,
                            2.f / 3.f, 0.75f, 0.9f, 254.f / 255.f, 0.99999994f, 1.f};
    if (big) for (int k = 1; k < 32; k += 2) v.push_back(k / 32.f);
    std::sort(v.begin(), v.end());
    std::vector<gil::float32_t> r; for (float f : v) r.push_back(gil::float32_t(f));
    return r;
}

// ---- semantic channel access ------------------------------------------------------------------
template <class P> using chan_t = typename gil::channel_type<P>::type;
template <class P> using cs_t = typename gil::color_space_type<P>::type;
template <class P, int N = gil::num_channels<P>::value> struct Sem;
template <class P> struct Sem<P, 1>
{
    template <class Q, class T> static void get(Q const& p, T* o) { o[0] = gil::semantic_at_c<0>(p); }
    template <class Q, class T> static void set(Q& p, T const* v) { gil::semantic_at_c<0>(p) = v[0]; }
};
template <class P> struct Sem<P, 3>
{
    template <class Q, class T> static void get(Q const& p, T* o) { o[0] = gil::semantic_at_c<0>(p); o[1] = gil::semantic_at_c<1>(p); o[2] = gil::semantic_at_c<2>(p); }
    template <class Q, class T> static void set(Q& p, T const* v) { gil::semantic_at_c<0>(p) = v[0]; gil::semantic_at_c<1>(p) = v[1]; gil::semantic_at_c<2>(p) = v[2]; }
};
template <class P> struct Sem<P, 4>
{
    template <class Q, class T> static void get(Q const& p, T* o) { o[0] = gil::semantic_at_c<0>(p); o[1] = gil::semantic_at_c<1>(p); o[2] = gil::semantic_at_c<2>(p); o[3] = gil::semantic_at_c<3>(p); }
    template <class Q, class T> static void set(Q& p, T const* v) { gil::semantic_at_c<0>(p) = v[0]; gil::semantic_at_c<1>(p) = v[1]; gil::semantic_at_c<2>(p) = v[2]; gil::semantic_at_c<3>(p) = v[3]; }
};

// ---- names ------------------------------------------------------------------------------------
template <class L> struct LName;
template <> struct LName<gil::gray_layout_t> { static const char* s() { return "gray"; } };
template <> struct LName<gil::rgb_layout_t> { static const char* s() { return "rgb"; } };
template <> struct LName<gil::bgr_layout_t> { static const char* s() { return "bgr"; } };
template <> struct LName<gil::rgba_layout_t> { static const char* s() { return "rgba"; } };
template <> struct LName<gil::bgra_layout_t> { static const char* s() { return "bgra"; } };
template <> struct LName<gil::argb_layout_t> { static const char* s() { return "argb"; } };
template <> struct LName<gil::abgr_layout_t> { static const char* s() { return "abgr"; } };
template <> struct LName<gil::cmyk_layout_t> { static const char* s() { return "cmyk"; } };
template <class P> struct PName;
template <class T, class L> struct PName<gil::pixel<T, L>> { static std::string s() { return std::string(LName<L>::s()) + Ch<T>::tag(); } };

template <class CS> struct Space { enum { gray = 0, rgb = 0, rgba = 0, cmyk = 0 }; };
template <> struct Space<gil::gray_t> { enum { gray = 1, rgb = 0, rgba = 0, cmyk = 0 }; };
template <> struct Space<gil::rgb_t> { enum { gray = 0, rgb = 1, rgba = 0, cmyk = 0 }; };
template <> struct Space<gil::rgba_t> { enum { gray = 0, rgb = 0, rgba = 1, cmyk = 0 }; };
template <> struct Space<gil::cmyk_t> { enum { gray = 0, rgb = 0, rgba = 0, cmyk = 1 }; };

// black / white of a colour space, on semantic channel values
template <class CS, class T> inline bool black_of(T const* v)
{
    if (Space<CS>::rgb) return is_lo(v[0]) && is_lo(v[1]) && is_lo(v[2]);
    if (Space<CS>::rgba) return is_lo(v[0]) && is_lo(v[1]) && is_lo(v[2]) && is_hi(v[3]);
    if (Space<CS>::cmyk) return is_hi(v[3]) || (is_hi(v[0]) && is_hi(v[1]) && is_hi(v[2]));
    return false;
}
template <class CS, class T> inline bool white_of(T const* v)
{
    if (Space<CS>::rgb) return is_hi(v[0]) && is_hi(v[1]) && is_hi(v[2]);
    if (Space<CS>::rgba) return is_hi(v[0]) && is_hi(v[1]) && is_hi(v[2]) && is_hi(v[3]);
    if (Space<CS>::cmyk) return is_lo(v[0]) && is_lo(v[1]) && is_lo(v[2]) && is_lo(v[3]);
    return false;
}

// independent premultiplication for uint8: round(r*a/255) (never a tie, 255 is odd)
inline uint8_t premul8(uint8_t c, uint8_t a) { return uint8_t((2u * unsigned(c) * unsigned(a) + 255u) / 510u); }

struct Tally
{
    long range = 0, black = 0, white = 0, grey_exact = 0, grey_to_rgb = 0, weights = 0, monotone = 0, roundtrip = 0,
         premult = 0, premult_independent = 0, alpha_max = 0, alpha_carried = 0, same_space = 0, kmax_branch = 0,
         lum_fixed_point = 0, lum_float = 0, premult_changes_pixel = 0;
    void flush(vh::Ctx& ctx) const
    {
        auto add = [&](const char* k, long v) { if (v) ctx.witness[k] += v; };
        add("clause_range", range); add("clause_black", black); add("clause_white", white); add("clause_grey_exact_8bit", grey_exact);
        add("clause_grey_to_rgb", grey_to_rgb); add("clause_luminance_weights", weights); add("clause_luminance_monotone", monotone);
        add("clause_rgb_cmyk_rgb", roundtrip); add("clause_from_rgba_premultiplied", premult);
        add("clause_from_rgba_premultiplied_independent_u8", premult_independent); add("clause_to_rgba_alpha_max", alpha_max);
        add("clause_to_rgba_alpha_carried", alpha_carried); add("clause_same_space_channel_convert", same_space);
        add("branch_rgb_to_cmyk_k_is_max", kmax_branch); add("branch_luminance_fixed_point_u8", lum_fixed_point);
        add("branch_luminance_float", lum_float); add("premultiplication_changes_pixel", premult_changes_pixel);
    }
};

// ---- the clause checker -----------------------------------------------------------------------
template <class SP, class DP> struct Pair
{
    using ST = chan_t<SP>; using DT = chan_t<DP>;
    using SCS = cs_t<SP>; using DCS = cs_t<DP>;
    enum { SN = gil::num_channels<SP>::value, DN = gil::num_channels<DP>::value };
    enum { same_depth = std::is_same<ST, DT>::value };

    vh::Ctx& ctx;
    std::string pid;
    long nfail = 0, cap = 48;
    Tally t;

    explicit Pair(vh::Ctx& c) : ctx(c), pid(PName<SP>::s() + ">" + PName<DP>::s()) {}
    ~Pair() { t.flush(ctx); if (nfail) ctx.counters["failing_cases_before_cap"] += nfail; }

    std::string sid(ST const* sv) const
    {
        std::string s = pid + "/(";
        for (int k = 0; k < SN; ++k) { if (k) s += ","; s += Ch<ST>::str(sv[k]); }
        return s + ")";
    }
    static std::string dstr(DT const* dv, int n = DN)
    {
        std::string s = "(";
        for (int k = 0; k < n; ++k) { if (k) s += ","; s += Ch<DT>::str(dv[k]); }
        return s + ")";
    }
    void bad(ST const* sv, const char* sig, std::string const& detail)
    {
        if (nfail++ < cap) ctx.fail(sid(sv), sig, detail);
    }
    static void conv(ST const* sv, DT* dv)
    {
        SP s; Sem<SP>::set(s, sv);
        DP d; gil::color_convert(s, d);
        Sem<DP>::get(d, dv);
    }

    // -- rgb -> gray: weights and monotonicity
    void luminance(ST const* sv, DT const* dv, std::true_type)
    {
        ld e = 0.30L * norm(sv[0]) + 0.59L * norm(sv[1]) + 0.11L * norm(sv[2]);
        ld unit = std::max(Ch<ST>::unit(), Ch<DT>::unit());
        ++t.weights;
        if (std::is_same<ST, uint8_t>::value) ++t.lum_fixed_point; else ++t.lum_float;
        if (!(fabsl(norm(dv[0]) - e) <= unit * (1.0L + 1e-9L)))
        {
            char b[160]; snprintf(b, sizeof b, "gray=%s, 0.30r+0.59g+0.11b=%.6Lf (in destination units), |diff|=%.4Lf units of %Lg",
                                  Ch<DT>::str(dv[0]).c_str(), Ch<DT>::lo() + e * (Ch<DT>::hi() - Ch<DT>::lo()), fabsl(norm(dv[0]) - e) / unit, unit);
            bad(sv, "luminance>1unit", b);
        }
        for (int k = 0; k < 3; ++k)
        {
            if (is_hi(sv[k])) continue;
            ST up[4] = {sv[0], sv[1], sv[2], ST()}; up[k] = Ch<ST>::bump(sv[k]);
            DT dv2[4]; conv(up, dv2);
            ++t.monotone;
            if (ld(dv2[0]) < ld(dv[0]))
                bad(sv, "luminance-not-monotone", vh::S() << "channel " << k << " +1 step: gray " << Ch<DT>::str(dv[0]) << " -> " << Ch<DT>::str(dv2[0]));
        }
    }
    void luminance(ST const*, DT const*, std::false_type) {}

    // -- rgb -> cmyk -> rgb (executed when DP is the cmyk pixel of the same channel type)
    void roundtrip(ST const* sv, DP const& d, std::true_type)
    {
        SP back; gil::color_convert(d, back);
        ST bv[4]; Sem<SP>::get(back, bv);
        ++t.roundtrip;
        ld worst = 0;
        for (int k = 0; k < 3; ++k) worst = std::max(worst, fabsl(norm(bv[k]) - norm(sv[k])));
        ld tol = 1.0L / 255.0L + (Ch<ST>::is_float ? 1e-6L : 1e-12L);
        if (!(worst <= tol))
        {
            DT dv[4]; Sem<DP>::get(d, dv);
            bad(sv, "rgb-cmyk-rgb>1level", vh::S() << "cmyk=" << dstr(dv) << " back=(" << Ch<ST>::str(bv[0]) << "," << Ch<ST>::str(bv[1]) << "," << Ch<ST>::str(bv[2])
                                                   << ") error=" << double(worst * 255.0L) << " 8-bit levels");
        }
    }
    void roundtrip(ST const*, DP const&, std::false_type) {}

    // -- rgba -> {gray, rgb, cmyk}: equals conversion of the premultiplied rgb pixel
    void from_rgba(ST const* sv, DT const* dv, std::true_type)
    {
        using RGB = gil::pixel<ST, gil::rgb_layout_t>;
        ST pm[3] = {gil::channel_multiply(sv[0], sv[3]), gil::channel_multiply(sv[1], sv[3]), gil::channel_multiply(sv[2], sv[3])};
        DT ev[4];
        Pair<RGB, DP>::conv(pm, ev);
        ++t.premult;
        if (!(pm[0] == sv[0] && pm[1] == sv[1] && pm[2] == sv[2])) ++t.premult_changes_pixel;
        bool eq = true;
        for (int k = 0; k < DN; ++k) eq = eq && (ev[k] == dv[k]);
        if (!eq) bad(sv, "from-rgba-differs-from-premultiplied", vh::S() << "got " << dstr(dv) << ", premultiplied rgb (" << Ch<ST>::str(pm[0]) << "," << Ch<ST>::str(pm[1]) << "," << Ch<ST>::str(pm[2]) << ") converts to " << dstr(ev));
        from_rgba_u8(sv, dv, std::is_same<ST, uint8_t>());
    }
    void from_rgba(ST const*, DT const*, std::false_type) {}
    void from_rgba_u8(ST const* sv, DT const* dv, std::true_type)
    {
        using RGB = gil::pixel<ST, gil::rgb_layout_t>;
        ST pm[3] = {premul8(sv[0], sv[3]), premul8(sv[1], sv[3]), premul8(sv[2], sv[3])};
        DT ev[4];
        Pair<RGB, DP>::conv(pm, ev);
        ++t.premult_independent;
        bool eq = true;
        for (int k = 0; k < DN; ++k) eq = eq && (ev[k] == dv[k]);
        if (!eq) bad(sv, "from-rgba-differs-from-round(r*a/255)", vh::S() << "got " << dstr(dv) << ", round(c*a/255) rgb (" << int(pm[0]) << "," << int(pm[1]) << "," << int(pm[2]) << ") converts to " << dstr(ev));
    }
    void from_rgba_u8(ST const*, DT const*, std::false_type) {}

    // all clauses for one source pixel given by its semantic channel values
    void one(ST const* sv)
    {
        SP s; Sem<SP>::set(s, sv);
        DP d; gil::color_convert(s, d);
        DT dv[4] = {DT(), DT(), DT(), DT()};
        Sem<DP>::get(d, dv);
        ++ctx.evaluations;
        bool interior = false;
        for (int k = 0; k < SN; ++k) interior = interior || (!is_lo(sv[k]) && !is_hi(sv[k]));
        if (interior) ++ctx.nontrivial;

        // range
        for (int k = 0; k < DN; ++k)
        {
            ld x = ld(dv[k]);
            ++t.range;
            if (!(x >= Ch<DT>::lo() && x <= Ch<DT>::hi())) bad(sv, "range", vh::S() << "channel " << k << " of " << dstr(dv));
        }
        // neutrals between rgb, opaque rgba, cmyk
        if ((Space<SCS>::rgb || Space<SCS>::rgba || Space<SCS>::cmyk) && (Space<DCS>::rgb || Space<DCS>::rgba || Space<DCS>::cmyk))
        {
            if (black_of<SCS>(sv)) { ++t.black; if (!black_of<DCS>(dv)) bad(sv, "black-not-black", dstr(dv)); }
            if (white_of<SCS>(sv)) { ++t.white; if (!white_of<DCS>(dv)) bad(sv, "white-not-white", dstr(dv)); }
        }
        // grey
        if (Space<SCS>::rgb && Space<DCS>::gray && std::is_same<ST, uint8_t>::value && std::is_same<DT, uint8_t>::value && sv[0] == sv[1] && sv[1] == sv[2])
        {
            ++t.grey_exact;
            if (!(ld(dv[0]) == ld(sv[0]))) bad(sv, "grey-not-exact", dstr(dv));
        }
        if (Space<SCS>::gray && Space<DCS>::rgb)
        {
            ++t.grey_to_rgb;
            DT e = gil::channel_convert<DT>(sv[0]);
            if (!(dv[0] == dv[1] && dv[1] == dv[2] && dv[0] == e)) bad(sv, "grey-to-rgb", vh::S() << dstr(dv) << " expected all " << Ch<DT>::str(e));
            if (same_depth && !(ld(dv[0]) == ld(sv[0]))) bad(sv, "grey-to-rgb", dstr(dv));
        }
        luminance(sv, dv, std::integral_constant<bool, Space<SCS>::rgb && Space<DCS>::gray>());
        if (Space<SCS>::rgb && Space<DCS>::cmyk && black_of<SCS>(sv)) ++t.kmax_branch;
        roundtrip(sv, d, std::integral_constant<bool, Space<SCS>::rgb && Space<DCS>::cmyk && same_depth>());
        from_rgba(sv, dv, std::integral_constant<bool, Space<SCS>::rgba && !Space<DCS>::rgba>());
        // to rgba
        if (Space<DCS>::rgba)
        {
            if (Space<SCS>::rgba)
            {
                ++t.alpha_carried;
                DT e = gil::channel_convert<DT>(sv[SN - 1]);
                if (!(dv[3] == e)) bad(sv, "alpha-not-carried", vh::S() << dstr(dv) << " expected alpha " << Ch<DT>::str(e));
            }
            else
            {
                ++t.alpha_max;
                if (!is_hi(dv[3])) bad(sv, "alpha-not-max", dstr(dv));
            }
        }
        // same colour space: per-channel channel_convert
        if (std::is_same<SCS, DCS>::value)
        {
            ++t.same_space;
            for (int k = 0; k < DN; ++k)
            {
                DT e = gil::channel_convert<DT>(sv[k]);
                if (!(dv[k] == e)) { bad(sv, "same-space-not-channel_convert", vh::S() << "channel " << k << ": " << dstr(dv) << " expected " << Ch<DT>::str(e)); break; }
            }
        }
    }

    // every SN-tuple over the lattice of the source channel type
    void lattice_run(long big)
    {
        std::vector<ST> L = lattice<ST>(big);
        size_t n = L.size(), idx[4] = {0, 0, 0, 0};
        ST sv[4];
        while (true)
        {
            for (int k = 0; k < SN; ++k) sv[k] = L[idx[k]];
            one(sv);
            int k = SN - 1;
            while (k >= 0 && ++idx[k] == n) { idx[k] = 0; --k; }
            if (k < 0) break;
        }
        ST mid[4]; for (int k = 0; k < SN; ++k) mid[k] = L[(n / 3 + 2 * k) % n];
        DT dv[4]; conv(mid, dv);
        ctx.sample(sid(mid) + " -> " + dstr(dv));
        ++ctx.witness["pairs"];
        if (!same_depth) ++ctx.witness["pairs_cross_depth"];
        if (nfail) ++ctx.witness["pairs_failing"];
    }
};

} // namespace c09
