// c14_algo.hpp — generic driver for the binary algorithm overloads on run-time typed views.
//
// For every ORDERED pair (i, j) of alternatives, every shape, every call form
//     AA  alg(any src, any dst)       AC  alg(any src, concrete dst)       CA  alg(concrete src, any dst)
//     MA  alg(any MUTABLE-view src, any dst)   (the source variant is any_image::view_t instead of const_view_t)
// the real overload is executed on "variant side" images and compared with the same algorithm called on concrete
// views of twin images with identical contents:
//   * pair compatible (hand-written table c14::compat, or Alg::always for converting algorithms): no exception,
//     result value equal, every destination pixel equal to the concrete call's destination, source untouched;
//   * pair incompatible: std::bad_cast is thrown and the destination storage is byte-identical to its pre-image.
#pragma once
#include "c14_common.hpp"

namespace c14 {

template <class F> int guarded(F f)
{
    try { f(); return 0; }
    catch (std::bad_cast const&) { return 1; }
    catch (...) { return 2; }
}

struct AlgoStats
{
    vh::Ctx& ctx;
    std::string alg;
    long unit_fails = 0;
    void fail(std::string const& id, const char* sig, std::string const& detail)
    {
        if (++unit_fails > 64) return;
        ctx.fail(id, sig, detail);
    }
};

// concrete reference call, only instantiated when the pair is compatible / the algorithm converts
template <class Alg, class S, class D> long ref_call(Alg const& alg, S const& s, D const& d, std::true_type) { return alg(s, d); }
template <class Alg, class S, class D> long ref_call(Alg const&, S const&, D const&, std::false_type) { return -777; }

// One (pair, src shape, dst shape, content mode) case, all call forms.
//   Alg: long operator()(SrcView const&, DstView const&) const  -> calls the gil algorithm, returns its result (0 for void)
//        static constexpr bool always   -> defined for every pair (copy_and_convert_pixels)
//        static constexpr bool readonly -> does not write the destination (equal_pixels)
//        void prepare(concrete src view, concrete dst view, mode, ok) -> extra set-up of the destination contents
// Call forms: AA, AC, CA, MA as above, plus
//        XA  alg(flipped_left_right_view(any src), any dst)   — source variant over dynamic-x-step views
//        AX  alg(any src, rotated180_view(any dst))           — destination variant over dynamic-xy-step views
//   (their reference is the concrete algorithm on the same static transformation of the concrete views).
template <int I, int J, class Alg>
void pair_case(AlgoStats& st, Alg const& alg, int sw, int sh, int dw, int dh, int mode, int nforms = 6)
{
    vh::Ctx& ctx = st.ctx;
    using SI = Img<I>; using DJ = Img<J>;
    constexpr bool ok_pair = Alg::always || compat(I, J);
    using ok_t = mp::mp_bool<ok_pair>;
    const std::string base = st.alg + "/" + INFO[I].name + ">" + INFO[J].name + "/" + shape_s(sw, sh)
                             + (sw == dw && sh == dh ? "" : "->" + shape_s(dw, dh)) + (mode ? "/m" + std::to_string(mode) : "");
    ctx.cur = base;

    static const char* FORMS[] = {"AA", "AC", "CA", "MA", "XA", "AX"};
    for (int form = 0; form < nforms; ++form)
    {
        const std::string id = base + "/" + FORMS[form];
        // ---- concrete twins and the reference result
        SI src_c(sw, sh); DJ dst_c(dw, dh);
        paint(gil::view(src_c), INFO[I].bits, 0);
        paint(gil::view(dst_c), INFO[J].bits, 1);
        alg.prepare(gil::const_view(src_c), gil::view(dst_c), mode, ok_t());
        const DJ dst_before(dst_c);
        long ref = -777;
        int ref_rc = guarded([&] {
            if (form == 4) ref = ref_call(alg, gil::flipped_left_right_view(gil::const_view(src_c)), gil::view(dst_c), ok_t());
            else if (form == 5) ref = ref_call(alg, gil::const_view(src_c), gil::rotated180_view(gil::view(dst_c)), ok_t());
            else ref = ref_call(alg, gil::const_view(src_c), gil::view(dst_c), ok_t());
        });
        if (ok_pair && ref_rc != 0) st.fail(id, "harness:concrete-call-threw", "");
        const bool nonempty = dst_c.width() > 0 && dst_c.height() > 0;

        // ---- variant side: its own buffers with the same contents
        AnyImage src_a{SI(sw, sh)}, dst_a{DJ(dw, dh)};
        SI& src_i = bv::get<I>(src_a); DJ& dst_j = bv::get<J>(dst_a);
        paint(gil::view(src_i), INFO[I].bits, 0);
        paint(gil::view(dst_j), INFO[J].bits, 1);
        alg.prepare(gil::const_view(src_i), gil::view(dst_j), mode, ok_t());
        const std::vector<unsigned char> bytes_before = raw_bytes(dst_j);
        long got = -777;
        int rc = guarded([&] {
            switch (form)
            {
            case 0: got = alg(gil::const_view(src_a), gil::view(dst_a)); break;
            case 1: got = alg(gil::const_view(src_a), gil::view(dst_j)); break;
            case 2: got = alg(gil::const_view(src_i), gil::view(dst_a)); break;
            case 3: got = alg(gil::view(src_a), gil::view(dst_a)); break;
            case 4: got = alg(gil::flipped_left_right_view(gil::const_view(src_a)), gil::view(dst_a)); break;
            default: got = alg(gil::const_view(src_a), gil::rotated180_view(gil::view(dst_a))); break;
            }
        });
        ++ctx.evaluations; ++ctx.transitions; ++ctx.traces; ctx.states += 2;   // pre-state and post-state of one lock-step transition
        if (nonempty) ++ctx.nontrivial;
        ++ctx.witness[std::string("form_") + FORMS[form]];
        if (int(src_a.index()) != I || int(dst_a.index()) != J) st.fail(id, "alternative-changed", "");
        if (ok_pair)
        {
            ++ctx.witness["compatible_cases"];
            if (rc != 0) st.fail(id, rc == 1 ? "compatible-pair-threw-bad_cast" : "compatible-pair-threw", "");
            else
            {
                if (got != ref) st.fail(id, "result-differs-from-concrete", vh::S() << "got " << got << " concrete " << ref);
                if (Alg::readonly) ++ctx.witness["result_" + std::to_string(got)];
                std::string d = diff_views(gil::const_view(dst_j), gil::const_view(dst_c));
                if (!d.empty()) st.fail(id, "destination-differs-from-concrete", d);
                else if (nonempty && !Alg::readonly)
                {
                    ++ctx.witness["destination_written_and_equal"];
                    if (dst_before == dst_c) ++ctx.counters["reference_left_destination_unchanged"];
                }
            }
        }
        else
        {
            ++ctx.witness["incompatible_cases"];
            if (rc != 1) st.fail(id, rc == 0 ? "incompatible-pair-did-not-throw" : "incompatible-pair-threw-other-exception", vh::S() << "result " << got);
            else ++ctx.witness["bad_cast_thrown"];
            if (raw_bytes(dst_j) != bytes_before) st.fail(id, "incompatible-pair-modified-destination", "destination bytes changed");
            std::string d = diff_views(gil::const_view(dst_j), gil::const_view(dst_before));
            if (!d.empty()) st.fail(id, "incompatible-pair-modified-destination", d);
        }
        std::string ds = diff_views(gil::const_view(src_i), gil::const_view(src_c));
        if (!ds.empty()) st.fail(id, "source-modified", ds);
        ctx.san_take_lazy([&] { return id; });
    }
}

} // namespace c14
