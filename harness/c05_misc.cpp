// C05 — cmyk (+ user-defined mykc order), gray, 5-channel devicen (+ user-defined permuted order)
#include "c05_families.hpp"
using namespace c05;
VH_GROUP(cmyk8) { run_family<Cmyk8, Cmyk8>(ctx); }
VH_GROUP(cmyk2222) { run_family<Cmyk2222, Cmyk2222>(ctx); }
VH_GROUP(gray8) { run_family<Gray8, Gray8>(ctx); }
VH_GROUP(gray4) { run_family<Gray4, Gray4>(ctx); }
VH_GROUP(gray1) { run_family<Gray1, Gray1>(ctx); }
VH_GROUP(dev5_8) { run_family<Dev5_8, Dev5_8>(ctx); }
VH_GROUP(dev5_12345) { run_family<Dev5_12345, Dev5_12345>(ctx); }
// same families under a second name: the thorough tier runs them twice with different bounds (depth 3 / every value at depth 2)
VH_GROUP(cmyk8_v) { run_family<Cmyk8, Cmyk8>(ctx); }
VH_GROUP(cmyk2222_v) { run_family<Cmyk2222, Cmyk2222>(ctx); }
VH_GROUP(dev5_12345_v) { run_family<Dev5_12345, Dev5_12345>(ctx); }
VH_MAIN

// Packed pixels whose channel bits do not fill the bit field (rgb555 / bgr555 in uint16_t: bit 15 unused; bgr121 in uint8_t: bits 4..7
// unused).  "Equality between compatible pixels pairs channels by colour name": pixels whose named colours agree are equal whatever
// the unused bits hold (they are reachable through the raw bit-field constructor, raw memory, or an assignment that preserves them).
VH_GROUP(packed_padding)
{
    namespace gil = boost::gil; namespace mp = boost::mp11;
    using P555 = gil::packed_pixel_type<uint16_t, mp::mp_list_c<unsigned, 5, 5, 5>, gil::rgb_layout_t>::type;
    using B555 = gil::packed_pixel_type<uint16_t, mp::mp_list_c<unsigned, 5, 5, 5>, gil::bgr_layout_t>::type;
    using P121 = gil::packed_pixel_type<uint8_t, mp::mp_list_c<unsigned, 1, 2, 1>, gil::bgr_layout_t>::type;
    long fails = 0;
    auto bad = [&](std::string const& id, const char* sig, std::string const& d) { if (++fails <= 64) ctx.fail(id, sig, d); };
    for (unsigned a = 0; a < 65536; ++a)
    {
        if ((a & 4095) == 0 && !ctx.take()) { a += 4095; continue; }
        P555 x{uint16_t(a)}, y{uint16_t(a ^ 0x8000u)}, z{uint16_t(a ^ 1u)};
        ++ctx.evaluations; ++ctx.nontrivial;
        const std::string id = vh::S() << "rgb555/bits=" << a;
        if (!(x == y) || (x != y)) bad(id, "equal-colours-but-operator==-false", "the two pixels differ only in the unused bit 15");
        if (!gil::static_equal(x, y)) bad(id, "equal-colours-but-static_equal-false", "");
        if ((x == z) || !(x != z)) bad(id, "different-colours-but-operator==-true", "the two pixels differ in the lowest channel bit");
        // assignment from the other channel order into a pixel whose unused bit is set keeps every named colour; the result equals a fresh copy
        B555 s; gil::get_color(s, gil::red_t()) = gil::get_color(x, gil::red_t()); gil::get_color(s, gil::green_t()) = gil::get_color(x, gil::green_t()); gil::get_color(s, gil::blue_t()) = gil::get_color(x, gil::blue_t());
        P555 d{uint16_t(0xFFFF)}; d = s;
        P555 c(s);
        if (!(d == s) || !(c == s)) bad(id, "assigned-pixel-not-equal-to-source", "");
        if (!(d == c)) bad(id, "equal-colours-but-operator==-false", "dst = bgr555 source (unused bit kept) compared with a copy constructed from the same source");
    }
    if (ctx.take())
    {
        for (unsigned a = 0; a < 256; ++a) for (unsigned b = 0; b < 256; ++b)
        {
            P121 x{uint8_t(a)}, y{uint8_t(b)};
            ++ctx.evaluations; if ((a & 15) == (b & 15) && a != b) ++ctx.nontrivial;
            const bool same = (a & 15) == (b & 15);
            if ((x == y) != same || (x != y) == same) bad(vh::S() << "bgr121/bits=" << a << "," << b, same ? "equal-colours-but-operator==-false" : "different-colours-but-operator==-true", "");
        }
        ++ctx.witness["packed_pixels_with_unused_bits"];
    }
}

// Bit-aligned references whose BitField is exactly as wide as the pixel (uint16_t for 5-6-5), at every bit offset 0..7: the library's
// own images choose a wider bit field, so this state only arises from user-declared reference types.  at_c<K> must address the K-th
// channel in memory order at bit  offset + sum of the earlier widths, all of its bits; checked against a raw LSB-first bit model for
// every value of every channel, writing through the reference and reading both the raw bits and the reference back.
VH_GROUP(ba_exact_bitfield)
{
    namespace gil = boost::gil; namespace mp = boost::mp11;
    using R565 = gil::bit_aligned_pixel_reference<uint16_t, mp::mp_list_c<int, 5, 6, 5>, gil::rgb_layout_t, true>;
    using B565 = gil::bit_aligned_pixel_reference<uint16_t, mp::mp_list_c<int, 5, 6, 5>, gil::bgr_layout_t, true>;
    static const int W[3] = {5, 6, 5};
    auto getbits = [](unsigned char const* b, int pos, int n) { unsigned v = 0; for (int i = 0; i < n; ++i) v |= unsigned((b[(pos + i) / 8] >> ((pos + i) % 8)) & 1) << i; return v; };
    long fails = 0;
    auto run = [&](auto tag, const char* name) {
        using Ref = decltype(tag);
        for (int off = 0; off < 8; ++off)
        {
            if (!ctx.take()) continue;
            for (int k = 0; k < 3; ++k) for (unsigned v = 0; v < (1u << W[k]); ++v) for (int bg = 0; bg < 2; ++bg)
            {
                unsigned char buf[8]; std::memset(buf, bg ? 0xFF : 0x00, sizeof buf);
                unsigned char before[8]; std::memcpy(before, buf, sizeof buf);
                Ref r(buf + 1, off);
                if (k == 0) gil::at_c<0>(r) = v; else if (k == 1) gil::at_c<1>(r) = v; else gil::at_c<2>(r) = v;
                const int pos = 8 + off + (k > 0 ? W[0] : 0) + (k > 1 ? W[1] : 0);
                const unsigned raw = getbits(buf, pos, W[k]);
                const unsigned back = k == 0 ? unsigned(gil::at_c<0>(r)) : k == 1 ? unsigned(gil::at_c<1>(r)) : unsigned(gil::at_c<2>(r));
                ++ctx.evaluations; ++ctx.nontrivial;
                const std::string id = vh::S() << "ba_exact_bitfield/" << name << "/offset=" << off << "/at_c<" << k << ">=" << v << "/bg=" << bg;
                if (raw != v && ++fails <= 64) ctx.fail(id, "at_c-writes-other-bits-than-the-channel", vh::S() << "channel bits hold " << raw);
                if (back != v && ++fails <= 64) ctx.fail(id, "at_c-readback-differs", vh::S() << "reads " << back);
                // every bit outside the channel is unchanged
                bool other = false;
                for (int bit = 0; bit < 64; ++bit) if (bit < pos || bit >= pos + W[k]) other = other || (((buf[bit / 8] >> (bit % 8)) & 1) != ((before[bit / 8] >> (bit % 8)) & 1));
                if (other && ++fails <= 64) ctx.fail(id, "other-bits-changed", "");
            }
            ++ctx.witness["bit_aligned_reference_with_exact_width_bitfield"];
        }
    };
    run(R565(nullptr, 0), "rgb565/u16");
    run(B565(nullptr, 0), "bgr565/u16");
}
