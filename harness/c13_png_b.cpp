// C13 PNG part B: rgb / rgba types (each part also runs the Adam7 seeds and the repo samples of its own types)
#define PNG_PART_TYPES mp::mp_list<gil::rgb8_image_t, gil::rgb16_image_t, gil::rgba8_image_t, gil::rgba16_image_t>
#define PNG_PART_GRAY 0
#include "c13_png.hpp"
