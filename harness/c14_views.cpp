// C14 (views) — lock-step state search over the dynamic view factories.
//
// state      = (any_image_view variant AV holding alternative i, concrete view CV of the held type), the two sides
//              looking at two different images with identical, injective contents.
// transition = one view factory applied to BOTH sides: the run-time overload
//              gil::op(any_image_view<...>) and the static gil::op(concrete view).
// invariant  (checked on the result of EVERY transition and in every root):
//              * the variant holds the alternative whose type is exactly the static result type (index == position
//                of that type in the result variant's list, visited type is_same);
//              * dimensions(), width(), height(), size(), num_channels() of the variant equal those of the concrete
//                view (num_channels additionally equals the hand-written channel count);
//              * every pixel read through the held alternative equals the pixel read through the concrete view.
// search     = depth-first to a run-time depth bound, expansion de-duplicated on the canonical key
//              (static variant type, static concrete type, held index, hash of everything observable through the
//              concrete side); a state reached again with no more remaining depth than before is not re-expanded.
//              Soundness of the key: contents are injective (self-checked at every root), so equal observables
//              mean equal geometry up to steps along an extent <= 1, which no later transition can observe.
// Static types: step-making factories are idempotent on types; nth_channel and color_converted are allowed at
// most once per path each (template flags), which makes the set of variant types finite and the depth a pure
// run-time bound.
//
// Build variants of this one source (registry flags): -DC14_MUTABLE (root = view(any_image) instead of
// const_view), -DC14_WIDE (8 alternatives), -DC14_NO_TRANSPOSED / -DC14_NO_NTH (the tree's run-time overload does
// not compile; the failure itself is reported by c14_api.cpp, the search then runs without that letter).
#include "c14_common.hpp"

using namespace c14;

namespace {

// stateful colour converter: default conversion, then a bias on channel 0 — lets the check see whether the
// run-time overload forwards the converter object it was given
struct biased_cc
{
    int bias = 0;
    biased_cc() {}
    explicit biased_cc(int b) : bias(b) {}
    template <class S, class D> void operator()(S const& s, D& d) const
    {
        gil::default_color_converter()(s, d);
        using ch = typename gil::channel_type<D>::type;
        d[0] = ch(d[0] + ch(bias));
    }
};

struct Search
{
    vh::Ctx& ctx;
    std::string root;
    std::vector<std::string> path;
    std::unordered_map<uint64_t, int> seen;    // key -> largest remaining depth it was expanded with
    int depth_left = 0;
    long unit_fails = 0;
    int SS = 2, subfull = 0;

    explicit Search(vh::Ctx& c) : ctx(c) {}
    std::string id() const
    {
        std::string s = root;
        for (size_t i = 0; i < path.size(); ++i) { s += (i ? ">" : "/"); s += path[i]; }
        return s;
    }
    __attribute__((noinline)) void fail(const char* sig, std::string const& detail)
    {
        if (++unit_fails > 64) return;
        ctx.fail(id(), sig, detail);
    }
    // ---- non-template halves of a transition (kept out of the per-type instantiations)
    __attribute__((noinline)) void enter(std::string const& opname, const char* wit)
    {
        ++ctx.transitions;
        ++ctx.witness[wit];
        path.push_back(opname);
    }
    // the invariant's scalar clauses; returns the canonical key of the state
    __attribute__((noinline)) uint64_t judge(int held_rc, Diff const& d, const char* cvname, std::size_t have_idx, std::size_t want_idx,
                                             long aw, long ah, long adx, long ady, std::size_t asize, std::size_t anch,
                                             long cw, long ch, std::size_t csize, std::size_t cnch, int nch,
                                             uint64_t typekey, uint64_t obs, uint64_t avtype)
    {
        ++ctx.evaluations;
        static std::set<uint64_t> avs, pairs;     // distinct static variant types / (variant, concrete) type pairs seen
        if (avs.insert(avtype).second) ++ctx.counters["distinct_variant_types"];
        if (pairs.insert(typekey).second) ++ctx.counters["distinct_variant_concrete_type_pairs"];
        if (held_rc == 3) fail("static-result-type-not-an-alternative", cvname);
        if (have_idx != want_idx) fail("wrong-alternative-index", vh::S() << "index " << have_idx << " expected " << want_idx);
        if (held_rc == 1) fail("wrong-alternative-type", vh::S() << "expected alternative #" << want_idx << " holds #" << have_idx);
        if (held_rc == 2) fail("pixels-differ", d.str());
        if (adx != cw || ady != ch || aw != cw || ah != ch)
            fail("dimensions-differ", vh::S() << adx << "x" << ady << " (" << aw << "x" << ah << ") vs " << cw << "x" << ch);
        if (asize != csize || asize != std::size_t(cw * ch)) fail("size-differs", vh::S() << asize << " vs " << csize);
        if (anch != std::size_t(nch) || cnch != std::size_t(nch)) fail("num_channels-differs", vh::S() << anch << " vs " << nch << " (concrete " << cnch << ")");
        if (cw > 0 && ch > 0) ++ctx.nontrivial;
        return vh::mix(vh::mix(typekey, want_idx), obs);
    }
    // de-duplication; true = expand this state (caller recurses, then calls expanded())
    __attribute__((noinline)) bool arrive(uint64_t key, long w2, long h2, std::size_t idx2)
    {
        ctx.san_take_lazy([&] { return id(); });
        int remaining = depth_left - 1;
        auto it = seen.find(key);
        if (it == seen.end()) { ++ctx.states; it = seen.emplace(key, -1).first; }
        else ++ctx.counters["revisits"];
        if (remaining > 0 && it->second < remaining && unit_fails <= 64)
        {
            it->second = remaining;
            --depth_left;
            return true;
        }
        ++ctx.traces;
        if (remaining > 0) ++ctx.counters["expansions_cut_by_dedup"];
        if (path.size() >= 2) ctx.sample(vh::S() << id() << " -> " << w2 << "x" << h2 << " alt#" << idx2);
        return false;
    }
    void expanded() { ++depth_left; }
    void leave() { path.pop_back(); }
};

// ---- the invariant (template part: only what depends on the static types)
template <class AV, class CV> uint64_t check_state(Search& s, AV const& av, CV const& cv, int nch)
{
    Diff d;
    int rc = held_vs_concrete(av, cv, d);
    auto dm = av.dimensions();
    return s.judge(rc, d, typeid(CV).name(), av.index(), ExpectedIndex<AV, CV>::value, long(av.width()), long(av.height()),
                   long(dm.x), long(dm.y), av.size(), av.num_channels(), long(cv.width()), long(cv.height()),
                   std::size_t(cv.size()), std::size_t(gil::num_channels<CV>::value), nch,
                   vh::mix(typeid(AV).hash_code(), typeid(CV).hash_code()), obs_hash(cv), typeid(AV).hash_code());
}

// ---- the alphabet.  Each letter is applied to the variant and to the concrete view through the same call syntax.
// Letters whose results have the same static type share one functor with a run-time switch (fewer instantiations).
enum { K_FUD, K_FLR, K_TR, K_CW, K_CCW, K_180, K_SSP, K_SS2, K_SUBP, K_SUB4 };
struct OpYStep   // flipped_up_down_view -> dynamic_y_step_type
{
    template <class V> auto operator()(V const& v) const { return gil::flipped_up_down_view(v); }
    std::string name() const { return "fud"; } const char* wit() const { return "op_flipped_up_down"; }
};
struct OpXStep   // flipped_left_right_view -> dynamic_x_step_type
{
    template <class V> auto operator()(V const& v) const { return gil::flipped_left_right_view(v); }
    std::string name() const { return "flr"; } const char* wit() const { return "op_flipped_left_right"; }
};
struct OpXYT     // transposed / rotated90cw / rotated90ccw -> dynamic_xy_step_transposed_type
{
    int k;
    template <class V> auto operator()(V const& v) const
    {
        switch (k)
        {
#ifndef C14_NO_TRANSPOSED
        case K_TR: return gil::transposed_view(v);
#endif
        case K_CW: return gil::rotated90cw_view(v);
        default: return gil::rotated90ccw_view(v);
        }
    }
    std::string name() const { return k == K_TR ? "tr" : k == K_CW ? "cw" : "ccw"; }
    const char* wit() const { return k == K_TR ? "op_transposed" : k == K_CW ? "op_rotated90cw" : "op_rotated90ccw"; }
};
struct OpXY      // rotated180 / subsampled(point) / subsampled(x,y) -> dynamic_xy_step_type
{
    int k, sx, sy;
    template <class V> auto operator()(V const& v) const
    {
        switch (k)
        {
        case K_180: return gil::rotated180_view(v);
        case K_SSP: return gil::subsampled_view(v, gil::point_t(sx, sy));
        default: return gil::subsampled_view(v, sx, sy);
        }
    }
    std::string name() const
    {
        if (k == K_180) return "r180";
        return vh::S() << (k == K_SSP ? "ssP(" : "ss2(") << sx << "," << sy << ")";
    }
    const char* wit() const { return k == K_180 ? "op_rotated180" : k == K_SSP ? "op_subsampled_point" : "op_subsampled_xy"; }
};
struct OpSub     // subimage_view(point,point) / subimage_view(x,y,w,h) -> same type
{
    int k, x, y, w, h;
    template <class V> V operator()(V const& v) const
    {
        if (k == K_SUBP) return gil::subimage_view(v, gil::point_t(x, y), gil::point_t(w, h));
        return gil::subimage_view(v, x, y, w, h);
    }
    std::string name() const { return vh::S() << (k == K_SUBP ? "subP(" : "sub4(") << x << "," << y << "," << w << "," << h << ")"; }
    const char* wit() const { return k == K_SUBP ? "op_subimage_point" : "op_subimage_xywh"; }
};
struct OpNth
{
    int n;
    template <class V> auto operator()(V const& v) const { return gil::nth_channel_view(v, n); }
    std::string name() const { return vh::S() << "nth(" << n << ")"; } const char* wit() const { return "op_nth_channel"; }
};
struct OpCcGray   // color_converted_view<gray8_pixel_t>(v): default converter overload
{
    template <class V> auto operator()(V const& v) const { return gil::color_converted_view<gil::gray8_pixel_t>(v); }
    std::string name() const { return "cc<gray8>"; } const char* wit() const { return "op_color_converted"; }
};
struct OpCcRgbB   // color_converted_view<rgb8_pixel_t>(v, cc): user converter overload, stateful converter
{
    int bias;
    template <class V> auto operator()(V const& v) const { return gil::color_converted_view<gil::rgb8_pixel_t>(v, biased_cc(bias)); }
    std::string name() const { return vh::S() << "ccB<rgb8>(" << bias << ")"; } const char* wit() const { return "op_color_converted_cc"; }
};

template <class AV, class CV, bool NthUsed, bool CcUsed> struct Ex;

template <bool Nth2, bool Cc2, class AV, class CV, class Op>
void step(Search& s, AV const& av, CV const& cv, Op const& op, int nch2)
{
    auto av2 = op(av);
    auto cv2 = op(cv);
    s.enter(op.name(), op.wit());
    uint64_t key = check_state(s, av2, cv2, nch2);
    if (s.arrive(key, long(cv2.width()), long(cv2.height()), av2.index()))
    {
        Ex<decltype(av2), decltype(cv2), Nth2, Cc2>::expand(s, av2, cv2, nch2);
        s.expanded();
    }
    s.leave();
}

template <class AV, class CV, bool NthUsed, bool CcUsed> struct Ex
{
    template <class A, class C> static void nth(Search&, A const&, C const&, int, std::true_type) {}
    template <class A, class C> static void nth(Search& s, A const& av, C const& cv, int nch, std::false_type)
    {
#ifndef C14_NO_NTH
        for (int n = 0; n < nch; ++n) step<true, CcUsed>(s, av, cv, OpNth{n}, 1);
#endif
    }
    template <class A, class C> static void cc(Search&, A const&, C const&, std::true_type) {}
    template <class A, class C> static void cc(Search& s, A const& av, C const& cv, std::false_type)
    {
        step<NthUsed, true>(s, av, cv, OpCcGray{}, 1);
        step<NthUsed, true>(s, av, cv, OpCcRgbB{7}, 3);
    }

    static void expand(Search& s, AV const& av, CV const& cv, int nch)
    {
        const int w = int(cv.width()), h = int(cv.height());
        step<NthUsed, CcUsed>(s, av, cv, OpYStep{}, nch);
        step<NthUsed, CcUsed>(s, av, cv, OpXStep{}, nch);
        static const int xyt[] = {
#ifndef C14_NO_TRANSPOSED
            K_TR,
#endif
            K_CW, K_CCW};
        for (int k : xyt) step<NthUsed, CcUsed>(s, av, cv, OpXYT{k}, nch);
        step<NthUsed, CcUsed>(s, av, cv, OpXY{K_180, 1, 1}, nch);
        // sub-rectangles: every non-empty one (subfull: also every empty one), plus the empty rectangle at the origin
        for (int y0 = 0; y0 <= h; ++y0) for (int sh = 0; y0 + sh <= h; ++sh)
            for (int x0 = 0; x0 <= w; ++x0) for (int sw = 0; x0 + sw <= w; ++sw)
            {
                bool empty = sw == 0 || sh == 0;
                if (empty && !s.subfull && !(x0 == 0 && y0 == 0 && sw == 0 && sh == 0)) continue;
                step<NthUsed, CcUsed>(s, av, cv, OpSub{K_SUBP, x0, y0, sw, sh}, nch);
                step<NthUsed, CcUsed>(s, av, cv, OpSub{K_SUB4, x0, y0, sw, sh}, nch);
            }
        for (int sy = 1; sy <= s.SS; ++sy) for (int sx = 1; sx <= s.SS; ++sx)
        {
            step<NthUsed, CcUsed>(s, av, cv, OpXY{K_SSP, sx, sy}, nch);
            step<NthUsed, CcUsed>(s, av, cv, OpXY{K_SS2, sx, sy}, nch);
        }
        nth(s, av, cv, nch, std::integral_constant<bool, NthUsed>());
        cc(s, av, cv, std::integral_constant<bool, CcUsed>());
    }
};

// which alternatives' roots this build explores (bit i = alternative i); lets the registry split the
// instantiation load over several TUs of the same source
#ifndef C14_ROOT_MASK
#define C14_ROOT_MASK 0xff
#endif

#ifdef C14_MUTABLE
static const char* ROOTKIND = "view";
template <class I> auto root_view(I& im) { return gil::view(im); }
#else
static const char* ROOTKIND = "const_view";
template <class I> auto root_view(I& im) { return gil::const_view(im); }
#endif

// injectivity self-check of the contents (the de-duplication key relies on it)
template <class V> bool injective(V const& v)
{
    std::set<std::vector<unsigned long>> seen;
    for (std::ptrdiff_t y = 0; y < v.height(); ++y) for (std::ptrdiff_t x = 0; x < v.width(); ++x)
    {
        typename V::value_type p = v(x, y);
        for (int c = 0; c < int(gil::num_channels<V>::value); ++c)
            if (!seen.insert({(unsigned long)c, (unsigned long)p[c]}).second) return false;
    }
    return true;
}

struct RootLoop
{
    vh::Ctx& ctx; int S, depth, SS, subfull;
    template <class I> void operator()(I) const
    {
        go(I(), mp::mp_bool<((C14_ROOT_MASK >> I::value) & 1) != 0>());
    }
    template <class I> void go(I, mp::mp_false) const {}
    template <class I> void go(I, mp::mp_true) const
    {
        constexpr int i = I::value;
        using image_t = Img<i>;
        for (int h = 0; h <= S; ++h) for (int w = 0; w <= S; ++w)
        {
            if (!ctx.take()) continue;
            Search s(ctx);
            s.root = std::string(ROOTKIND) + "/" + INFO[i].name + "/" + shape_s(w, h);
            s.depth_left = depth; s.SS = SS; s.subfull = subfull;
            ctx.cur = s.root;
            image_t ci(w, h);                       // concrete side
            paint(gil::view(ci), INFO[i].bits, 0);
            AnyImage ai{image_t(w, h)};             // variant side: its own buffer, same contents
            paint(gil::view(bv::get<i>(ai)), INFO[i].bits, 0);
            auto av = root_view(ai);
            auto cv = root_view(ci);
            if (!injective(cv) || !injective(gil::color_converted_view<gil::gray8_pixel_t>(cv))
                || !injective(gil::color_converted_view<gil::rgb8_pixel_t>(cv)))
                ctx.fail(s.root, "harness:contents-not-injective");
            uint64_t key = check_state(s, av, cv, INFO[i].nch);
            ++ctx.states; s.seen[key] = depth;
            ++ctx.witness[std::string("root_") + INFO[i].name];
            if (w == 0 || h == 0) ++ctx.witness["root_empty"];
            if (depth > 0) Ex<decltype(av), decltype(cv), false, false>::expand(s, av, cv, INFO[i].nch);
            ctx.san_take(s.root + "/<unattributed>");
            if (ctx.timed_out()) return;
        }
    }
};

} // namespace

VH_GROUP(views)
{
    vh::ubsan_counts() = false;   // the statement does not speak about undefined behaviour (empty views form null-based addresses)
    int S = int(ctx.B("S", 3)), depth = int(ctx.B("depth", 2)), SS = int(ctx.B("SS", 2)), subfull = int(ctx.B("subfull", 0));
    mp::mp_for_each<mp::mp_iota_c<N>>(RootLoop{ctx, S, depth, SS, subfull});
}

VH_MAIN
