#!/usr/bin/env python3
"""vcheck.py — driver of the /verif checks (DESIGN.md §1).

  vcheck.py <PROPERTY> [--tier quick|thorough] [--replay FILE] [--repo DIR] [--keep-going]
  vcheck.py --build-all            (setup: compile every harness, 16 in parallel)

build (content-hash cache over harness + engine + flags + /repo/include/boost/gil) -> run every
(group, shard) of the tier in a process pool -> merge -> match failures against known_findings.txt
-> write evidence/<id>.json -> print KNOWN-FINDING / VIOLATION lines -> exit status.
"""
import sys, os, json, hashlib, subprocess, time, argparse, concurrent.futures as cf, re, shlex

VERIF = os.path.dirname(os.path.dirname(os.path.abspath(__file__)))
sys.path.insert(0, os.path.join(VERIF, 'tools'))
import checks as REG  # noqa: E402

BUILD = os.path.join(VERIF, 'build')
NPROC = int(os.environ.get('VERIF_JOBS', os.cpu_count() or 4))

SAN_FLAGS = ['-fsanitize=address,undefined', '-fsanitize-recover=address,undefined',
             '-fno-sanitize=vptr,alignment', '-fno-omit-frame-pointer', '-DVH_UBSAN']
BASE_FLAGS = ['-g1', '-DNDEBUG', '-fno-access-control', '-DBOOSTORG_GIL_VERIF', '-w']
RUN_ENV = {'ASAN_OPTIONS': 'halt_on_error=0:detect_leaks=0:allocator_may_return_null=1:'
                           'max_allocation_size_mb=512:malloc_fill_byte=171:max_malloc_fill_size=4096:'
                           'detect_stack_use_after_return=0:print_summary=0:log_path=/dev/null',
           'UBSAN_OPTIONS': 'halt_on_error=0:print_stacktrace=0:log_path=/dev/null',
           'LSAN_OPTIONS': 'detect_leaks=0'}


def repo_include_hash(repo):
    h = hashlib.sha256()
    root = os.path.join(repo, 'include', 'boost', 'gil')
    for d, dirs, files in os.walk(root):
        dirs.sort()
        for f in sorted(files):
            p = os.path.join(d, f)
            h.update(os.path.relpath(p, root).encode())
            with open(p, 'rb') as fh:
                h.update(fh.read())
    return h.hexdigest()


def engine_hash():
    h = hashlib.sha256()
    for d in ('engine',):
        for f in sorted(os.listdir(os.path.join(VERIF, d))):
            with open(os.path.join(VERIF, d, f), 'rb') as fh:
                h.update(f.encode()); h.update(fh.read())
    return h.hexdigest()


def tu_flags(tu):
    std = tu.get('std', 'c++14')
    fl = ['-std=' + std, '-O' + str(tu.get('opt', 1))] + BASE_FLAGS
    if tu.get('san', True):
        fl += SAN_FLAGS
    fl += tu.get('flags', [])
    return fl


def build_tu(tu, repo, inc_hash, eng_hash, verbose=True):
    """compile one harness TU; returns (path, seconds, cached?)"""
    src = os.path.join(VERIF, tu['src'])
    flags = tu_flags(tu)
    libs = tu.get('libs', [])
    h = hashlib.sha256()
    with open(src, 'rb') as fh:
        h.update(fh.read())
    for extra in tu.get('deps', []):
        with open(os.path.join(VERIF, extra), 'rb') as fh:
            h.update(fh.read())
    h.update(' '.join(flags + libs).encode()); h.update(inc_hash.encode()); h.update(eng_hash.encode())
    key = h.hexdigest()[:16]
    os.makedirs(os.path.join(BUILD, 'bin'), exist_ok=True)
    out = os.path.join(BUILD, 'bin', '%s-%s' % (tu['name'], key))
    if os.path.exists(out):
        return out, 0.0, True
    # drop stale binaries of this TU — but never one another run may still be using (a concurrent check of the same property against
    # another tree, e.g. tools/run_mutants.py): only files not touched for two hours, and the two most recent ones are always kept
    mine = []
    for f in os.listdir(os.path.join(BUILD, 'bin')):
        if f.startswith(tu['name'] + '-') and '.tmp' not in f:
            try: mine.append((os.path.getmtime(os.path.join(BUILD, 'bin', f)), f))
            except OSError: pass
    for f in os.listdir(os.path.join(BUILD, 'bin')):          # temporaries left by an interrupted build
        if f.startswith(tu['name'] + '-') and '.tmp' in f:
            try:
                if time.time() - os.path.getmtime(os.path.join(BUILD, 'bin', f)) > 7200: os.unlink(os.path.join(BUILD, 'bin', f))
            except OSError: pass
    mine.sort(reverse=True)
    for mt, f in mine[2:]:
        if time.time() - mt > 7200:
            try: os.unlink(os.path.join(BUILD, 'bin', f))
            except OSError: pass
    cxx = tu.get('cxx', 'g++')
    tmp_out = '%s.tmp.%d' % (out, os.getpid())      # two runs building the same binary must not share the temporary
    cmd = [cxx] + flags + ['-I', os.path.join(repo, 'include'), '-I', os.path.join(VERIF, 'engine'),
                           '-I', os.path.join(VERIF, 'harness'), src, '-o', tmp_out] + libs
    t0 = time.time()
    p = subprocess.run(cmd, stdout=subprocess.PIPE, stderr=subprocess.STDOUT, text=True)
    dt = time.time() - t0
    if p.returncode != 0:
        sys.stderr.write('BUILD FAILED: %s\n%s\n' % (' '.join(shlex.quote(c) for c in cmd), p.stdout[-6000:]))
        return None, dt, False
    os.replace(tmp_out, out)
    return out, dt, False


def run_one(job):
    """job: dict(bin, group, bounds, shard, nshards, only, timeout, seed) -> dict(result)"""
    cmd = [job['bin'], '--run', job['group'], '--shard', '%d/%d' % (job['shard'], job['nshards']),
           '--seed', str(job['seed'])]
    if job['bounds']:
        cmd += ['--bound', ','.join('%s=%s' % kv for kv in sorted(job['bounds'].items()))]
    if job.get('only'):
        cmd += ['--only', job['only']]
    if job.get('deadline'):
        cmd += ['--deadline', str(job['deadline'])]
    env = dict(os.environ); env.update(RUN_ENV); env.update(job.get('env', {}))
    t0 = time.time()
    try:
        p = subprocess.run(cmd, stdout=subprocess.PIPE, stderr=subprocess.PIPE, env=env,
                           timeout=job['timeout'], cwd=BUILD)
        rc, out, err = p.returncode, p.stdout, p.stderr
    except subprocess.TimeoutExpired as e:
        rc, out, err = -999, e.stdout or b'', e.stderr or b''
    dt = time.time() - t0
    fails, summary, fatal = [], None, None
    for line in out.decode('utf-8', 'replace').splitlines():
        if not line.startswith('{'):
            continue
        try:
            o = json.loads(line)
        except ValueError:
            continue
        if o.get('t') == 'fail': fails.append(o)
        elif o.get('t') == 'summary': summary = o
        elif o.get('t') == 'fatal': fatal = o
    return dict(job=job, rc=rc, fails=fails, summary=summary, fatal=fatal, wall=dt,
                stderr=err.decode('utf-8', 'replace')[-3000:])


def load_known(prop):
    """known_findings.txt -> list of dict(sig, ids(set|None), id_prefix, text, raw)"""
    known = []
    path = os.path.join(VERIF, 'known_findings.txt')
    if not os.path.exists(path):
        return known
    for raw in open(path):
        line = raw.strip()
        if not line.startswith('known:'):
            continue
        body, _, text = line[len('known:'):].partition(' -- ')
        kv = dict(tok.split('=', 1) for tok in body.split() if '=' in tok)
        if kv.get('property') != prop:
            continue
        ids = None
        if 'ids' in kv:
            f = kv['ids']
            if f.startswith('@'):
                with open(os.path.join(VERIF, f[1:])) as fh:
                    ids = set(l.strip() for l in fh if l.strip())
            else:
                ids = set(f.split(','))
        elif 'id' in kv:
            ids = {kv['id']}
        known.append(dict(sig=kv.get('sig'), ids=ids, text=text.strip(), hits=0))
    return known


def main():
    ap = argparse.ArgumentParser()
    ap.add_argument('prop', nargs='?')
    ap.add_argument('--tier', default=os.environ.get('VERIF_TIER', 'quick'))
    ap.add_argument('--replay')
    ap.add_argument('--repo', default=os.environ.get('VERIF_REPO', '/repo'))
    ap.add_argument('--build-all', action='store_true')
    ap.add_argument('--groups', help='comma list: only these groups (development aid; evidence marked partial)')
    ap.add_argument('--dump-fails', help='write all failing (sig, id) pairs to this file (development aid)')
    ap.add_argument('--no-evidence', action='store_true')
    a = ap.parse_args()
    seed = int(os.environ.get('VERIF_SEED', '0') or 0)
    t_start = time.time()
    inc_hash = repo_include_hash(a.repo)
    eng_hash = engine_hash()

    if a.build_all:
        tus = []
        for pid, c in sorted(REG.CHECKS.items()):
            if pid in REG.CLAIMED:
                tus += c['tus']
        ok = True
        with cf.ThreadPoolExecutor(NPROC) as ex:
            for tu, (path, dt, cached) in zip(tus, ex.map(lambda t: build_tu(t, a.repo, inc_hash, eng_hash), tus)):
                print('%-28s %s %.1fs' % (tu['name'], 'cached' if cached else ('built' if path else 'FAILED'), dt))
                ok = ok and path is not None
        return 0 if ok else 2

    chk = REG.CHECKS[a.prop]
    pid = a.prop
    replay = None
    if a.replay:
        replay = json.load(open(a.replay))
        a.tier = replay.get('tier', a.tier)

    # ---- build
    need = set(r['tu'] for r in chk['runs'][a.tier])
    if replay: need = {replay['tu']}
    tus = [t for t in chk['tus'] if t['name'] in need]
    bins = {}
    t0 = time.time()
    with cf.ThreadPoolExecutor(NPROC) as ex:
        for tu, (path, dt, cached) in zip(tus, ex.map(lambda t: build_tu(t, a.repo, inc_hash, eng_hash), tus)):
            if path is None:
                # a harness that no longer compiles against the tree is a broken check, not a verdict
                print('BUILD-ERROR property=%s tu=%s' % (pid, tu['name']))
                return 2
            bins[tu['name']] = path
    build_s = time.time() - t0

    # ---- jobs
    jobs = []
    budget = chk.get('deadline', {}).get(a.tier, 3000)
    if replay:
        jobs.append(dict(bin=bins[replay['tu']], tu=replay['tu'], group=replay['group'], bounds=replay['bounds'],
                         shard=replay['shard'], nshards=replay['nshards'], only=replay['id'], timeout=budget,
                         seed=replay.get('seed', 0), env=replay.get('env', {})))
    else:
        for r in chk['runs'][a.tier]:
            if a.groups and r['group'] not in a.groups.split(','):
                continue
            n = r.get('shards', 1)
            for i in range(n):
                jobs.append(dict(bin=bins[r['tu']], tu=r['tu'], group=r['group'], bounds=r.get('bounds', {}),
                                 shard=i, nshards=n, timeout=budget + 60, deadline=budget, seed=seed,
                                 env=r.get('env', {})))
    results = []
    with cf.ThreadPoolExecutor(NPROC) as ex:
        results = list(ex.map(run_one, jobs))

    # ---- merge
    tot = dict(evaluations=0, nontrivial=0, states=0, transitions=0, traces=0, san_reports=0)
    witness, counters, samples, exhaustive = {}, {}, [], True
    fails = []   # (id, sig, detail, job)
    per_group = {}
    for res in results:
        j = res['job']
        gname = '%s:%s' % (j['tu'], j['group'])
        for f in res['fails']:
            fails.append((f['id'], f['sig'], f.get('detail', ''), j))
        s = res['summary']
        if res['rc'] == -999:
            exhaustive = False
            fails.append(('%s/shard%d' % (gname, j['shard']), 'harness-timeout', 'no result within %ds' % j['timeout'], j))
        elif s is None:
            cur = (res['fatal'] or {}).get('cur', '')
            sig = 'fatal:' + (res['fatal'] or {}).get('signal', 'rc=%s' % res['rc'])
            fails.append(('%s/shard%d/%s' % (gname, j['shard'], cur), sig, res['stderr'][-400:], j))
            exhaustive = False
        if s:
            for k in tot: tot[k] += s.get(k, 0)
            for k, v in s['witness'].items(): witness[k] = witness.get(k, 0) + v
            for k, v in s['counters'].items(): counters[k] = counters.get(k, 0) + v
            for x in s['samples'][:4]:
                x = '[%s] %s' % (j['group'], x)
                if x not in samples and sum(1 for y in samples if y.startswith('[%s]' % j['group'])) < 6:
                    samples.append(x)
            exhaustive = exhaustive and s['exhaustive']
            g = per_group.setdefault(gname, dict(evaluations=0, nontrivial=0, failures=0, bounds=j['bounds'], wall_s=0.0))
            g['evaluations'] += s['evaluations']; g['nontrivial'] += s['nontrivial']; g['failures'] += s['failures']
            g['wall_s'] = round(max(g['wall_s'], res['wall']), 2)

    # ---- vacuity: witnesses the design says must be non-zero
    vac = []
    if not replay and not a.groups:
        for wname in chk.get('witnesses_required', {}).get(a.tier, chk.get('witnesses_required', {}).get('all', [])):
            if witness.get(wname, 0) <= 0:
                vac.append(wname)

    # ---- known findings
    known = load_known(pid)
    new = []
    for (fid, sig, detail, j) in fails:
        hit = None
        for k in known:
            if k['sig'] == sig and (k['ids'] is None or fid in k['ids']):
                hit = k; break
        if hit: hit['hits'] += 1
        else: new.append((fid, sig, detail, j))
    if a.dump_fails:
        with open(a.dump_fails, 'w') as fh:
            for (fid, sig, detail, j) in sorted(set((f[0], f[1], '', None) for f in fails)):
                fh.write('%s\t%s\n' % (sig, fid))
    for k in known:
        if k['hits']:
            print('KNOWN-FINDING: property=%s %s [sig=%s, %d case(s) this run]' % (pid, k['text'], k['sig'], k['hits']))

    # ---- replays + verdict
    rc = 0
    viol_sigs = {}
    for (fid, sig, detail, j) in new:
        viol_sigs.setdefault(sig, []).append((fid, detail, j))
    if new and not replay:
        rdir = os.path.join(VERIF, 'replays', pid)
        os.makedirs(rdir, exist_ok=True)
        n = 0
        for sig, lst in sorted(viol_sigs.items()):
            for (fid, detail, j) in lst[:5]:      # at most 5 replay files per signature class
                n += 1
                path = os.path.join(rdir, '%s-%d.json' % (a.tier, n))
                with open(path, 'w') as fh:
                    json.dump(dict(property=pid, tier=a.tier, tu=j['tu'], group=j['group'], bounds=j['bounds'],
                                   shard=j['shard'], nshards=j['nshards'], id=fid, sig=sig, detail=detail,
                                   seed=j.get('seed', 0), env=j.get('env', {}),
                                   how='python3 tools/vcheck.py %s --replay %s' % (pid, path)), fh, indent=1)
                print('VIOLATION property=%s replay=%s' % (pid, path))
                print('  case=%s sig=%s %s' % (fid, sig, detail[:300]))
            if len(lst) > 5:
                print('  ... %d more case(s) with sig=%s' % (len(lst) - 5, sig))
        rc = 1
    elif new and replay:
        for (fid, sig, detail, j) in new:
            print('VIOLATION property=%s replay=%s' % (pid, a.replay))
            print('  case=%s sig=%s %s' % (fid, sig, detail[:600]))
        rc = 1
    elif replay:
        print('replay: case %s did not fail (%d evaluations)' % (replay['id'], tot['evaluations']))
    if vac:
        # a vacuous harness is a broken check: fail loudly but not as a property violation
        print('VACUOUS property=%s missing witnesses: %s' % (pid, ', '.join(vac)))
        rc = rc or 3

    wall = time.time() - t_start
    if not a.no_evidence and not replay:
        level = chk['level']
        cov = dict(evaluations=tot['evaluations'], distinct_nontrivial=tot['nontrivial'],
                   rule=chk['rule'], samples=samples[:24] or ['(none)'], exhaustive=bool(exhaustive and not a.groups),
                   bounds={'%s:%s' % (r['tu'], r['group']): r.get('bounds', {}) for r in chk['runs'][a.tier]},
                   per_group=per_group, witnesses=witness, counters=counters, sanitizer_reports=tot['san_reports'],
                   build_s=round(build_s, 1), repo_include_sha256=inc_hash[:16],
                   known_findings_matched=sum(k['hits'] for k in known),
                   failing_cases=len(fails), new_violations=len(new))
        if level == 'model_checking':
            cov.update(states=tot['states'], transitions=tot['transitions'],
                       traces_validated_against_impl=tot['traces'])
        if a.groups: cov['partial_groups'] = a.groups
        ev = dict(property_id=pid, tier=a.tier, seed=seed, level=level, coverage=cov,
                  assumptions=chk.get('assumptions', []), wall_s=round(wall, 2), violations=len(new))
        os.makedirs(os.path.join(VERIF, 'evidence'), exist_ok=True)
        with open(os.path.join(VERIF, 'evidence', pid + '.json'), 'w') as fh:
            json.dump(ev, fh, indent=1)
        if a.tier == 'thorough' and not a.groups and a.repo == '/repo':
            # the last complete thorough run is kept next to the per-property file (which the next quick run rewrites)
            os.makedirs(os.path.join(VERIF, 'evidence', 'thorough'), exist_ok=True)
            with open(os.path.join(VERIF, 'evidence', 'thorough', pid + '.json'), 'w') as fh:
                json.dump(ev, fh, indent=1)
    print('%s tier=%s evaluations=%d nontrivial=%d states=%d transitions=%d failing=%d known=%d new=%d '
          'exhaustive=%s build=%.0fs wall=%.0fs' % (pid, a.tier, tot['evaluations'], tot['nontrivial'], tot['states'],
                                                   tot['transitions'], len(fails), len(fails) - len(new), len(new),
                                                   exhaustive, build_s, wall))
    return rc


if __name__ == '__main__':
    sys.exit(main())
