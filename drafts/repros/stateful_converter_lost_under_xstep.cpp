#include <boost/gil.hpp>
#include <cstdio>
namespace gil = boost::gil;
struct gain_cc
{
    int add = 0;
    gain_cc() {}
    explicit gain_cc(int a) : add(a) {}
    template <class S, class D> void operator()(S const& s, D& d) const { gil::default_color_converter()(s, d); gil::at_c<0>(d) = (unsigned char)(gil::at_c<0>(d) + add); }
};
int main()
{
    gil::rgb8_image_t img(3, 2, gil::rgb8_pixel_t(10, 10, 10));
    auto cc = gil::color_converted_view<gil::gray8_pixel_t>(gil::const_view(img), gain_cc(5));     // every pixel 15
    auto lr = gil::flipped_left_right_view(cc); auto ud = gil::flipped_up_down_view(cc); auto tr = gil::transposed_view(cc);
    printf("cc(0,0)=%d  flipped_up_down(cc)(0,0)=%d  flipped_left_right(cc)(0,0)=%d  transposed(cc)(0,0)=%d  (all should be 15)\n",
           int(cc(0, 0)[0]), int(ud(0, 0)[0]), int(lr(0, 0)[0]), int(tr(0, 0)[0]));
    return !(lr(0, 0)[0] == 15 && tr(0, 0)[0] == 15);
}
