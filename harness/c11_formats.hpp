// c11_formats.hpp — per-format glue for the C11 fault enumeration: which GIL image type is "native" for a seed.
#pragma once
#include "c11_faults.hpp"
#include <dirent.h>
#include <sys/stat.h>
#include <ctime>

namespace c11 {

template <class Tag, class NativeImg, class DevA = DefaultDev>
void seed_units(vh::Ctx& ctx, Seed const& s, Opts const& o, bool pairs)
{
    auto unit = [&](const char* what, std::vector<Case> cases) {
        std::string u = std::string(s.name) + "/" + what;
        ctx.cur = u;
        ioc::run_unit(ctx, u, [&](Emit& e) { run_cases<Tag, NativeImg, DevA>(e, s, cases, o, s.name); }, 600.0);
    };
    if (pairs) { unit("pairs", pair_deviations(s)); return; }
    std::vector<Case> all = single_deviations(s, o.all256, true), part[3];
    for (auto& c : all) part[c.kind == 0 || c.kind == 4 ? 0 : c.kind == 1 ? 1 : 2].push_back(std::move(c));
    unit("trunc", std::move(part[0])); unit("fields", std::move(part[1])); unit("bytes", std::move(part[2]));
    ++ctx.witness[std::string("seed_variant_") + s.format + "_" + s.variant];
}

inline Opts opts_from(vh::Ctx& ctx)
{
    Opts o; o.devmask = int(ctx.B("devmask", 6)); o.all256 = ctx.B("all256", 0) != 0; o.name_dev_trunc_only = ctx.B("name_all", 0) == 0;
    return o;
}
// every `stride`-th seed of the format (stride 1 = all); the small 4x3 member of each variant comes first in the seed table
// scratch files of workers that were killed by the watchdog stay behind: drop c11-* files older than 10 minutes
inline void drop_stale_scratch()
{
    std::string d = ioc::io_dir();
    if (DIR* dir = opendir(d.c_str()))
    {
        time_t now = time(nullptr);
        while (dirent* e = readdir(dir))
        {
            if (std::strncmp(e->d_name, "c11-", 4) != 0) continue;
            std::string p = d + "/" + e->d_name; struct stat st;
            if (stat(p.c_str(), &st) == 0 && now - st.st_mtime > 600) unlink(p.c_str());
        }
        closedir(dir);
    }
}
template <class F> void for_seeds(vh::Ctx& ctx, const char* fmt, F f)
{
    drop_stale_scratch();
    long only_small = ctx.B("small_only", 0);
    for (Seed const& s : io_seeds())
    {
        if (std::string(s.format) != fmt) continue;
        // the smallest member of every variant + the wide-row seeds + the PNM seeds with header comments (truncations inside a comment)
        if (only_small && !((s.w <= 5 && s.h <= 3) || s.w >= 17 || std::strstr(s.name, "_cmt"))) continue;
        if (!ctx.take()) continue;
        f(s);
        if (ctx.timed_out()) return;
    }
}

} // namespace c11
