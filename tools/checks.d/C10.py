# registry fragment for C10 — image operation-history search (harness/c10_image.cpp)
_C10_GROUPS = ['rgb8_stateless', 'rgb8_propagating', 'rgb8_sticky', 'planar_stateless', 'planar_sticky', 'gray16_propagating',
               'counting_stateless', 'counting_sticky', 'bits1_stateless', 'bits1_sticky']
def _c10_runs(bounds, shards, tus=('c10_cxx14', 'c10_cxx17'), groups=None):
    return [dict(tu=t, group=g, bounds=dict(bounds), shards=shards) for t in tus for g in (groups or _C10_GROUPS)]

CHECKS['C10'] = dict(
    level='model_checking',
    technique='explicit-state breadth-first search over operation histories of the real image class (replay on fresh objects, canonical-state deduplication), ledger allocator + element census + ASan monitors, fault injection at every allocation/constructor call of every transition',
    rule='state = two image slots (alive, dims, alignment, allocator id, capacity, contents) + ledger of live allocations + element census; alphabet: ctor(dims,align,alloc), ctor+fill, '
         'default ctor, copy/move/converting/view ctor, destroy, copy/self/converting assignment, move and self-move assignment, recreate x4 overloads (dims, align, fill, allocator), '
         'member and free swap, poke; dims from {0x0,1x1,3x2,2x3,4x4,..}, alignments per bound; configurations: rgb8 interleaved/planar, gray16, a counting non-trivial element, bit-aligned gray1 '
         'x allocator kinds {stateless, stateful propagating, stateful sticky with two ids} x {-std=c++14, -std=c++17}. Every history up to the depth bound is replayed on fresh objects; after every '
         'transition: ledger consistent (size+allocator of every deallocate), every image owns exactly one live block of the size it recorded held by its own allocator, rows inside the block and aligned, '
         'dims/contents equal the value model, recreate reuses storage that is large enough, census == number of pixels, and a final destroy-all leaves ledger and census empty. Deviation bound 1: '
         'each transition is re-run once per allocation / element-construction point with that call throwing. evaluations = executions (fault-free + fault runs); non-trivial = distinct canonical states.',
    assumptions=ASSUME_COMMON + ['what the pixels hold after a fill-constructor / recreate-with-fill is observed (evidence counters) but not judged: the statement does not say',
                                 'swap of two images whose non-propagating allocators differ is outside the alphabet (undefined for any allocator-aware container)',
                                 'row alignment is checked after construction with an alignment and after recreate only'],
    tus=[dict(name='c10_cxx14', src='harness/c10_image.cpp', std='c++14'), dict(name='c10_cxx17', src='harness/c10_image.cpp', std='c++17')],
    runs=dict(quick=_c10_runs(dict(depth=3, ndims=3, aligns=2, faults=1), 2),
              thorough=_c10_runs(dict(depth=3, ndims=5, aligns=3, faults=1, misalign=1), 16, tus=('c10_cxx17',)) +
                       _c10_runs(dict(depth=4, ndims=3, aligns=2, faults=1), 16, tus=('c10_cxx14', 'c10_cxx17'), groups=['rgb8_sticky', 'counting_sticky', 'planar_sticky', 'rgb8_propagating'])),
    witnesses_required=dict(all=['alloc_faults_fired', 'ctor_faults_fired', 'move_assign', 'recreate', 'recreate_reuse_expected', 'recreate_realloc_expected', 'post_fault_followups', 'recreate_retried_after_failed_recreate']),
    deadline=dict(quick=900, thorough=7200),
)
