// F6 repro: g++ -std=c++14 -I/repo/include F6_repro.cpp && ./a.out
// bresenham_line_rasterizer (0,0)->(7,1) emits (6,2): outside the end points' bounding box [0,7]x[0,1]
// and 1.14 px from the segment; apply_rasterizer on an 8x2 image therefore writes past the buffer.
#include <boost/gil.hpp>
#include <boost/gil/extension/rasterization/line.hpp>
#include <cstdio>
#include <vector>
namespace gil = boost::gil;
int main()
{
    gil::bresenham_line_rasterizer r({0, 0}, {7, 1});
    std::vector<gil::point_t> p(r.point_count());
    r(p.begin());
    int bad = 0;
    for (auto q : p) { printf("(%td,%td)%s ", q.x, q.y, (q.y < 0 || q.y > 1) ? "<-OUTSIDE" : ""); bad += q.y < 0 || q.y > 1; }
    printf("\n%d point(s) outside the bounding box\n", bad);
    // the same through apply_rasterizer: gil::gray8_image_t im(8, 2); gil::apply_rasterizer(gil::view(im), r, gil::gray8_pixel_t(255));
    // -> ASan: heap-buffer-overflow WRITE of size 1, 6 bytes past the 16-byte image (view(6,2)).
    return bad ? 1 : 0;
}
