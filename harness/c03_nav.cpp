// C03 — all navigation paths over a view reach the same pixel; iterator/locator laws (DESIGN.md §2 C03)
#include "vs_c03.hpp"
using namespace vs;
#define VS_POLICY C03Policy
#define VS_UBSAN false
#include "vs_groups.hpp"
VH_MAIN
