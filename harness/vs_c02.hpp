// vs_c02.hpp — the C02 oracle evaluated in every state of the view search:
//  (1) documented dimensions; (2) for every (x,y) the pixel read through the view is the raw-model
//  content of source pixel M(x,y) and (where the reference is addressable) every channel reference
//  points at the raw-model bit position of that source channel; (3) writing through a mutable view
//  changes exactly the raw-model footprint of M(x,y) [channel k] and nothing else in the whole
//  buffer; (4) the algebraic identities, compared pixel-by-pixel.
#pragma once
#include "vs_explore.hpp"

namespace vs {

// source pixel type seen by a colour conversion: the whole pixel, or (channel views) a gray pixel of the channel type
template <class Full, bool ChannelView> struct src_pixel_of { using type = Full; };
template <class Full> struct src_pixel_of<Full, true> { using type = gil::pixel<typename gil::channel_type<Full>::type, gil::gray_layout_t>; };

// pixel-by-pixel equality of two views (addresses where addressable, values otherwise)
template <bool Addressable, class VA, class VB>
inline bool same_pixels(unsigned char const* base, VA const& a, VB const& b)
{
    if (a.width() != b.width() || a.height() != b.height()) return false;
    bool ok = true;
    for (long y = 0; y < a.height() && ok; ++y) for (long x = 0; x < a.width() && ok; ++x)
    {
        auto&& pa = a(x, y); auto&& pb = b(x, y);
        std::vector<long> posa, posb; std::vector<uint64_t> va, vb;
        for_channels(pa, [&](int, auto&& ch) { va.push_back(chan_pattern(ch)); if (Addressable) posa.push_back(chan_refpos(base, ch)); });
        for_channels(pb, [&](int, auto&& ch) { vb.push_back(chan_pattern(ch)); if (Addressable) posb.push_back(chan_refpos(base, ch)); });
        ok = va == vb && posa == posb;
    }
    return ok;
}

struct C02Policy
{
    static constexpr bool allow_conv = true;
    template <class Org, class V, int Ch, bool Conv>
    static void visit(vh::Ctx& ctx, Root<Org>& root, V const& v, Model const& m, std::string const& id)
    {
        ++ctx.evaluations;
        if (m.w > 0 && m.h > 0) ++ctx.nontrivial;
        if (long(v.width()) != m.w || long(v.height()) != m.h)
        {
            ctx.fail(id, "dimensions", vh::S() << "view " << v.width() << "x" << v.height() << " model " << m.w << "x" << m.h);
            return;
        }
        if (m.w <= 0 || m.h <= 0) { ++ctx.counters["empty_states"]; identities<Org, V, Ch, Conv>(ctx, root, v, id); return; }
        for (long y = 0; y < m.h; ++y) for (long x = 0; x < m.w; ++x)
            if (!root.in_source(m.sx(x, y), m.sy(x, y))) { ctx.fail(id, "harness-model-outside-source", ""); return; }
        read_check<Org, V, Ch>(ctx, root, v, m, id, std::integral_constant<bool, Conv>());
        write_check<Org, V, Ch>(ctx, root, v, m, id, std::integral_constant<bool, (!Conv && gil::view_is_mutable<V>::value)>());
        identities<Org, V, Ch, Conv>(ctx, root, v, id);
        if (m.a < 0 || m.b < 0 || m.c < 0 || m.d < 0) ++ctx.witness["negative_step_states"];
        if (m.b != 0 || m.c != 0) ++ctx.witness["transposed_states"];
        if (m.k >= 0) ++ctx.witness["channel_states"];
        if (Conv) ++ctx.witness["converted_states"];
        if (labs(m.a) + labs(m.b) > 1 || labs(m.c) + labs(m.d) > 1) ++ctx.witness["subsampled_states"];
        ctx.sample(id + " " + m.key());
    }

    // ---- (2) plain / channel views: value and address of every channel of every pixel
    template <class Org, class V, int Ch>
    static void read_check(vh::Ctx& ctx, Root<Org>& root, V const& v, Model const& m, std::string const& id, std::false_type)
    {
        int bad = 0;
        for (long y = 0; y < m.h && bad < 3; ++y) for (long x = 0; x < m.w && bad < 3; ++x)
        {
            long sx = m.sx(x, y), sy = m.sy(x, y);
            auto&& ref = v(x, y);
            for_channels(ref, [&](int i, auto&& ch) {
                int sc = Ch ? m.k : i;
                uint64_t got = chan_pattern(ch), want = root.tag(sx, sy, sc);
                long pos = Org::addressable ? chan_refpos(root.base(), ch) : -1, wpos = Org::chan_bitpos(root.g, sx, sy, sc);
                ++ctx.counters["pixel_channel_reads"];
                if (got != want && bad++ < 3)
                    ctx.fail(id, "wrong-pixel-value", vh::S() << "(" << x << "," << y << ") ch" << i << " should be source (" << sx << "," << sy << ") ch" << sc << ": got " << got << " want " << want);
                if (pos >= 0 && pos != wpos && bad++ < 3)
                    ctx.fail(id, "wrong-pixel-address", vh::S() << "(" << x << "," << y << ") ch" << i << " refers to bit " << pos << ", source (" << sx << "," << sy << ") ch" << sc << " is at bit " << wpos);
            });
        }
    }
    // ---- (2) colour-converted views: value equals color_convert of the raw-model source pixel
    template <class SrcP, class Org> static SrcP model_pixel(Root<Org>& root, long sx, long sy, int k)
    {
        SrcP p;
        for_channels(p, [&](int i, auto&& ch) { chan_assign(ch, root.tag(sx, sy, k >= 0 ? k : i)); });
        return p;
    }
    template <class Org, class V, int Ch>
    static void read_check(vh::Ctx& ctx, Root<Org>& root, V const& v, Model const& m, std::string const& id, std::true_type)
    {
        using full_t = typename Org::view_t::value_type;
        using SrcP = typename src_pixel_of<full_t, Ch == 1>::type;
        using DstP = typename conv_dst<SrcP>::type;
        int bad = 0;
        for (long y = 0; y < m.h && bad < 3; ++y) for (long x = 0; x < m.w && bad < 3; ++x)
        {
            long sx = m.sx(x, y), sy = m.sy(x, y);
            SrcP s = model_pixel<SrcP>(root, sx, sy, Ch == 1 ? m.k : -1);
            DstP e; const BiasedCC cc(CONV_BIAS); cc(s, e);      // the converter the view was built with (vs_explore.hpp)
            std::vector<uint64_t> want, got;
            for_channels(e, [&](int i, auto&& ch) { if (Ch != 2 || i == m.k2) want.push_back(chan_pattern(ch)); });
            auto px = v(x, y);
            for_channels(px, [&](int, auto&& ch) { got.push_back(chan_pattern(ch)); });
            ++ctx.counters["converted_pixel_reads"];
            if (got != want && bad++ < 3)
                ctx.fail(id, "wrong-converted-pixel", vh::S() << "(" << x << "," << y << ") should be color_convert of source (" << sx << "," << sy << ")");
        }
    }

    // ---- (3) write through the view: exactly the footprint of the corresponding source pixel changes
    template <class Org, class V, int Ch>
    static void write_check(vh::Ctx&, Root<Org>&, V const&, Model const&, std::string const&, std::false_type) {}
    template <class Org, class V, int Ch>
    static void write_check(vh::Ctx& ctx, Root<Org>& root, V const& v, Model const& m, std::string const& id, std::true_type)
    {
        std::vector<unsigned char> snap(root.base(), root.base() + root.g.bytes), want;
        int bad = 0;
        for (long y = 0; y < m.h && bad < 3; ++y) for (long x = 0; x < m.w && bad < 3; ++x)
        {
            long sx = m.sx(x, y), sy = m.sy(x, y);
            want = snap;
            auto&& ref = v(x, y);
            for_channels(ref, [&](int i, auto&& ch) {
                int sc = Ch ? m.k : i;
                uint64_t nv = root.tag(sx, sy, sc, true);
                chan_assign(ch, nv);
                poke_bits(want.data(), Org::chan_bitpos(root.g, sx, sy, sc), Org::chan_bits(sc), nv);
            });
            ++ctx.counters["pixel_writes"];
            if (std::memcmp(want.data(), root.base(), root.g.bytes) != 0 && bad++ < 3)
            {
                size_t i = 0; while (i < root.g.bytes && want[i] == root.base()[i]) ++i;
                ctx.fail(id, "write-footprint", vh::S() << "write through (" << x << "," << y << ") -> source (" << sx << "," << sy << "): buffer differs from model at byte " << i
                                                             << " (got " << int(root.base()[i]) << " want " << int(want[i]) << ")");
            }
            std::memcpy(root.base(), snap.data(), root.g.bytes);
        }
    }

    // ---- (4) identities, pixel by pixel
    template <class Org, class V, int Ch, bool Conv>
    static void identities(vh::Ctx& ctx, Root<Org>& root, V const& v, std::string const& id)
    {
        unsigned char const* b = root.base();
        constexpr bool A = !Conv && Org::addressable;
        if (!same_pixels<A>(b, gil::flipped_up_down_view(gil::flipped_up_down_view(v)), v)) ctx.fail(id, "identity:flipUD.flipUD");
        if (!same_pixels<A>(b, gil::flipped_left_right_view(gil::flipped_left_right_view(v)), v)) ctx.fail(id, "identity:flipLR.flipLR");
        if (!same_pixels<A>(b, gil::transposed_view(gil::transposed_view(v)), v)) ctx.fail(id, "identity:transposed.transposed");
        if (!same_pixels<A>(b, gil::rotated90cw_view(gil::rotated90cw_view(gil::rotated90cw_view(gil::rotated90cw_view(v)))), v)) ctx.fail(id, "identity:rot90cw^4");
        if (!same_pixels<A>(b, gil::rotated180_view(v), gil::flipped_left_right_view(gil::flipped_up_down_view(v)))) ctx.fail(id, "identity:rot180=flipLR.flipUD");
        if (!same_pixels<A>(b, gil::rotated90ccw_view(gil::rotated90cw_view(v)), v)) ctx.fail(id, "identity:ccw.cw");
        ctx.counters["identity_checks"] += 6;
    }
};

} // namespace vs
