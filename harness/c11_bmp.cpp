// C11 for BMP
#include "c11_formats.hpp"
#include <boost/gil/extension/io/bmp.hpp>
using namespace c11;
static bool native_is_rgba(Seed const& s)
{
    int bpp = s.prop("bpp"), hs = s.prop("header_size"), comp = s.prop("compression");
    if (bpp <= 8) return hs == 40 && comp != 1 && comp != 2;
    return bpp == 32;
}
static void go(vh::Ctx& ctx, bool pairs)
{
    vh::ubsan_counts() = true;
    Opts o = opts_from(ctx);
    for_seeds(ctx, "bmp", [&](Seed const& s) {
        if (native_is_rgba(s)) seed_units<gil::bmp_tag, gil::rgba8_image_t>(ctx, s, o, pairs);
        else seed_units<gil::bmp_tag, gil::rgb8_image_t>(ctx, s, o, pairs);
    });
}
VH_GROUP(single) { go(ctx, false); }
VH_GROUP(pairs) { go(ctx, true); }
VH_MAIN
