// vs_explore.hpp — explicit-state search over the views derivable from a root view (C01/C02/C03).
// A state is a live GIL view (of whatever static type the factories returned) plus the model's affine
// index map; a transition calls one real view factory and steps the model by the documented formula.
// States are deduplicated on (view type, model key, concrete locator representation); the search is
// breadth-first, so the first counterexample is the shortest.  The static type closure is finite:
// memory-based views close under the factories after one step (V0 / x-step variant, channel views,
// adapted views); type-growing factories (color_converted, nth_channel of an adapted view) are limited
// at compile time by the Conv / Ch template flags.
#pragma once
#include "vh.hpp"
#include "guard.hpp"
#include "vs_orgs.hpp"
#include <deque>
#include <memory>
#include <map>
#include <set>
#include <typeinfo>

namespace vs {

// ---------- colour-converted views: destination pixel type and converter
// The destination of a multi-channel source has several channels with distinct values (rgb8; bgr8 for an rgb8 source), so that
// nth_channel_view(converted, k >= 1) can be told from channel 0.  The converter carries run-time state (bias) that a
// default-constructed converter does not have: a factory that rebuilds a dereference adaptor with DFn() instead of copying its
// function object yields different pixel values.
template <class SrcValue, bool Multi = (gil::num_channels<SrcValue>::value > 1)> struct conv_dst
{
    using type = typename std::conditional<std::is_same<SrcValue, gil::gray8_pixel_t>::value, gil::rgb8_pixel_t, gil::gray8_pixel_t>::type;
};
template <class SrcValue> struct conv_dst<SrcValue, true>
{
    using type = typename std::conditional<std::is_same<SrcValue, gil::rgb8_pixel_t>::value, gil::bgr8_pixel_t, gil::rgb8_pixel_t>::type;
};
struct BiasedCC
{
    int bias = 0;
    BiasedCC() {}
    explicit BiasedCC(int b) : bias(b) {}
    template <class S, class D> void operator()(S const& s, D& d) const
    {
        gil::default_color_converter()(s, d);
        gil::at_c<0>(d) = static_cast<typename gil::channel_type<D>::type>(gil::at_c<0>(d) ^ bias);      // destinations are 8-bit unsigned
    }
};
static const int CONV_BIAS = 0x2D;

// ---------- root: exactly-sized storage, tagged through the raw model (no GIL involved)
template <class Org> struct Root
{
    Geo g; int padmode;
    std::unique_ptr<vh::GuardBuf> buf;
    typename Org::view_t v0;
    Root(long w, long h, int pm) : g(Org::geo(w, h, pm)), padmode(pm)
    {
        buf.reset(new vh::GuardBuf(g.bytes, 0x5A));
        retag();
        v0 = Org::make(buf->data(), g);
    }
    unsigned char* base() { return buf->data(); }
    uint64_t tag(long x, long y, int c, bool alt = false) const { return tag_impl(x, y, c, alt, std::integral_constant<bool, Org::addressable>()); }
    uint64_t tag_impl(long x, long y, int c, bool alt, std::true_type) const { return tag_pattern(g.w, Org::NCH, x, y, c, Org::chan_bits(c), Org::is_float, alt); }
    uint64_t tag_impl(long x, long y, int c, bool, std::false_type) const { return Org::vtag(x, y, c); }
    void retag() { retag_impl(std::integral_constant<bool, Org::addressable>()); }
    void retag_impl(std::false_type) {}
    void retag_impl(std::true_type)
    {
        for (long y = 0; y < g.h; ++y) for (long x = 0; x < g.w; ++x) for (int c = 0; c < Org::NCH; ++c)
            poke_bits(buf->data(), Org::chan_bitpos(g, x, y, c), Org::chan_bits(c), tag(x, y, c));
    }
    bool in_source(long x, long y) const { return x >= 0 && y >= 0 && x < g.w && y < g.h; }
};

// ---------- concrete representation of a view's locator (for deduplication only)
template <class T> inline long iter_pos(unsigned char const* b, T* p);
template <class CP, class CS> inline long iter_pos(unsigned char const* b, gil::planar_pixel_iterator<CP, CS> const& it);
template <class R> inline long iter_pos(unsigned char const* b, gil::bit_aligned_pixel_iterator<R> const& it);
template <class It> inline long iter_pos(unsigned char const* b, gil::memory_based_step_iterator<It> const& it);
template <class It, class D> inline long iter_pos(unsigned char const* b, gil::dereference_iterator_adaptor<It, D> const& it);
template <class T> inline long iter_pos(unsigned char const* b, T* p) { return long(reinterpret_cast<unsigned char const*>(p) - b) * 8; }
template <class CP, class CS> inline long iter_pos(unsigned char const* b, gil::planar_pixel_iterator<CP, CS> const& it) { return iter_pos(b, gil::at_c<0>(it)); }
template <class R> inline long iter_pos(unsigned char const* b, gil::bit_aligned_pixel_iterator<R> const& it)
{ return long(it.bit_range().current_byte() - b) * 8 + it.bit_range().bit_offset(); }
template <class It> inline long iter_pos(unsigned char const* b, gil::memory_based_step_iterator<It> const& it) { return iter_pos(b, it.base()); }
template <class It, class D> inline long iter_pos(unsigned char const* b, gil::dereference_iterator_adaptor<It, D> const& it) { return iter_pos(b, it.base()); }

template <class V> inline std::string concrete_key(unsigned char const* b, V const& v)
{
    std::ostringstream o;
    o << iter_pos(b, v.pixels().x()) << '/' << v.pixels().pixel_size() << '/' << v.pixels().row_size() << '/' << v.width() << 'x' << v.height();
    return o.str();
}

// virtual (function-backed) views: position and step of the locator in function coordinates
template <class D, bool T> inline std::string concrete_key(unsigned char const*, gil::image_view<gil::virtual_2d_locator<D, T>> const& v)
{
    std::ostringstream o;
    o << "v" << int(T) << ":" << v.pixels().pos().x << "," << v.pixels().pos().y << "/" << v.pixels().step().x << "," << v.pixels().step().y << "/" << v.width() << 'x' << v.height();
    return o.str();
}

inline int& type_counter() { static int c = 0; return c; }
template <class V> inline int type_id() { static int id = type_counter()++; return id; }

struct Limits
{
    int depth = 3;
    int subimage_mode = 1;   // 0 none, 1 corner-anchored + 1-inset, 2 every sub-rectangle
    int max_sub = 3;         // subsample steps 1..max_sub
    bool conv = true, chan = true;
    bool probe = false;      // expand the nodes at the depth limit once more, only to count successors that were never seen
};

template <class Org, class Policy> struct Explorer;

template <class Org, class Policy> struct NodeBase
{
    Model m; std::string path; int depth = 0;
    virtual ~NodeBase() {}
    virtual void visit(Explorer<Org, Policy>&) = 0;
    virtual void expand(Explorer<Org, Policy>&) = 0;
};

template <class Org, class Policy> struct Explorer
{
    vh::Ctx& ctx; Root<Org>& root; Limits lim;
    std::deque<std::unique_ptr<NodeBase<Org, Policy>>> queue;
    std::set<std::string> seen;
    std::map<std::string, std::string> model2concrete;
    std::string rootid;
    long states = 0, transitions = 0;
    // closure probe: nodes at the depth limit are expanded once more only to ask whether every successor was already seen;
    // beyond == 0 for a root means the search reached a fixpoint (every sequence of any length leads to a state that was checked)
    bool probing = false; long beyond = 0;

    Explorer(vh::Ctx& c, Root<Org>& r, Limits l) : ctx(c), root(r), lim(l)
    {
        rootid = std::string(Org::name()) + "/" + std::to_string(r.g.w) + "x" + std::to_string(r.g.h) + "p" + std::to_string(r.padmode);
    }
    template <class V, int Ch, bool Conv> void push(V const& v, Model const& m, std::string const& path, int depth);
    void run()
    {
        while (!queue.empty())
        {
            std::unique_ptr<NodeBase<Org, Policy>> n = std::move(queue.front());
            queue.pop_front();
            n->visit(*this);
            if (n->depth < lim.depth) n->expand(*this);
            else if (lim.probe) { probing = true; n->expand(*this); probing = false; }
        }
        ctx.states += states; ctx.transitions += transitions;
        if (!lim.probe) {}
        else if (beyond == 0) ++ctx.witness["roots_closed_under_all_transformations"];
        else { ++ctx.counters["roots_cut_at_depth_limit"]; ctx.counters["unseen_successors_beyond_depth_limit"] += beyond; }
    }
};

template <class Org, class Policy, class V, int Ch, bool Conv> struct Node : NodeBase<Org, Policy>
{
    V v;
    using Ex = Explorer<Org, Policy>;
    Node(V const& vv) : v(vv) {}
    std::string id(Ex& ex) const { return ex.rootid + "/" + (this->path.empty() ? "id" : this->path); }
    void visit(Ex& ex) override { Policy::template visit<Org, V, Ch, Conv>(ex.ctx, ex.root, v, this->m, id(ex)); }

    template <class V2> void go(Ex& ex, V2 const& v2, Model const& m2, const char* op) { ex.template push<V2, Ch, Conv>(v2, m2, this->path + (this->path.empty() ? "" : ".") + op, this->depth + 1); }
    template <class V2> void go(Ex& ex, V2 const& v2, Model const& m2, std::string const& op) { go(ex, v2, m2, op.c_str()); }

    void expand(Ex& ex) override
    {
        Model const& m = this->m;
        go(ex, gil::flipped_up_down_view(v), m.flip_ud(), "ud");
        go(ex, gil::flipped_left_right_view(v), m.flip_lr(), "lr");
        go(ex, gil::transposed_view(v), m.transposed(), "tr");
        go(ex, gil::rotated90cw_view(v), m.rot90cw(), "cw");
        go(ex, gil::rotated90ccw_view(v), m.rot90ccw(), "ccw");
        go(ex, gil::rotated180_view(v), m.rot180(), "r180");
        for (long sx = 1; sx <= ex.lim.max_sub; ++sx) for (long sy = 1; sy <= ex.lim.max_sub; ++sy)
        {
            if (sx == 1 && sy == 1) continue;
            go(ex, gil::subsampled_view(v, sx, sy), m.subsampled(sx, sy), vh::S() << "ss" << sx << sy);
        }
        if (ex.lim.subimage_mode)
        {
            for (long x0 = 0; x0 <= m.w; ++x0) for (long y0 = 0; y0 <= m.h; ++y0)
                for (long w2 = 0; w2 <= m.w - x0; ++w2) for (long h2 = 0; h2 <= m.h - y0; ++h2)
                {
                    if (x0 == 0 && y0 == 0 && w2 == m.w && h2 == m.h) continue;
                    if (ex.lim.subimage_mode == 1)
                    {
                        // corner-anchored rectangles one smaller, the 1-inset rectangle, and the empty ones at a corner
                        bool corner = (x0 == 0 || x0 + w2 == m.w) && (y0 == 0 || y0 + h2 == m.h) && (w2 == m.w - 1 || w2 == m.w) && (h2 == m.h - 1 || h2 == m.h);
                        bool inset = x0 == 1 && y0 == 1 && w2 == m.w - 2 && h2 == m.h - 2;
                        bool empty_corner = (w2 == 0 || h2 == 0) && x0 == 0 && y0 == 0 && (w2 == m.w || h2 == m.h);
                        if (!(corner || inset || empty_corner)) continue;
                    }
                    go(ex, gil::subimage_view(v, x0, y0, w2, h2), m.subimage(x0, y0, w2, h2), vh::S() << "sub" << x0 << y0 << w2 << h2);
                }
        }
        expand_chan(ex, std::integral_constant<bool, (Org::has_nth && Ch == 0)>());
        expand_chan0(ex, std::integral_constant<bool, (Org::has_nth && Ch == 1 && !Conv)>());
        expand_conv(ex, std::integral_constant<bool, (!Conv && Policy::allow_conv)>());
    }
    void expand_chan(Ex&, std::false_type) {}
    void expand_chan(Ex& ex, std::true_type)
    {
        if (!ex.lim.chan) return;
        for (int k = 0; k < int(gil::num_channels<V>::value); ++k)
        {
            auto v2 = gil::nth_channel_view(v, k);
            ex.template push<decltype(v2), (Conv ? 2 : 1), Conv>(v2, Conv ? this->m.channel2(k) : this->m.channel(k), this->path + (this->path.empty() ? "" : ".") + "ch" + std::to_string(k), this->depth + 1);
        }
        expand_kth(ex, std::integral_constant<bool, !Conv>());
    }
    void expand_kth(Ex&, std::false_type) {}
    void expand_kth(Ex& ex, std::true_type)
    {
        // kth_channel_view<K> for the last channel (static index)
        constexpr int K = int(gil::num_channels<V>::value) - 1;
        auto v2 = gil::kth_channel_view<K>(v);
        ex.template push<decltype(v2), 1, Conv>(v2, this->m.channel(K), this->path + (this->path.empty() ? "" : ".") + "kth" + std::to_string(K), this->depth + 1);
    }
    void expand_chan0(Ex&, std::false_type) {}
    void expand_chan0(Ex& ex, std::true_type)
    {
        if (!ex.lim.chan) return;
        auto v2 = gil::nth_channel_view(v, 0);
        ex.template push<decltype(v2), 1, Conv>(v2, this->m, this->path + (this->path.empty() ? "" : ".") + "ch0", this->depth + 1);
    }
    void expand_conv(Ex&, std::false_type) {}
    void expand_conv(Ex& ex, std::true_type)
    {
        if (!ex.lim.conv) return;
        using DstP = typename conv_dst<typename V::value_type>::type;
        auto v2 = gil::color_converted_view<DstP>(v, BiasedCC(CONV_BIAS));
        ex.template push<decltype(v2), Ch, true>(v2, this->m.converted(), this->path + (this->path.empty() ? "" : ".") + "cc", this->depth + 1);
    }
};

template <class Org, class Policy>
template <class V, int Ch, bool Conv>
void Explorer<Org, Policy>::push(V const& v, Model const& m, std::string const& path, int depth)
{
    std::string mk = std::to_string(type_id<V>()) + ":" + m.key();
    std::string ck = concrete_key(root.base(), v);
    std::string key = mk + "|" + ck;
    if (probing) { if (!seen.count(key)) ++beyond; return; }
    ++transitions;
    auto it = model2concrete.find(mk);
    if (it == model2concrete.end()) model2concrete[mk] = ck;
    else if (it->second != ck) ++ctx.counters["same_model_different_representation"];
    if (!seen.insert(key).second) { ++ctx.counters["merged"]; return; }
    ++states;
    std::unique_ptr<Node<Org, Policy, V, Ch, Conv>> n(new Node<Org, Policy, V, Ch, Conv>(v));
    n->m = m; n->path = path; n->depth = depth;
    queue.push_back(std::move(n));
}

// Enumerate roots: every shape (w,h) in 0..N squared x pad modes, one explorer each (one shard unit each)
template <class Org, class Policy> void explore_org(vh::Ctx& ctx, long N, Limits lim, int padmodes)
{
    for (int pm = 0; pm < padmodes; ++pm)
        for (long w = 0; w <= N; ++w) for (long h = 0; h <= N; ++h)
        {
            if (!ctx.take()) continue;
            ctx.cur = std::string(Org::name()) + "/" + std::to_string(w) + "x" + std::to_string(h) + "p" + std::to_string(pm);
            Root<Org> root(w, h, pm);
            Explorer<Org, Policy> ex(ctx, root, lim);
            Model m0; m0.w = w; m0.h = h;
            ex.template push<typename Org::view_t, 0, false>(root.v0, m0, "", 0);
            ex.run();
            ++ctx.traces;
            if (!root.buf->intact()) ctx.fail(ctx.cur, "canary-clobbered", "bytes outside the exactly-sized buffer were modified");
            ctx.san_take(ctx.cur);
            ++ctx.witness[std::string("org_") + Org::name()];
            if (ctx.timed_out()) return;
        }
}

} // namespace vs
