# registry fragment for C17 (exec'd by tools/checks.py with CHECKS, ASSUME_COMMON, NOT_APPLICABLE in scope)
_c17_s = dict(maxw=4, maxh=3, grid=4, extra=1, variants=1, far=1)
_c17_t = dict(maxw=7, maxh=7, grid=32, extra=1, variants=2, far=1)
_c17_w = ['self_multiplication', 'resample_destination_window', 
        'bil_case_top_left', 'bil_case_first_row', 'bil_case_top_right', 'bil_case_first_col', 'bil_case_interior',
        'bil_case_last_col', 'bil_case_bottom_left', 'bil_case_last_row', 'bil_case_bottom_right',
        'bil_outside', 'nn_outside', 'nn_inside', 'nn_tie_points', 'integer_point_inside',
        'pt_must_inside', 'pt_must_outside', 'pt_border_band',
        'src_one_pixel_wide', 'src_one_pixel_high', 'src_constant_fill',
        'resample_dst_written', 'resample_dst_left_untouched', 'resample_affine_maps', 'resample_rotation_maps',
        'resample_user_map_float', 'resample_any_src', 'resample_any_dst', 'resample_any_both',
        'resize_same_size_cases', 'lanczos_cases',
        'pair_units', 'triple_units', 'generator_translate_scale', 'generator_rotate', 'nonsingular', 'singular_skipped',
        'inverse_of_rotations']
CHECKS['C17'] = dict(
    level='exploration',
    technique='complete enumeration of a stated finite grid of sample points / matrix set through the real samplers, '
              'resample_pixels, resize_view and matrix3x2 operators, against a reference written without GIL '
              '(hull of the clamped neighbourhood, integer-scaled matrix arithmetic; resample_pixels against the statement\'s '
              'right-hand side sample(src, transform(map,(x,y))) evaluated pixel by pixel); ASan on exactly-sized buffers',
    rule='SAMPLERS: pixel type x source variant (plain / negative row step) x point type (double, float) x sampler (nearest, '
         'bilinear) x every source shape w<=maxw,h<=maxh x fill (pairwise distinct values, constant) x every point of '
         'X(w) x X(h), where X(n) = for every integer i in [-2,n+1]: i, nextafter(i,+-inf), i+1/2 and its two nextafter '
         'neighbours, every multiple of 1/grid in [i,i+1), and i+{1/3,2/3,0.1,0.9}, clipped to [-2,n+1], deduplicated, '
         'plus -2^40 and 2^40 (these contain every argument at which ifloor/iround and the nine border cases switch). '
         'The domain is R^2: this finite grid is enumerated completely (counters grid_points, '
         'grid_units_enumerated_completely, units_on_grid_step_1/<grid>...), the real plane is not, hence exhaustive:false '
         'is reported by design (a deadline hit would additionally show counter deadline_hit). Distinct by construction; '
         'non-trivial = reported inside and not an integer point. '
         'RESAMPLE: every dst pixel of resample_pixels for every matrix3x2 with a..d in {-1,0,1,2}, e,f in {-1,0,1/2,2} '
         '(4096) + 36 scaled rotations by k*pi/6 + a user mapping functor + the three any_image_view overloads, per '
         '(type, sampler, src shape, dst shape); non-trivial = the dst pixel is written. RESIZE: every shape <= maxn^2. '
         'MATRIX: all ordered pairs / triples / inverses over the dyadic matrix sets described in harness/c17_matrix.cpp, '
         'float and double; non-trivial = neither factor is the identity / matrix is non-singular.',
    assumptions=ASSUME_COMMON + [
        'sample points: the finite grid of the rule, not all of R^2 (exhaustive for the grid; the grid contains every branch point of the code)',
        '"surrounding" pixels = floor/ceil of the point per axis, clamped into the view; points in [0,w-1]x[0,h-1] must be reported '
        'inside, points with p<-1 or p>w (h) outside; the border band between is not constrained',
        'nearest-neighbour additionally has to return the pixel at round(p) (the sampler\'s name), either neighbour accepted within 8 ulp(point type) of a tie',
        'float channels: hull widened by 4 ulp(float); integer channels: exact hull',
        'matrix tolerances: exact for dyadic products; rotations 1.6e-11 (double) / 1.6e-4 (float); inverse 1e-12 (float 2e-6) x max(1,|m|max*|inverse|max); point round trip 1e-9 (float 1e-3)',
        'scale_lanczos: memory safety only (the statement constrains nothing else)',
    ],
    tus=[dict(name='c17_sampler', src='harness/c17_sampler.cpp', deps=['harness/c17_common.hpp']),
         dict(name='c17_matrix', src='harness/c17_matrix.cpp', san=False, opt=2)],
    runs=dict(
        quick=[dict(tu='c17_sampler', group='sample_gray8', bounds=_c17_s, shards=2),
               dict(tu='c17_sampler', group='sample_rgb8', bounds=_c17_s, shards=2),
               dict(tu='c17_sampler', group='sample_gray32f', bounds=_c17_s, shards=2),
               dict(tu='c17_sampler', group='sample_gray16s', bounds=_c17_s, shards=2),
               dict(tu='c17_sampler', group='sample_rgba16', bounds=_c17_s, shards=2),
               dict(tu='c17_sampler', group='sample_rgb32f', bounds=_c17_s, shards=2),
               dict(tu='c17_sampler', group='resample', bounds=dict(src_shapes=3, dst_shapes=3, types=2), shards=6),
               dict(tu='c17_sampler', group='resize', bounds=dict(maxn=5), shards=1),
               dict(tu='c17_sampler', group='lanczos', bounds=dict(maxn=3), shards=1),
               dict(tu='c17_matrix', group='pairs', bounds=dict(outer=0, inner=0), shards=4),
               dict(tu='c17_matrix', group='triples', bounds=dict(outer=2), shards=2),
               dict(tu='c17_matrix', group='generators', shards=1),
               dict(tu='c17_matrix', group='inverse', bounds=dict(level=0), shards=1)],
        thorough=[dict(tu='c17_sampler', group='sample_gray8', bounds=_c17_t, shards=12),
                  dict(tu='c17_sampler', group='sample_rgb8', bounds=_c17_t, shards=12),
                  dict(tu='c17_sampler', group='sample_gray32f', bounds=_c17_t, shards=12),
                  dict(tu='c17_sampler', group='sample_gray16s', bounds=_c17_t, shards=12),
                  dict(tu='c17_sampler', group='sample_rgba16', bounds=_c17_t, shards=12),
                  dict(tu='c17_sampler', group='sample_rgb32f', bounds=_c17_t, shards=12),
                  dict(tu='c17_sampler', group='resample', bounds=dict(src_shapes=10, dst_shapes=10, types=3), shards=24),
                  dict(tu='c17_sampler', group='resize', bounds=dict(maxn=8), shards=2),
                  dict(tu='c17_sampler', group='lanczos', bounds=dict(maxn=4), shards=2),
                  dict(tu='c17_matrix', group='pairs', bounds=dict(outer=1, inner=0), shards=24),
                  dict(tu='c17_matrix', group='triples', bounds=dict(outer=1), shards=48),
                  dict(tu='c17_matrix', group='generators', shards=1),
                  dict(tu='c17_matrix', group='inverse', bounds=dict(level=1), shards=4)]),
    witnesses_required=dict(quick=_c17_w, thorough=_c17_w + ['src_negative_row_step']),
    deadline=dict(quick=300, thorough=2400),
)
