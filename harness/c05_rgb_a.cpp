// C05 — rgb/bgr: byte and 16-bit channels (value / C++ reference / planar reference), packed 5-6-5 and 3-3-2 (packed pixel / bit-aligned reference)
#include "c05_families.hpp"
using namespace c05;
VH_GROUP(rgb8) { run_family<Rgb8, Rgb8>(ctx); }
VH_GROUP(rgb16) { run_family<Rgb16, Rgb16>(ctx); }
VH_GROUP(rgb565) { run_family<Rgb565, Rgb565>(ctx); }
VH_GROUP(rgb332) { run_family<Rgb332, Rgb332>(ctx); }
VH_MAIN
