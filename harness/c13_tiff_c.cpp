// C13 TIFF part C: rgba and cmyk types
#include "c13_tiff.hpp"
using Part = mp::mp_list<gil::rgba8_image_t, gil::rgba16_image_t, gil::cmyk8_image_t, gil::cmyk16_image_t>;
VH_GROUP(seeds) { tiff_seeds<Part>(ctx); }
VH_GROUP(samples)
{
    vh::ubsan_counts() = false;
    TIFFSetErrorHandler(tiff_quiet); TIFFSetWarningHandler(tiff_quiet);
    Opts o; o.devmask = int(ctx.B("devmask", 7));
    std::string path = "/repo/test/extension/io/images/tiff/test.tif";
    std::vector<unsigned char> bytes = c13::slurp(path);
    if (bytes.size() < 8 || !ctx.take()) return;
    SeedView sv; sv.name = "sample:test.tif"; sv.bytes = &bytes; sv.path = path; sv.subrects = false; sv.big = true;
    int spp = 0, bps = 0;
    try { auto b = gil::read_image_info(path, gil::tiff_tag()); spp = b._info._samples_per_pixel; bps = b._info._bits_per_sample; } catch (...) {}
    if (spp == 4 && bps == 8) { ++ctx.witness["sample_files"]; run_typed<gil::rgba8_image_t>(ctx, sv, o); }
    else if (spp == 4 && bps == 16) { ++ctx.witness["sample_files"]; run_typed<gil::rgba16_image_t>(ctx, sv, o); }
}
VH_MAIN
