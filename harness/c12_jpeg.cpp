// C12 for JPEG: write_view -> read_image round trip for every pixel type with is_write_supported && is_read_supported.
#include "c12_common.hpp"
#include <boost/gil/extension/io/jpeg.hpp>

namespace gil = boost::gil;
namespace mp = boost::mp11;
using ioc::Flat; using ioc::Emit;

struct Fmt
{
    using tag = gil::jpeg_tag;
    static const char* name() { return "jpeg"; }
    static const char* ext() { return "jpg"; }
    static int nvariants() { return 1; }
    static const char* variant_name(int) { return "q100"; }
    static gil::image_write_info<tag> info(int) { return gil::image_write_info<tag>(100); }     // maximum quality
    static bool dest_supported(int) { return true; }
    template <class V> static void write_handle(std::string const& path, V const& v, int var) { c12::write_via_FILE<Fmt>(path, v, var); }
    template <class Img> struct Orgs : std::integral_constant<int, 31> {};
    // JPEG clause: dimensions preserved; every channel within BOUND at maximum quality; constant images within 1.
    // BOUND is fixed once from a measurement on this libjpeg (design_notes/C12.md), per colour space.
    template <class Img> static void judge(Emit& e, Flat const& want, Flat const& got, int content)
    {
        if (want.w != got.w || want.h != got.h) { e.fail("dims-differ", std::string(vh::S() << "wrote " << want.w << "x" << want.h << " read " << got.w << "x" << got.h)); return; }
        if (want.ch != got.ch) { e.fail("dims-differ", "channel count"); return; }
        double m = ioc::max_abs_diff(want, got);
        const char* bucket = m <= 0 ? "0" : m <= 1 ? "le1" : m <= 2 ? "le2" : m <= 64 ? "le64" : m <= 128 ? "le128" : m <= 176 ? "le176" : m <= 192 ? "le192" : "gt192";
        e.count(std::string("jpeg_maxerr_") + c12::TypeName<Img>::get() + "_" + ioc::content_name(content) + "_" + bucket);
        bool constant = content == ioc::C_MIN || content == ioc::C_MAX;
        if (constant) { if (m > 1) e.fail("jpeg-constant-error>1", std::string(vh::S() << "max error " << m)); }
        else if (m > bound<Img>()) e.fail("jpeg-error>bound", std::string(vh::S() << "max error " << m << " bound " << bound<Img>()));
    }
    // measured on this libjpeg (all w,h <= 18, 5 organisations, 3 destinations): gray8 and cmyk8 (written without colour
    // transform / subsampling) max 1; rgb8/bgr8 (YCbCr, 2x2 chroma subsampling, tags wrap modulo 256) max 173.
    template <class Img> static double bound() { return gil::num_channels<typename Img::view_t>::value == 3 ? 192 : 2; }
};

using Tested = c12::Supported<Fmt::tag>;

VH_GROUP(roundtrip)
{
    vh::ubsan_counts() = false;
    c12::Bounds b = c12::bounds_from(ctx);
    mp::mp_for_each<mp::mp_transform<mp::mp_identity, Tested>>([&](auto Id) {
        using Img = typename decltype(Id)::type;
        for (int var = 0; var < Fmt::nvariants(); ++var) c12::run_type<Fmt, Img>(ctx, var, b);
    });
}

VH_GROUP(matrix) { c12::record_matrix<Fmt::tag>(ctx, Fmt::name()); }

VH_MAIN
