#!/bin/bash
# run_all.sh [quick|thorough] — run every claimed check's tier in sequence, summarise exit codes (development aid)
T=${1:-quick}; cd "$(dirname "$0")/.."
python3 tools/vcheck.py --build-all > build/build_all.log 2>&1; echo "build-all rc=$? ($(grep -c built build/build_all.log) built, $(grep -c cached build/build_all.log) cached, $(grep -c FAILED build/build_all.log) failed)"
for p in $(python3 -c "import sys; sys.path.insert(0,'tools'); import checks; print(' '.join(checks.CLAIMED))"); do
  out=$(python3 tools/vcheck.py $p --tier $T 2>&1); rc=$?
  echo "rc=$rc $(echo "$out" | tail -1 | cut -c1-230)"; echo "$out" | grep "^KNOWN-FINDING\|^VIOLATION\|^VACUOUS\|^BUILD" | cut -c1-200 | head -5
done
