// C05 — rgb/bgr with 2-bit channels: all five pixel models are mutually compatible (49 ordered pairs)
#include "c05_families.hpp"
using namespace c05;
VH_GROUP(rgb222) { run_family<Rgb222, Rgb222>(ctx); }
VH_MAIN
