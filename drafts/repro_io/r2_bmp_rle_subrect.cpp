// F13: BMP RLE sub-rectangle: row buffer sized dim.x but indexed with top_left.x; rows counted from dim.y
#include <boost/gil.hpp>
#include <boost/gil/extension/io/bmp.hpp>
#include <sstream>
#include <iostream>
using namespace boost::gil;
static void le(std::string& s, unsigned v, int n) { for (int i = 0; i < n; ++i) s += char(v >> (8 * i)); }
int main() {   // 4x2 RLE8, palette {black, red, green, blue}; rows (top) 1 1 2 2 / (bottom) 3 3 1 1
    std::string rle = std::string("\2\3\2\1\0\0", 6) + std::string("\2\1\2\2\0\1", 6), f = "BM";
    le(f, 14 + 40 + 16 + rle.size(), 4); le(f, 0, 4); le(f, 14 + 40 + 16, 4);
    le(f, 40, 4); le(f, 4, 4); le(f, 2, 4); le(f, 1, 2); le(f, 8, 2); le(f, 1, 4); le(f, rle.size(), 4); le(f, 0, 4); le(f, 0, 4); le(f, 4, 4); le(f, 0, 4);
    f += std::string("\0\0\0\0" "\0\0\xff\0" "\0\xff\0\0" "\xff\0\0\0", 16) + rle;
    rgb8_image_t full, crop; std::istringstream in(f), in2(f);
    read_image(in, full, bmp_tag());
    read_image(in2, crop, image_read_settings<bmp_tag>(point_t(2, 0), point_t(2, 1)));   // top-right 2x1 = green green
    auto p = view(full)(2, 0), q = view(crop)(0, 0);
    std::cout << "full(2,0) = " << int(p[0]) << "," << int(p[1]) << "," << int(p[2]) << "  crop(0,0) = " << int(q[0]) << "," << int(q[1]) << "," << int(q[2]) << "\n";
}
