// C17 — nearest_neighbor_sampler / bilinear_sampler, resample_pixels, resize_view (+ scale_lanczos memory safety).
//
// Oracles (each a clause of the property statement):
//   untouched      sample() returned false  => result pixel bit-identical to the sentinel it held before
//   not-convex     sample() returned true   => every channel lies in [min,max] of the <=4 source pixels
//                                              surrounding the point (floor/ceil per axis, clamped into the view)
//   integer-exact  p integral and inside    => result == src(p) bit for bit
//   inside/outside p in [0,w-1]x[0,h-1] must be reported inside; p more than one pixel away from that
//                  rectangle (p<-1 or p>w / h) must be reported outside; the border band is not constrained
//   nn-not-nearest nearest_neighbor returned true => result is the source pixel at round(p) (either neighbour
//                  accepted within 8 ulp(point type) of a tie)
//   asan:*         no read outside the source view: sources live on exactly-sized guard buffers
//   resample       dst(x,y) after resample_pixels == a direct sample(sampler, src, transform(map,(x,y)), prefill)
//   resize         resize_view to the same size reproduces the source
// The sample-point domain is R^2; the run is exhaustive over the finite grid described in c17_common.hpp
// (coord_set) and reported through the counters grid_*.
#include "c17_common.hpp"
#include <boost/gil/extension/dynamic_image/any_image_view.hpp>
#include <boost/gil/image_processing/scaling.hpp>

using namespace c17;

// ------------------------------------------------------------------------------------------
struct NN { static const char* name() { return "nn"; } using type = gil::nearest_neighbor_sampler; static constexpr bool bilinear = false; };
struct BL { static const char* name() { return "bilinear"; } using type = gil::bilinear_sampler; static constexpr bool bilinear = true; };

static const char* const CASE9[3][3] = {{"bil_case_top_left", "bil_case_first_row", "bil_case_top_right"},
                                        {"bil_case_first_col", "bil_case_interior", "bil_case_last_col"},
                                        {"bil_case_bottom_left", "bil_case_last_row", "bil_case_bottom_right"}};

// which of the three column (row) classes of the border case analysis floor(p) falls into; -1 = outside
static int axis_class(long fl, int n) { return fl < -1 || fl >= n ? -1 : fl == -1 ? 0 : fl + 1 < n ? 1 : 2; }

template <class P, class F, class SM>
struct SampleUnit
{
    using C = typename gil::channel_type<P>::type;
    static constexpr int NC = gil::num_channels<P>::value;
    vh::Ctx& ctx;
    Source<P> const& src;
    std::string uid;
    long fails_here = 0;
    // per-unit witness counters (flushed into ctx.witness once per unit: a map lookup per point is too slow)
    long n_case9[3][3] = {{0}}, n_must_in = 0, n_must_out = 0, n_band = 0, n_outside = 0, n_nn_inside = 0, n_tie = 0, n_intpt = 0;
    void flush()
    {
        for (int i = 0; i < 3; ++i) for (int j = 0; j < 3; ++j) if (n_case9[i][j]) ctx.witness[CASE9[i][j]] += n_case9[i][j];
        auto add = [&](const char* k, long v) { if (v) ctx.witness[k] += v; };
        add("pt_must_inside", n_must_in); add("pt_must_outside", n_must_out); add("pt_border_band", n_band);
        add(SM::bilinear ? "bil_outside" : "nn_outside", n_outside); add("nn_inside", n_nn_inside);
        add("nn_tie_points", n_tie); add("integer_point_inside", n_intpt);
    }

    std::string pid(F x, F y) const { return uid + "/p=(" + fstr(x) + "," + fstr(y) + ")"; }
    void bad(const char* sig, F x, F y, std::string const& detail)
    {
        if (++fails_here > 64) { ++ctx.counters["failures_suppressed_after_64_per_unit"]; return; }
        ctx.fail(pid(x, y), sig, detail);
    }

    void one(F x, F y)
    {
        const int w = src.w, h = src.h;
        const P sentinel = sentinel_pixel<P>();
        P result = sentinel;
        bool inside = gil::sample(typename SM::type(), src.view, gil::point<F>(x, y), result);
        ++ctx.evaluations;

        const double dx = double(x), dy = double(y);            // exact for float and double
        const double flx = std::floor(dx), fly = std::floor(dy), clx = std::ceil(dx), cly = std::ceil(dy);
        const bool int_x = flx == dx, int_y = fly == dy;
        const bool must_in = dx >= 0 && dx <= w - 1 && dy >= 0 && dy <= h - 1;
        const bool must_out = dx < -1 || dx > w || dy < -1 || dy > h;
        if (must_in) ++n_must_in; else if (must_out) ++n_must_out; else ++n_band;

        if (!inside)
        {
            ++n_outside;
            if (std::memcmp(&result, &sentinel, sizeof(P)) != 0)
                bad("outside-but-result-modified", x, y, "result=" + pix_str(result) + " sentinel=" + pix_str(sentinel));
            if (must_in) bad("inside-reported-outside", x, y, "");
        }
        else
        {
            if (must_out) bad("outside-reported-inside", x, y, "result=" + pix_str(result));
            if (!(int_x && int_y)) ++ctx.nontrivial;
            // the <=4 surrounding source pixels, clamped into the view
            auto clampi = [](double v, int n) { return int(v < 0 ? 0 : v > n - 1 ? n - 1 : v); };
            const int xs[2] = {clampi(flx, w), clampi(clx, w)}, ys[2] = {clampi(fly, h), clampi(cly, h)};
            if (SM::bilinear)
            {
                int cx = axis_class(long(flx), w), cy = axis_class(long(fly), h);
                if (cx >= 0 && cy >= 0) ++n_case9[cy][cx];
            }
            else ++n_nn_inside;
            // ideal bilinear weights on the clamped neighbourhood: used ONLY to classify a hull violation
            const long double fx = (long double)dx - (long double)flx, fy = (long double)dy - (long double)fly;
            for (int c = 0; c < NC; ++c)
            {
                long double v[4] = {Chan<C>::get(src.at(xs[0], ys[0], c)), Chan<C>::get(src.at(xs[1], ys[0], c)),
                                    Chan<C>::get(src.at(xs[0], ys[1], c)), Chan<C>::get(src.at(xs[1], ys[1], c))};
                long double mn = std::min(std::min(v[0], v[1]), std::min(v[2], v[3]));
                long double mx = std::max(std::max(v[0], v[1]), std::max(v[2], v[3]));
                long double r = Chan<C>::get(result[c]);
                long double t = Chan<C>::tol(std::max(fabsl(mn), fabsl(mx)));
                if (!(r >= mn - t && r <= mx + t))
                {
                    long double ideal = (1 - fx) * (1 - fy) * v[0] + fx * (1 - fy) * v[1] + (1 - fx) * fy * v[2] + fx * fy * v[3];
                    bool off1 = Chan<C>::integral && fabsl(r - ideal) < 1.0L + 1e-3L && (r == mn - 1 || r == mx + 1);
                    char b[200];
                    snprintf(b, sizeof b, "channel %d result=%.9Lg hull=[%.9Lg,%.9Lg] ideal=%.17Lg neighbours=%.9Lg,%.9Lg,%.9Lg,%.9Lg", c, r, mn, mx, ideal, v[0], v[1], v[2], v[3]);
                    bad(off1 ? "not-convex:one-unit-outside-hull-by-truncation" : "not-convex", x, y, b);
                    break;
                }
            }
            if (int_x && int_y && must_in)
            {
                ++n_intpt;
                bool same = true;
                for (int c = 0; c < NC; ++c) { C a = result[c], b = src.at(int(dx), int(dy), c); same = same && std::memcmp(&a, &b, sizeof(C)) == 0; }
                if (!same) bad("integer-not-exact", x, y, "result=" + pix_str(result));
            }
            if (!SM::bilinear)
            {
                // nearest: round(p) per axis, both neighbours accepted near a tie
                // (tie window: 8 ulp of the point type at the coordinate's magnitude — x+0.5 is itself rounded in F)
                auto cand = [](double v, double fl, long out[2]) { double d = v - fl, t = 8 * double(std::numeric_limits<F>::epsilon()) * std::max(1.0, std::fabs(v)); int n = 0; if (d <= 0.5 + t) out[n++] = long(fl); if (d >= 0.5 - t) out[n++] = long(fl) + 1; return n; };
                long cxs[2], cys[2]; int nx = cand(dx, flx, cxs), ny = cand(dy, fly, cys);
                if (nx == 2 || ny == 2) ++n_tie;
                bool ok = false;
                for (int i = 0; i < nx; ++i)
                    for (int j = 0; j < ny; ++j)
                    {
                        if (cxs[i] < 0 || cxs[i] >= w || cys[j] < 0 || cys[j] >= h) continue;
                        bool same = true;
                        for (int c = 0; c < NC; ++c) { C a = result[c], b = src.at(int(cxs[i]), int(cys[j]), c); same = same && std::memcmp(&a, &b, sizeof(C)) == 0; }
                        ok = ok || same;
                    }
                if (!ok) bad("nn-not-nearest", x, y, "result=" + pix_str(result));
            }
        }
        ctx.san_take_lazy([&] { return pid(x, y); });
    }
};

template <class P, class F, class SM>
static void sample_units(vh::Ctx& ctx, int maxw, int maxh, int g, int extra, int variants, int far)
{
    for (int variant = 0; variant < variants; ++variant)
        for (int fill = 0; fill < 2; ++fill)
            for (int h = 1; h <= maxh; ++h)
                for (int w = 1; w <= maxw; ++w)
                {
                    if (!ctx.take()) continue;
                    Source<P> src(w, h, fill, variant);
                    SampleUnit<P, F, SM> u{ctx, src};
                    u.uid = vh::S() << PixName<P>::name() << "/" << variant_name(variant) << "/" << FName<F>::name() << "/" << SM::name() << "/" << w << "x" << h << "/" << fill_name(fill);
                    ctx.cur = u.uid;
                    std::vector<F> X = coord_set<F>(w, g, extra, far), Y = coord_set<F>(h, g, extra, far);
                    for (F y : Y) for (F x : X) u.one(x, y);
                    u.flush();
                    ctx.counters["grid_points"] += long(X.size() * Y.size());
                    ++ctx.counters["grid_units_enumerated_completely"];
                    ++ctx.counters[vh::S() << "units_on_grid_step_1/" << g << (extra ? "_plus_thirds_tenths" : "") << (far ? "_plus_far" : "")];
                    if (w == 1) ++ctx.witness["src_one_pixel_wide"];
                    if (h == 1) ++ctx.witness["src_one_pixel_high"];
                    if (fill == CONSTANT) ++ctx.witness["src_constant_fill"];
                    if (variant == FLIP_UD) ++ctx.witness["src_negative_row_step"];
                    if (!src.buf->intact()) ctx.fail(u.uid, "source-buffer-surroundings-modified");
                    if ((fill == DISTINCT && w == maxw && h == maxh) || (fill == CONSTANT && w == 2 && h == 2))
                    {
                        F sx = X[X.size() * 2 / 3], sy = Y[Y.size() / 2];
                        P r = sentinel_pixel<P>(); bool in = gil::sample(typename SM::type(), src.view, gil::point<F>(sx, sy), r);
                        ctx.sample(u.uid + " p=(" + fstr(sx) + "," + fstr(sy) + ") -> " + (in ? pix_str(r) : std::string("outside, untouched")) + " [" + std::to_string(X.size() * Y.size()) + " points]");
                    }
                    if (ctx.timed_out()) return;
                }
}

template <class P>
static void sample_all(vh::Ctx& ctx)
{
    int maxw = int(ctx.B("maxw", 4)), maxh = int(ctx.B("maxh", 3)), g = int(ctx.B("grid", 4)), extra = int(ctx.B("extra", 1)), variants = int(ctx.B("variants", 1)), far = int(ctx.B("far", 1));
    vh::ubsan_counts() = false;     // the statement speaks about reads outside the view (ASan), not about UB in arithmetic
    // The sample-point domain is R^2: what is enumerated completely is the finite grid of coord_set(), so the
    // property's own domain is NOT exhausted.  Reported as exhaustive:false (DESIGN.md C17) together with the
    // counters grid_points / grid_units_enumerated_completely / units_on_grid_step_1/<g>.
    ctx.exhaustive = false;
    ++ctx.counters["exhaustive_false_because_domain_is_R2_grid_complete"];
    sample_units<P, double, NN>(ctx, maxw, maxh, g, extra, variants, far);
    sample_units<P, double, BL>(ctx, maxw, maxh, g, extra, variants, far);
    sample_units<P, float, NN>(ctx, maxw, maxh, g, extra, variants, far);
    sample_units<P, float, BL>(ctx, maxw, maxh, g, extra, variants, far);
    if (ctx.timed_out()) ++ctx.counters["deadline_hit"];
}

VH_GROUP(sample_gray8) { sample_all<gil::gray8_pixel_t>(ctx); }
VH_GROUP(sample_rgb8) { sample_all<gil::rgb8_pixel_t>(ctx); }
VH_GROUP(sample_gray32f) { sample_all<gil::gray32f_pixel_t>(ctx); }
VH_GROUP(sample_gray16s) { sample_all<gil::gray16s_pixel_t>(ctx); }
VH_GROUP(sample_rgba16) { sample_all<gil::rgba16_pixel_t>(ctx); }
VH_GROUP(sample_rgb32f) { sample_all<gil::rgb32f_pixel_t>(ctx); }

// ------------------------------------------------------------------------------------------
// resample_pixels
struct half_shift_map {};      // a user-defined mapping functor (as in the repository's own test): p -> p - 0.5, float result
namespace boost { namespace gil {
template <> struct mapping_traits<half_shift_map> { using result_type = point<float>; };
template <class I> inline point<float> transform(half_shift_map const&, point<I> const& p) { return {float(p.x) - 0.5f, float(p.y) - 0.5f}; }
}}

template <class P> struct Dest
{
    using view_t = typename gil::type_from_x_iterator<P*>::view_t;
    // xpad > 0: the view is a window of a canvas whose rows are xpad pixels longer (rows of the view are not contiguous in memory);
    // the xpad pixels after every row belong to the canvas, not to the view, and must keep the sentinel
    int w, h, xpad, stride; vh::GuardBuf buf; view_t view;
    Dest(int w_, int h_, int xpad_ = 0) : w(w_), h(h_), xpad(xpad_), stride(w_ + xpad_), buf(size_t(w_ + xpad_) * h_ * sizeof(P), 0)
    {
        view = gil::interleaved_view(w, h, reinterpret_cast<P*>(buf.data()), std::ptrdiff_t(stride * sizeof(P)));
        refill();
    }
    void refill() { P s = sentinel_pixel<P>(); for (int i = 0; i < stride * h; ++i) std::memcpy(buf.data() + size_t(i) * sizeof(P), &s, sizeof(P)); }
    P raw(int x, int y) const { P p; std::memcpy(&p, buf.data() + (size_t(y) * stride + x) * sizeof(P), sizeof(P)); return p; }
    long pad_changed() const
    {
        long n = 0; P s = sentinel_pixel<P>();
        for (int y = 0; y < h; ++y) for (int x = w; x < stride; ++x) { P p = raw(x, y); if (std::memcmp(&p, &s, sizeof(P)) != 0) ++n; }
        return n;
    }
};

template <class P, class SM, class Map, class SrcV, class DstV>
static void resample_case(vh::Ctx& ctx, Source<P> const& src, Dest<P>& dst, SrcV const& sv, DstV const& dv, Map const& map, std::string const& cid, long& fails_here)
{
    dst.refill();
    gil::resample_pixels(sv, dv, map, typename SM::type());
    long written = 0;
    for (int y = 0; y < dst.h; ++y)
        for (int x = 0; x < dst.w; ++x)
        {
            P expect = sentinel_pixel<P>();
            auto q = gil::transform(map, gil::point<std::ptrdiff_t>(x, y));
            bool in = gil::sample(typename SM::type(), src.view, q, expect);
            P got = dst.raw(x, y);
            ++ctx.evaluations;
            if (in) { ++ctx.nontrivial; ++written; ++ctx.witness["resample_dst_written"]; } else ++ctx.witness["resample_dst_left_untouched"];
            if (std::memcmp(&got, &expect, sizeof(P)) != 0 && ++fails_here <= 64)
                ctx.fail(vh::S() << cid << "/dst(" << x << "," << y << ")", "resample-differs-from-direct-sample",
                         vh::S() << "dst=" << pix_str(got) << " direct=" << (in ? pix_str(expect) : std::string("outside")) << " src point=(" << fstr(q.x) << "," << fstr(q.y) << ")");
        }
    if (written == 0) ++ctx.counters["resample_cases_all_outside"]; else ++ctx.counters["resample_cases_some_inside"];
    if (!dst.buf.intact() && ++fails_here <= 64) ctx.fail(cid, "write-outside-destination");
    if (dst.xpad) { long n = dst.pad_changed(); if (n && ++fails_here <= 64) ctx.fail(cid, "write-outside-destination-view", vh::S() << n << " canvas pixel(s) beside the destination view changed"); }
    ctx.san_take_lazy([&] { return cid; });
}

static std::string mat_str(gil::matrix3x2<double> const& m)
{
    char b[200]; snprintf(b, sizeof b, "[%.17g,%.17g,%.17g,%.17g,%.17g,%.17g]", m.a, m.b, m.c, m.d, m.e, m.f); return b;
}

static const int SHAPES[][2] = {{1, 1}, {3, 2}, {4, 3}, {1, 3}, {2, 1}, {2, 2}, {4, 1}, {3, 3}, {5, 1}, {1, 5}};

template <class P, class SM>
static void resample_units(vh::Ctx& ctx, int nshapes_src, int nshapes_dst)
{
    const double LIN[4] = {-1, 0, 1, 2}, TR[4] = {-1, 0, 0.5, 2};
    for (int si = 0; si < nshapes_src; ++si)
        for (int di = 0; di < nshapes_dst; ++di)
            for (int ia = 0; ia < 4; ++ia)
            {
                if (!ctx.take()) continue;
                Source<P> src(SHAPES[si][0], SHAPES[si][1], DISTINCT, PLAIN);
                Dest<P> dst(SHAPES[di][0], SHAPES[di][1]);
                std::string uid = vh::S() << PixName<P>::name() << "/" << SM::name() << "/src" << src.w << "x" << src.h << "/dst" << dst.w << "x" << dst.h;
                ctx.cur = uid;
                long fails_here = 0;
                for (int ib = 0; ib < 4; ++ib) for (int ic = 0; ic < 4; ++ic) for (int id = 0; id < 4; ++id)
                    for (int ie = 0; ie < 4; ++ie) for (int jf = 0; jf < 4; ++jf)
                    {
                        gil::matrix3x2<double> m(LIN[ia], LIN[ib], LIN[ic], LIN[id], TR[ie], TR[jf]);
                        resample_case<P, SM>(ctx, src, dst, src.view, dst.view, m, uid + "/map" + mat_str(m), fails_here);
                        ++ctx.witness["resample_affine_maps"];
                    }
                if (ia == 0)
                {
                    // rotations by multiples of pi/6 about the source centre, scaled by 1/2, 1, 2
                    const double PI = 3.14159265358979323846;
                    for (int k = 0; k < 12; ++k)
                        for (double s : {0.5, 1.0, 2.0})
                        {
                            using M = gil::matrix3x2<double>;
                            M m = M::get_translate(-(dst.w - 1) / 2.0, -(dst.h - 1) / 2.0) * M::get_scale(s) * M::get_rotate(k * PI / 6) * M::get_translate((src.w - 1) / 2.0, (src.h - 1) / 2.0);
                            resample_case<P, SM>(ctx, src, dst, src.view, dst.view, m, vh::S() << uid << "/rot" << k << "pi6*scale" << s, fails_here);
                            ++ctx.witness["resample_rotation_maps"];
                        }
                    // user-defined mapping functor with a float result type
                    resample_case<P, SM>(ctx, src, dst, src.view, dst.view, half_shift_map(), uid + "/half_shift_map", fails_here);
                    ++ctx.witness["resample_user_map_float"];
                    // a destination whose rows are not contiguous (window of a wider canvas): identity, the functor and the rotations
                    {
                        Dest<P> dpad(SHAPES[di][0], SHAPES[di][1], 2);
                        using M = gil::matrix3x2<double>;
                        resample_case<P, SM>(ctx, src, dpad, src.view, dpad.view, M(), uid + "/dst-window/identity", fails_here);
                        resample_case<P, SM>(ctx, src, dpad, src.view, dpad.view, half_shift_map(), uid + "/dst-window/half_shift_map", fails_here);
                        for (int k = 0; k < 12; ++k)
                        {
                            M m = M::get_translate(-(dpad.w - 1) / 2.0, -(dpad.h - 1) / 2.0) * M::get_rotate(k * PI / 6) * M::get_translate((src.w - 1) / 2.0, (src.h - 1) / 2.0);
                            resample_case<P, SM>(ctx, src, dpad, src.view, dpad.view, m, vh::S() << uid << "/dst-window/rot" << k << "pi6", fails_here);
                        }
                        ++ctx.witness["resample_destination_window"];
                    }
                    // run-time typed views: the three any_image_view overloads
                    using SV = typename Source<P>::view_t; using DV = typename Dest<P>::view_t;
                    using ASV = gil::any_image_view<gil::gray16c_view_t, SV>; using ADV = gil::any_image_view<gil::gray16_view_t, DV>;
                    gil::matrix3x2<double> m(1, 0, 0, 1, 0.5, -0.5);
                    resample_case<P, SM>(ctx, src, dst, ASV(src.view), dst.view, m, uid + "/any_src", fails_here); ++ctx.witness["resample_any_src"];
                    resample_case<P, SM>(ctx, src, dst, src.view, ADV(dst.view), m, uid + "/any_dst", fails_here); ++ctx.witness["resample_any_dst"];
                    resample_case<P, SM>(ctx, src, dst, ASV(src.view), ADV(dst.view), m, uid + "/any_both", fails_here); ++ctx.witness["resample_any_both"];
                }
                if (!src.buf->intact()) ctx.fail(uid, "source-buffer-surroundings-modified");
                if (ia == 0) ctx.sample(uid + ": 1024 affine maps a=-1 + 36 rotations + functor + any_image_view");
                if (ctx.timed_out()) return;
            }
}

VH_GROUP(resample)
{
    vh::ubsan_counts() = false;
    int ns = int(ctx.B("src_shapes", 3)), nd = int(ctx.B("dst_shapes", 2)), types = int(ctx.B("types", 2));
    resample_units<gil::gray8_pixel_t, NN>(ctx, ns, nd);
    resample_units<gil::gray8_pixel_t, BL>(ctx, ns, nd);
    if (types >= 2) { resample_units<gil::rgb8_pixel_t, NN>(ctx, ns, nd); resample_units<gil::rgb8_pixel_t, BL>(ctx, ns, nd); }
    if (types >= 3) { resample_units<gil::gray32f_pixel_t, NN>(ctx, ns, nd); resample_units<gil::gray32f_pixel_t, BL>(ctx, ns, nd); }
}

// ------------------------------------------------------------------------------------------
// resize_view to the same size is the identity
template <class P, class SM>
static void resize_units(vh::Ctx& ctx, int maxn)
{
    for (int variant = 0; variant < 2; ++variant)
        for (int h = 1; h <= maxn; ++h)
            for (int w = 1; w <= maxn; ++w)
            {
                if (!ctx.take()) continue;
                Source<P> src(w, h, DISTINCT, variant);
                Dest<P> dst(w, h);
                std::string cid = vh::S() << PixName<P>::name() << "/" << variant_name(variant) << "/" << SM::name() << "/" << w << "x" << h;
                ctx.cur = cid;
                gil::resize_view(src.view, dst.view, typename SM::type());
                ++ctx.evaluations; if (w * h > 1) ++ctx.nontrivial;
                ++ctx.witness["resize_same_size_cases"];
                int bad = 0, bx = 0, by = 0;
                for (int y = 0; y < h; ++y)
                    for (int x = 0; x < w; ++x)
                    {
                        P got = dst.raw(x, y);
                        for (int c = 0; c < gil::num_channels<P>::value; ++c)
                        {
                            auto a = got[c]; auto b = src.at(x, y, c);
                            if (std::memcmp(&a, &b, sizeof a) != 0) { if (!bad) { bx = x; by = y; } ++bad; }
                        }
                    }
                if (bad) ctx.fail(cid, "resize-same-size-not-identity", vh::S() << bad << " channel(s) differ, first at (" << bx << "," << by << ") got " << pix_str(dst.raw(bx, by)));
                if (!dst.buf.intact() || !src.buf->intact()) ctx.fail(cid, "write-outside-destination");
                ctx.san_take_lazy([&] { return cid; });
                if (w == maxn && h == 2) ctx.sample(cid + ": dst == src");
            }
}
VH_GROUP(resize)
{
    vh::ubsan_counts() = false;
    int n = int(ctx.B("maxn", 5));
    resize_units<gil::gray8_pixel_t, NN>(ctx, n); resize_units<gil::gray8_pixel_t, BL>(ctx, n);
    resize_units<gil::rgb8_pixel_t, NN>(ctx, n); resize_units<gil::rgb8_pixel_t, BL>(ctx, n);
    resize_units<gil::gray32f_pixel_t, NN>(ctx, n); resize_units<gil::gray32f_pixel_t, BL>(ctx, n);
    resize_units<gil::gray16s_pixel_t, NN>(ctx, n); resize_units<gil::gray16s_pixel_t, BL>(ctx, n);
}

// ------------------------------------------------------------------------------------------
// scale_lanczos: the statement says nothing specific; only the memory-safety monitors look (ASan + canaries)
template <class P>
static void lanczos_units(vh::Ctx& ctx, int maxn)
{
    for (int ih = 1; ih <= maxn; ++ih) for (int iw = 1; iw <= maxn; ++iw)
    {
        if (!ctx.take()) continue;
        for (int oh = 1; oh <= maxn; ++oh) for (int ow = 1; ow <= maxn; ++ow) for (int a = 1; a <= 3; ++a)
        {
            // scale_lanczos takes both views by the same (mutable) type
            Dest<P> in(iw, ih), out(ow, oh);
            for (int i = 0; i < iw * ih; ++i) { P p; for (int c = 0; c < gil::num_channels<P>::value; ++c) p[c] = Chan<typename gil::channel_type<P>::type>::distinct(distinct_k(i % iw, i / iw, iw, c)); std::memcpy(in.buf.data() + size_t(i) * sizeof(P), &p, sizeof(P)); }
            std::string cid = vh::S() << PixName<P>::name() << "/in" << iw << "x" << ih << "/out" << ow << "x" << oh << "/a" << a;
            ctx.cur = cid;
            gil::scale_lanczos(in.view, out.view, a);
            ++ctx.evaluations; ++ctx.nontrivial; ++ctx.witness["lanczos_cases"];
            if (!in.buf.intact() || !out.buf.intact()) ctx.fail(cid, "write-outside-destination");
            ctx.san_take_lazy([&] { return cid; });
        }
    }
}
VH_GROUP(lanczos)
{
    vh::ubsan_counts() = false;
    int n = int(ctx.B("maxn", 3));
    lanczos_units<gil::gray8_pixel_t>(ctx, n);
    lanczos_units<gil::rgb8_pixel_t>(ctx, n);
    lanczos_units<gil::gray32f_pixel_t>(ctx, n);
}

VH_MAIN
