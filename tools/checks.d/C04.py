# registry fragment for C04 (exec'd by tools/checks.py with CHECKS, ASSUME_COMMON, NOT_APPLICABLE in scope)
#
_c04_dep = ['harness/c04_common.hpp']
_c04_q = dict(N=4, X0=3)
_c04_t = dict(N=10, X0=3)

def _c04_runs(b, bg1, b222, sh, extra={}):
    """(tu, group, bounds, shards): sh scales the shard counts, extra overrides them per group"""
    R = lambda tu, group, bounds, shards: dict(tu=tu, group=group, bounds=bounds, shards=extra.get(group, max(1, shards * sh)))
    return [
        R('c04_bits', 'equal_gray1', bg1, 3), R('c04_bits', 'pairs_gray1', bg1, 2),     # the longest first
        R('c04_bits', 'equal_bits', b222, 3), R('c04_bits', 'pairs_rgb222', b222, 2), R('c04_bits', 'pairs_packed', b222, 2),
        R('c04_bits', 'dst_gray1', bg1, 1), R('c04_bits', 'dst_bits', b222, 1), R('c04_bits', 'convert_bits', b222, 2),
        R('c04_interleaved', 'pairs_i', b, 2), R('c04_layouts', 'pairs_layouts', b, 2), R('c04_layouts', 'equal_packed_padding', b, 1), R('c04_interleaved', 'dst_i', b, 1), R('c04_interleaved', 'equal_i', b, 2),
        R('c04_planar', 'pairs_p', b, 2), R('c04_planar', 'dst_p', b, 1), R('c04_planar', 'equal_p', b, 2),
        R('c04_planar', 'image_eq', b, 1),
        R('c04_step', 'pairs_x', b, 1), R('c04_step', 'dst_x', b, 1), R('c04_step', 'equal_x', b, 1),
        R('c04_transposed', 'pairs_t', b, 1), R('c04_transposed', 'dst_t', b, 1), R('c04_transposed', 'equal_t', b, 1),
        R('c04_float', 'pairs_f', b, 2), R('c04_float', 'dst_f', b, 1), R('c04_float', 'equal_f', b, 2),
        R('c04_sizes', 'sizes', b, 3), R('c04_sizes', 'convert', b, 2),
    ]

CHECKS['C04'] = dict(
    level='exploration',
    technique='bounded exhaustive enumeration of the real pixel algorithms over every (source organisation, destination '
              'organisation, shape, sub-view offset) against the obvious (x,y) loop run on a byte copy of the destination canvas',
    rule='case = (algorithm, source family.kind[@x0,y0], destination family.kind[@x0,y0], w x h, background); families = static '
         'view types (rgb8 interleaved / const / planar / const planar / x-step over interleaved and planar / transposed over '
         'interleaved and planar; gray8, rgb16 interleaved+planar, rgba8, rgb32f interleaved+planar, packed rgb565 and rgb222, '
         'bit-aligned gray1 and rgb222), kinds = run-time organisations of one type (contiguous, padded rows, interior sub-view, '
         'full-width row range, flipped_left_right, subsampled(2,1) with even/odd canvas width, transposed, bit rows contiguous / '
         'byte-aligned / sub-view at a non-byte-aligned pixel); every (w,h) in {0..N}^2, every offset in {0..X0-1}^2, two '
         'complementary backgrounds; all bytes of the exactly-sized guarded destination canvas compared with the model; functor '
         'argument sequence compared with the loop; equal_pixels / image==: the equal pair then one differing channel (lowest and '
         'highest bit) at every position. Distinct by construction (loop indices); non-trivial = w*h > 0 (for equal: every '
         'single-difference case).',
    assumptions=ASSUME_COMMON + [
        'view(x,y) read/write of every organisation is correct (decided by C02/C03/C08); the model loop uses it',
        'functors are given their state by pointer: how often GIL/STL copy a functor is not constrained by the statement',
        'NaN channel values are outside float32_t\'s [0,1] range and are not part of the equal_pixels oracle (counted only); -0.0f is',
        'source and destination never overlap',
    ],
    tus=[dict(name='c04_interleaved', src='harness/c04_interleaved.cpp', deps=_c04_dep),
         dict(name='c04_planar', src='harness/c04_planar.cpp', deps=_c04_dep),
         dict(name='c04_step', src='harness/c04_step.cpp', deps=_c04_dep),
         dict(name='c04_transposed', src='harness/c04_transposed.cpp', deps=_c04_dep),
         dict(name='c04_float', src='harness/c04_float.cpp', deps=_c04_dep),
         dict(name='c04_sizes', src='harness/c04_sizes.cpp', deps=_c04_dep),
         dict(name='c04_bits', src='harness/c04_bits.cpp', deps=_c04_dep),
         dict(name='c04_layouts', src='harness/c04_layouts.cpp', deps=_c04_dep)],
    runs=dict(
        quick=_c04_runs(_c04_q, _c04_q, _c04_q, 1),
        thorough=_c04_runs(_c04_t, dict(N=16, X0=8), dict(N=8, X0=4), 2, dict(equal_gray1=48, pairs_gray1=24, equal_bits=12, sizes=8))),
    witnesses_required=dict(all=[
        # copy_with_2d_iterators: four traversability branches x the std::copy overload reached at the leaf
        'copy:1d1d:memmove', 'copy:1d2d:memmove', 'copy:2d1d:memmove', 'copy:2d2d:memmove',
        'copy:1d1d:perplane', 'copy:1d2d:perplane', 'copy:2d1d:perplane', 'copy:2d2d:perplane',
        'copy:1d1d:generic', 'copy:1d2d:generic', 'copy:2d1d:generic', 'copy:2d2d:generic',
        'copy:1d1d:bitaligned', 'copy:1d2d:bitaligned', 'copy:2d1d:bitaligned', 'copy:2d2d:bitaligned',
        'copy_and_convert:compatible', 'copy_and_convert:converting', 'cross_layout_pairs', 'equal_packed_unused_bits',
        # fill_pixels: 1-D path and row path per iterator class
        'fill:1d:pixptr', 'fill:rows:pixptr', 'fill:1d:planar', 'fill:rows:planar', 'fill:1d:step', 'fill:rows:step',
        'fill:1d:bit', 'fill:rows:bit', 'fill:1d:packedptr', 'fill:rows:packedptr',
        'for_each:1d', 'for_each:rows', 'generate:1d', 'generate:rows', 'generate_byvalue:1d', 'generate_byvalue:rows',
        # std::equal overload: four branches x equal_n_fn leaf; the memcmp leaves also observed directly through the
        # sanitizer's memcmp hook
        'equal:1d1d:memcmp', 'equal:1d2d:memcmp', 'equal:2d1d:memcmp', 'equal:2d2d:memcmp',
        'equal:1d1d:memcmp-perplane', 'equal:1d2d:memcmp-perplane', 'equal:2d1d:memcmp-perplane', 'equal:2d2d:memcmp-perplane',
        'equal:1d1d:generic', 'equal:1d2d:generic', 'equal:2d1d:generic', 'equal:2d2d:generic',
        'equal:1d1d:bitaligned', 'equal:2d2d:bitaligned',
        'equal:memcmp-observed:equal:1d1d:memcmp', 'equal:memcmp-observed:equal:2d2d:memcmp',
        'equal:memcmp-observed:equal:1d1d:memcmp-perplane', 'equal:memcmp-observed:equal:2d2d:memcmp-perplane',
        'equal:true_cases', 'equal:single_difference_cases', 'equal:negzero_cases',
        'image_eq:1d1d', 'image_eq:2d2d', 'image_eq:single_difference_cases']),
    deadline=dict(quick=600, thorough=3000),
)
