// C09 — exhaustive 8-bit enumerations of the default colour converters (clauses: c09_common.hpp).
//   rgb8_all        all 2^24 rgb8 pixels -> gray8, cmyk8 (incl. rgb->cmyk->rgb), rgba8 (+ bgr8 source; more=1: 16-bit/float destinations)
//   rgba8_planes    all 2^16 (r,a), (g,a), (b,a) planes x the two other channels in {0,1,127,128,254,255}
//                   -> gray8, rgb8, cmyk8, rgba8, bgra8;   full=1: all 2^32 rgba8 pixels -> gray8, rgb8, cmyk8
//   cmyk8_planes    all 2^16 (c,k), (m,k), (y,k) planes x the two others in the same 6-set -> rgb8, gray8, rgba8, cmyk8
//                   full=1: all 2^32 cmyk8 pixels -> rgb8, rgba8, gray8
//   deep_roundtrip  rgb16 / rgb32f / rgb8s -> cmyk -> rgb on the half-level lattice (just below and just above x.5 8-bit levels)
//                   {257k + o : k in K, o in {0,128,129}} (quick: 46 values of k; dense=1: all 256), int8: all 2^24 when dense=1
// Pure value enumeration, san=False, -O2.  Shard unit = first channel value.
#include "c09_common.hpp"
#include <climits>

using namespace c09;

template <class P> static void setcap(P& p, vh::Ctx& ctx) { long c = ctx.B("cap", 48); p.cap = c == 0 ? LONG_MAX : c; }

VH_GROUP(rgb8_all)
{
    vh::ubsan_counts() = false;
    Pair<gil::rgb8_pixel_t, gil::gray8_pixel_t> g(ctx);
    Pair<gil::rgb8_pixel_t, gil::cmyk8_pixel_t> c(ctx);
    Pair<gil::rgb8_pixel_t, gil::rgba8_pixel_t> a(ctx);
    Pair<gil::bgr8_pixel_t, gil::gray8_pixel_t> bg(ctx);
    Pair<gil::bgr8_pixel_t, gil::cmyk8_pixel_t> bc(ctx);
    Pair<gil::bgr8_pixel_t, gil::argb8_pixel_t> ba(ctx);
    Pair<gil::rgb8_pixel_t, gil::gray16_pixel_t> g16(ctx);
    Pair<gil::rgb8_pixel_t, gil::gray32f_pixel_t> g32(ctx);
    Pair<gil::rgb8_pixel_t, gil::cmyk16_pixel_t> c16(ctx);
    Pair<gil::rgb8_pixel_t, gil::rgba32f_pixel_t> a32(ctx);
    setcap(g, ctx); setcap(c, ctx); setcap(a, ctx); setcap(bg, ctx); setcap(bc, ctx); setcap(ba, ctx);
    const bool more = ctx.B("more", 0) != 0;
    for (int r = 0; r < 256; ++r)
    {
        if (!ctx.take()) continue;
        ctx.cur = vh::S() << "rgb8_all r=" << r;
        for (int gg = 0; gg < 256; ++gg)
            for (int b = 0; b < 256; ++b)
            {
                uint8_t sv[4] = {uint8_t(r), uint8_t(gg), uint8_t(b), 0};
                g.one(sv); c.one(sv); a.one(sv);
                bg.one(sv); bc.one(sv); ba.one(sv);
                if (more) { g16.one(sv); g32.one(sv); c16.one(sv); a32.one(sv); }
            }
        ++ctx.witness["rgb8_all_red_slices"];
        if (r == 100)
        {
            uint8_t sv[4] = {100, 200, 17, 0}; uint8_t dg[4], dc[4];
            Pair<gil::rgb8_pixel_t, gil::gray8_pixel_t>::conv(sv, dg); Pair<gil::rgb8_pixel_t, gil::cmyk8_pixel_t>::conv(sv, dc);
            ctx.sample(vh::S() << "rgb8(100,200,17) -> gray8 " << int(dg[0]) << ", cmyk8 (" << int(dc[0]) << "," << int(dc[1]) << "," << int(dc[2]) << "," << int(dc[3]) << ")");
        }
        if (ctx.timed_out()) return;
    }
}

static const int S6[6] = {0, 1, 127, 128, 254, 255};

VH_GROUP(rgba8_planes)
{
    vh::ubsan_counts() = false;
    Pair<gil::rgba8_pixel_t, gil::gray8_pixel_t> g(ctx);
    Pair<gil::rgba8_pixel_t, gil::rgb8_pixel_t> c3(ctx);
    Pair<gil::rgba8_pixel_t, gil::cmyk8_pixel_t> k(ctx);
    Pair<gil::rgba8_pixel_t, gil::rgba8_pixel_t> aa(ctx);
    Pair<gil::rgba8_pixel_t, gil::bgra8_pixel_t> ab(ctx);
    Pair<gil::argb8_pixel_t, gil::bgr8_pixel_t> rb(ctx);
    setcap(g, ctx); setcap(c3, ctx); setcap(k, ctx); setcap(aa, ctx); setcap(ab, ctx); setcap(rb, ctx);
    if (ctx.B("full", 0) == 0)
    {
        for (int v = 0; v < 256; ++v)       // v: the swept colour channel
        {
            if (!ctx.take()) continue;
            ctx.cur = vh::S() << "rgba8_planes v=" << v;
            for (int al = 0; al < 256; ++al)
                for (int which = 0; which < 3; ++which)
                    for (int i = 0; i < 6; ++i)
                        for (int j = 0; j < 6; ++j)
                        {
                            uint8_t sv[4];
                            int o1 = (which + 1) % 3, o2 = (which + 2) % 3;
                            sv[which] = uint8_t(v); sv[o1] = uint8_t(S6[i]); sv[o2] = uint8_t(S6[j]); sv[3] = uint8_t(al);
                            g.one(sv); c3.one(sv); k.one(sv); aa.one(sv); ab.one(sv); rb.one(sv);
                        }
            ++ctx.witness["rgba8_plane_rows"];
            if (ctx.timed_out()) return;
        }
    }
    else
    {
        for (int r = 0; r < 256; ++r)
        {
            if (!ctx.take()) continue;
            ctx.cur = vh::S() << "rgba8 full r=" << r;
            for (int gg = 0; gg < 256; ++gg)
            {
                for (int b = 0; b < 256; ++b)
                    for (int al = 0; al < 256; ++al)
                    {
                        uint8_t sv[4] = {uint8_t(r), uint8_t(gg), uint8_t(b), uint8_t(al)};
                        g.one(sv); c3.one(sv); k.one(sv);
                    }
                if (ctx.timed_out()) return;
            }
            ++ctx.witness["rgba8_plane_rows"];
            ++ctx.witness["rgba8_full_red_slices"];
        }
    }
    uint8_t sv[4] = {200, 100, 50, 128}, d[4];
    Pair<gil::rgba8_pixel_t, gil::rgb8_pixel_t>::conv(sv, d);
    ctx.sample(vh::S() << "rgba8(200,100,50,128) -> rgb8 (" << int(d[0]) << "," << int(d[1]) << "," << int(d[2]) << ")");
}

VH_GROUP(cmyk8_planes)
{
    vh::ubsan_counts() = false;
    Pair<gil::cmyk8_pixel_t, gil::rgb8_pixel_t> r3(ctx);
    Pair<gil::cmyk8_pixel_t, gil::gray8_pixel_t> g(ctx);
    Pair<gil::cmyk8_pixel_t, gil::rgba8_pixel_t> a(ctx);
    Pair<gil::cmyk8_pixel_t, gil::cmyk8_pixel_t> kk(ctx);
    Pair<gil::cmyk8_pixel_t, gil::abgr8_pixel_t> ab(ctx);
    setcap(r3, ctx); setcap(g, ctx); setcap(a, ctx); setcap(kk, ctx); setcap(ab, ctx);
    if (ctx.B("full", 0) == 0)
    {
        for (int v = 0; v < 256; ++v)
        {
            if (!ctx.take()) continue;
            ctx.cur = vh::S() << "cmyk8_planes v=" << v;
            for (int kv = 0; kv < 256; ++kv)
                for (int which = 0; which < 3; ++which)
                    for (int i = 0; i < 6; ++i)
                        for (int j = 0; j < 6; ++j)
                        {
                            uint8_t sv[4];
                            int o1 = (which + 1) % 3, o2 = (which + 2) % 3;
                            sv[which] = uint8_t(v); sv[o1] = uint8_t(S6[i]); sv[o2] = uint8_t(S6[j]); sv[3] = uint8_t(kv);
                            r3.one(sv); g.one(sv); a.one(sv); kk.one(sv); ab.one(sv);
                        }
            ++ctx.witness["cmyk8_plane_rows"];
            if (ctx.timed_out()) return;
        }
    }
    else
    {
        for (int c = 0; c < 256; ++c)
        {
            if (!ctx.take()) continue;
            ctx.cur = vh::S() << "cmyk8 full c=" << c;
            for (int m = 0; m < 256; ++m)
            {
                for (int y = 0; y < 256; ++y)
                    for (int kv = 0; kv < 256; ++kv)
                    {
                        uint8_t sv[4] = {uint8_t(c), uint8_t(m), uint8_t(y), uint8_t(kv)};
                        r3.one(sv); a.one(sv); g.one(sv);
                    }
                if (ctx.timed_out()) return;
            }
            ++ctx.witness["cmyk8_plane_rows"];
            ++ctx.witness["cmyk8_full_cyan_slices"];
        }
    }
    uint8_t sv[4] = {200, 100, 50, 128}, d[4];
    Pair<gil::cmyk8_pixel_t, gil::rgb8_pixel_t>::conv(sv, d);
    ctx.sample(vh::S() << "cmyk8(200,100,50,128) -> rgb8 (" << int(d[0]) << "," << int(d[1]) << "," << int(d[2]) << ")");
}

// rgb -> cmyk -> rgb for the deeper channel types.  The interesting inputs are those between two
// 8-bit levels (257k+128): the lattice of c09_pairs does not contain enough of them.
VH_GROUP(deep_roundtrip)
{
    vh::ubsan_counts() = false;
    Pair<gil::rgb16_pixel_t, gil::cmyk16_pixel_t> p16(ctx);
    Pair<gil::bgr16_pixel_t, gil::cmyk16_pixel_t> b16(ctx);
    Pair<gil::rgb32f_pixel_t, gil::cmyk32f_pixel_t> p32(ctx);
    Pair<gil::rgb8s_pixel_t, gil::cmyk8s_pixel_t> p8s(ctx);
    setcap(p16, ctx); setcap(b16, ctx); setcap(p32, ctx); setcap(p8s, ctx);
    const bool dense = ctx.B("dense", 0) != 0;
    std::vector<int> K;
    if (dense) for (int k = 0; k < 256; ++k) K.push_back(k);
    else { for (int k = 0; k < 256; k += 6) K.push_back(k); K.push_back(1); K.push_back(254); K.push_back(255); std::sort(K.begin(), K.end()); K.erase(std::unique(K.begin(), K.end()), K.end()); }
    std::vector<long> V;
    for (int k : K) { V.push_back(257L * k); if (k < 255) { V.push_back(257L * k + 128); V.push_back(257L * k + 129); } }   // just below / above the half level
    for (size_t i = 0; i < V.size(); ++i)
    {
        if (!ctx.take()) continue;
        ctx.cur = vh::S() << "deep_roundtrip r16=" << V[i];
        for (size_t j = 0; j < V.size(); ++j)
            for (size_t l = 0; l < V.size(); ++l)
            {
                uint16_t sv[4] = {uint16_t(V[i]), uint16_t(V[j]), uint16_t(V[l]), 0};
                p16.one(sv);
                if (((j + l) & 3) == 0) b16.one(sv);
                gil::float32_t fv[4] = {gil::float32_t(V[i] / 65535.f), gil::float32_t(V[j] / 65535.f), gil::float32_t(V[l] / 65535.f), gil::float32_t(0.f)};
                p32.one(fv);
            }
        ++ctx.witness["deep_roundtrip_slices"];
        if (ctx.timed_out()) return;
    }
    // int8: lattice of 32 values per channel (dense: all 2^24)
    std::vector<int> S;
    for (int k : K) S.push_back(k - 128);
    for (size_t i = 0; i < S.size(); ++i)
    {
        if (!ctx.take()) continue;
        ctx.cur = vh::S() << "deep_roundtrip r8s=" << S[i];
        for (size_t j = 0; j < S.size(); ++j)
            for (size_t l = 0; l < S.size(); ++l)
            {
                int8_t sv[4] = {int8_t(S[i]), int8_t(S[j]), int8_t(S[l]), 0};
                p8s.one(sv);
            }
        ++ctx.witness["deep_roundtrip_signed_slices"];
    }
    uint16_t sv[4] = {0, 56540, 16065, 0}, d[4];
    Pair<gil::rgb16_pixel_t, gil::cmyk16_pixel_t>::conv(sv, d);
    ctx.sample(vh::S() << "rgb16(0,56540,16065) -> cmyk16 (" << d[0] << "," << d[1] << "," << d[2] << "," << d[3] << ")");
}

VH_MAIN
