// c05_ops.hpp — C05 part 3: the transitions, i.e. the calls into the real GIL code, one template per
// (pixel model A, pixel model B) configuration, behind the type-erased IPair interface of c05_engine.hpp.
#pragma once
#include "c05_engine.hpp"

namespace c05 {

template <class F, size_t... I> inline void dispatch_impl(int k, F& f, std::index_sequence<I...>)
{
    int d[] = {(k == int(I) ? (f(std::integral_constant<int, int(I)>()), 0) : 0)...};
    (void)d;
}
template <int N, class F> inline void dispatch(int k, F f) { dispatch_impl(k, f, std::make_index_sequence<N>()); }

// ---- recording functors (copied around by GIL: they only hold a pointer to the log)
struct F1
{
    Rec* r;
    template <class T> void operator()(T const& x) const
    { int i = r->ncalls++; if (i < 8) { r->id[i][0] = chan_id(x); r->val[i][0] = chan_val(x); } r->arity = 1; }
};
struct F2
{
    Rec* r;
    template <class T, class U> void operator()(T const& x, U const& y) const
    { int i = r->ncalls++; if (i < 8) { r->id[i][0] = chan_id(x); r->val[i][0] = chan_val(x); r->id[i][1] = chan_id(y); r->val[i][1] = chan_val(y); } r->arity = 2; }
};
struct F3
{
    Rec* r;
    template <class T, class U, class V> void operator()(T const& x, U const& y, V const& z) const
    {
        int i = r->ncalls++;
        if (i < 8) { r->id[i][0] = chan_id(x); r->val[i][0] = chan_val(x); r->id[i][1] = chan_id(y); r->val[i][1] = chan_val(y); r->id[i][2] = chan_id(z); r->val[i][2] = chan_val(z); }
        r->arity = 3;
    }
};
inline int f_un(int x) { return x ^ 1; }                 // stays inside any channel of >= 1 bit
inline int f_bin(int x, int y) { return x ^ (y >> 1); }  // not commutative; stays inside the (common) width of x and y
struct T1
{
    Rec* r;
    template <class T> int operator()(T const& x) const
    { int i = r->ncalls++; if (i < 8) { r->id[i][0] = chan_id(x); r->val[i][0] = chan_val(x); } r->arity = 1; return f_un(chan_val(x)); }
};
struct T2
{
    Rec* r;
    template <class T, class U> int operator()(T const& x, U const& y) const
    {
        int i = r->ncalls++;
        if (i < 8) { r->id[i][0] = chan_id(x); r->val[i][0] = chan_val(x); r->id[i][1] = chan_id(y); r->val[i][1] = chan_val(y); }
        r->arity = 2; return f_bin(chan_val(x), chan_val(y));
    }
};
struct Gen
{
    Rec* r; int* next; int mask;
    int operator()() const { int v = ((*next)++) & mask; if (r->ngen < 8) r->gen[r->ngen] = v; ++r->ngen; return v; }
};

// ---- observation of a pixel object P (any constness) whose type has layout descriptor L, identities judged by `slot`
template <class L, class P, class Slot, size_t... I>
inline void observe_impl(P& px, Slot const& s, Obs& o, std::index_sequence<I...>)
{
    using tags = typename L::cs::tags;
    using gmap = typename std::remove_const<P>::type::layout_t::channel_mapping_t;   // "the layout's channel mapping" of the statement
    int d[] = {(
        o.v_color[I] = chan_val(gil::get_color(px, mp::mp_at_c<tags, I>())),
        o.c_color[I] = s.colour_of(chan_id(gil::get_color(px, mp::mp_at_c<tags, I>()))),
        o.v_sem[I] = chan_val(gil::semantic_at_c<int(I)>(px)),
        o.c_sem[I] = s.colour_of(chan_id(gil::semantic_at_c<int(I)>(px))),
        o.v_atc[I] = chan_val(gil::at_c<int(I)>(px)),
        o.c_atc[I] = s.colour_of(chan_id(gil::at_c<int(I)>(px))),
        o.rel[I] = chan_id(gil::semantic_at_c<int(I)>(px)) == chan_id(gil::at_c<mp::mp_at_c<gmap, I>::value>(px)),
        0)...};
    (void)d;
}
template <class P, class Slot> inline void observe_idx(P& px, Slot const& s, Obs& o, std::true_type)
{
    o.has_idx = true;
    for (int k = 0; k < o.n; ++k) { o.v_idx[k] = chan_val(px[k]); o.c_idx[k] = s.colour_of(chan_id(px[k])); }
}
template <class P, class Slot> inline void observe_idx(P&, Slot const&, Obs& o, std::false_type) { o.has_idx = false; }

template <class L, bool HOMOG, class P, class Slot> inline void observe(P& px, Slot const& s, Obs& o)
{
    o.n = L::cs::N;
    observe_impl<L>(px, s, o, std::make_index_sequence<L::cs::N>());
    observe_idx(px, s, o, std::integral_constant<bool, HOMOG>());
}

template <class Slot> inline void resolve(Rec& r, Slot const& s, int arg)
{ for (int i = 0; i < r.ncalls && i < 8; ++i) r.col[i][arg] = s.colour_of(r.id[i][arg]); }

// ---- unary transitions on one slot
template <class D> struct Un
{
    using L = typename D::layout; using P = typename D::pixel_t; using tags = typename L::cs::tags;
    enum { N = D::N };

    static void set_idx(P& px, int k, int v, std::true_type) { px[k] = v; }
    static void set_idx(P&, int, int, std::false_type) {}

    template <class Q> static void minmax(Q& px, int& mn, int& mx, std::true_type) { mn = chan_val(gil::static_min(px)); mx = chan_val(gil::static_max(px)); }
    template <class Q> static void minmax(Q&, int&, int&, std::false_type) {}

    static void exec(D& s, Model& m, LayoutInfo const& li, Op const& op, Rec& rec, Verdict& vd, IPair& W)
    {
        P& px = s.px();
        switch (op.code)
        {
        case SET_COLOR:
            dispatch<N>(op.ch, [&](auto K) { gil::get_color(px, mp::mp_at_c<tags, decltype(K)::value>()) = op.val; });
            m.v[op.ch] = op.val; break;
        case SET_SEM:
            dispatch<N>(op.ch, [&](auto K) { gil::semantic_at_c<decltype(K)::value>(px) = op.val; });
            m.v[op.ch] = op.val; break;
        case SET_ATC:
            dispatch<N>(op.ch, [&](auto K) { gil::at_c<decltype(K)::value>(px) = op.val; });
            m.v[li.col_at[op.ch]] = op.val; break;
        case SET_IDX:
            set_idx(px, op.ch, op.val, std::integral_constant<bool, D::homogeneous>());
            m.v[li.col_at[op.ch]] = op.val; break;
        case FILL:
            gil::static_fill(px, op.val);
            for (int c = 0; c < N; ++c) m.v[c] = op.val;
            break;
        case GENERATE:
        {
            int mm = 1 << 30; for (int c = 0; c < N; ++c) mm = std::min(mm, (1 << D::width(c)) - 1);
            int next = op.val; rec.clear();
            gil::static_generate(px, Gen{&rec, &next, mm});
            // each channel written exactly once with one generated value: n calls, and the multiset of channel values is the
            // multiset of generated values (the statement fixes no visiting order, so the model adopts the observed placement)
            if (rec.ngen != N) { vd.bad("visit-count", vh::S() << "generator called " << rec.ngen << " times for " << N << " channels"); break; }
            int got[MAXN], exp[MAXN];
            for (int c = 0; c < N; ++c) { got[c] = s.raw_get(c); exp[c] = rec.gen[c]; m.v[c] = got[c]; }
            { bool sem = true; for (int c = 0; c < N; ++c) sem = sem && got[c] == exp[c]; ++(sem ? W.w_gen_semantic : W.w_gen_other); }
            std::sort(got, got + N); std::sort(exp, exp + N);
            for (int c = 0; c < N; ++c) if (got[c] != exp[c]) { vd.bad("visit-once", "channel values after static_generate are not a permutation of the generated values"); break; }
            break;
        }
        case XFORM1_SELF:
        {
            rec.clear();
            gil::static_transform(px, px, T1{&rec});
            resolve(rec, s, 0);
            Model const* ms[1] = {&m};
            check_rec(rec, N, 1, ms, "static_transform(p,p,f)", vd);
            for (int c = 0; c < N; ++c) m.v[c] = f_un(m.v[c]);
            break;
        }
        case R_FOREACH1:
        {
            rec.clear(); gil::static_for_each(px, F1{&rec}); resolve(rec, s, 0);
            Model const* ms[1] = {&m}; check_rec(rec, N, 1, ms, "static_for_each(p,f)", vd);
            break;
        }
        case R_FOREACH1_C:
        {
            rec.clear(); gil::static_for_each(s.cview(), F1{&rec}); resolve(rec, s, 0);
            Model const* ms[1] = {&m}; check_rec(rec, N, 1, ms, "static_for_each(const p,f)", vd);
            break;
        }
        case R_MINMAX: case R_MINMAX_C:
        {
            int mn = 0, mx = 0;
            if (op.code == R_MINMAX) minmax(px, mn, mx, std::integral_constant<bool, D::homogeneous>());
            else minmax(s.cview(), mn, mx, std::integral_constant<bool, D::homogeneous>());
            int emn = m.v[0], emx = m.v[0];
            for (int c = 1; c < N; ++c) { emn = std::min(emn, m.v[c]); emx = std::max(emx, m.v[c]); }
            ++W.w_minmax;
            if (mn != emn) vd.bad("static_min", vh::S() << "static_min=" << mn << " model " << mstr(m, li));
            else if (mx != emx) vd.bad("static_max", vh::S() << "static_max=" << mx << " model " << mstr(m, li));
            break;
        }
        default: break;
        }
    }
};

// ---- which constructions exist between two models
// On the unchanged tree pixel<T,L>(p) only compiles for a source derived from homogeneous_color_base (finding C05-F1 in
// design_notes/C05.md: pixel<packed_channel_value<N>,L>(packed_pixel) is compatible but ill-formed). Build with
// -DC05_F1_FIXED against a tree that has drafts/F_C05_pixel_ctor_from_heterogeneous.patch to put those constructions into the alphabet.
#ifdef C05_F1_FIXED
template <class DA, class DB> struct can_construct : std::integral_constant<bool, DA::is_value> {};
#else
template <class DA, class DB> struct can_construct
    : std::integral_constant<bool, DA::is_value && (DA::kind == K_PACKED || DB::homogeneous)> {};
#endif

// planar_pixel_reference<Ch&,CS>(pixel<Ch,layout<CS,Mapping>>&) and bit_aligned_pixel_reference(packed_pixel<BF,CR,Layout>&): references bound onto a value
template <class T> struct is_plain_layout : std::false_type {};
template <class CS, class M> struct is_plain_layout<gil::layout<CS, M>> : std::true_type {};
template <class DA, class DB, class = void> struct can_alias : std::false_type {};
template <class Ch, class LA, class LB>
struct can_alias<Planar<Ch, LA>, Inter<Ch, LB>, void>
    : std::integral_constant<bool, std::is_same<typename LA::cs, typename LB::cs>::value && is_plain_layout<typename LB::gil_t>::value> {};
template <class BFA, class BFB, class WC, class L>
struct can_alias<BitAl<BFA, WC, L>, Packed<BFB, WC, L>, void> : std::true_type {};
// const planar reference constructed from any homogeneous pixel: a read-only view of B in A's (identity) layout
template <class DA, class DB> struct can_calias
    : std::integral_constant<bool, DA::kind == K_PLANAR && DB::homogeneous> {};

template <class DA, class DB> struct Bin
{
    using PA = typename DA::pixel_t; using PB = typename DB::pixel_t;
    enum { N = DA::N };

    static void construct(DA& a, DB& b, bool cv, std::true_type)
    {
        // a fresh PA constructed from B becomes the new pixel A (value models only: the object IS its storage)
        if (cv) new (static_cast<void*>(&a.px())) PA(b.cview());
        else    new (static_cast<void*>(&a.px())) PA(const_cast<PB const&>(b.px()));
    }
    static void construct(DA&, DB&, bool, std::false_type) {}

    static void swap_(DA& a, DB& b, std::true_type) { using std::swap; swap(a.px(), b.px()); }
    static void swap_(DA&, DB&, std::false_type) {}

    template <class Al> static void alias_obs(Al& al, DB& b, Obs& o) { observe<typename DA::layout, DA::homogeneous>(al, b, o); }

    static void alias(DA& a, DB& b, Model& ma, Model& mb, LayoutInfo const& la, Op const& op, Verdict& vd, std::true_type)
    {
        PA al(b.px());      // a mutable reference of A's model bound onto pixel B
        if (op.code == ALIAS_SET)
        {
            dispatch<N>(op.ch, [&](auto K) { gil::get_color(al, mp::mp_at_c<typename DA::layout::cs::tags, decltype(K)::value>()) = op.val; });
            mb.v[op.ch] = op.val;
        }
        else if (op.code == ALIAS_ASSIGN) { al = a.px(); mb = ma; }
        Obs o; alias_obs(al, b, o);
        check_obs(o, la, mb, "alias(B)", vd);
    }
    static void alias(DA&, DB&, Model&, Model&, LayoutInfo const&, Op const&, Verdict&, std::false_type) {}

    static void calias(DB& b, Model& mb, LayoutInfo const& la, Verdict& vd, std::true_type)
    {
        typename DA::cview_t al(b.cview());
        Obs o; alias_obs(al, b, o);
        check_obs(o, la, mb, "const-alias(B)", vd);
    }
    static void calias(DB&, Model&, LayoutInfo const&, Verdict&, std::false_type) {}

    static void exec(DA& a, DB& b, Model& ma, Model& mb, LayoutInfo const& la, Op const& op, Rec& rec, Verdict& vd, IPair& W)
    {
        PA& pa = a.px(); PB& pb = b.px();
        bool post_eq = false;
        switch (op.code)
        {
        case CONSTRUCT: construct(a, b, false, can_construct<DA, DB>()); ma = mb; post_eq = true; ++W.w_construct; break;
        case CONSTRUCT_CV: construct(a, b, true, can_construct<DA, DB>()); ma = mb; post_eq = true; break;
        case ASSIGN: pa = pb; ma = mb; post_eq = true; if (W.cross_layout && distinct_values(mb)) ++W.w_assign_xl; break;
        case ASSIGN_CV: pa = b.cview(); ma = mb; post_eq = true; break;
        case COPY: gil::static_copy(pb, pa); ma = mb; post_eq = true; break;
        case COPY_CV: gil::static_copy(b.cview(), pa); ma = mb; post_eq = true; break;
        case XFORM1:
        {
            rec.clear(); gil::static_transform(b.cview(), pa, T1{&rec}); resolve(rec, b, 0);
            Model const* ms[1] = {&mb}; check_rec(rec, N, 1, ms, "static_transform(B,A,f)", vd);
            for (int c = 0; c < N; ++c) ma.v[c] = f_un(mb.v[c]);
            break;
        }
        case XFORM2_AB:
        {
            rec.clear(); gil::static_transform(pa, pb, pa, T2{&rec}); resolve(rec, a, 0); resolve(rec, b, 1);
            Model const* ms[2] = {&ma, &mb}; check_rec(rec, N, 2, ms, "static_transform(A,B,A,g)", vd);
            for (int c = 0; c < N; ++c) ma.v[c] = f_bin(ma.v[c], mb.v[c]);
            break;
        }
        case XFORM2_BA:
        {
            rec.clear(); gil::static_transform(b.cview(), a.cview(), pa, T2{&rec}); resolve(rec, b, 0); resolve(rec, a, 1);
            Model const* ms[2] = {&mb, &ma}; check_rec(rec, N, 2, ms, "static_transform(B,A,A,g)", vd);
            for (int c = 0; c < N; ++c) ma.v[c] = f_bin(mb.v[c], ma.v[c]);
            break;
        }
        case SWAP: swap_(a, b, std::is_same<PA, PB>()); std::swap(ma, mb); ++W.w_swap; break;
        case ALIAS_SET: case ALIAS_ASSIGN: case R_ALIAS_READ: alias(a, b, ma, mb, la, op, vd, can_alias<DA, DB>()); if (op.code != R_ALIAS_READ) ++W.w_alias_write; break;
        case R_CALIAS_READ: calias(b, mb, la, vd, can_calias<DA, DB>()); break;
        case R_EQ: case R_EQ_CV:
        {
            bool want = ma == mb, eq, ne, se;
            ++(want ? W.w_eq_true : W.w_eq_false);
            if (op.code == R_EQ) { eq = pa == pb; ne = pa != pb; se = gil::static_equal(pa, pb); }
            else { eq = a.cview() == b.cview(); ne = a.cview() != b.cview(); se = gil::static_equal(a.cview(), b.cview()); }
            if (eq != want) vd.bad("operator==", vh::S() << "A==B is " << eq << ", by colour A=" << mstr(ma, la) << " B=" << mstr(mb, la));
            else if (ne != !want) vd.bad("operator!=", vh::S() << "A!=B is " << ne);
            else if (se != want) vd.bad("static_equal", vh::S() << "static_equal(A,B) is " << se);
            break;
        }
        case R_FOREACH2:
        {
            Model const* ms[2] = {&ma, &mb};
            rec.clear(); gil::static_for_each(pa, pb, F2{&rec}); resolve(rec, a, 0); resolve(rec, b, 1);
            check_rec(rec, N, 2, ms, "static_for_each(A,B,f)", vd);
            rec.clear(); gil::static_for_each(pa, b.cview(), F2{&rec}); resolve(rec, a, 0); resolve(rec, b, 1);
            check_rec(rec, N, 2, ms, "static_for_each(A,const B,f)", vd);
            rec.clear(); gil::static_for_each(a.cview(), pb, F2{&rec}); resolve(rec, a, 0); resolve(rec, b, 1);
            check_rec(rec, N, 2, ms, "static_for_each(const A,B,f)", vd);
            rec.clear(); gil::static_for_each(a.cview(), b.cview(), F2{&rec}); resolve(rec, a, 0); resolve(rec, b, 1);
            check_rec(rec, N, 2, ms, "static_for_each(const A,const B,f)", vd);
            break;
        }
        case R_FOREACH3:
        {
            Model const* ms[3] = {&ma, &mb, &ma};
            rec.clear(); gil::static_for_each(pa, b.cview(), a.cview(), F3{&rec}); resolve(rec, a, 0); resolve(rec, b, 1); resolve(rec, a, 2);
            check_rec(rec, N, 3, ms, "static_for_each(A,const B,const A,f)", vd);
            break;
        }
        default: break;
        }
        // "after dst = src ... dst == src holds"
        if (post_eq && vd.ok && !(pa == pb)) vd.bad("dst==src", vh::S() << "dst == src is false after " << op_name(op.code) << "; src=" << mstr(mb, la));
    }
};

template <class DA, class DB> struct PairImpl : IPair
{
    // only instantiated for pairs GIL declares compatible (run_pair dispatches on pixels_are_compatible)
    static_assert(std::is_same<typename DA::cs, typename DB::cs>::value, "");
    DA a; DB b;
    PairImpl(int va, int vb, unsigned char bg) : a(va, bg), b(vb, bg)
    {
        la = layout_info<typename DA::layout>(); lb = layout_info<typename DB::layout>();
        for (int c = 0; c < DA::N; ++c) { wa[c] = DA::width(c); wb[c] = DB::width(c); }
        same_type = std::is_same<typename DA::pixel_t, typename DB::pixel_t>::value;
        a_homog = DA::homogeneous; b_homog = DB::homogeneous; a_value = DA::is_value;
        can_construct = c05::can_construct<DA, DB>::value;
        can_alias = c05::can_alias<DA, DB>::value;
        can_calias = c05::can_calias<DA, DB>::value;
        char bgs[8]; snprintf(bgs, sizeof bgs, "%02x", bg);
        cross_layout = la.name != lb.name;
        name = DA::tname() + "[" + DA::vname(va) + "]<-" + DB::tname() + "[" + DB::vname(vb) + "]/bg" + bgs;
    }
    void wipe() override { a.wipe(); b.wipe(); }
    void raw_write() override { for (int c = 0; c < DA::N; ++c) { a.raw_set(c, ma.v[c]); b.raw_set(c, mb.v[c]); } }
    void raw_check(Verdict& vd) override
    {
        for (int c = 0; c < DA::N && vd.ok; ++c)
        {
            if (a.raw_get(c) != ma.v[c]) vd.bad("storage-by-colour", vh::S() << "A: storage of " << la.cname[c] << " holds " << a.raw_get(c) << ", model A=" << mstr(ma, la) << " B=" << mstr(mb, lb));
            else if (b.raw_get(c) != mb.v[c]) vd.bad("storage-by-colour", vh::S() << "B: storage of " << lb.cname[c] << " holds " << b.raw_get(c) << ", model B=" << mstr(mb, lb));
        }
    }
    void exec(Op const& op, Verdict& vd) override
    {
        bool unary = op.code <= XFORM1_SELF || op.code == R_FOREACH1 || op.code == R_FOREACH1_C || op.code == R_MINMAX || op.code == R_MINMAX_C;
        if (unary) { if (op.slot == 0) Un<DA>::exec(a, ma, la, op, rec, vd, *this); else Un<DB>::exec(b, mb, lb, op, rec, vd, *this); }
        else Bin<DA, DB>::exec(a, b, ma, mb, la, op, rec, vd, *this);
    }
    void invariant(Verdict& vd) override
    {
        Obs o;
        observe<typename DA::layout, DA::homogeneous>(a.px(), a, o); check_obs(o, la, ma, "A", vd);
        observe<typename DA::layout, DA::homogeneous>(a.cview(), a, o); check_obs(o, la, ma, "const A", vd);
        observe<typename DB::layout, DB::homogeneous>(b.px(), b, o); check_obs(o, lb, mb, "B", vd);
        observe<typename DB::layout, DB::homogeneous>(b.cview(), b, o); check_obs(o, lb, mb, "const B", vd);
    }
    bool intact() override { return a.intact() && b.intact(); }
};

// ---- a family = a list of mutually compatible slot descriptors; every ordered pair x storage variants x backgrounds is a unit
inline Bounds bounds_of(vh::Ctx& ctx)
{
    Bounds b; b.depth = int(ctx.B("depth", 2)); b.vals = int(ctx.B("vals", 0)); b.rots = int(ctx.B("rots", 2)); b.bgs = int(ctx.B("bgs", 2));
    return b;
}
// A pair of a family that GIL does NOT declare compatible is outside the statement and cannot be explored; every family in
// c05_families.hpp is compatible on the unchanged tree, so this is reported (visibly, as a failure of the configuration)
// instead of silently shrinking the coverage — it happens when a layout's mapping moves a colour onto a channel of another width.
template <class DA, class DB> inline void run_pair(vh::Ctx& ctx, std::false_type)
{
    if (!ctx.take()) return;
    ctx.fail(DA::tname() + "<-" + DB::tname(), "config:pixels_are_compatible-is-false",
             "colour-wise equal channel types by the reference tables, but GIL pairs channels of different types");
    ++ctx.witness["pairs_declared_incompatible"];
}
template <class DA, class DB> inline void run_pair(vh::Ctx& ctx, std::true_type)
{
    Bounds bd = bounds_of(ctx);
    static const unsigned char BG[4] = {0x00, 0xFF, 0xA5, 0x5A};
    for (int va = 0; va < DA::NVAR; ++va)
        for (int vb = 0; vb < DB::NVAR; ++vb)
            for (int g = 0; g < bd.bgs && g < 4; ++g)
            {
                if (!ctx.take()) continue;
                PairImpl<DA, DB> P(va, vb, BG[g]);
                ctx.cur = P.name;
                long t0 = ctx.transitions;
                explore(P, ctx, bd);
                ++ctx.witness["units"];
                ctx.witness["eq_true"] += P.w_eq_true; ctx.witness["eq_false"] += P.w_eq_false;
                ctx.witness["assign_cross_layout_distinct"] += P.w_assign_xl;
                ctx.witness["construct_ops"] += P.w_construct; ctx.witness["alias_writes"] += P.w_alias_write;
                ctx.witness["swap_ops"] += P.w_swap; ctx.witness["minmax_ops"] += P.w_minmax;
                ctx.counters["generate_in_colour_space_order"] += P.w_gen_semantic; ctx.counters["generate_in_other_order"] += P.w_gen_other;
                if (P.la.name != P.lb.name) ++ctx.witness["units_cross_layout"];
                if (int(DA::kind) != int(DB::kind)) ++ctx.witness["units_cross_model"];
                if (P.can_construct) ++ctx.witness["units_with_construct"];
                if (P.can_alias) ++ctx.witness["units_with_alias"];
                if (P.same_type) ++ctx.witness["units_with_swap"];
                if (P.a_homog) ++ctx.witness["units_with_minmax_index"];
                if (DA::kind == K_BITAL || DB::kind == K_BITAL) ++ctx.witness["units_bit_aligned"];
                if (DA::kind == K_PACKED || DB::kind == K_PACKED) ++ctx.witness["units_packed"];
                if (DA::kind == K_PLANAR || DB::kind == K_PLANAR) ++ctx.witness["units_planar"];
                if (va == 0 && vb == 0 && g == 0)
                    ctx.sample(P.name + ": " + std::to_string(ctx.transitions - t0) + " transitions at depth " + std::to_string(bd.depth));
                if (ctx.timed_out()) return;
            }
}
template <class DA> struct ForB
{
    vh::Ctx& ctx;
    template <class DB> void operator()(mp::mp_identity<DB>) const
    {
        run_pair<DA, DB>(ctx, std::integral_constant<bool, gil::pixels_are_compatible<typename DA::pixel_t, typename DB::pixel_t>::value>());
    }
};
template <class List> struct ForA
{
    vh::Ctx& ctx;
    template <class DA> void operator()(mp::mp_identity<DA>) const { mp::mp_for_each<mp::mp_transform<mp::mp_identity, List>>(ForB<DA>{ctx}); }
};
// all ordered pairs (A from ListA, B from ListB)
template <class ListA, class ListB> inline void run_family(vh::Ctx& ctx)
{
    vh::ubsan_counts() = false;   // the statement of C05 does not speak about undefined behaviour; ASan reports still count
    mp::mp_for_each<mp::mp_transform<mp::mp_identity, ListA>>(ForA<ListB>{ctx});
}

} // namespace c05
