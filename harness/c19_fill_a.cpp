// C19 — fill_histogram / histogram::fill, 1-D and 2-D histograms (one group per type configuration).
// Every view of the shape list x every content over the pixel alphabet x every mask x every limit box
// x bin widths 1..BW x {replace, accumulate, member fill, dense replace, dense accumulate}, against the
// std::map model of c19_model.hpp; cumulative / sub_histogram / normalize on every distinct result.
#include "c19_fill.hpp"
using namespace c19;
#define CFG_GROUP(name, ...) VH_GROUP(name) { run_cfg<Cfg<__VA_ARGS__>>(ctx); }
CFG_GROUP(g8,      uint8_t, 1, gil::histogram<int>)
CFG_GROUP(g8s,     int8_t, 1, gil::histogram<int>)
CFG_GROUP(g16,     uint16_t, 1, gil::histogram<int>)
CFG_GROUP(g16s,    int16_t, 1, gil::histogram<int>)
CFG_GROUP(g8_u8,   uint8_t, 1, gil::histogram<unsigned char>)
CFG_GROUP(g16_l,   uint16_t, 1, gil::histogram<long>)
CFG_GROUP(rgb8_1,  uint8_t, 3, gil::histogram<int>, 1)
CFG_GROUP(rgba16_3, uint16_t, 4, gil::histogram<int>, 3)
CFG_GROUP(d2_8,    uint8_t, 2, gil::histogram<int, int>)
CFG_GROUP(d2_8s,   int8_t, 2, gil::histogram<int, int>)
CFG_GROUP(d2_8_10, uint8_t, 2, gil::histogram<int, int>, 1, 0)      // full-length, permuted channel selection
CFG_GROUP(rgb8_20, uint8_t, 3, gil::histogram<int, int>, 2, 0)
CFG_GROUP(rgb16_01, uint16_t, 3, gil::histogram<int, long>, 0, 1)
VH_MAIN
