# registry fragment for C13 (exec'd by tools/checks.py with CHECKS, ASSUME_COMMON, NOT_APPLICABLE in scope)
_c13_deps = ['harness/io_common.hpp', 'harness/c13_common.hpp']
_c13_gen = _c13_deps + ['harness/io_seeds.hpp']
_c13_lib = _c13_deps + ['harness/c13_lib.hpp', 'harness/c12_common.hpp']
_c13_tiff = _c13_lib + ['harness/c13_tiff.hpp']
_c13_png = _c13_lib + ['harness/c13_png.hpp']
_c13_witness = ['spec_checked', 'dev_name', 'dev_FILE', 'dev_istream', 'info_checked', 'subrect_reads', 'subrect_x0>0', 'subrect_y0>0',
                'subrect_bottom_cut', 'subrect_convert_reads', 'canvas_reads', 'convert_reads', 'scanline_reads', 'scanline_skip_reads',
                'exact_view_reads', 'larger_view_cases', 'small_view_cases', 'any_image_reads',
                'bmp_bpp1', 'bmp_bpp4', 'bmp_bpp8', 'bmp_bpp16', 'bmp_bpp24', 'bmp_bpp32', 'bmp_rle', 'bmp_top_down', 'bmp_os2', 'bmp_v4',
                'bmp_reduced_palette', 'pnm_p1', 'pnm_p2', 'pnm_p3', 'pnm_p4', 'pnm_p5', 'pnm_p6', 'pnm_comments', 'pnm_maxval_lt_255',
                'tga_bpp24', 'tga_bpp32', 'tga_raw', 'tga_rle', 'tga_top_origin', 'tga_bottom_origin',
                'png_gil_written_seeds', 'png_interlaced_seeds', 'jpeg_gil_written_seeds', 'tiff_strip_seeds', 'tiff_tiled_seeds']
CHECKS['C13'] = dict(
    level='exploration',
    technique='exhaustive differential enumeration of every reading entry point / device / sub-rectangle of one file against the '
              'full read_image result, and of the full result against independent encoders (gen/seeds.py); ASan/UBSan + canvas '
              'borders + guard canaries as monitors; every seed in a forked worker that is resumed after a crash',
    rule='for every seed {149 independently encoded BMP/PNM/TARGA files covering every variant the decoders distinguish; GIL-written '
         'PNG (9 types x 3 sizes) + 4 Adam7 PNGs written by libpng; GIL-written JPEG (3 types x 4 sizes); GIL-written TIFF (13 types x '
         '{strip, tiled} x {none, LZW} x sizes incl. 18x17); thorough: the repo sample files}: decode == encoder input; 3 devices agree; '
         'read_image_info dims/depth; every sub-rectangle (top_left,dim) of every seed <= 5x4 (thorough: every seed of <= 20 pixels, i.e. also the 9x2 ones) through '
         'read_image, read_and_convert_image<rgba8> and read_view into an interior sub-view of a sentinel canvas, x 3 devices; '
         'read_and_convert_image<P> for each P of the per-format list; scanline reader (all rows; odd rows only); read_view into an '
         'exactly sized guarded buffer; read_view/read_and_convert_view into canvases; 12 one-short destination views; any_image. '
         'Case = (seed, entry point, device, rectangle); distinct by construction; non-trivial = not the whole-image rectangle.',
    assumptions=ASSUME_COMMON + [
        'the encoders of gen/seeds.py are correct (cross-checked once against gdk-pixbuf 2.42: 146/149 identical, 3 differ only in '
        'the rounding of maxval<255 scaling, which GIL does not apply)',
        'pixel-wise color_convert is taken from copy_and_convert_pixels (validated by C09/C04)',
        'make_scanline_reader(Device&, tag) does not compile in this tree; for FILE*/istream the scanline_reader is constructed directly',
        'a destination view LARGER than the region is not constrained by the statement: only "no write outside the view" is checked there',
        'libpng / libjpeg / libtiff are uninstrumented; scratch files live under /verif/build/io',
    ],
    tus=[dict(name='c13_bmp', src='harness/c13_bmp.cpp', deps=_c13_gen),
         dict(name='c13_pnm', src='harness/c13_pnm.cpp', deps=_c13_gen),
         dict(name='c13_targa', src='harness/c13_targa.cpp', deps=_c13_gen),
         dict(name='c13_png_a', src='harness/c13_png_a.cpp', deps=_c13_png, libs=['-lpng', '-lz']),
         dict(name='c13_png_b', src='harness/c13_png_b.cpp', deps=_c13_png, libs=['-lpng', '-lz']),
         dict(name='c13_jpeg', src='harness/c13_jpeg.cpp', deps=_c13_lib, libs=['-ljpeg']),
         dict(name='c13_tiff_a', src='harness/c13_tiff_a.cpp', deps=_c13_tiff, libs=['-ltiffxx', '-ltiff']),
         dict(name='c13_tiff_b', src='harness/c13_tiff_b.cpp', deps=_c13_tiff, libs=['-ltiffxx', '-ltiff']),
         dict(name='c13_tiff_c', src='harness/c13_tiff_c.cpp', deps=_c13_tiff, libs=['-ltiffxx', '-ltiff'])],
    runs=dict(
        quick=[dict(tu='c13_bmp', group='seeds', shards=10), dict(tu='c13_pnm', group='seeds', shards=3),
               dict(tu='c13_targa', group='seeds', shards=3), dict(tu='c13_png_a', group='seeds', shards=3), dict(tu='c13_png_b', group='seeds', shards=3),
               dict(tu='c13_jpeg', group='seeds', shards=2), dict(tu='c13_tiff_a', group='seeds', shards=4),
               dict(tu='c13_tiff_b', group='seeds', shards=4), dict(tu='c13_tiff_c', group='seeds', shards=4),
               # the repository's own sample files (test/extension/io/images): same oracles, files not written by this machinery
               dict(tu='c13_bmp', group='samples', shards=6), dict(tu='c13_pnm', group='samples', shards=2), dict(tu='c13_targa', group='samples', shards=2),
               dict(tu='c13_png_a', group='samples', shards=2), dict(tu='c13_png_b', group='samples', shards=4), dict(tu='c13_jpeg', group='samples', shards=2),
               dict(tu='c13_tiff_c', group='samples')],
        thorough=[dict(tu='c13_bmp', group='seeds', bounds=dict(allrect=1), shards=16), dict(tu='c13_pnm', group='seeds', bounds=dict(allrect=1), shards=6),
                  dict(tu='c13_targa', group='seeds', bounds=dict(allrect=1), shards=6), dict(tu='c13_png_a', group='seeds', bounds=dict(allrect=1), shards=5),
                  dict(tu='c13_png_b', group='seeds', bounds=dict(allrect=1), shards=5),
                  dict(tu='c13_jpeg', group='seeds', bounds=dict(allrect=1), shards=4), dict(tu='c13_tiff_a', group='seeds', bounds=dict(allrect=1), shards=8),
                  dict(tu='c13_tiff_b', group='seeds', bounds=dict(allrect=1), shards=8), dict(tu='c13_tiff_c', group='seeds', bounds=dict(allrect=1), shards=8),
                  dict(tu='c13_bmp', group='samples', shards=6), dict(tu='c13_pnm', group='samples', shards=2),
                  dict(tu='c13_targa', group='samples', shards=2), dict(tu='c13_png_a', group='samples', shards=2), dict(tu='c13_png_b', group='samples', shards=4),
                  dict(tu='c13_jpeg', group='samples', shards=2), dict(tu='c13_tiff_a', group='samples'), dict(tu='c13_tiff_b', group='samples'),
                  dict(tu='c13_tiff_c', group='samples')]),
    witnesses_required=dict(quick=_c13_witness + ['sample_files', 'jpeg_scanline_with_dct_setting'], thorough=_c13_witness + ['sample_files', 'jpeg_scanline_with_dct_setting']),
    deadline=dict(quick=900, thorough=5400),
)
