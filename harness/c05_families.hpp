// c05_families.hpp — C05 part 4: the configurations.  A family is a list of mutually compatible pixel models
// (same colour space, same channel value type per colour); every ordered pair of a family is explored.
// Bit widths are written per COLOUR (R,G,B[,A] / C,M,Y,K / d0..d4), whatever the memory order of the layout.
#pragma once
#include "c05_ops.hpp"

namespace c05 {
using u8 = uint8_t; using u16 = uint16_t; using u32 = uint32_t;
template <int B> using pv = gil::packed_channel_value<B>;

// ---------------- rgb / bgr
using Rgb8 = mp::mp_list<Inter<u8, LRgb>, Inter<u8, LBgr>, Planar<u8, LRgb>>;
using Rgb16 = mp::mp_list<Inter<u16, LRgb>, Inter<u16, LBgr>, Planar<u16, LRgb>>;
using W565 = mp::mp_list_c<unsigned, 5, 6, 5>;
using Rgb565 = mp::mp_list<Packed<u16, W565, LRgb>, Packed<u16, W565, LBgr>, BitAl<u32, W565, LRgb>, BitAl<u32, W565, LBgr>>;
using W332 = mp::mp_list_c<unsigned, 3, 3, 2>;
using Rgb332 = mp::mp_list<Packed<u8, W332, LRgb>, Packed<u8, W332, LBgr>, BitAl<u16, W332, LRgb>, BitAl<u16, W332, LBgr>>;
using W222 = mp::mp_list_c<unsigned, 2, 2, 2>;   // equal widths: value pixels and planar references over packed_channel_value<2> join in
using Rgb222 = mp::mp_list<Inter<pv<2>, LRgb>, Inter<pv<2>, LBgr>, Planar<pv<2>, LRgb>,
                           Packed<u8, W222, LRgb>, Packed<u8, W222, LBgr>, BitAl<u16, W222, LRgb>, BitAl<u16, W222, LBgr>>;

// ---------------- rgba / bgra / argb / abgr
using Rgba8 = mp::mp_list<Inter<u8, LRgba>, Inter<u8, LBgra>, Inter<u8, LArgb>, Inter<u8, LAbgr>, Planar<u8, LRgba>>;
using W5551 = mp::mp_list_c<unsigned, 5, 5, 5, 1>;
using Rgba5551 = mp::mp_list<Packed<u16, W5551, LRgba>, Packed<u16, W5551, LBgra>, Packed<u16, W5551, LArgb>, Packed<u16, W5551, LAbgr>,
                             BitAl<u32, W5551, LRgba>, BitAl<u32, W5551, LBgra>, BitAl<u32, W5551, LArgb>, BitAl<u32, W5551, LAbgr>>;
using W1232 = mp::mp_list_c<unsigned, 1, 2, 3, 2>;
using Rgba1232 = mp::mp_list<Packed<u8, W1232, LRgba>, Packed<u8, W1232, LBgra>, Packed<u8, W1232, LArgb>, Packed<u8, W1232, LAbgr>,
                             BitAl<u16, W1232, LRgba>, BitAl<u16, W1232, LBgra>, BitAl<u16, W1232, LArgb>, BitAl<u16, W1232, LAbgr>>;
using W4444 = mp::mp_list_c<unsigned, 4, 4, 4, 4>;
using Rgba4444_h = mp::mp_list<Inter<pv<4>, LRgba>, Inter<pv<4>, LBgra>, Inter<pv<4>, LArgb>, Inter<pv<4>, LAbgr>, Planar<pv<4>, LRgba>>;
using Rgba4444_p = mp::mp_list<Packed<u16, W4444, LRgba>, Packed<u16, W4444, LBgra>, Packed<u16, W4444, LArgb>, Packed<u16, W4444, LAbgr>>;
using Rgba4444_b = mp::mp_list<BitAl<u32, W4444, LRgba>, BitAl<u32, W4444, LBgra>, BitAl<u32, W4444, LArgb>, BitAl<u32, W4444, LAbgr>>;
using Rgba4444 = mp::mp_append<Rgba4444_h, Rgba4444_p, Rgba4444_b>;

// ---------------- cmyk (+ a user-defined permuted layout), gray, 5-channel devicen (+ a user-defined permuted layout)
using Cmyk8 = mp::mp_list<Inter<u8, LCmyk>, Inter<u8, LMykc>, Planar<u8, LCmyk>>;
using W2222 = mp::mp_list_c<unsigned, 2, 2, 2, 2>;
using Cmyk2222 = mp::mp_list<Inter<pv<2>, LCmyk>, Packed<u8, W2222, LCmyk>, Packed<u8, W2222, LMykc>, BitAl<u16, W2222, LCmyk>, BitAl<u16, W2222, LMykc>>;
using Gray8 = mp::mp_list<Inter<u8, LGray>>;
using W4 = mp::mp_list_c<unsigned, 4>;
using Gray4 = mp::mp_list<Inter<pv<4>, LGray>, Packed<u8, W4, LGray>, BitAl<u16, W4, LGray>>;
using W1 = mp::mp_list_c<unsigned, 1>;
using Gray1 = mp::mp_list<Packed<u8, W1, LGray>, BitAl<u8, W1, LGray>>;
using Dev5_8 = mp::mp_list<Inter<u8, LDev5>, Inter<u8, LDev5p>, Planar<u8, LDev5l>>;
using W12345 = mp::mp_list_c<unsigned, 1, 2, 3, 4, 5>;
using Dev5_12345 = mp::mp_list<Packed<u16, W12345, LDev5>, Packed<u16, W12345, LDev5p>, BitAl<u32, W12345, LDev5>, BitAl<u32, W12345, LDev5p>>;

// ---------------- a small sanitized cross-section (ASan + exactly-sized guard buffers under the proxies)
using San565 = mp::mp_list<Packed<u16, W565, LBgr>, BitAl<u32, W565, LRgb>>;
using San4444 = mp::mp_list<BitAl<u32, W4444, LArgb>, Inter<pv<4>, LBgra>, Planar<pv<4>, LRgba>>;
} // namespace c05
