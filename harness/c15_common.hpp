// c15_common.hpp — shared pieces of the C15 harnesses (convolution / correlation / padding).
//
// Reference model ("textbook sums"), written without any GIL algorithm:
//   dst(p) = sum_k S(p + k - centre) * kernel(k)      along the chosen axis
// with S(q) = src(q) inside the image and, outside, 0 (extend_zero), the nearest edge pixel
// (extend_constant) or the caller's padding (extend_padded).  output_zero / output_ignore: outputs
// whose window leaves the image are 0 / keep the sentinel the destination was pre-filled with.
// GIL is only used to *address* pixels of harness-owned buffers (view(x,y)[c]); that layer is
// validated by C02/C03/C08 (DESIGN.md §1 "Layering").
#pragma once
#include "vh.hpp"
#include "guard.hpp"

#include <boost/gil/image.hpp>
#include <boost/gil/image_view.hpp>
#include <boost/gil/image_view_factory.hpp>
#include <boost/gil/typedefs.hpp>
#include <boost/gil/rgb.hpp>
#include <boost/gil/gray.hpp>
#include <boost/gil/planar_pixel_reference.hpp>
#include <boost/gil/planar_pixel_iterator.hpp>
#include <boost/gil/algorithm.hpp>
#include <boost/gil/image_processing/kernel.hpp>
#include <boost/gil/image_processing/convolve.hpp>

#include <cmath>
#include <memory>
#include <vector>

namespace c15 {

namespace gil = boost::gil;
using gil::boundary_option;

inline const char* opt_name(boundary_option o)
{
    switch (o)
    {
    case boundary_option::output_ignore: return "output_ignore";
    case boundary_option::output_zero: return "output_zero";
    case boundary_option::extend_padded: return "extend_padded";
    case boundary_option::extend_zero: return "extend_zero";
    case boundary_option::extend_constant: return "extend_constant";
    }
    return "?";
}
static const boundary_option ALL_OPTS[5] = {boundary_option::output_ignore, boundary_option::output_zero,
                                            boundary_option::extend_padded, boundary_option::extend_zero,
                                            boundary_option::extend_constant};

// distinct primes: a swapped, shifted or reversed tap is visible in the result
static const int PRIMES[9] = {2, 3, 5, 7, 11, 13, 17, 19, 23};

// ---- source contents over coordinates relative to the source view (negative = padding) -------
enum ContentKind { RAMP = 0, ONES = 1, CHECKER = 2, IMPULSE = 3 };
struct Content
{
    int kind; int ix, iy, ic;   // impulse position (view-relative, may lie in the padding)
    int value(int x, int y, int c) const
    {
        switch (kind)
        {
        case RAMP: return (5 + 7 * (x + 16) + 13 * (y + 16) + 29 * c) % 251;
        case ONES: return 1;
        case CHECKER: return ((x + y + c + 64) & 1) ? 200 : 10;
        default: return (x == ix && y == iy && c == ic) ? 1 : 0;
        }
    }
    std::string name() const
    {
        switch (kind)
        {
        case RAMP: return "ramp";
        case ONES: return "ones";
        case CHECKER: return "checker";
        default: return vh::S() << "impulse(" << ix << "," << iy << "," << ic << ")";
        }
    }
};

// every content for a full grid [x0,x1) x [y0,y1) x nc: three patterns + every unit impulse
inline std::vector<Content> all_contents(int x0, int x1, int y0, int y1, int nc)
{
    std::vector<Content> v;
    v.push_back({RAMP, 0, 0, 0}); v.push_back({ONES, 0, 0, 0}); v.push_back({CHECKER, 0, 0, 0});
    for (int y = y0; y < y1; ++y)
        for (int x = x0; x < x1; ++x)
            for (int c = 0; c < nc; ++c) v.push_back({IMPULSE, x, y, c});
    return v;
}

// ---- an exactly-sized interleaved harness image -------------------------------------------------
template <class Px> struct Buf
{
    int w, h;
    vh::GuardBuf g;
    using view_t = typename gil::type_from_x_iterator<Px*>::view_t;
    using cview_t = typename gil::type_from_x_iterator<Px const*>::view_t;
    Buf(int w_, int h_) : w(w_), h(h_), g(size_t(w_) * size_t(h_) * sizeof(Px), 0) {}
    view_t view() { return gil::interleaved_view(w, h, reinterpret_cast<Px*>(g.data()), std::ptrdiff_t(w) * sizeof(Px)); }
    cview_t cview() { return gil::interleaved_view(w, h, reinterpret_cast<Px const*>(g.data()), std::ptrdiff_t(w) * sizeof(Px)); }
};

template <class Px> struct nchan { static const int value = gil::num_channels<Px>::value; };

} // namespace c15
