// Stand-alone repro (C17): bilinear_sampler on a CONSTANT 8-bit image returns value-1.
//   g++ -std=c++14 -DNDEBUG -I /repo/include F_C17_bilinear_truncation_repro.cpp && ./a.out
// The four weights are computed in floating point; their rounded products with 201 sum to 200.99999999999997 and
// cast_pixel() truncates instead of rounding -> 200, which is not a convex combination of {201,201,201,201}.
// Unchanged tree prints: result=200, result=200, "964 of 10000".  With drafts/F_C17_bilinear_round_to_nearest.patch: 201, 201, 0.
#include <boost/gil.hpp>
#include <boost/gil/extension/numeric/resample.hpp>
#include <boost/gil/extension/numeric/sampler.hpp>
#include <cstdio>
namespace gil = boost::gil;
int main()
{
    gil::gray8_image_t img(3, 2, gil::gray8_pixel_t(201));
    const double pts[][2] = {{1.0000000000000002, 0.25}, {1.4999999999999998, 1.0 / 3}};
    for (auto const& p : pts)
    {
        gil::gray8_pixel_t r(0);
        bool in = gil::sample(gil::bilinear_sampler(), gil::const_view(img), gil::point<double>(p[0], p[1]), r);
        std::printf("p=(%.17g,%.17g) inside=%d result=%d (every source pixel is 201)\n", p[0], p[1], int(in), int(r[0]));
    }
    using M = gil::matrix3x2<double>;   // a white 100x100 image rotated by 15 degrees about its centre
    gil::gray8_image_t white(100, 100, gil::gray8_pixel_t(255)), out(100, 100, gil::gray8_pixel_t(255));
    gil::resample_pixels(gil::const_view(white), gil::view(out), M::get_translate(-50, -50) * M::get_rotate(0.2617993877991494) * M::get_translate(50, 50), gil::bilinear_sampler());
    long bad = 0; for (auto p : gil::view(out)) bad += p[0] != 255;
    std::printf("%ld of 10000 pixels of a rotated all-255 image are not 255\n", bad);
}
