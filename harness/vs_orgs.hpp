// vs_orgs.hpp — pixel organisations ("Org" traits) for the view state space: for each organisation a
// root view over an exactly-sized harness buffer and the raw model of where channel c (memory order)
// of source pixel (x,y) lives in that buffer (bit position, LSB-first), computed from first principles.
#pragma once
#include "vs_model.hpp"
#include <boost/gil.hpp>
#include <boost/gil/extension/toolbox/metafunctions/is_bit_aligned.hpp>
#include <type_traits>
#include <utility>

namespace vs {
namespace gil = boost::gil;
namespace mp11 = boost::mp11;

struct Geo
{
    long w = 0, h = 0;
    long pixunits = 0, rowunits = 0;   // in memunits (bytes, or bits for bit-aligned organisations)
    long planebytes = 0;               // planar only
    long unit_bits = 8;                // 8: byte memunits, 1: bit memunits
    size_t bytes = 0;                  // exact storage size (height x row-bytes [x planes])
};

// ---- channel <-> bit pattern
template <class V> struct is_float_chan : std::false_type {};
template <> struct is_float_chan<gil::float32_t> : std::true_type {};
template <> struct is_float_chan<float> : std::true_type {};

template <class C> inline uint64_t chan_pattern(C const& c)
{
    using V = typename gil::channel_traits<typename std::decay<C>::type>::value_type;
    return chan_pattern_impl(V(c), is_float_chan<V>());
}
template <class V> inline uint64_t chan_pattern_impl(V v, std::true_type) { return float_pattern(float(v)); }
template <class V> inline uint64_t chan_pattern_impl(V v, std::false_type) { return uint64_t(v); }

template <class V> inline V chan_from_pattern_impl(uint64_t p, std::true_type) { return V(pattern_float(p)); }
template <class V> inline V chan_from_pattern_impl(uint64_t p, std::false_type) { return V(p); }
template <class C> inline void chan_assign(C&& c, uint64_t p)
{
    using V = typename gil::channel_traits<typename std::decay<C>::type>::value_type;
    c = chan_from_pattern_impl<V>(p, is_float_chan<V>());
}

// ---- where does a channel reference point (bit position relative to base); -1 if not addressable
template <class T> inline long chan_refpos(unsigned char const* base, T const& c, typename std::enable_if<std::is_arithmetic<T>::value>::type* = 0)
{ return long(reinterpret_cast<unsigned char const*>(&c) - base) * 8; }
template <class B, class Mn, class Mx> inline long chan_refpos(unsigned char const* base, gil::scoped_channel_value<B, Mn, Mx> const& c)
{ return long(reinterpret_cast<unsigned char const*>(&c) - base) * 8; }
template <class BF, int FB, int NB, bool M> inline long chan_refpos(unsigned char const* base, gil::packed_channel_reference<BF, FB, NB, M> const& c)
{ return long(static_cast<unsigned char const*>(c._data_ptr) - base) * 8 + FB; }
template <class BF, int NB, bool M> inline long chan_refpos(unsigned char const* base, gil::packed_dynamic_channel_reference<BF, NB, M> const& c)
{ return long(static_cast<unsigned char const*>(c._data_ptr) - base) * 8 + long(c.first_bit()); }
template <int N> inline long chan_refpos(unsigned char const*, gil::packed_channel_value<N> const&) { return -1; }

// ---- compile-time loop over the channels of a pixel in MEMORY order (at_c)
template <class P, class F, std::size_t... I> inline void for_channels_impl(P&& p, F&& f, std::index_sequence<I...>)
{
    int dummy[] = {0, (f(int(I), gil::at_c<int(I)>(p)), 0)...};
    (void)dummy;
}
template <class P, class F> inline void for_channels(P&& p, F&& f)
{
    using PV = typename std::decay<P>::type;
    for_channels_impl(p, f, std::make_index_sequence<gil::num_channels<PV>::value>());
}

// ---- tag patterns: what the raw model stores in channel c of source pixel (x,y)
inline uint64_t tag_pattern(long W, int NCH, long x, long y, int c, int nbits, bool isf, bool alt)
{
    uint64_t t = uint64_t(1 + (y * W + x) * NCH + c);
    if (isf) return float_pattern(alt ? 1.0f - float(t) / 1024.0f : float(t) / 1024.0f);
    uint64_t mask = nbits >= 64 ? ~uint64_t(0) : ((uint64_t(1) << nbits) - 1);
    uint64_t v;
    if (nbits >= 32) v = t * 16843009ull;
    else if (nbits >= 16) v = t * 257ull;
    else if (nbits >= 8) v = (t % 251) + 1;
    else v = (t * 2654435761ull) >> 7;
    v &= mask;
    return alt ? (~v & mask) : v;
}

// ===================== organisations =====================

// Interleaved homogeneous pixels; padmode 0: tight rows, 1: rows padded by 3 channels' worth of bytes
template <class ChannelT, class LayoutT, int NCH_, class Tag>
struct OrgInterleaved
{
    static constexpr int NCH = NCH_;
    static constexpr bool has_nth = true, is_float = is_float_chan<ChannelT>::value, bitunits = false, addressable = true;
    using pixel_t = gil::pixel<ChannelT, LayoutT>;
    using view_t = typename gil::type_from_x_iterator<pixel_t*>::view_t;
    static const char* name() { return Tag::name(); }
    static Geo geo(long w, long h, int padmode)
    {
        Geo g; g.w = w; g.h = h; g.pixunits = long(sizeof(ChannelT)) * NCH;
        g.rowunits = w * g.pixunits + (padmode ? 3 * long(sizeof(ChannelT)) : 0);
        g.bytes = size_t(h * g.rowunits); return g;
    }
    static view_t make(unsigned char* base, Geo const& g) { return gil::interleaved_view(g.w, g.h, reinterpret_cast<pixel_t*>(base), g.rowunits); }
    static int chan_bits(int) { return 8 * int(sizeof(ChannelT)); }
    static long chan_bitpos(Geo const& g, long x, long y, int c) { return (y * g.rowunits + x * g.pixunits + c * long(sizeof(ChannelT))) * 8; }
};

// Planar homogeneous pixels (3 or 4 planes in one buffer, 16 bytes between planes)
template <class ChannelT, int NCH_, class Tag>
struct OrgPlanar
{
    static constexpr int NCH = NCH_;
    static constexpr bool has_nth = true, is_float = is_float_chan<ChannelT>::value, bitunits = false, addressable = true;
    using cs_t = typename std::conditional<NCH == 3, gil::rgb_t, gil::rgba_t>::type;
    using view_t = typename gil::view_type<ChannelT, gil::layout<cs_t>, true, false, true>::type;
    static const char* name() { return Tag::name(); }
    static Geo geo(long w, long h, int padmode)
    {
        Geo g; g.w = w; g.h = h; g.pixunits = long(sizeof(ChannelT));
        g.rowunits = w * g.pixunits + (padmode ? 2 * long(sizeof(ChannelT)) : 0);
        g.planebytes = h * g.rowunits + 16; g.bytes = size_t(g.planebytes * NCH); return g;
    }
    static view_t make_impl(unsigned char* b, Geo const& g, std::integral_constant<int, 3>)
    {
        auto p = [&](int c) { return reinterpret_cast<ChannelT*>(b + c * g.planebytes); };
        return gil::planar_rgb_view(g.w, g.h, p(0), p(1), p(2), g.rowunits);
    }
    static view_t make_impl(unsigned char* b, Geo const& g, std::integral_constant<int, 4>)
    {
        auto p = [&](int c) { return reinterpret_cast<ChannelT*>(b + c * g.planebytes); };
        return gil::planar_rgba_view(g.w, g.h, p(0), p(1), p(2), p(3), g.rowunits);
    }
    static view_t make(unsigned char* base, Geo const& g) { return make_impl(base, g, std::integral_constant<int, NCH>()); }
    static int chan_bits(int) { return 8 * int(sizeof(ChannelT)); }
    static long chan_bitpos(Geo const& g, long x, long y, int c) { return (c * g.planebytes + y * g.rowunits + x * g.pixunits) * 8; }
};

template <unsigned... S> struct Sizes
{
    static constexpr int N = sizeof...(S);
    static int size(int c) { static const unsigned s[] = {S...}; return int(s[c]); }
    static int shift(int c) { int r = 0; for (int i = 0; i < c; ++i) r += size(i); return r; }
    static int total() { return shift(N); }
    using list = mp11::mp_list_c<unsigned, S...>;
};

// Packed pixels: one BitField per pixel, channels at [shift, shift+size) counted from the LSB
template <class BitField, class SizesT, class LayoutT, class Tag>
struct OrgPacked
{
    static constexpr int NCH = SizesT::N;
    static constexpr bool has_nth = false, is_float = false, bitunits = false, addressable = true;
    using pixel_t = typename gil::packed_pixel_type<BitField, typename SizesT::list, LayoutT>::type;
    using view_t = typename gil::type_from_x_iterator<pixel_t*>::view_t;
    static const char* name() { return Tag::name(); }
    static Geo geo(long w, long h, int padmode)
    {
        Geo g; g.w = w; g.h = h; g.pixunits = long(sizeof(BitField));
        g.rowunits = w * g.pixunits + (padmode ? long(sizeof(BitField)) : 0);
        g.bytes = size_t(h * g.rowunits); return g;
    }
    static view_t make(unsigned char* base, Geo const& g) { return gil::interleaved_view(g.w, g.h, reinterpret_cast<pixel_t*>(base), g.rowunits); }
    static int chan_bits(int c) { return SizesT::size(c); }
    static long chan_bitpos(Geo const& g, long x, long y, int c) { return (y * g.rowunits + x * g.pixunits) * 8 + SizesT::shift(c); }
};

// Bit-aligned pixels: pixel (x,y) starts at bit y*rowbits + x*pixbits; padmode 0: rows rounded up to whole
// bytes (what gil::image does), 1: one extra byte per row, 2: rows NOT byte aligned (rowbits = w*pixbits)
template <class SizesT, class LayoutT, class Tag>
struct OrgBitAligned
{
    static constexpr int NCH = SizesT::N;
    static constexpr bool has_nth = false, is_float = false, bitunits = true, addressable = true;
    using image_t = typename gil::bit_aligned_image_type<typename SizesT::list, LayoutT>::type;
    using view_t = typename image_t::view_t;
    static const char* name() { return Tag::name(); }
    static Geo geo(long w, long h, int padmode)
    {
        Geo g; g.w = w; g.h = h; g.unit_bits = 1; g.pixunits = SizesT::total();
        long tight = w * g.pixunits;
        g.rowunits = padmode == 2 ? tight : ((tight + 7) / 8) * 8 + (padmode == 1 ? 8 : 0);
        g.bytes = size_t((h * g.rowunits + 7) / 8); return g;
    }
    static view_t make(unsigned char* base, Geo const& g)
    {
        using x_it = typename view_t::x_iterator;
        using loc_t = typename view_t::xy_locator;
        return view_t(g.w, g.h, loc_t(x_it(base, 0), g.rowunits));
    }
    static int chan_bits(int c) { return SizesT::size(c); }
    static long chan_bitpos(Geo const& g, long x, long y, int c) { return y * g.rowunits + x * g.pixunits + SizesT::shift(c); }
};

// Virtual (function-backed) views: the pixel at function coordinate p is computed, nothing is stored. The "raw model"
// is the function itself evaluated at the model's source coordinate; there are no addresses and no writes.
struct VirtualFn
{
    using const_t = VirtualFn;
    using value_type = gil::rgb8_pixel_t;
    using reference = value_type;
    using const_reference = value_type;
    using argument_type = gil::point_t;
    using result_type = reference;
    static constexpr bool is_mutable = false;
    static unsigned char ch(std::ptrdiff_t x, std::ptrdiff_t y, int c) { return (unsigned char)(c == 0 ? 10 + x : c == 1 ? 100 + y : 7 * x + 13 * y + 1); }
    result_type operator()(argument_type const& p) const { return value_type(ch(p.x, p.y, 0), ch(p.x, p.y, 1), ch(p.x, p.y, 2)); }
};
struct OrgVirtual
{
    static constexpr int NCH = 3;
    static constexpr bool has_nth = false, is_float = false, bitunits = false, addressable = false;
    using locator_t = gil::virtual_2d_locator<VirtualFn, false>;
    using view_t = gil::image_view<locator_t>;
    static const char* name() { return "virtual_rgb8"; }
    static Geo geo(long w, long h, int) { Geo g; g.w = w; g.h = h; g.pixunits = 1; g.rowunits = 1; g.bytes = 8; return g; }
    static view_t make(unsigned char*, Geo const& g) { return view_t(g.w, g.h, locator_t(gil::point_t(0, 0), gil::point_t(1, 1), VirtualFn())); }
    static int chan_bits(int) { return 8; }
    static long chan_bitpos(Geo const&, long, long, int) { return -1; }
    static uint64_t vtag(long x, long y, int c) { return VirtualFn::ch(x, y, c); }
};

#define VS_TAG(T, s) struct T { static const char* name() { return s; } }
VS_TAG(TGray8, "gray8"); VS_TAG(TRgb8, "rgb8"); VS_TAG(TBgr8, "bgr8"); VS_TAG(TRgba8, "rgba8"); VS_TAG(TArgb8, "argb8");
VS_TAG(TRgb16, "rgb16"); VS_TAG(TRgb32f, "rgb32f"); VS_TAG(TCmyk8, "cmyk8"); VS_TAG(TGray16, "gray16");
VS_TAG(TRgb8p, "rgb8_planar"); VS_TAG(TRgba16p, "rgba16_planar"); VS_TAG(TRgb16p, "rgb16_planar");
VS_TAG(TP565, "packed_rgb565"); VS_TAG(TP556, "packed_bgr556"); VS_TAG(TP332, "packed_rgb332"); VS_TAG(TPa2101010, "packed_rgba1010102_u32");
VS_TAG(TB1, "bits_gray1"); VS_TAG(TB2, "bits_gray2"); VS_TAG(TB4, "bits_gray4"); VS_TAG(TB121, "bits_rgb121"); VS_TAG(TB222, "bits_rgb222");
VS_TAG(TB565, "bits_bgr565"); VS_TAG(TB7, "bits_gray7"); VS_TAG(TB3, "bits_gray3");

using OGray8 = OrgInterleaved<uint8_t, gil::gray_layout_t, 1, TGray8>;
using ORgb8 = OrgInterleaved<uint8_t, gil::rgb_layout_t, 3, TRgb8>;
using OBgr8 = OrgInterleaved<uint8_t, gil::bgr_layout_t, 3, TBgr8>;
using ORgba8 = OrgInterleaved<uint8_t, gil::rgba_layout_t, 4, TRgba8>;
using OArgb8 = OrgInterleaved<uint8_t, gil::argb_layout_t, 4, TArgb8>;
using ORgb16 = OrgInterleaved<uint16_t, gil::rgb_layout_t, 3, TRgb16>;
using OGray16 = OrgInterleaved<uint16_t, gil::gray_layout_t, 1, TGray16>;
using ORgb32f = OrgInterleaved<gil::float32_t, gil::rgb_layout_t, 3, TRgb32f>;
using OCmyk8 = OrgInterleaved<uint8_t, gil::cmyk_layout_t, 4, TCmyk8>;
using ORgb8p = OrgPlanar<uint8_t, 3, TRgb8p>;
using ORgb16p = OrgPlanar<uint16_t, 3, TRgb16p>;
using ORgba16p = OrgPlanar<uint16_t, 4, TRgba16p>;
using OP565 = OrgPacked<uint16_t, Sizes<5, 6, 5>, gil::rgb_layout_t, TP565>;
using OP556 = OrgPacked<uint16_t, Sizes<5, 5, 6>, gil::bgr_layout_t, TP556>;
using OP332 = OrgPacked<uint8_t, Sizes<3, 3, 2>, gil::rgb_layout_t, TP332>;
using OPa2101010 = OrgPacked<uint32_t, Sizes<10, 10, 10, 2>, gil::rgba_layout_t, TPa2101010>;
using OB1 = OrgBitAligned<Sizes<1>, gil::gray_layout_t, TB1>;
using OB2 = OrgBitAligned<Sizes<2>, gil::gray_layout_t, TB2>;
using OB3 = OrgBitAligned<Sizes<3>, gil::gray_layout_t, TB3>;
using OB4 = OrgBitAligned<Sizes<4>, gil::gray_layout_t, TB4>;
using OB7 = OrgBitAligned<Sizes<7>, gil::gray_layout_t, TB7>;
using OB121 = OrgBitAligned<Sizes<1, 2, 1>, gil::rgb_layout_t, TB121>;
using OB222 = OrgBitAligned<Sizes<2, 2, 2>, gil::rgb_layout_t, TB222>;
using OB565 = OrgBitAligned<Sizes<5, 6, 5>, gil::bgr_layout_t, TB565>;

} // namespace vs
