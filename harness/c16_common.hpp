// c16_common.hpp — shared pieces of the C16 harnesses (threshold, Otsu, morphology, median).
#pragma once
#include "vh.hpp"
#include "guard.hpp"

#include <boost/gil/image.hpp>
#include <boost/gil/image_view.hpp>
#include <boost/gil/image_view_factory.hpp>
#include <boost/gil/typedefs.hpp>
#include <boost/gil/rgb.hpp>
#include <boost/gil/gray.hpp>

#include <cmath>
#include <limits>
#include <vector>
#include <algorithm>

namespace c16 {

namespace gil = boost::gil;

// exactly-sized interleaved harness image: surroundings ASan-poisoned + canary (engine/guard.hpp)
template <class Px> struct Buf
{
    int w, h;
    vh::GuardBuf g;
    using view_t = typename gil::type_from_x_iterator<Px*>::view_t;
    using cview_t = typename gil::type_from_x_iterator<Px const*>::view_t;
    Buf(int w_, int h_, unsigned char fill = 0) : w(w_), h(h_), g(size_t(w_) * size_t(h_) * sizeof(Px), fill) {}
    view_t view() { return gil::interleaved_view(w, h, reinterpret_cast<Px*>(g.data()), std::ptrdiff_t(w) * sizeof(Px)); }
    cview_t cview() { return gil::interleaved_view(w, h, reinterpret_cast<Px const*>(g.data()), std::ptrdiff_t(w) * sizeof(Px)); }
    void fill_bytes(unsigned char b) { if (g.size()) std::memset(g.data(), b, g.size()); }
};

template <class T> struct tname;
template <> struct tname<uint8_t> { static const char* get() { return "u8"; } };
template <> struct tname<int8_t> { static const char* get() { return "s8"; } };
template <> struct tname<uint16_t> { static const char* get() { return "u16"; } };
template <> struct tname<int16_t> { static const char* get() { return "s16"; } };
template <> struct tname<float> { static const char* get() { return "f32"; } };

} // namespace c16
