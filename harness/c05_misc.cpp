// C05 — cmyk (+ user-defined mykc order), gray, 5-channel devicen (+ user-defined permuted order)
#include "c05_families.hpp"
using namespace c05;
VH_GROUP(cmyk8) { run_family<Cmyk8, Cmyk8>(ctx); }
VH_GROUP(cmyk2222) { run_family<Cmyk2222, Cmyk2222>(ctx); }
VH_GROUP(gray8) { run_family<Gray8, Gray8>(ctx); }
VH_GROUP(gray4) { run_family<Gray4, Gray4>(ctx); }
VH_GROUP(gray1) { run_family<Gray1, Gray1>(ctx); }
VH_GROUP(dev5_8) { run_family<Dev5_8, Dev5_8>(ctx); }
VH_GROUP(dev5_12345) { run_family<Dev5_12345, Dev5_12345>(ctx); }
// same families under a second name: the thorough tier runs them twice with different bounds (depth 3 / every value at depth 2)
VH_GROUP(cmyk8_v) { run_family<Cmyk8, Cmyk8>(ctx); }
VH_GROUP(cmyk2222_v) { run_family<Cmyk2222, Cmyk2222>(ctx); }
VH_GROUP(dev5_12345_v) { run_family<Dev5_12345, Dev5_12345>(ctx); }
VH_MAIN
