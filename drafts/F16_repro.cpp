// F16 (C18): rgb -> hsl returns saturation > 1 for light colours (2 - (max+min) cancels): 54 912 rgb8 pixels, 546 of them by more than 4 ulp, worst 1.0000153.
// g++ -std=c++14 -I/repo/include F16_repro.cpp && ./a.out   expected: saturation <= 1
#include <boost/gil.hpp>
#include <boost/gil/extension/toolbox/color_spaces/hsl.hpp>
#include <cstdio>
int main()
{
    namespace gil = boost::gil;
    long bad = 0; float worst = 0;
    for (int r = 0; r < 256; ++r) for (int g = 0; g < 256; ++g) for (int b = 0; b < 256; ++b)
    {
        gil::rgb8_pixel_t p(r, g, b); gil::hsl32f_pixel_t h; gil::color_convert(p, h);
        float s = h[1];
        if (s > 1.f) { if (!bad++) std::printf("first: rgb8(%d,%d,%d) -> saturation %.9g\n", r, g, b, s); if (s > worst) worst = s; }
    }
    std::printf("%ld rgb8 pixels with saturation > 1, worst %.9g\n", bad, worst);
    return bad != 0;
}
