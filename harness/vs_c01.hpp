// vs_c01.hpp — C01: pixel access never leaves the image's storage.  "Touch" oracle: every in-range pixel
// of a view is read and (if mutable) written through every accessor and through the pixel algorithms,
// inside an exactly-sized buffer whose surroundings are ASan-poisoned and canary-filled (or inside an
// image's own std::allocator block, which ASan surrounds with redzones).  Oracle = zero sanitizer
// reports + canaries intact.  Used (a) as the policy of the view state search and (b) by the
// allocation enumeration in c01_alloc.cpp.
#pragma once
#include "vs_explore.hpp"
#include <boost/gil/algorithm.hpp>

namespace vs {

inline volatile uint64_t& sink() { static volatile uint64_t s = 0; return s; }

struct read_px { template <class P> void operator()(P const& p) const { uint64_t a = 0; for_channels(p, [&](int, auto&& ch) { a += chan_pattern(ch); }); sink() += a; } };
struct rw_px
{
    template <class P> void operator()(P&& p) const { for_channels(p, [&](int, auto&& ch) { uint64_t v = chan_pattern(ch); chan_assign(ch, v); }); }
};

template <class R> inline void touch_write(R&&, std::false_type) {}
template <class R> inline void touch_write(R&& r, std::true_type) { for_channels(r, [&](int, auto&& ch) { uint64_t v = chan_pattern(ch); chan_assign(ch, v); }); }
// read (and write back) one pixel reference
template <bool Mut, class R> inline void touch_ref(R&& r, std::integral_constant<bool, Mut>)
{
    uint64_t a = 0;
    for_channels(r, [&](int, auto&& ch) { a += chan_pattern(ch); });
    sink() += a;
    touch_write(r, std::integral_constant<bool, Mut>());
}


// touch every pixel of v through every accessor; returns number of pixel touches
template <bool Mut, class V> inline long touch_accessors(V const& v)
{
    using point_t = typename V::point_t;
    std::integral_constant<bool, Mut> M;
    const long w = v.width(), h = v.height();
    if (w <= 0 || h <= 0) { sink() += uint64_t(v.size()); (void)v.begin(); (void)v.end(); return 0; }
    const long n = w * h;
    long t = 0;
    for (long y = 0; y < h; ++y) for (long x = 0; x < w; ++x)
    {
        long i = y * w + x;
        touch_ref(v(x, y), M); touch_ref(v(point_t(x, y)), M);
        touch_ref(v.row_begin(y)[x], M); touch_ref(v.col_begin(x)[y], M);
        touch_ref(v.begin()[i], M); touch_ref(v[i], M); touch_ref(*v.at(x, y), M); touch_ref(*v.at(i), M);
        touch_ref(v.rbegin()[n - 1 - i], M);
        touch_ref(*v.xy_at(x, y), M); touch_ref(*v.x_at(x, y), M); touch_ref(*v.y_at(x, y), M);
        touch_ref(v.pixels()(x, y), M);
        touch_ref(*(v.row_end(y) - (w - x)), M); touch_ref(*(v.col_end(x) - (h - y)), M);
        t += 15;
    }
    // sequential traversals
    for (auto it = v.begin(); it != v.end(); ++it) { touch_ref(*it, M); ++t; }
    for (auto it = v.rbegin(); it != v.rend(); ++it) { touch_ref(*it, M); ++t; }
    for (long y = 0; y < h; ++y) for (auto it = v.row_begin(y); it != v.row_end(y); ++it) { touch_ref(*it, M); ++t; }
    for (long x = 0; x < w; ++x) for (auto it = v.col_begin(x); it != v.col_end(x); ++it) { touch_ref(*it, M); ++t; }
    touch_ref(v.front(), M); touch_ref(v.back(), M);
    // locator with cached neighbours
    {
        auto loc = v.xy_at(0, 0);
        auto right = loc.cache_location(w - 1, 0), down = loc.cache_location(0, h - 1), diag = loc.cache_location(w - 1, h - 1);
        touch_ref(loc[right], M); touch_ref(loc[down], M); touch_ref(loc[diag], M);
        t += 5;
    }
    return t;
}

// pixel algorithms over a mutable, non-adapted view
template <class V> inline void touch_algorithms(V const& v, std::true_type)
{
    using value_t = typename V::value_type;
    if (v.width() <= 0 || v.height() <= 0)
    {
        // empty views are legal arguments
        gil::image<value_t> tmp0(v.dimensions());
        gil::copy_pixels(v, gil::view(tmp0)); gil::copy_pixels(gil::const_view(tmp0), v);
        sink() += gil::equal_pixels(v, v);
        gil::for_each_pixel(v, read_px());
        return;
    }
    gil::image<value_t> tmp(v.dimensions());
    gil::copy_pixels(v, gil::view(tmp));
    gil::copy_pixels(gil::const_view(tmp), v);
    sink() += gil::equal_pixels(v, gil::const_view(tmp));
    sink() += gil::equal_pixels(gil::const_view(tmp), v);
    sink() += gil::equal_pixels(v, v);
    gil::for_each_pixel(v, read_px());
    gil::for_each_pixel(v, rw_px());
    value_t p0 = v(0, 0);
    gil::generate_pixels(v, [p0]() { return p0; });
    gil::transform_pixels(gil::const_view(tmp), v, [](auto const& p) { return value_t(p); });
    gil::transform_pixels(gil::const_view(tmp), v, v, [](auto const& a, auto const&) { return value_t(a); });
    gil::fill_pixels(v, p0);
    gil::copy_pixels(gil::const_view(tmp), v);           // restore
    // the std:: overloads on 1-D iterators
    std::copy(gil::const_view(tmp).begin(), gil::const_view(tmp).end(), v.begin());
    std::fill(v.begin(), v.end(), p0);
    std::copy(v.begin(), v.end(), gil::view(tmp).begin());
    gil::copy_pixels(gil::const_view(tmp), v);
}
// read-only / adapted views: only reading algorithms
template <class V> inline void touch_algorithms(V const& v, std::false_type)
{
    using value_t = typename V::value_type;
    gil::image<value_t> tmp(v.dimensions());
    gil::copy_pixels(v, gil::view(tmp));
    gil::for_each_pixel(v, read_px());
    sink() += gil::equal_pixels(v, gil::const_view(tmp));
}

struct C01Policy
{
    static constexpr bool allow_conv = false;   // C01 speaks about flip/rotate/transpose/subimage/subsample/nth_channel
    template <class Org, class V, int Ch, bool Conv>
    static void visit(vh::Ctx& ctx, Root<Org>& root, V const& v, Model const& m, std::string const& id)
    {
        constexpr bool Mut = !Conv && gil::view_is_mutable<V>::value;
        ++ctx.evaluations;
        long t = touch_accessors<Mut>(v);
        touch_algorithms(v, std::integral_constant<bool, Mut>());
        ctx.counters["pixel_touches"] += t;
        if (t) ++ctx.nontrivial;
        if (ctx.san_take(id)) ++ctx.counters["states_with_reports"];
        if (!root.buf->intact()) { ctx.fail(id, "canary-clobbered", "a byte outside the exactly-sized buffer was modified"); }
        if (Mut) root.retag();
        if (m.a < 0 || m.d < 0 || m.b < 0 || m.c < 0) ++ctx.witness["negative_step_states"];
        if (m.k >= 0) ++ctx.witness["channel_states"];
        if (Conv) ++ctx.witness["converted_states"];
        if (m.ox + m.oy > 0 && m.w > 0 && m.h > 0 && m.w < root.g.w) ++ctx.witness["interior_subview_states"];
        ctx.sample(id + " " + m.key());
    }
};

} // namespace vs
