// C14 (copy_pixels / equal_pixels) — every ordered pair of alternatives x every shape 0..S x the call forms
// any/any, any/concrete, concrete/any, mutable-any/any, step-variant source, step-variant destination against the concrete call on twin images (c14_algo.hpp).
// equal_pixels additionally runs four content modes: all pixels different, all equal, equal except the last
// pixel, equal except the first pixel.
#include "c14_algo.hpp"

using namespace c14;

namespace {

struct CopyAlg
{
    static constexpr bool always = false, readonly = false;
    template <class S, class D> long operator()(S const& s, D const& d) const { gil::copy_pixels(s, d); return 0; }
    template <class S, class D, class T> void prepare(S const&, D const&, int, T) const {}
};

struct EqualAlg
{
    static constexpr bool always = false, readonly = true;
    template <class S, class D> long operator()(S const& s, D const& d) const { return gil::equal_pixels(s, d) ? 1 : 0; }
    template <class S, class D> void prepare(S const&, D const&, int, std::false_type) const {}
    template <class S, class D> void prepare(S const& s, D const& d, int mode, std::true_type) const
    {
        if (mode == 0) return;                 // destination keeps seed 1: every pixel differs
        gil::copy_pixels(s, d);                // static overload (C04's subject, not under test here)
        if (d.width() <= 0 || d.height() <= 0) return;
        using ch_t = typename gil::channel_type<D>::type;
        if (mode == 2) { typename D::reference r = d(d.width() - 1, d.height() - 1); r[0] = ch_t(r[0] ^ 1); }
        if (mode == 3) { typename D::reference r = d(0, 0); int c = int(gil::num_channels<D>::value) - 1; r[c] = ch_t(r[c] ^ 1); }
    }
};

template <class Alg> struct PairLoop
{
    AlgoStats& st; Alg alg; int S, modes;
    template <class IJ> void operator()(IJ) const
    {
        constexpr int i = int(IJ::value) / N, j = int(IJ::value) % N;
        if (!st.ctx.take()) return;
        st.unit_fails = 0;
        for (int h = 0; h <= S; ++h) for (int w = 0; w <= S; ++w)
            for (int m = 0; m < modes; ++m) pair_case<i, j>(st, alg, w, h, w, h, m);
        ++st.ctx.witness[compat(i, j) ? "pairs_compatible" : "pairs_incompatible"];
        if (i != j && compat(i, j)) ++st.ctx.witness["pairs_compatible_distinct_types"];
        st.ctx.sample(vh::S() << st.alg << " " << INFO[i].name << ">" << INFO[j].name << ": " << (compat(i, j) ? "compatible, equals the concrete call" : "incompatible, std::bad_cast, destination unchanged")
                              << " for all shapes 0.." << S << " x 6 call forms");
    }
};

} // namespace

VH_GROUP(copy)
{
    vh::ubsan_counts() = false;
    AlgoStats st{ctx, "copy_pixels"};
    mp::mp_for_each<mp::mp_iota_c<N * N>>(PairLoop<CopyAlg>{st, CopyAlg(), int(ctx.B("S", 3)), 1});
}

VH_GROUP(equal)
{
    vh::ubsan_counts() = false;
    AlgoStats st{ctx, "equal_pixels"};
    mp::mp_for_each<mp::mp_iota_c<N * N>>(PairLoop<EqualAlg>{st, EqualAlg(), int(ctx.B("S", 3)), 4});
}

VH_MAIN
