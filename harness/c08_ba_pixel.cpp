// C08 (b2) — bit_aligned_pixel_reference / bit_aligned_pixel_iterator:
//   ba_pixel: whole-pixel assignment (from a value, a mutable reference, a const reference) and swap
//             (reference/reference, reference/value, value/reference) at every bit offset;
//   ba_range: std::fill / std::copy / std::uninitialized_copy through bit_aligned_pixel_iterator over
//             every sub-range [i,j) of a 10-pixel row, every destination placement, every source and
//             destination bit offset;
//   ba_iter : iterator arithmetic from every (byte, bit) start: (it+n)-n == it, (it+n)-it == n, the distance
//             between any two iterators of the window, and a write through the advanced iterator lands
//             on pixel n of the model.
// Reference: bit-string model (c08_model.hpp), no GIL.
#include "c08_ba.hpp"
#include <algorithm>
#include <memory>

using namespace c08;

// ---------------------------------------------------------------------------------------------------
template <class C> struct PixelOps
{
    using Site = BASite<C>;
    using Val = typename C::ref_t::value_type;
    ChanOps<C, Site>& ops;
    Site& site;
    vh::Ctx& ctx;
    PixelOps(ChanOps<C, Site>& o) : ops(o), site(o.site), ctx(o.ctx) {}

    static void set_channels(Val& v, uint64_t x)
    {
        for_channels<C::N>([&](auto k) {
            constexpr int K = decltype(k)::value;
            using proxy_t = typename std::remove_const<decltype(gil::at_c<K>(v))>::type;
            gil::at_c<K>(v) = typename proxy_t::integer_t(C::chan_of(x, K));
        });
    }
    // read pixel through GIL, compare with channel values taken from bit string `src` at bit position sp
    template <class Ref> static bool same_as_bits(Ref const& r, unsigned char const* src, size_t sp, uint64_t& got, uint64_t& want, int& bk)
    {
        bool ok = true;
        for_channels<C::N>([&](auto k) {
            constexpr int K = decltype(k)::value;
            using proxy_t = typename std::remove_const<decltype(gil::at_c<K>(r))>::type;
            uint64_t rb = uint64_t(typename proxy_t::integer_t(gil::at_c<K>(r)));
            uint64_t w = model::get(src, sp + C::first(K), C::width(K));
            if (rb != w && ok) { ok = false; got = rb; want = w; bk = K; }
        });
        return ok;
    }
    static bool value_is(Val const& v, unsigned char const* src, size_t sp)
    {
        bool ok = true;
        for_channels<C::N>([&](auto k) {
            constexpr int K = decltype(k)::value;
            using proxy_t = typename std::remove_const<decltype(gil::at_c<K>(v))>::type;
            if (uint64_t(typename proxy_t::integer_t(gil::at_c<K>(v))) != model::get(src, sp + C::first(K), C::width(K))) ok = false;
        });
        return ok;
    }
    static std::vector<uint64_t> pixel_numbers(uint64_t salt)
    {
        std::vector<uint64_t> v;
        const int P = C::P();
        if (P <= 8) { for (uint64_t x = 0; x < (uint64_t(1) << P); ++x) v.push_back(x); return v; }
        const uint64_t mx = (uint64_t(1) << P) - 1;
        uint64_t s = salt * 0x9e3779b97f4a7c15ull + 777;
        v = {0, mx, mx & 0x5555555555555555ull, mx & 0xAAAAAAAAAAAAAAAAull};
        for (int i = 0; i < 12; ++i) v.push_back(model::sm64(s) & mx);
        return v;
    }
    void copy_pixel_bits(unsigned char* dst, size_t dp, unsigned char const* src, size_t sp)
    {
        for (int k = 0; k < C::N; ++k) model::set(dst, dp + C::first(k), C::width(k), model::get(src, sp + C::first(k), C::width(k)));
    }

    void run()
    {
        const size_t tp = site.tpos(), op = site.opos(), cp = site.cpos();
        const size_t P = size_t(C::P());
        uint64_t g = 0, w = 0; int bk = -1;
        {   // reference = mutable reference
            ops.begin(); copy_pixel_bits(ops.exp, tp, ops.before, op); ops.allow(tp, P);
            site.tref() = site.oref();
            bool ok = same_as_bits(site.tref(), ops.before, op, g, w, bk);
            ops.finish("pixel=ref", bk, 0, ops.NOARG, ok, g, w);
        }
        {   // reference = const reference
            bk = -1; ops.begin(); copy_pixel_bits(ops.exp, tp, ops.before, cp); ops.allow(tp, P);
            site.tref() = site.cref();
            bool ok = same_as_bits(site.tref(), ops.before, cp, g, w, bk);
            ops.finish("pixel=cref", bk, 0, ops.NOARG, ok, g, w);
        }
        {   // swap(reference, reference)
            bk = -1; ops.begin(); copy_pixel_bits(ops.exp, tp, ops.before, op); copy_pixel_bits(ops.exp, op, ops.before, tp);
            ops.allow(tp, P); ops.allow(op, P);
            { typename C::ref_t const a = site.tref(); typename C::ref_t const b = site.oref(); std::swap(a, b); }
            bool ok = same_as_bits(site.tref(), ops.before, op, g, w, bk) && same_as_bits(site.oref(), ops.before, tp, g, w, bk);
            ops.finish("swap(ref,ref)", bk, 0, ops.NOARG, ok, g, w);
        }
        uint64_t salt = model::get(ops.before, tp, 16);
        unsigned char xb[32];
        for (uint64_t x : pixel_numbers(salt))
        {
            std::memset(xb, 0, sizeof xb); std::memcpy(xb, &x, 8);     // pixel number x as a bit string at position 0
            {   // reference = value
                bk = -1; Val v; set_channels(v, x);
                ops.begin(); copy_pixel_bits(ops.exp, tp, xb, 0); ops.allow(tp, P);
                site.tref() = v;
                bool ok = same_as_bits(site.tref(), xb, 0, g, w, bk);
                ops.finish("pixel=value", bk, (long long)x, ops.NOARG, ok, g, w);
            }
            for (int side = 0; side < 2; ++side)
            {   // swap(reference, value) / swap(value, reference)
                bk = -1; Val v; set_channels(v, x);
                ops.begin(); copy_pixel_bits(ops.exp, tp, xb, 0); ops.allow(tp, P);
                { typename C::ref_t const a = site.tref(); if (side == 0) std::swap(a, v); else std::swap(v, a); }
                bool ok = same_as_bits(site.tref(), xb, 0, g, w, bk);
                if (ok && !value_is(v, ops.before, tp)) { ok = false; bk = -2; }
                ops.finish(side == 0 ? "swap(ref,value)" : "swap(value,ref)", bk, (long long)x, ops.NOARG, ok, g, w);
            }
        }
    }
};

template <class C> static void pixel_config(vh::Ctx& ctx, int dense)
{
    ba_enumerate<C>(ctx, "pixel ops", dense, [&](ChanOps<C, BASite<C>>& ops) { PixelOps<C> p(ops); p.run(); });
}

VH_GROUP(ba_pixel)
{
    vh::ubsan_counts() = false;
    const int dense = int(ctx.B("dense", 2));
#define X(T) pixel_config<C08_T(T)>(ctx, dense);
    C08_BA_CONFIGS(X)
#undef X
}

// ---------------------------------------------------------------------------------------------------
// fill / copy / uninitialized_copy over sub-ranges of a 10-pixel row
// ---------------------------------------------------------------------------------------------------
template <class C> struct RangeOps
{
    static constexpr size_t LEN = 128, ROWB = 8;      // destination row starts at byte 8 (+ bit offset)
    static constexpr int NPX = 10;
    using Val = typename C::ref_t::value_type;
    vh::Ctx& ctx;
    unsigned char dst[LEN + 16], before[LEN + 16], exp[LEN + 16], mask[LEN + 16], src[LEN + 16];
    long fails = 0;
    std::string where;

    RangeOps(vh::Ctx& c) : ctx(c) { for (auto* p : {dst, before, exp, mask, src}) std::memset(p, 0, LEN + 16); }

    void bad(const char* sig, const char* op, int i, int j, int k, std::string const& detail)
    {
        ++fails;
        ctx.fail(vh::S() << where << "/op=" << op << "/i=" << i << "/j=" << j << "/k=" << k, sig,
                 vh::S() << detail << " before=" << model::hex(before, 80) << " after=" << model::hex(dst, 80));
    }
    // after the GIL call: expected pixel n (k <= n < k+len) of the destination row holds bits `from` at pixel m
    void check(const char* op, int i, int j, int k, size_t dpos, unsigned char const* from, size_t fpos, bool fixed_source)
    {
        const size_t P = size_t(C::P());
        const int len = j - i;
        std::memcpy(exp, before, LEN); std::memset(mask, 0, LEN);
        for (int n = 0; n < len; ++n)
            for (int c = 0; c < C::N; ++c)
                model::set(exp, dpos + size_t(k + n) * P + C::first(c), C::width(c),
                           model::get(from, fpos + (fixed_source ? 0 : size_t(i + n) * P) + C::first(c), C::width(c)));
        model::mark(mask, dpos + size_t(k) * P, size_t(len) * P);
        ++ctx.evaluations;
        if (len > 0) ++ctx.nontrivial;
        if (std::memcmp(dst, exp, LEN) != 0)
        {
            if (!model::others_unchanged(before, dst, mask, LEN)) bad("other-bits-changed", op, i, j, k, "bits outside the destination range changed;");
            else ++ctx.counters["stored_bits_differ_from_documented_layout"];
        }
        // read every destination pixel of the range back through GIL
        typename C::citer_t rit(dst + ROWB + (dpos - ROWB * 8) / 8, int((dpos - ROWB * 8) % 8));
        for (int n = 0; n < len; ++n)
        {
            auto px = rit[k + n];
            bool ok = true; uint64_t g = 0, w = 0; int bc = -1;
            for_channels<C::N>([&](auto kk) {
                constexpr int K = decltype(kk)::value;
                using proxy_t = typename std::remove_const<decltype(gil::at_c<K>(px))>::type;
                uint64_t rb = uint64_t(typename proxy_t::integer_t(gil::at_c<K>(px)));
                uint64_t want = model::get(from, fpos + (fixed_source ? 0 : size_t(i + n) * P) + C::first(K), C::width(K));
                if (rb != want && ok) { ok = false; g = rb; w = want; bc = K; }
            });
            if (!ok) { bad("readback-differs", op, i, j, k, vh::S() << "destination pixel " << (k + n) << " channel " << bc << " reads " << g << ", written " << w << ";"); break; }
        }
    }

    void run_offsets(int od, int os, std::vector<Pattern> const& bgs)
    {
        const size_t dpos = ROWB * 8 + size_t(od), spos = ROWB * 8 + size_t(os);
        for (size_t b = 0; b < bgs.size() && fails < 64; ++b)
        {
            std::memcpy(before, bgs[b].bytes.data(), LEN);
            model::fill_hashed(src, LEN, 0x5C0000 + b * 64 + size_t(od) * 8 + size_t(os));
            where = vh::S() << "ba " << C::name() << "/od=" << od << "/os=" << os << "/bg=" << bgs[b].name;
            // fill values: two pixel numbers taken from the source row
            unsigned char vb[2][32];
            Val fillv[2];
            for (int t = 0; t < 2; ++t)
            {
                std::memset(vb[t], 0, 32);
                for (int c = 0; c < C::N; ++c) model::set(vb[t], C::first(c), C::width(c), model::get(src, spos + size_t(t * 3) * size_t(C::P()) + C::first(c), C::width(c)));
                for_channels<C::N>([&](auto kk) {
                    constexpr int K = decltype(kk)::value;
                    using proxy_t = typename std::remove_const<decltype(gil::at_c<K>(fillv[t]))>::type;
                    gil::at_c<K>(fillv[t]) = typename proxy_t::integer_t(model::get(vb[t], C::first(K), C::width(K)));
                });
            }
            for (int i = 0; i <= NPX; ++i)
                for (int j = i; j <= NPX; ++j)
                {
                    typename C::iter_t dit(dst + ROWB, od);
                    typename C::iter_t sit(src + ROWB, os);
                    typename C::citer_t csit(src + ROWB, os);
                    if (os == 0 || os == 5)     // fill does not depend on the source offset
                        for (int t = 0; t < 2; ++t)
                        {
                            std::memcpy(dst, before, LEN);
                            std::fill(dit + i, dit + j, fillv[t]);
                            check(t == 0 ? "fill(v0)" : "fill(v1)", i, j, i, dpos, vb[t], 0, true);
                        }
                    const int len = j - i;
                    for (int k = 0; k + len <= NPX; ++k)
                    {
                        std::memcpy(dst, before, LEN);
                        std::copy(sit + i, sit + j, dit + k);
                        check("copy", i, j, k, dpos, src, spos, false);
                        std::memcpy(dst, before, LEN);
                        std::copy(csit + i, csit + j, dit + k);
                        check("copy(const src)", i, j, k, dpos, src, spos, false);
                        std::memcpy(dst, before, LEN);
                        std::uninitialized_copy(sit + i, sit + j, dit + k);
                        check("uninitialized_copy", i, j, k, dpos, src, spos, false);
                        // source and destination in the SAME row (forward copy to a lower index is legal): the two references of an assignment
                        // can then start in the same byte, differing only in their bit offset; once per destination offset (os == 0)
                        if (os == 0 && k < i)
                        {
                            std::memcpy(dst, before, LEN);
                            typename C::citer_t cdit(dst + ROWB, od);
                            std::copy(dit + i, dit + j, dit + k);
                            check("copy(same row)", i, j, k, dpos, before, dpos, false);
                            std::memcpy(dst, before, LEN);
                            std::copy(cdit + i, cdit + j, dit + k);
                            check("copy(same row, const src)", i, j, k, dpos, before, dpos, false);
                            ++ctx.witness["ba_copy_within_one_row"];
                        }
                    }
                }
        }
    }
};

template <class C> static void range_config(vh::Ctx& ctx)
{
    std::vector<Pattern> bgs;
    {
        auto all = pattern_backgrounds(RangeOps<C>::LEN, 0, 0);   // zeros, ones, aa, 55, h0..h15
        for (size_t i = 0; i < all.size() && long(bgs.size()) < ctx.B("nbg", 8); ++i) bgs.push_back(all[i]);
    }
    for (int od = 0; od < 8; ++od)
    {
        if (!ctx.take()) continue;
        ctx.cur = vh::S() << "range ops " << C::name() << " od=" << od;
        RangeOps<C> r(ctx);
        for (int os = 0; os < 8 && r.fails < 64; ++os) r.run_offsets(od, os, bgs);
        ++ctx.witness["ba_range_units"];
        if (ctx.timed_out()) return;
    }
    ctx.sample(vh::S() << "range ops " << C::name() << ": fill/copy/copy(const)/uninitialized_copy, every [i,j) of 10 pixels x every placement, 8x8 bit offsets, " << ctx.B("nbg", 8) << " backgrounds");
}

VH_GROUP(ba_range)
{
    vh::ubsan_counts() = false;
#define X(T) range_config<C08_T(T)>(ctx);
    C08_BA_CONFIGS(X)
#undef X
}

// ---------------------------------------------------------------------------------------------------
// iterator arithmetic
// ---------------------------------------------------------------------------------------------------
template <class C, class It> static void iter_laws(vh::Ctx& ctx, const char* kind, long W)
{
    const long P = C::P();
    const size_t MID = size_t(W * P) / 8 + 64;               // the window [-W,W] pixels stays inside the buffer
    std::vector<unsigned char> store(2 * MID + 32, 0);
    unsigned char* buf = store.data();
    long fails = 0;
    for (int sb = 0; sb < 4; ++sb)
    {
        if (!ctx.take()) continue;
        ctx.cur = vh::S() << "iterator laws " << kind << " " << C::name() << " start byte " << sb;
        for (int bit = 0; bit < 8 && fails < 64; ++bit)
        {
            unsigned char* base = buf + MID + sb;
            const It it(base, bit);
            auto id = [&](long n, long m) { return std::string(vh::S() << kind << " " << C::name() << "/byte=" << sb << "/bit=" << bit << "/n=" << n << "/m=" << m); };
            auto same = [](It const& a, It const& b) { return a.bit_range().current_byte() == b.bit_range().current_byte() && a.bit_range().bit_offset() == b.bit_range().bit_offset(); };
            for (long n = -W; n <= W; ++n)
            {
                // advanced by n in each of the ways the iterator offers
                It a = it + n;
                It b = it; b += n;
                It c = it; if (n >= 0) for (long q = 0; q < n; ++q) ++c; else for (long q = 0; q < -n; ++q) --c;
                It d = it; if (n >= 0) for (long q = 0; q < n; ++q) d++; else for (long q = 0; q < -n; ++q) d--;
                It e = it; e -= -n;
                const It* adv[] = {&a, &b, &c, &d, &e};
                static const char* how[] = {"it+n", "it+=n", "++/-- n times", "post++/-- n times", "it-=-n"};
                for (int hw = 0; hw < 5; ++hw)
                {
                    It const& j = *adv[hw];
                    ++ctx.evaluations; if (n != 0) ++ctx.nontrivial;
                    // ... and then by -n returns to the same position
                    It back1 = j - n; It back2 = j; back2 += -n;
                    It back3 = j; if (n >= 0) for (long q = 0; q < n; ++q) --back3; else for (long q = 0; q < -n; ++q) ++back3;
                    if (!(back1 == it) || !same(back1, it) || !(back2 == it) || !same(back2, it) || !(back3 == it) || !same(back3, it))
                    { ++fails; ctx.fail(id(n, 0), "advance-then-back-not-same-position", vh::S() << "advanced by " << how[hw]); }
                    // the distance is the number of pixels between them
                    if ((j - it) != n || (it - j) != -n)
                    { ++fails; ctx.fail(id(n, 0), "distance-not-number-of-pixels", vh::S() << "advanced by " << how[hw] << ": (it+n)-it=" << (long)(j - it) << " it-(it+n)=" << (long)(it - j)); }
                    if ((j - it) != n) continue;
                    if (n != 0 && (j == it)) { ++fails; ctx.fail(id(n, 0), "advance-then-back-not-same-position", "it+n compares equal to it"); }
                }
                // distance between any two iterators of the window
                for (long m = -W; m <= W; ++m)
                {
                    It q = it + m;
                    ++ctx.evaluations; if (m != n) ++ctx.nontrivial;
                    ++ctx.counters["iterator_pair_distances"];
                    if ((q - a) != m - n) { ++fails; ctx.fail(id(n, m), "distance-not-number-of-pixels", vh::S() << "(it+m)-(it+n)=" << (long)(q - a)); if (fails >= 64) break; }
                }
                if (((bit + n * P) % 8 + 8) % 8 != bit) ++ctx.witness["iter_bit_offset_changed"];
                if (n < 0) ++ctx.witness["iter_negative_moves"];
                if (fails >= 64) break;
            }
        }
    }
    (void)MID;
}

// a write through the advanced iterator lands on pixel n of the model (mutable iterators)
template <class C> static void iter_write(vh::Ctx& ctx, long W)
{
    const long P = C::P();
    const size_t MID = size_t(W * P) / 8 + 64, LEN = 2 * MID;   // pixel n in [-W,W] (+ 16 bytes for the model's loads) stays inside
    std::vector<unsigned char> s_buf(LEN + 16, 0), s_before(LEN + 16, 0), s_mask(LEN + 16, 0);
    unsigned char *buf = s_buf.data(), *before = s_before.data(), *mask = s_mask.data();
    long fails = 0;
    for (int sb = 0; sb < 2; ++sb)
    {
        if (!ctx.take()) continue;
        ctx.cur = vh::S() << "iterator write " << C::name() << " start byte " << sb;
        for (int bit = 0; bit < 8 && fails < 64; ++bit)
            for (long n = -W; n <= W && fails < 64; ++n)
            {
                model::fill_hashed(before, LEN, 0x17E7 + uint64_t(sb * 8 + bit) * 131 + uint64_t(n + W));
                std::memcpy(buf, before, LEN); std::memset(mask, 0, LEN);
                typename C::iter_t it(buf + MID + sb, bit);
                const long pos = long((MID + sb) * 8 + bit) + n * P;     // model position of pixel n
                const int w0 = C::width(0);
                const uint64_t old = model::get(before, size_t(pos), w0), nv = (~old) & ((uint64_t(1) << w0) - 1);
                model::mark(mask, size_t(pos), size_t(w0));
                using proxy_t = typename std::remove_const<decltype(gil::at_c<0>(*it))>::type;
                if (n & 1) gil::at_c<0>(*(it + n)) = typename proxy_t::integer_t(nv);
                else gil::at_c<0>(it[n]) = typename proxy_t::integer_t(nv);
                ++ctx.evaluations; ++ctx.nontrivial;
                std::string id = vh::S() << "iter-write " << C::name() << "/byte=" << sb << "/bit=" << bit << "/n=" << n;
                if (!model::others_unchanged(before, buf, mask, LEN)) { ++fails; ctx.fail(id, "other-bits-changed", "write through it+n changed bits outside channel 0 of pixel n"); }
                uint64_t rb = uint64_t(typename proxy_t::integer_t(gil::at_c<0>(*(it + n))));
                if (rb != nv) { ++fails; ctx.fail(id, "readback-differs", vh::S() << "read back " << rb << ", written " << nv); }
                if (model::get(buf, size_t(pos), w0) != nv) ++ctx.counters["stored_bits_differ_from_documented_layout"];
            }
        ++ctx.witness["iter_write_units"];
    }
}

VH_GROUP(ba_iter)
{
    vh::ubsan_counts() = false;
    const long W = ctx.B("W", 40);
#define X(T) iter_laws<C08_T(T), C08_T(T)::iter_t>(ctx, "iter", W); iter_laws<C08_T(T), C08_T(T)::citer_t>(ctx, "const-iter", W); iter_write<C08_T(T)>(ctx, W); ++ctx.witness["iter_configs"];
    C08_BA_CONFIGS(X)
#undef X
}

VH_MAIN
