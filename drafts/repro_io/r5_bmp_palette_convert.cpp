// read_and_convert_image of a palette BMP never calls the colour converter: gray = red channel, 16 bit = unscaled
#include <boost/gil.hpp>
#include <boost/gil/extension/io/bmp.hpp>
#include <sstream>
#include <iostream>
using namespace boost::gil;
static void le(std::string& s, unsigned v, int n) { for (int i = 0; i < n; ++i) s += char(v >> (8 * i)); }
int main() {   // 1x1, 8 bit, one palette entry: pure green (0,255,0)
    std::string f = "BM"; le(f, 62, 4); le(f, 0, 4); le(f, 58, 4);
    le(f, 40, 4); le(f, 1, 4); le(f, 1, 4); le(f, 1, 2); le(f, 8, 2); le(f, 0, 4); le(f, 4, 4); le(f, 0, 4); le(f, 0, 4); le(f, 1, 4); le(f, 0, 4);
    f += std::string("\0\xff\0\0", 4) + std::string("\0\0\0\0", 4);
    gray8_image_t g; rgb16_image_t w; rgba8_image_t n; std::istringstream a(f), b(f), c(f);
    read_and_convert_image(a, g, bmp_tag()); read_and_convert_image(b, w, bmp_tag()); read_image(c, n, bmp_tag());
    std::cout << "native rgba = " << int(view(n)(0,0)[0]) << "," << int(view(n)(0,0)[1]) << "," << int(view(n)(0,0)[2]) << "," << int(view(n)(0,0)[3])
              << "; gray8 of pure green = " << int(view(g)(0, 0)[0]) << " (luminance would be 150); rgb16 green = " << view(w)(0, 0)[1] << " (65535 expected)\n";
}
