// F17 (C18): rgb8 -> lab32f -> rgb8 is off by up to 9 levels for dark colours (and wraps around for dark
// saturated blues): lab -> xyz applies p^3 everywhere and lacks the linear segment (p^3 <= 216/24389) that
// xyz -> lab uses.   g++ -std=c++14 -O2 -I/repo/include F17_repro.cpp && ./a.out
#include <boost/gil.hpp>
#include <boost/gil/extension/toolbox/color_spaces/lab.hpp>
#include <cstdio>
#include <cstdlib>
int main()
{
    namespace gil = boost::gil;
    const int px[3][3] = {{0, 0, 0}, {3, 3, 3}, {0, 0, 42}};
    int rc = 0;
    for (auto& c : px)
    {
        gil::rgb8_pixel_t p(c[0], c[1], c[2]), q; gil::lab32f_pixel_t l; gil::color_convert(p, l); gil::color_convert(l, q);
        std::printf("rgb8(%d,%d,%d) -> Lab(%.4f,%.4f,%.4f) -> rgb8(%d,%d,%d)\n", p[0], p[1], p[2], float(l[0]), float(l[1]), float(l[2]), q[0], q[1], q[2]);
        for (int k = 0; k < 3; ++k) if (std::abs(int(p[k]) - int(q[k])) > 1) rc = 1;
    }
    return rc;   // expected 0: every channel within one level
}
