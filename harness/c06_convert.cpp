// C06 — channel_convert is the order-preserving linear range map with exact end points.
// Every ordered pair of 23 channel value models x every source value (complete for <=16 bit and all
// packed widths; 32-bit/float: complete stratum in quick, all 2^32 / all float patterns in [0,1]
// in thorough), against exact __int128 / long double arithmetic.  See DESIGN.md §3 C06.
#include "vh.hpp"
#include "chan_models.hpp"
#include <boost/mp11.hpp>

namespace gil = boost::gil;
using namespace cm;
namespace mp = boost::mp11;

using Models = mp::mp_list<
    uint8_t, int8_t, uint16_t, int16_t, uint32_t, int32_t, gil::float32_t,
    gil::packed_channel_value<1>, gil::packed_channel_value<2>, gil::packed_channel_value<3>,
    gil::packed_channel_value<4>, gil::packed_channel_value<5>, gil::packed_channel_value<6>,
    gil::packed_channel_value<7>, gil::packed_channel_value<8>, gil::packed_channel_value<9>,
    gil::packed_channel_value<10>, gil::packed_channel_value<11>, gil::packed_channel_value<12>,
    gil::packed_channel_value<13>, gil::packed_channel_value<14>, gil::packed_channel_value<15>,
    gil::packed_channel_value<16>>;

static const uint64_t CHUNK = uint64_t(1) << 24;

template <class S, class D>
struct PairCheck
{
    using MS = M<S>; using MD = M<D>;
    vh::Ctx& ctx;
    std::string pid;
    long fails_here = 0;

    std::string vstr(S v) const
    {
        if (MS::is_float) { char b[64]; snprintf(b, sizeof b, "%.9g", double(MS::to_ld(v))); return b; }
        return std::to_string((long long)MS::to_int(v));
    }
    std::string rstr(D r) const
    {
        if (MD::is_float) { char b[64]; snprintf(b, sizeof b, "%.9g", double(MD::to_ld(r))); return b; }
        return std::to_string((long long)MD::to_int(r));
    }
    void bad(const char* clause, S v, D r, std::string const& extra = "")
    {
        ++fails_here;
        ctx.fail(pid + "/v=" + vstr(v), clause, "result=" + rstr(r) + " " + extra);
    }

    // check one value; prev/have_prev carry the monotonicity scan
    void one(S v, long double& prev, bool& have_prev)
    {
        D r = gil::channel_convert<D>(v);
        ++ctx.evaluations;
        const i128 slo = MS::lo(), shi = MS::hi(), dlo = MD::lo(), dhi = MD::hi();
        long double rl = MD::to_ld(r);
        // (2) in range
        if (!(rl >= (long double)dlo && rl <= (long double)dhi)) bad("range", v, r);
        // (1) end points exact
        bool is_lo = MS::is_float ? (MS::to_ld(v) == 0.0L) : (MS::to_int(v) == slo);
        bool is_hi = MS::is_float ? (MS::to_ld(v) == 1.0L) : (MS::to_int(v) == shi);
        if (is_lo && rl != (long double)dlo) bad("endpoint-min", v, r);
        if (is_hi && rl != (long double)dhi) bad("endpoint-max", v, r);
        if (!is_lo && !is_hi) ++ctx.nontrivial;
        // (3) less than one destination unit from the exact linear map
        if (!MS::is_float && !MD::is_float)
        {
            // |(r-dlo)*(shi-slo) - (v-slo)*(dhi-dlo)| < (shi-slo), all exact integers
            i128 lhs = (MD::to_int(r) - dlo) * (shi - slo) - (MS::to_int(v) - slo) * (dhi - dlo);
            if (lhs < 0) lhs = -lhs;
            if (!(lhs < (shi - slo)))
                bad("error>=1unit", v, r, "exact=" + std::to_string(double((long double)dlo + ((long double)(MS::to_int(v) - slo)) * (long double)(dhi - dlo) / (long double)(shi - slo))));
        }
        else
        {
            long double x = MS::is_float ? MS::to_ld(v) : (long double)(MS::to_int(v) - slo) / (long double)(shi - slo);
            long double exact = (long double)dlo + x * (long double)(dhi - dlo);
            long double err = fabsl(rl - exact);
            // float32 precision: 2^-22 of the destination range on top of one unit (float dst: 4 ulp of 1.0)
            long double tol = MD::is_float ? 4.0L * 5.9604644775390625e-8L
                                           : 1.0L + (long double)(dhi - dlo) * 2.384185791015625e-7L;
            if (!(err < tol)) { char b[96]; snprintf(b, sizeof b, "exact=%.12Lg err=%.6Lg tol=%.6Lg", exact, err, tol); bad("error>tolerance", v, r, b); }
        }
        // (4) monotone non-decreasing along the scan
        if (have_prev && rl < prev) { char b[64]; snprintf(b, sizeof b, "previous result=%.12Lg", prev); bad("not-monotone", v, r, b); }
        prev = rl; have_prev = true;
        // (5) identity
        if (std::is_same<S, D>::value && !(MS::to_ld(v) == rl)) bad("identity", v, r);
        // (6) round trip through a channel with at least as many levels
        bool rt = (!MS::is_float && !MD::is_float && (dhi - dlo) >= (shi - slo)) || (!MS::is_float && MD::is_float && MS::bits <= 16);
        if (rt)
        {
            S back = gil::channel_convert<S>(r);
            if (!(MS::to_ld(back) == MS::to_ld(v))) bad("round-trip", v, r, "back=" + vstr(back));
            ++ctx.counters["roundtrips"];
        }
    }

    void run(bool full32)
    {
        pid = std::string(MS::name()) + ">" + MD::name();
        IndexSet is = full_or_stratum<MS>(full32);
        bool took = false;
        if (is.dense)
        {
            for (uint64_t a = is.a; a < is.b; a += CHUNK)
            {
                if (!ctx.take()) continue;
                took = true;
                uint64_t b = std::min(is.b, a + CHUNK);
                long double prev = 0; bool have = false;
                if (a > 0) { D r0 = gil::channel_convert<D>(MS::make(a - 1)); prev = MD::to_ld(r0); have = true; }
                for (uint64_t i = a; i < b && fails_here < 64; ++i) one(MS::make(i), prev, have);
                if (ctx.timed_out()) return;
            }
        }
        else
        {
            if (!ctx.take()) return;
            took = true;
            long double prev = 0; bool have = false;
            for (uint64_t i : is.list) { if (fails_here >= 64) break; one(MS::make(i), prev, have); }
        }
        if (!took) return;
        if (fails_here == 0) ++ctx.witness["pairs_clean"]; else ++ctx.witness["pairs_failing"];
        ++ctx.witness["pairs"];
        if (MS::lo() < 0 || MD::lo() < 0) ++ctx.witness["signed_pairs"];
        if (MS::is_float || MD::is_float) ++ctx.witness["float_pairs"];
        if (!MS::is_float && !MD::is_float && uint64_t(MD::hi() - MD::lo()) % uint64_t(MS::hi() - MS::lo()) != 0
            && MD::hi() - MD::lo() > MS::hi() - MS::lo()) ++ctx.witness["nondivisible_widening_pairs"];
        {
            uint64_t mid = is.dense ? is.a + (is.b - is.a) / 3 : is.list[is.list.size() / 3];
            S v = MS::make(mid);
            ctx.sample(pid + ": " + vstr(v) + " -> " + rstr(gil::channel_convert<D>(v)) + (is.dense ? " (dense, " : " (stratum, ") + std::to_string(is.size()) + " source values)");
        }
    }
};

template <class S> struct ForDst
{
    vh::Ctx& ctx; bool full32;
    template <class D> void operator()(mp::mp_identity<D>) const { PairCheck<S, D> p{ctx}; p.run(full32); }
};
struct ForSrc
{
    vh::Ctx& ctx; bool full32; int which;   // which: 0 = <=16-bit sources, 1 = 32-bit/float sources
    template <class S> void operator()(mp::mp_identity<S>) const
    {
        bool wide = M<S>::bits == 32;
        if ((which == 1) != wide) return;
        mp::mp_for_each<mp::mp_transform<mp::mp_identity, Models>>(ForDst<S>{ctx, full32});
    }
};

// all pairs with a source of <= 16 bits: complete enumeration of every source value
VH_GROUP(narrow) { mp::mp_for_each<mp::mp_transform<mp::mp_identity, Models>>(ForSrc{ctx, false, 0}); }
// pairs with a 32-bit or float source: full32=0 complete stratum, full32=1 every bit pattern
VH_GROUP(wide) { mp::mp_for_each<mp::mp_transform<mp::mp_identity, Models>>(ForSrc{ctx, ctx.B("full32", 0) != 0, 1}); }

// Channel *references* (packed_channel_reference / packed_dynamic_channel_reference over 8/16/32-bit
// bit fields) behave as their value type under channel_convert, in both argument positions.
template <class Ref, class Field> static Ref mk_ref(Field* f, int, std::false_type) { return Ref(f); }
template <class Ref, class Field> static Ref mk_ref(Field* f, int fb, std::true_type) { return Ref(f, unsigned(fb)); }
template <class Ref, class Field, class D, bool DYN>
static void ref_vs_value(vh::Ctx& ctx, const char* rname, int first_bit, int nbits)
{
    using V = typename gil::channel_traits<Ref>::value_type;
    const Field bgs[] = {Field(0), Field(~Field(0)), Field(0xAAAAAAAAu), Field(0x55555555u)};
    for (Field bg : bgs)
        for (uint64_t v = 0; v < (uint64_t(1) << nbits); ++v)
        {
            Field f = Field((bg & ~(Field((uint64_t(1) << nbits) - 1) << first_bit)) | (Field(v) << first_bit));
            Field keep = f;
            Ref r = mk_ref<Ref, Field>(&f, first_bit, std::integral_constant<bool, DYN>());
            auto a = gil::channel_convert<D>(r);
            auto b = gil::channel_convert<D>(V(typename V::integer_t(v)));
            ++ctx.evaluations; ++ctx.nontrivial;
            if (!(M<D>::to_ld(a) == M<D>::to_ld(b)))
                ctx.fail(vh::S() << rname << ">" << M<D>::name() << "/bg=" << uint64_t(bg) << "/v=" << v, "ref-differs-from-value");
            if (f != keep) ctx.fail(vh::S() << rname << ">" << M<D>::name() << "/bg=" << uint64_t(bg) << "/v=" << v, "convert-modified-source");
            // destination position: channel_convert<Ref>(x) has the value type's result
            auto c = gil::channel_convert<Ref>(b);
            auto d = gil::channel_convert<V>(b);
            if (!(M<V>::to_ld(c) == M<V>::to_ld(d)))
                ctx.fail(vh::S() << M<D>::name() << ">" << rname << "/v=" << v, "ref-dst-differs-from-value");
        }
    ++ctx.witness["ref_models"];
}
template <class Ref, class Field, bool DYN> struct RefDst
{
    vh::Ctx& ctx; const char* rname; int fb, nb;
    template <class D> void operator()(mp::mp_identity<D>) const { ref_vs_value<Ref, Field, D, DYN>(ctx, rname, fb, nb); }
};
VH_GROUP(refs)
{
    using Dsts = mp::mp_list<uint8_t, int8_t, uint16_t, int16_t, uint32_t, int32_t, gil::float32_t,
                             gil::packed_channel_value<3>, gil::packed_channel_value<7>, gil::packed_channel_value<12>>;
    using L = mp::mp_transform<mp::mp_identity, Dsts>;
    if (ctx.take()) mp::mp_for_each<L>(RefDst<gil::packed_channel_reference<uint8_t, 0, 3, true>, uint8_t, false>{ctx, "pref<u8,0,3>", 0, 3});
    if (ctx.take()) mp::mp_for_each<L>(RefDst<gil::packed_channel_reference<uint8_t, 3, 5, true>, uint8_t, false>{ctx, "pref<u8,3,5>", 3, 5});
    if (ctx.take()) mp::mp_for_each<L>(RefDst<gil::packed_channel_reference<uint16_t, 5, 6, true>, uint16_t, false>{ctx, "pref<u16,5,6>", 5, 6});
    if (ctx.take()) mp::mp_for_each<L>(RefDst<gil::packed_channel_reference<uint16_t, 11, 5, false>, uint16_t, false>{ctx, "cpref<u16,11,5>", 11, 5});
    if (ctx.take()) mp::mp_for_each<L>(RefDst<gil::packed_channel_reference<uint32_t, 10, 10, true>, uint32_t, false>{ctx, "pref<u32,10,10>", 10, 10});
    if (ctx.take()) mp::mp_for_each<L>(RefDst<gil::packed_channel_reference<uint32_t, 16, 16, true>, uint32_t, false>{ctx, "pref<u32,16,16>", 16, 16});
    if (ctx.take()) mp::mp_for_each<L>(RefDst<gil::packed_dynamic_channel_reference<uint8_t, 2, true>, uint8_t, true>{ctx, "dref<u8,2>@5", 5, 2});
    if (ctx.take()) mp::mp_for_each<L>(RefDst<gil::packed_dynamic_channel_reference<uint16_t, 7, true>, uint16_t, true>{ctx, "dref<u16,7>@9", 9, 7});
    if (ctx.take()) mp::mp_for_each<L>(RefDst<gil::packed_dynamic_channel_reference<uint32_t, 12, false>, uint32_t, true>{ctx, "cdref<u32,12>@13", 13, 12});
    // 64-bit bit fields: a channel that crosses bit 32 (mask and shift must be done in the bit field's own width), const and mutable
    if (ctx.take()) mp::mp_for_each<L>(RefDst<gil::packed_channel_reference<uint64_t, 30, 10, false>, uint64_t, false>{ctx, "cpref<u64,30,10>", 30, 10});
    if (ctx.take()) mp::mp_for_each<L>(RefDst<gil::packed_channel_reference<uint64_t, 30, 10, true>, uint64_t, false>{ctx, "pref<u64,30,10>", 30, 10});
    if (ctx.take()) mp::mp_for_each<L>(RefDst<gil::packed_channel_reference<uint64_t, 44, 12, false>, uint64_t, false>{ctx, "cpref<u64,44,12>", 44, 12});
    if (ctx.take()) mp::mp_for_each<L>(RefDst<gil::packed_dynamic_channel_reference<uint64_t, 10, false>, uint64_t, true>{ctx, "cdref<u64,10>@27", 27, 10});
    if (ctx.take()) { ++ctx.witness["ref_models_64bit_field"]; }
}

VH_MAIN
