// C14 (resample_pixels on run-time typed views) — every ordered pair of alternatives x every source shape x
// destination shapes x {5 affine maps, resize_view, resample_subimage} x {nearest_neighbor, bilinear} x the six call forms of
// c14_algo.hpp, against the concrete resample_pixels on twin images: compatible -> identical destination;
// incompatible -> std::bad_cast and a byte-identical destination.  (What a sampler computes is C17's subject;
// here only "same as the concrete call".)
#include "c14_algo.hpp"
#include <boost/gil/extension/numeric/sampler.hpp>
#include <boost/gil/extension/numeric/resample.hpp>

using namespace c14;

namespace {

struct Map { const char* name; double a, b, c, d, e, f; };
static const Map MAPS[] = {
    {"id", 1, 0, 0, 1, 0, 0},           {"shift", 1, 0, 0, 1, 1, -1},       {"down2", 2, 0, 0, 2, 0, 0},
    {"up2", 0.5, 0, 0, 0.5, 0.25, 0.25}, {"swapxy", 0, 1, 1, 0, 0, 0},
    {"resize_view", 0, 0, 0, 0, 0, 0},   {"resample_subimage", 0, 0, 0, 0, 0, 0}};   // the last two: wrapper calls (kind 1, 2)

// kind 0: resample_pixels(src, dst, m, sampler); kind 1: resize_view(src, dst, sampler); kind 2: resample_subimage(src,
// dst, 0, 0, src.width(), src.height(), 0.5 rad, sampler) — the two wrappers take variants as "meta views" and read
// dst.width()/height() and src.width()/height() through the variant before forwarding to resample_pixels
template <class Sampler> struct ResampleAlg
{
    static constexpr bool always = false, readonly = false;
    int kind;
    gil::matrix3x2<double> m;
    template <class S, class D> long operator()(S const& s, D const& d) const
    {
        if (kind == 0) gil::resample_pixels(s, d, m, Sampler());
        else if (kind == 1) gil::resize_view(s, d, Sampler());
        else gil::resample_subimage(s, d, 0.0, 0.0, double(s.width()), double(s.height()), 0.5, Sampler());
        return 0;
    }
    template <class S, class D, class T> void prepare(S const&, D const&, int, T) const {}
};

template <class Sampler> struct PairLoop
{
    AlgoStats& st; int S, dstall; const char* sname;
    template <class IJ> void operator()(IJ) const
    {
        constexpr int i = int(IJ::value) / N, j = int(IJ::value) % N;
        if (!st.ctx.take()) return;
        st.unit_fails = 0;
        for (Map const& mp_ : MAPS)
        {
            const int kind = std::string(mp_.name) == "resize_view" ? 1 : std::string(mp_.name) == "resample_subimage" ? 2 : 0;
            ResampleAlg<Sampler> alg{kind, gil::matrix3x2<double>(mp_.a, mp_.b, mp_.c, mp_.d, mp_.e, mp_.f)};
            ++st.ctx.witness[kind == 0 ? "resample_pixels_maps" : kind == 1 ? "resize_view_run" : "resample_subimage_run"];
            st.alg = std::string("resample_pixels<") + sname + ">/" + mp_.name;
            for (int sh = 0; sh <= S; ++sh) for (int sw = 0; sw <= S; ++sw)
                for (int dh = 0; dh <= S; ++dh) for (int dw = 0; dw <= S; ++dw)
                {
                    bool same = dw == sw && dh == sh;
                    if (!dstall && !same && !(dw == 2 && dh == 2) && !(dw == 3 && dh == 1)) continue;
                    pair_case<i, j>(st, alg, sw, sh, dw, dh, 0);
                    if (st.ctx.timed_out()) return;
                }
        }
        ++st.ctx.witness[compat(i, j) ? "pairs_compatible" : "pairs_incompatible"];
        st.ctx.sample(vh::S() << "resample_pixels<" << sname << "> " << INFO[i].name << ">" << INFO[j].name << ": "
                              << (compat(i, j) ? "equals the concrete call" : "std::bad_cast, destination unchanged") << ", 5 maps + resize_view + resample_subimage x shapes 0.." << S << " x 6 call forms");
    }
};

} // namespace

VH_GROUP(resample_nn)
{
    vh::ubsan_counts() = false;
    AlgoStats st{ctx, "resample_pixels"};
    mp::mp_for_each<mp::mp_iota_c<N * N>>(PairLoop<gil::nearest_neighbor_sampler>{st, int(ctx.B("S", 3)), int(ctx.B("dstall", 0)), "nearest"});
}

VH_GROUP(resample_bl)
{
    vh::ubsan_counts() = false;
    AlgoStats st{ctx, "resample_pixels"};
    mp::mp_for_each<mp::mp_iota_c<N * N>>(PairLoop<gil::bilinear_sampler>{st, int(ctx.B("S", 3)), int(ctx.B("dstall", 0)), "bilinear"});
}

VH_MAIN
