// C13 for TIFF (shared by c13_tiff_*.cpp, which split the pixel types to bound compile time): GIL-written seeds of
// every supported pixel type as strip and as 16x16-tiled files, uncompressed and LZW, plus the repo's sample TIFF.
// Devices: file name, TIFF* handle (TIFF has no FILE* device), std::istream.
#include "c13_lib.hpp"
#include <boost/gil/extension/io/tiff.hpp>

namespace gil = boost::gil;
namespace mp = boost::mp11;
using c13::SeedView; using c13::Opts; using ioc::Flat; using ioc::Emit;

struct TiffFmt : c13::LibFmtBase<gil::tiff_tag>
{
    static const char* name() { return "tiff"; }
    using conv_list = mp::mp_list<gil::rgb8_image_t, gil::gray16_image_t>;
    using any_t = gil::any_image<gil::gray1_image_t, gil::gray2_image_t, gil::gray4_image_t, gil::gray8_image_t, gil::gray16_image_t,
                                 gil::gray32f_image_t, gil::rgb8_image_t, gil::rgb16_image_t, gil::rgb32f_image_t, gil::rgba8_image_t,
                                 gil::rgba16_image_t, gil::cmyk8_image_t, gil::cmyk16_image_t>;
    template <class F> static void with_dev(int d, ioc::Source const& s, F f)
    {
        if (d == ioc::DEV_NAME) { std::string p = s.path; f(p); }
        else if (d == ioc::DEV_FILE)
        {
            TIFF* t = TIFFOpen(s.path.c_str(), "r");
            if (!t) throw std::runtime_error("harness: TIFFOpen failed");
            f(t);                               // GIL's tiff device owns the handle
        }
        else
        {
            std::istringstream in(std::string(s.bytes->begin(), s.bytes->end()), std::ios::in | std::ios::binary);
            std::istream& is = in;
            f(is);
        }
    }
    template <class Img, class Info> static std::string depth_check(Info const& info, SeedView const& sv)
    {
        if (!sv.file_bpp) return "";
        if (int(info._bits_per_sample) != sv.file_bpp) return std::string(vh::S() << "info._bits_per_sample=" << int(info._bits_per_sample) << " image has " << sv.file_bpp);
        if (int(info._samples_per_pixel) != sv.aux1) return std::string(vh::S() << "info._samples_per_pixel=" << int(info._samples_per_pixel) << " image has " << sv.aux1);
        return "";
    }
    template <class Img> static void view_exact(Emit& e, ioc::Source const& src, int d, Flat const& full)
    { c13::view_exact_any<TiffFmt, Img>(e, src, d, full, typename gil::is_bit_aligned<typename Img::value_type>::type()); }
};

template <class Img> static int chan_bits()
{
    using C = typename gil::kth_semantic_element_type<typename Img::value_type, 0>::type;
    return int(gil::detail::unsigned_integral_num_bits<typename gil::channel_traits<C>::value_type>::value);
}
template <class Img> static void run_typed(vh::Ctx& ctx, SeedView const& sv, Opts const& o)
{
    ioc::run_unit(ctx, sv.name, [&](Emit& e) { c13::check_seed<TiffFmt, Img>(e, sv, o); });
}
static void tiff_quiet(const char*, const char*, va_list) {}

template <class Types> static void tiff_seeds(vh::Ctx& ctx)
{
    vh::ubsan_counts() = false;
    TIFFSetErrorHandler(tiff_quiet); TIFFSetWarningHandler(tiff_quiet);
    long allrect = ctx.B("allrect", 0);
    Opts o; o.devmask = int(ctx.B("devmask", 7));
    struct Var { const char* n; bool tiled; int comp; long w, h; int tw, th; };
    static const Var vars[] = {{"strip", false, COMPRESSION_NONE, 5, 4, 16, 16}, {"tile16", true, COMPRESSION_NONE, 5, 4, 16, 16},
                               {"strip-lzw", false, COMPRESSION_LZW, 4, 3, 16, 16}, {"tile16-lzw", true, COMPRESSION_LZW, 9, 2, 16, 16},
                               {"tile16", true, COMPRESSION_NONE, 18, 17, 16, 16},      // 18x17: four tiles, partial at both edges
                               {"tile32x16", true, COMPRESSION_NONE, 35, 18, 32, 16},   // tiles wider than long, two tile columns and rows
                               {"tile16x32", true, COMPRESSION_NONE, 18, 35, 16, 32}};  // tiles longer than wide
    mp::mp_for_each<mp::mp_transform<mp::mp_identity, Types>>([&](auto Id) {
        using Img = typename decltype(Id)::type;
        for (auto const& v : vars)
        {
            if (!ctx.take()) continue;
            std::string nm = std::string(vh::S() << "tiff_" << v.n << "_" << c12::TypeName<Img>::get() << "_" << v.w << "x" << v.h);
            ctx.cur = nm;
            gil::image_write_info<gil::tiff_tag> info;
            info._compression = v.comp;
            if (v.tiled) { info._is_tiled = true; info._tile_width = v.tw; info._tile_length = v.th; }
            std::vector<unsigned char> bytes = c13::gil_written<Img, gil::tiff_tag>(v.w, v.h, info);
            ioc::ScratchFile file("c13-" + nm, "tif", bytes);
            SeedView sv; sv.name = nm; sv.bytes = &bytes; sv.path = file.path;
            sv.file_bpp = chan_bits<Img>(); sv.aux1 = int(gil::num_channels<typename Img::view_t>::value);
            sv.subrects = (allrect && v.w * v.h <= 20) || (v.w <= 5 && v.h <= 4);
            sv.sparse_subrects = !sv.subrects && v.tiled && v.w * v.h > 200;      // multi-tile seeds: every pixel, row and column
            sv.scan_expected = !v.tiled;      // documented: scanline_reader doesn't support tiled tiff images
            ++ctx.witness[v.tiled ? "tiff_tiled_seeds" : "tiff_strip_seeds"];
            {
                // converting partial reads of tiled files are a listed finding (tiff read_and_convert_*): on the multi-tile seeds only the
                // non-converting partial reads are enumerated, so that the listed id sets stay reviewable
                auto o2 = o; if (sv.sparse_subrects) o2.conv_crops = false;
                run_typed<Img>(ctx, sv, o2);
            }
            if (ctx.timed_out()) return;
        }
    });
}
