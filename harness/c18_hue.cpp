// C18 — hue periodicity and the grey path of the toolbox hsv/hsl -> rgb converters, on the boundary
// grid  h in {k/6, nextafter(k/6, +-) : k = 0..6} (thorough: k/(6*HD))  x  s, v|l in {0, eps, 1/2, 1-eps, 1}
// (thorough: a 17-point grid).  Clauses (statement): "hue 1 denotes the same colour as hue 0" and
// "greys (saturation 0) ignore hue".
//
// This TU is built with ASan+UBSan and twice with different fills of uninitialised automatic
// variables (-ftrivial-auto-var-init=pattern / =zero, registry TUs c18_hue_pat / c18_hue_zero): a
// converter that leaves its result unassigned on some path (hsv.hpp: floor(6h) = 6 falls through the
// switch) then produces a *deterministic* wrong colour in each build (and different ones in the two
// builds: the digests printed as counters differ), instead of whatever the stack held.
// A UBSan float-cast report counts only together with a wrong result of the same case.
#include "c18_common.hpp"

using namespace c18;

#ifndef C18_FILL
#define C18_FILL "nofill"
#endif

template <class D> struct DstName;
template <> struct DstName<gil::rgb8_pixel_t> { static const char* s() { return "rgb8"; } };
template <> struct DstName<gil::bgr8_pixel_t> { static const char* s() { return "bgr8"; } };
template <> struct DstName<gil::rgb16_pixel_t> { static const char* s() { return "rgb16"; } };
template <> struct DstName<gil::rgb32f_pixel_t> { static const char* s() { return "rgb32f"; } };

template <class D> static bool same_colour(D const& a, D const& b)
{
    // integral destinations: exactly equal; float destination: within 4 ulp(1.0) per channel
    for (int k = 0; k < 3; ++k)
    {
        double x = double(a[k]), y = double(b[k]);
        if (std::is_same<D, gil::rgb32f_pixel_t>::value) { if (!(std::fabs(x - y) <= double(ULP4))) return false; }
        else if (!(x == y)) return false;
    }
    return true;
}
template <class D> static std::string pstr(D const& a)
{
    return vh::S() << "(" << fstr(float(a[0])) << "," << fstr(float(a[1])) << "," << fstr(float(a[2])) << ")";
}

static std::vector<float> hue_grid(long hd)
{
    std::vector<float> h;
    long n = 6 * hd;
    for (long k = 0; k <= n; ++k)
    {
        float c = float(k) / float(n);
        if (k > 0) h.push_back(nextdn(c));
        h.push_back(c);
        if (k < n) h.push_back(nextup(c));
    }
    return h;      // ends with exactly 1.0f, starts with exactly 0.0f
}
static std::vector<float> sv_grid(long fine)
{
    std::vector<float> g = {0.f, 1.1920929e-7f, 0.5f, nextdn(1.f), 1.f};
    if (fine) { g.clear(); for (int k = 0; k <= 16; ++k) g.push_back(k / 16.f); g.insert(g.begin() + 1, 1.1920929e-7f); g.insert(g.end() - 1, nextdn(1.f)); g.push_back(0.0001f); g.push_back(nextdn(0.0001f)); }
    return g;
}

template <class HS, class D> static void hue_cases(vh::Ctx& ctx, const char* sp, uint64_t& digest)
{
    std::vector<float> H = hue_grid(ctx.B("HD", 1)), G = sv_grid(ctx.B("fine", 0));
    long nf = 0;
    for (float s : G)
        for (float v : G)
        {
            if (!ctx.take()) continue;
            ctx.cur = vh::S() << sp << ">" << DstName<D>::s() << " s=" << fstr(s) << " v=" << fstr(v);
            std::string base = vh::S() << sp << ">" << DstName<D>::s() << "/s=" << fstr(s) << ",x=" << fstr(v);
            vh::san().pending.clear();
            // reference colours for this (s, v): hue 0
            HS p0(0.f, s, v); D d0; gil::color_convert(p0, d0);
            vh::san().pending.clear();                 // statement does not speak about hue 0 itself
            for (float h : H)
            {
                HS p(h, s, v); D d; gil::color_convert(p, d);
                ++ctx.evaluations;
                if (s != 0.f && v != 0.f) ++ctx.nontrivial;
                digest = vh::hash_bytes(&d, sizeof d, digest);
                bool wrong = false;
                std::string id = base + ",h=" + fstr(h);
                if (h == 1.0f)
                {
                    ++ctx.witness[std::string(sp) + "_hue_one_cases"];
                    if (!same_colour(d, d0)) { wrong = true; if (nf++ < 64) ctx.fail(id, "hue1-differs-from-hue0", vh::S() << "hue 1 -> " << pstr(d) << ", hue 0 -> " << pstr(d0) << " [fill=" C18_FILL "]"); }
                }
                if (s == 0.f)
                {
                    ++ctx.witness[std::string(sp) + "_grey_cases"];
                    if (!same_colour(d, d0)) { wrong = true; if (nf++ < 64) ctx.fail(id, "grey-depends-on-hue", vh::S() << "hue " << fstr(h) << " -> " << pstr(d) << ", hue 0 -> " << pstr(d0)); }
                }
                if (wrong) ctx.san_take(id); else vh::san().pending.clear();
            }
        }
    HS p(1.f, 1.f, 1.f); D d; gil::color_convert(p, d); vh::san().pending.clear();
    ctx.sample(vh::S() << sp << "(h=1,s=1,x=1) -> " << DstName<D>::s() << pstr(d) << " [fill=" C18_FILL "]");
}

VH_GROUP(hue_grid)
{
    uint64_t dg = 1469598103934665603ull;
    hue_cases<gil::hsv32f_pixel_t, gil::rgb8_pixel_t>(ctx, "hsv", dg);
    hue_cases<gil::hsv32f_pixel_t, gil::rgb32f_pixel_t>(ctx, "hsv", dg);
    hue_cases<gil::hsv32f_pixel_t, gil::rgb16_pixel_t>(ctx, "hsv", dg);
    hue_cases<gil::hsv32f_pixel_t, gil::bgr8_pixel_t>(ctx, "hsv", dg);
    hue_cases<gil::hsl32f_pixel_t, gil::rgb8_pixel_t>(ctx, "hsl", dg);
    hue_cases<gil::hsl32f_pixel_t, gil::rgb32f_pixel_t>(ctx, "hsl", dg);
    hue_cases<gil::hsl32f_pixel_t, gil::rgb16_pixel_t>(ctx, "hsl", dg);
    hue_cases<gil::hsl32f_pixel_t, gil::bgr8_pixel_t>(ctx, "hsl", dg);
    // digest of every produced pixel, for the pattern/zero differential (single shard runs only)
    ctx.counters[std::string("output_digest_lo24_fill_") + C18_FILL] = long(dg & 0xffffff);
    ctx.counters[std::string("output_digest_hi24_fill_") + C18_FILL] = long((dg >> 24) & 0xffffff);
}

VH_MAIN
