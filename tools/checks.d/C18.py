# registry fragment for C18 (exec'd by tools/checks.py with CHECKS, ASSUME_COMMON, NOT_APPLICABLE in scope)
_c18_rt = ['hsv', 'hsl', 'xyz', 'lab', 'ycbcr601', 'ycbcr709', 'cmyka']
CHECKS['C18'] = dict(
    level='exploration',
    technique='exhaustive finite-domain enumeration of the real toolbox colour converters: every rgb8 pixel through '
              'each colour space and back, compared with the statement\'s tolerance; boundary grid of hue/saturation/'
              'value under ASan+UBSan with two fills of uninitialised automatic storage',
    rule='per colour space (hsv, hsl, xyz, lab, ycbcr601, ycbcr709, cmyka): all 2^24 rgb8 pixels, as rgb8 and bgr8 '
         'values (thorough: also as planar_pixel_reference proxies); case = (space, layout, r, g, b), distinct by construction (the loop index is the '
         'pixel), non-trivial = not r=g=b. gray_alpha8->rgba8: all 2^16 (g,a) x 6 layout pairs (thorough: all 2^32 of '
         'gray_alpha16); toolbox gray->rgba: all 2^16 + 2^8 values; toolbox luminance: all 2^24 (r,g,b). Hue grid: '
         'h in {k/6n, nextafter +-} x (s,v|l) in a 5x5 (thorough 21x21) boundary grid x 4 rgb destinations x hsv,hsl; '
         'non-trivial = s != 0 and v != 0.',
    assumptions=ASSUME_COMMON + [
        'round-trip tolerances derived from the statement and the quantisation of the intermediate: 0 for hsv/hsl/xyz '
        '("exactly"), lab 1 level (float32 intermediate), ycbcr601 3 levels (studio range: 219 luma steps for 256 '
        'inputs, inverse gains 1.16/1.6/2.0, one truncation each way), ycbcr709 2 levels (full range)',
        'range clause only where the statement enumerates it: hue, saturation, value/lightness in [0,1] with a 4-ulp(1.0) '
        'allowance; xyz/lab: finite; ycbcr: nothing (uint8 channels)',
        'cmyka: the tree has no rgb->cmyka converter, so the round trip is core rgb8->cmyk8, append opaque alpha, '
        'toolbox cmyka8->rgba8 (tolerance 1 level, as C09 allows rgb->cmyk->rgb); what cmyka->rgba does with a '
        'non-opaque alpha is not constrained by the statement and is only counted',
        'gil::alpha_gray*_pixel_t does not compile with get_color (layout declared over a layout); the alpha-first '
        'gray_alpha layout is declared in the harness instead',
        'UBSan float-cast reports count only when the same case also returns a wrong colour',
    ],
    tus=[dict(name='c18_roundtrip', src='harness/c18_roundtrip.cpp', deps=['harness/c18_common.hpp'], san=False, opt=2),
         dict(name='c18_hue_pat', src='harness/c18_hue.cpp', deps=['harness/c18_common.hpp'],
              flags=['-ftrivial-auto-var-init=pattern', '-DC18_FILL="pattern"']),
         dict(name='c18_hue_zero', src='harness/c18_hue.cpp', deps=['harness/c18_common.hpp'],
              flags=['-ftrivial-auto-var-init=zero', '-DC18_FILL="zero"'])],
    runs=dict(
        quick=[dict(tu='c18_roundtrip', group=g, bounds=dict(layouts=2, cap=64), shards=(3 if g in ('lab', 'xyz') else 1)) for g in _c18_rt]
              + [dict(tu='c18_roundtrip', group='gray_alpha', bounds=dict(wide=0), shards=1),
                 dict(tu='c18_roundtrip', group='luminance', shards=1),
                 dict(tu='c18_hue_pat', group='hue_grid', bounds=dict(HD=1, fine=0), shards=1),
                 dict(tu='c18_hue_zero', group='hue_grid', bounds=dict(HD=1, fine=0), shards=1)],
        thorough=[dict(tu='c18_roundtrip', group=g, bounds=dict(layouts=3, cap=64), shards=(4 if g in ('lab', 'xyz') else 2)) for g in _c18_rt]
                 + [dict(tu='c18_roundtrip', group='gray_alpha', bounds=dict(wide=1), shards=12),
                    dict(tu='c18_roundtrip', group='luminance', shards=2),
                    dict(tu='c18_hue_pat', group='hue_grid', bounds=dict(HD=16, fine=1), shards=1),
                    dict(tu='c18_hue_zero', group='hue_grid', bounds=dict(HD=16, fine=1), shards=1)]),
    witnesses_required=dict(all=[
        'hsv_pixels', 'hsl_pixels', 'xyz_pixels', 'lab_pixels', 'ycbcr601_pixels', 'ycbcr709_pixels', 'cmyka_pixels',
        'hsv_sector0', 'hsv_sector1', 'hsv_sector2', 'hsv_sector3', 'hsv_sector4', 'hsv_sector5', 'hsv_grey_path',
        'hsl_sector0', 'hsl_sector1', 'hsl_sector2', 'hsl_sector3', 'hsl_sector4', 'hsl_sector5', 'hsl_grey_path',
        'xyz_linear_segment', 'xyz_gamma_segment', 'lab_linear_segment', 'lab_cuberoot_segment',
        'ycbcr601_cb_below_128', 'ycbcr601_cb_from_128', 'ycbcr709_cb_below_128', 'ycbcr709_cb_from_128',
        'gray_alpha8_rows', 'gray_to_rgba_values', 'luminance_rows',
        'hsv_hue_one_cases', 'hsl_hue_one_cases', 'hsv_grey_cases', 'hsl_grey_cases'],
        thorough=[
        'hsv_pixels', 'hsl_pixels', 'xyz_pixels', 'lab_pixels', 'ycbcr601_pixels', 'ycbcr709_pixels', 'cmyka_pixels',
        'hsv_sector0', 'hsv_sector5', 'hsv_grey_path', 'hsl_sector0', 'hsl_sector5', 'hsl_grey_path',
        'xyz_linear_segment', 'xyz_gamma_segment', 'lab_linear_segment', 'lab_cuberoot_segment',
        'gray_alpha8_rows', 'gray_alpha16_rows', 'gray_to_rgba_values', 'luminance_rows',
        'hsv_hue_one_cases', 'hsl_hue_one_cases', 'hsv_grey_cases', 'hsl_grey_cases']),
    deadline=dict(quick=600, thorough=3000),
)
