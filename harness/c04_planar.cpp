// C04 — TU 2: rgb8, planar source (mutable and const channel pointers) into every destination family;
// destination-only algorithms and equal_pixels for the planar family; image operator== for rgb8 images.
#include "c04_common.hpp"
using namespace c04;

using I8  = FamI<gil::rgb8_pixel_t>;
using P8  = FamP<uint8_t>;
using P8c = FamP<uint8_t, true>;
using X8  = FamX<I8>;
using T8  = FamT<I8>;

#define C04_BOUNDS vh::ubsan_counts() = false; int N = int(ctx.B("N", 4)), X0 = int(ctx.B("X0", 3));

VH_GROUP(pairs_p)
{
    C04_BOUNDS
    PairRunner<P8, I8, P8>::run(ctx, N, X0);
    PairRunner<P8, P8, X8>::run(ctx, N, X0);
    PairRunner<P8, X8, T8>::run(ctx, N, X0);
    PairRunner<P8, T8, I8>::run(ctx, N, X0);
    PairRunner<P8c, P8, P8c, false>::run(ctx, N, X0);
    PairRunner<P8c, I8, P8c, false>::run(ctx, N, X0);
}
VH_GROUP(dst_p)
{
    C04_BOUNDS
    run_dst<P8>(ctx, N, X0);
}
VH_GROUP(equal_p)
{
    C04_BOUNDS
    EqualRunner<P8, I8>::run(ctx, N, X0);
    EqualRunner<P8, P8>::run(ctx, N, X0);
    EqualRunner<P8c, P8c>::run(ctx, N, X0);
    EqualRunner<P8c, P8>::run(ctx, N, X0);
    EqualRunner<P8, X8>::run(ctx, N, X0);
    EqualRunner<P8, T8>::run(ctx, N, X0);
}
VH_GROUP(image_eq)
{
    C04_BOUNDS
    ImageEqRunner<gil::rgb8_image_t, gil::rgb8_image_t>::run(ctx, N, "rgb8=rgb8");
    ImageEqRunner<gil::rgb8_image_t, gil::rgb8_planar_image_t>::run(ctx, N, "rgb8=rgb8_planar");
    ImageEqRunner<gil::rgb8_planar_image_t, gil::rgb8_planar_image_t>::run(ctx, N, "rgb8_planar=rgb8_planar");
    ImageEqRunner<gil::rgb8_image_t, gil::bgr8_image_t>::run(ctx, N, "rgb8=bgr8");
    ImageEqRunner<gil::gray8_image_t, gil::gray8_image_t>::run(ctx, N, "gray8=gray8");
    ImageEqRunner<gil::rgb16_planar_image_t, gil::rgb16_image_t>::run(ctx, N, "rgb16_planar=rgb16");
}
VH_MAIN
