// C01 (allocation part) — for every pixel organisation, every (w,h) in 0..N squared, every alignment and
// every way of obtaining the image (ctor, ctor+fill, copy, assignment from other dims, recreate
// grow / shrink / re-align from each earlier shape, with and without fill), touch every in-range pixel
// of the image view and of its depth-1 derived views through every accessor and the pixel
// algorithms.  Oracle: (a) no ASan/UBSan report (the image block comes from std::allocator, so ASan
// puts redzones around exactly the bytes the image obtained); (b) deterministic, from the image's own
// private bookkeeping: every channel of every pixel lies inside [_memory, _memory+_allocated_bytes)
// (planar: inside the single block too).  DESIGN.md §2 C01.
#include "vs_c01.hpp"
using namespace vs;

template <class Img> struct ImgName;
#define IMG(T, s) template <> struct ImgName<T> { static const char* name() { return s; } }

using packed565_img = gil::image<gil::packed_pixel_type<uint16_t, mp11::mp_list_c<unsigned, 5, 6, 5>, gil::rgb_layout_t>::type, false>;
using packed1010102_img = gil::image<gil::packed_pixel_type<uint32_t, mp11::mp_list_c<unsigned, 10, 10, 10, 2>, gil::rgba_layout_t>::type, false>;
using packed16x4_img = gil::image<gil::packed_pixel_type<uint64_t, mp11::mp_list_c<unsigned, 16, 16, 16, 16>, gil::rgba_layout_t>::type, false>;
using bits1_img = gil::bit_aligned_image1_type<1, gil::gray_layout_t>::type;
using bits2_img = gil::bit_aligned_image1_type<2, gil::gray_layout_t>::type;
using bits4_img = gil::bit_aligned_image1_type<4, gil::gray_layout_t>::type;
using bits7_img = gil::bit_aligned_image1_type<7, gil::gray_layout_t>::type;
using bits121_img = gil::bit_aligned_image3_type<1, 2, 1, gil::rgb_layout_t>::type;
using bits222_img = gil::bit_aligned_image3_type<2, 2, 2, gil::rgb_layout_t>::type;
using bits565_img = gil::bit_aligned_image3_type<5, 6, 5, gil::bgr_layout_t>::type;
using bits101010_img = gil::bit_aligned_image3_type<10, 10, 10, gil::rgb_layout_t>::type;
using bits121212_img = gil::bit_aligned_image3_type<12, 12, 12, gil::rgb_layout_t>::type;
using bits7777_img = gil::bit_aligned_image4_type<7, 7, 7, 7, gil::rgba_layout_t>::type;
using rgb16_planar_img = gil::image<gil::rgb16_pixel_t, true>;
using rgba16_planar_img = gil::image<gil::rgba16_pixel_t, true>;

IMG(gil::gray8_image_t, "gray8"); IMG(gil::rgb8_image_t, "rgb8"); IMG(gil::rgba8_image_t, "rgba8"); IMG(gil::rgb16_image_t, "rgb16");
IMG(gil::rgb32f_image_t, "rgb32f"); IMG(gil::cmyk8_image_t, "cmyk8"); IMG(gil::gray16_image_t, "gray16"); IMG(gil::rgb32_image_t, "rgb32");
IMG(gil::rgb8_planar_image_t, "rgb8_planar"); IMG(rgb16_planar_img, "rgb16_planar"); IMG(rgba16_planar_img, "rgba16_planar");
IMG(gil::rgb32f_planar_image_t, "rgb32f_planar");
IMG(packed565_img, "packed565_u16"); IMG(packed1010102_img, "packed1010102_u32"); IMG(packed16x4_img, "packed16x4_u64");
IMG(bits1_img, "bits_gray1"); IMG(bits2_img, "bits_gray2"); IMG(bits4_img, "bits_gray4"); IMG(bits7_img, "bits_gray7");
IMG(bits121_img, "bits_rgb121"); IMG(bits222_img, "bits_rgb222"); IMG(bits565_img, "bits_bgr565"); IMG(bits101010_img, "bits_rgb101010");
IMG(bits121212_img, "bits_rgb121212"); IMG(bits7777_img, "bits_rgba7777");

// An allocator whose blocks start at an ODD address (std::allocator's blocks are 16-byte aligned, which would hide a
// missing alignment slack for every alignment up to 16). The block is exactly n bytes: ASan's redzone starts right after it.
template <class T> struct MisAlloc
{
    using value_type = T;
    MisAlloc() = default;
    template <class U> MisAlloc(MisAlloc<U> const&) {}
    template <class U> struct rebind { using other = MisAlloc<U>; };
    T* allocate(std::size_t n) { unsigned char* p = static_cast<unsigned char*>(std::malloc(n * sizeof(T) + 1)); if (!p) throw std::bad_alloc(); return reinterpret_cast<T*>(p + 1); }
    void deallocate(T* p, std::size_t) { std::free(reinterpret_cast<unsigned char*>(p) - 1); }
    bool operator==(MisAlloc const&) const { return true; }
    bool operator!=(MisAlloc const&) const { return false; }
};
using rgb8_odd_img = gil::image<gil::rgb8_pixel_t, false, MisAlloc<unsigned char>>;
using rgb16_planar_odd_img = gil::image<gil::rgb16_pixel_t, true, MisAlloc<unsigned char>>;
using bits565_odd_img = gil::bit_aligned_image3_type<5, 6, 5, gil::bgr_layout_t, MisAlloc<unsigned char>>::type;
IMG(rgb8_odd_img, "rgb8_oddbase"); IMG(rgb16_planar_odd_img, "rgb16_planar_oddbase"); IMG(bits565_odd_img, "bits_bgr565_oddbase");

// a stateful allocator that does not propagate on move assignment: instances with different ids compare unequal, so move assignment
// between them copies the pixels and leaves the source to be emptied by hand
template <class T> struct StickyAlloc
{
    using value_type = T;
    using propagate_on_container_move_assignment = std::false_type;
    using propagate_on_container_copy_assignment = std::false_type;
    using propagate_on_container_swap = std::false_type;
    int id = 1;
    StickyAlloc() = default;
    explicit StickyAlloc(int i) : id(i) {}
    template <class U> StickyAlloc(StickyAlloc<U> const& o) : id(o.id) {}
    template <class U> struct rebind { using other = StickyAlloc<U>; };
    T* allocate(std::size_t n) { T* p = static_cast<T*>(std::malloc(n * sizeof(T))); if (!p) throw std::bad_alloc(); return p; }
    void deallocate(T* p, std::size_t) { std::free(p); }
    bool operator==(StickyAlloc const& o) const { return id == o.id; }
    bool operator!=(StickyAlloc const& o) const { return id != o.id; }
};
using rgb8_sticky_img = gil::image<gil::rgb8_pixel_t, false, StickyAlloc<unsigned char>>;
using rgb16_planar_sticky_img = gil::image<gil::rgb16_pixel_t, true, StickyAlloc<unsigned char>>;
IMG(rgb8_sticky_img, "rgb8_sticky"); IMG(rgb16_planar_sticky_img, "rgb16_planar_sticky");

template <class Img> struct Checker
{
    vh::Ctx& ctx;
    std::string id;
    long allocs_seen = 0;

    // (b) every channel of every pixel inside the block the image recorded
    template <class V> void inside(Img const& img, V const& v, const char* what)
    {
        unsigned char const* mem = img._memory;
        long total_bits = long(img._allocated_bytes) * 8;
        int bad = 0;
        for (long y = 0; y < v.height(); ++y) for (long x = 0; x < v.width(); ++x)
        {
            auto&& ref = v(x, y);
            for_channels(ref, [&](int c, auto&& ch) {
                long pos = chan_refpos(mem, ch);
                long bits = long(chan_width(ch));
                ++ctx.counters["inside_checks"];
                if ((pos < 0 || pos + bits > total_bits) && bad++ < 2)
                    ctx.fail(id + "/" + what, "pixel-outside-allocation", vh::S() << "(" << x << "," << y << ") ch" << c << " occupies bits [" << pos << "," << pos + bits << ") of a block of " << total_bits << " bits");
            });
        }
    }
    template <class T> static int chan_width(T const&, typename std::enable_if<std::is_arithmetic<T>::value>::type* = 0) { return int(sizeof(T)) * 8; }
    template <class B, class Mn, class Mx> static int chan_width(gil::scoped_channel_value<B, Mn, Mx> const&) { return int(sizeof(B)) * 8; }
    template <class BF, int FB, int NB, bool M> static int chan_width(gil::packed_channel_reference<BF, FB, NB, M> const&) { return NB; }
    template <class BF, int NB, bool M> static int chan_width(gil::packed_dynamic_channel_reference<BF, NB, M> const&) { return NB; }

    template <class V> void touch(Img const& img, V const& v, const char* what)
    {
        inside(img, v, what);
        long t = touch_accessors<true>(v);
        touch_algorithms(v, std::true_type());
        ctx.counters["pixel_touches"] += t;
        ctx.san_take(id + "/" + what);
    }
    void nth(Img const&, std::false_type) {}
    void nth(Img const& img, std::true_type)
    {
        auto v = gil::view(const_cast<Img&>(img));
        touch(img, gil::nth_channel_view(v, int(gil::num_channels<typename Img::view_t>::value) - 1), "nth_channel(last)");
    }

    void all(Img& img, std::string const& case_id)
    {
        id = case_id;
        ++ctx.evaluations;
        auto v = gil::view(img);
        long w = v.width(), h = v.height();
        if (w > 0 && h > 0) { ++ctx.nontrivial; if (img._memory == nullptr) ctx.fail(id, "non-empty-image-without-memory", ""); }
        touch(img, v, "view");
        touch(img, gil::flipped_up_down_view(v), "flipUD");
        touch(img, gil::flipped_left_right_view(v), "flipLR");
        touch(img, gil::transposed_view(v), "transposed");
        touch(img, gil::rotated90cw_view(v), "rot90cw");
        touch(img, gil::rotated90ccw_view(v), "rot90ccw");
        touch(img, gil::rotated180_view(v), "rot180");
        touch(img, gil::subsampled_view(v, 2, 2), "subsampled22");
        touch(img, gil::subsampled_view(v, 3, 1), "subsampled31");
        if (w >= 2 && h >= 2) touch(img, gil::subimage_view(v, 1, 1, w - 1, h - 1), "subimage");
        nth(img, std::integral_constant<bool, (!gil::is_bit_aligned<typename Img::value_type>::value && is_homogeneous_img::value)>());
        // const view: read-only touches
        {
            auto cv = gil::const_view(img);
            long t = touch_accessors<false>(cv);
            touch_algorithms(cv, std::false_type());
            ctx.counters["pixel_touches"] += t;
            ctx.san_take(id + "/const_view");
        }
    }
    template <class P, class = void> struct homog : std::false_type {};
    template <class P> struct homog<P, typename std::enable_if<(sizeof(typename gil::channel_type<P>::type) > 0)>::type> : std::true_type {};
    using is_homogeneous_img = homog<typename Img::value_type>;
};

template <class Img> void run_image_type(vh::Ctx& ctx)
{
    using point_t = typename Img::point_t;
    const long N = ctx.B("N", 5);
    static const long aligns_q[] = {0, 1, 4, 8}, aligns_t[] = {0, 1, 2, 4, 8, 16, 32};
    const bool thorough = ctx.B("allaligns", 0) != 0;
    const long* aligns = thorough ? aligns_t : aligns_q;
    const int na = thorough ? 7 : 4;
    const char* tn = ImgName<Img>::name();
    for (long w = 0; w <= N; ++w) for (long h = 0; h <= N; ++h)
    {
        if (!ctx.take()) continue;
        for (int ai = 0; ai < na; ++ai)
        {
            long al = aligns[ai];
            std::string base = vh::S() << tn << "/" << w << "x" << h << "/a" << al;
            ctx.cur = base;
            Checker<Img> ck{ctx};
            { Img img(point_t(w, h), std::size_t(al)); ck.all(img, base + "/ctor"); }
            { typename Img::value_type fillv{}; Img img(point_t(w, h), fillv, std::size_t(al)); ck.all(img, base + "/ctor+fill"); }
            { Img src(point_t(w, h), std::size_t(al)); Img img(src); ck.all(img, base + "/copy"); ck.all(src, base + "/copy-source"); }
            { Img src(point_t(w, h), std::size_t(al)); Img img(point_t(w + 1, h + 2), std::size_t(0)); img = src; ck.all(img, base + "/assign-from-larger"); }
            { Img src(point_t(w, h), std::size_t(al)); Img img; img = src; ck.all(img, base + "/assign-to-empty"); }
            { Img src(point_t(w, h), std::size_t(al)); Img img(std::move(src)); ck.all(img, base + "/move"); ck.all(src, base + "/moved-from"); }
            static const long prev[][3] = {{0, 0, 0}, {1, 1, 0}, {2, 3, 8}, {N, N, 0}, {N + 1, N + 1, 1}, {N, 1, 16}};
            for (auto const& pv : prev)
            {
                { Img img(point_t(pv[0], pv[1]), std::size_t(pv[2])); img.recreate(point_t(w, h), std::size_t(al));
                  ck.all(img, vh::S() << base << "/recreate-from-" << pv[0] << "x" << pv[1] << "a" << pv[2]); }
                { Img img(point_t(pv[0], pv[1]), std::size_t(pv[2])); typename Img::value_type fillv{}; img.recreate(point_t(w, h), fillv, std::size_t(al));
                  ck.all(img, vh::S() << base << "/recreate+fill-from-" << pv[0] << "x" << pv[1] << "a" << pv[2]); }
                { Img img(point_t(pv[0], pv[1]), std::size_t(pv[2])); img.recreate(w, h);     // keeps the old alignment
                  ck.all(img, vh::S() << base << "/recreate-keep-align-from-" << pv[0] << "x" << pv[1] << "a" << pv[2]); }
            }
            ++ctx.witness[std::string("img_") + tn];
        }
        ctx.sample(std::string(tn) + " " + std::to_string(w) + "x" + std::to_string(h) + ": ctor, ctor+fill, copy, assign, move, 18 recreate histories x " + std::to_string(na) + " alignments, 11 views each");
        if (ctx.timed_out()) return;
    }
}

// moved-from images under unequal non-propagating allocators, then reused: dst = std::move(src) copies the pixels and empties src by
// hand; every later recreate of src (same size, smaller, larger, re-aligned) must again yield pixels inside a block src obtained
template <class Img> static void run_sticky_histories(vh::Ctx& ctx)
{
    using point_t = typename Img::point_t; using A = typename Img::allocator_type;
    const long N = ctx.B("N", 4);
    const char* tn = ImgName<Img>::name();
    for (long w = 0; w <= N; ++w) for (long h = 0; h <= N; ++h)
    {
        if (!ctx.take()) continue;
        for (long al : {0L, 8L})
        {
            std::string base = vh::S() << tn << "/" << w << "x" << h << "/a" << al;
            ctx.cur = base;
            Checker<Img> ck{ctx};
            static const long next[][3] = {{-1, -1, 0}, {1, 1, 0}, {2, 3, 8}, {0, 0, 0}};      // -1: the size it had before the move
            for (auto const& nx : next)
            {
                Img src(point_t(w, h), std::size_t(al), A(1)), dst(point_t(1, 1), std::size_t(0), A(2));
                dst = std::move(src);
                ck.all(dst, base + "/sticky-move-assign-target");
                ck.all(src, base + "/sticky-moved-from");
                const long w2 = nx[0] < 0 ? w : nx[0], h2 = nx[1] < 0 ? h : nx[1];
                src.recreate(point_t(w2, h2), std::size_t(nx[2]));
                ck.all(src, vh::S() << base << "/sticky-moved-from-then-recreate-" << w2 << "x" << h2 << "a" << nx[2]);
                ++ctx.witness["moved_from_image_recreated_under_sticky_allocators"];
            }
        }
        if (ctx.timed_out()) return;
    }
}

#define IMG_GROUP(g, T) VH_GROUP(g) { vh::ubsan_counts() = false; run_image_type<T>(ctx); }
#define STICKY_GROUP(g, T) VH_GROUP(g) { vh::ubsan_counts() = false; run_image_type<T>(ctx); run_sticky_histories<T>(ctx); }
#ifndef VS_SET
#define VS_SET 0
#endif
#if VS_SET == 0
IMG_GROUP(gray8, gil::gray8_image_t) IMG_GROUP(rgb8, gil::rgb8_image_t) IMG_GROUP(rgba8, gil::rgba8_image_t)
#elif VS_SET == 1
IMG_GROUP(rgb16, gil::rgb16_image_t) IMG_GROUP(rgb32f, gil::rgb32f_image_t) IMG_GROUP(gray16, gil::gray16_image_t)
#elif VS_SET == 2
IMG_GROUP(rgb8_planar, gil::rgb8_planar_image_t) IMG_GROUP(rgb16_planar, rgb16_planar_img) IMG_GROUP(rgba16_planar, rgba16_planar_img)
#elif VS_SET == 3
IMG_GROUP(packed565_u16, packed565_img) IMG_GROUP(packed1010102_u32, packed1010102_img) IMG_GROUP(packed16x4_u64, packed16x4_img)
#elif VS_SET == 4
IMG_GROUP(bits_gray1, bits1_img) IMG_GROUP(bits_gray2, bits2_img) IMG_GROUP(bits_gray4, bits4_img) IMG_GROUP(bits_gray7, bits7_img)
#elif VS_SET == 5
IMG_GROUP(bits_rgb121, bits121_img) IMG_GROUP(bits_rgb222, bits222_img) IMG_GROUP(bits_bgr565, bits565_img)
#elif VS_SET == 7
IMG_GROUP(rgb8_oddbase, rgb8_odd_img) IMG_GROUP(rgb16_planar_oddbase, rgb16_planar_odd_img) IMG_GROUP(bits_bgr565_oddbase, bits565_odd_img)
#elif VS_SET == 8
STICKY_GROUP(rgb8_sticky, rgb8_sticky_img) STICKY_GROUP(rgb16_planar_sticky, rgb16_planar_sticky_img)
#elif VS_SET == 6
IMG_GROUP(bits_rgb101010, bits101010_img) IMG_GROUP(bits_rgb121212, bits121212_img) IMG_GROUP(bits_rgba7777, bits7777_img)
#endif
VH_MAIN
