#!/usr/bin/env python3
"""known_ids.py -- development-time tool: turn the `--dump-fails` files of reviewed runs on the unchanged tree into
sorted id-set files under /verif/known_findings/ and print the proposed known_findings.txt lines.

  python3 gen/known_ids.py C12 <dump> [<dump> ...]      (union of quick and thorough dumps)
  python3 gen/known_ids.py C13 <dump> [<dump> ...]

One file per (defect class, failure signature): known_findings/<PROP>_<class>__<sig-slug>.ids.  Nothing reads this
script at run time; tools/vcheck.py only reads known_findings.txt and the id files it names."""
import sys, os, re, collections

VERIF = os.path.dirname(os.path.dirname(os.path.abspath(__file__)))

TEXT = {
    # C13
    'targa-subrect': 'F13 targa read_data/read_rle_data ignore top_left.y: a sub-rectangle that does not end at the last row returns the bottom dim.y rows (drafts/F13_targa_subrect_rows.patch)',
    'bmp-rle-subrect': 'F13 bmp read_palette_image_rle: row buffer sized dim.x but indexed from top_left.x, rows counted from dim.y, copy_row_if_needed tests y<dim.y: sub-rectangles of RLE4/RLE8 bitmaps are wrong, with heap overflows (drafts/F13_bmp_rle_subrect.patch)',
    'bmp-palette-convert': 'bmp read_and_convert_* of palette bitmaps (raw and RLE) assigns palette entries to the destination by channel position and never calls the colour converter (gray=red, 16-bit unscaled, alpha 0)',
    'bmp-top-down': 'F13c bmp: negative height sets _top_down but get_offset tests _height>0 after it was made positive: top-down bitmaps decode upside down (drafts/F13c_bmp_top_down_rows.patch)',
    'bmp-v4-palette': 'F13d bmp: colour table of V4/V5-header bitmaps read from offset 54 with 3-byte entries (drafts/F13d_bmp_v4_palette.patch)',
    'any-image-type-selection': 'any_image read: the format checker picks an alternative that reader::apply then rejects (Win32 palette BMP -> rgb8 instead of rgba8; ASCII PBM -> gray1 instead of gray8; palette/tRNS PNG samples)',
    'pnm-p4-bit-order': 'F13e pnm: P4 rows are nibble-swapped instead of bit-mirrored on read (drafts/F13e_pnm_gray1_bit_order_and_row_size.patch)',
    'pnm-p1-nospace': 'pnm: P1 raster without white space between samples (legal) is parsed as one number per row; most of the image is never written',
    'png-interlaced-read': 'png: Adam7 files are read with one row buffer for all rows across the passes: full image wrong, sub-rectangles differ from it',
    'tiff-read-and-convert': 'tiff read_and_convert_image/view: tiled files are reinterpreted with the destination pixel type, float samples are misread, partial converting reads overflow the row buffer',
    # C12
    'pnm-gray1': 'F13e pnm gray1: writer allocates width/8 (rounded down) bytes per row (null dereference / heap overflow for width%8!=0) and mirrors bits while the reader swaps nibbles (drafts/F13e_pnm_gray1_bit_order_and_row_size.patch)',
    'tiff-bgr8': 'tiff: bgr8 is reported supported; the reader copies RGB samples positionally into bgr8 pixels (r/b swapped); tiled interleaved bgr8 is written as BGR under PHOTOMETRIC_RGB',
    'tiff-rgba-premultiplied': 'tiff: rgba is written premultiplied (EXTRASAMPLE_ASSOCALPHA) and not un-premultiplied on read; in tiled files only complete interior tiles are premultiplied',
    'tiff-gray1-ccitt': 'tiff: 1-bit rows are handed to libtiff LSB-first (the "do optional bit swapping" TODO): with CCITT codecs only the first width bits in MSB order are coded, pixels are lost for width%8!=0',
}


def classify(prop, sig, cid):
    p = cid.split('/')
    if prop == 'C12':
        if p[0] == 'pnm': return 'pnm-gray1'
        if p[0] == 'tiff':
            if p[2] == 'bgr8': return 'tiff-bgr8'
            if p[2] in ('rgba8', 'rgba16'): return 'tiff-rgba-premultiplied'
            if p[2] == 'gray1' and 'ccitt' in p[1]: return 'tiff-gray1-ccitt'
        return None
    seed = p[0]
    if sig == 'any_image-read-throws': return 'any-image-type-selection'
    if seed.startswith('targa_'): return 'targa-subrect'
    if seed.startswith('png_adam7'): return 'png-interlaced-read'
    if seed.startswith('tiff_'): return 'tiff-read-and-convert'
    if seed.startswith('pnm_'):
        if 'nospace' in seed: return 'pnm-p1-nospace'
        if seed.startswith('pnm_p4') and sig == 'decode!=encoder': return 'pnm-p4-bit-order'
        return None
    if seed.startswith('bmp_') or (seed.startswith('sample:') and seed.endswith('.bmp')):
        if sig == 'decode!=encoder': return 'bmp-v4-palette' if '_v4' in seed else 'bmp-top-down'
        if sig.startswith('convert'): return 'bmp-palette-convert'
        if 'rle' in seed: return 'bmp-rle-subrect'
    return None


def slug(sig):
    return re.sub(r'[^A-Za-z0-9]+', '-', sig).strip('-')[:90]


def main(argv):
    prop = argv[1]
    ids = collections.defaultdict(set)
    unclassified = collections.Counter()
    for f in argv[2:]:
        for line in open(f):
            sig, cid = line.rstrip('\n').split('\t', 1)
            c = classify(prop, sig, cid)
            if c is None: unclassified[(sig, cid.split('/')[0])] += 1
            else: ids[(c, sig)].add(cid)
    outdir = os.path.join(VERIF, 'known_findings')
    os.makedirs(outdir, exist_ok=True)
    for (c, sig), s in sorted(ids.items()):
        name = '%s_%s__%s.ids' % (prop, c, slug(sig))
        with open(os.path.join(outdir, name), 'w') as fh:
            fh.write('\n'.join(sorted(s)) + '\n')
        print('known: property=%s sig=%s ids=@known_findings/%s -- %s [%d ids]' % (prop, sig, name, TEXT[c], len(s)))
    if unclassified:
        print('UNCLASSIFIED (would stay VIOLATIONs):')
        for k, v in sorted(unclassified.items()): print('  ', v, k)
    return 0


if __name__ == '__main__':
    sys.exit(main(sys.argv))
