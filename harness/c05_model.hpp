// c05_model.hpp — C05: pixel operations pair channels by colour, independent of memory layout.
//
// Part 1 of the C05 harness: the reference side.  Nothing in this file asks GIL where a colour
// lives: every layout descriptor hard-codes "colour name -> memory index" from the layout's *name*
// (bgr = B,G,R in memory, argb = A,R,G,B ...), the raw accessors of the slots read and write the
// bytes / bits of the pixel storage directly, and the model of a pixel is `int value[colour]`.
#pragma once
#include "vh.hpp"
#include "guard.hpp"
#include <boost/gil/pixel.hpp>
#include <boost/gil/packed_pixel.hpp>
#include <boost/gil/planar_pixel_reference.hpp>
#include <boost/gil/planar_pixel_iterator.hpp>
#include <boost/gil/bit_aligned_pixel_reference.hpp>
#include <boost/gil/color_base_algorithm.hpp>
#include <boost/gil/rgb.hpp>
#include <boost/gil/rgba.hpp>
#include <boost/gil/cmyk.hpp>
#include <boost/gil/gray.hpp>
#include <boost/gil/device_n.hpp>
#include <boost/gil/metafunctions.hpp>
#include <boost/mp11.hpp>
#include <memory>
#include <deque>
#include <unordered_map>
#include <utility>

namespace c05 {
namespace gil = boost::gil;
namespace mp = boost::mp11;

constexpr int MAXN = 5;

// ------------------------------------------------------------------------------------------------
// colour spaces: colour names in colour-space order, the tag type of each name
// ------------------------------------------------------------------------------------------------
struct CsRgb
{
    static constexpr int N = 3;
    using tags = mp::mp_list<gil::red_t, gil::green_t, gil::blue_t>;
    using gil_t = gil::rgb_t;
    static const char* name() { return "rgb"; }
    static const char* cname(int c) { static const char* n[] = {"R", "G", "B"}; return n[c]; }
};
struct CsRgba
{
    static constexpr int N = 4;
    using tags = mp::mp_list<gil::red_t, gil::green_t, gil::blue_t, gil::alpha_t>;
    using gil_t = gil::rgba_t;
    static const char* name() { return "rgba"; }
    static const char* cname(int c) { static const char* n[] = {"R", "G", "B", "A"}; return n[c]; }
};
struct CsCmyk
{
    static constexpr int N = 4;
    using tags = mp::mp_list<gil::cyan_t, gil::magenta_t, gil::yellow_t, gil::black_t>;
    using gil_t = gil::cmyk_t;
    static const char* name() { return "cmyk"; }
    static const char* cname(int c) { static const char* n[] = {"C", "M", "Y", "K"}; return n[c]; }
};
struct CsGray
{
    static constexpr int N = 1;
    using tags = mp::mp_list<gil::gray_color_t>;
    using gil_t = gil::gray_t;
    static const char* name() { return "gray"; }
    static const char* cname(int) { return "Gy"; }
};
struct CsDev5
{
    static constexpr int N = 5;
    using tags = mp::mp_list<gil::devicen_color_t<0>, gil::devicen_color_t<1>, gil::devicen_color_t<2>,
                             gil::devicen_color_t<3>, gil::devicen_color_t<4>>;
    using gil_t = gil::devicen_t<5>::type;
    static const char* name() { return "dev5"; }
    static const char* cname(int c) { static const char* n[] = {"d0", "d1", "d2", "d3", "d4"}; return n[c]; }
};

// ------------------------------------------------------------------------------------------------
// layouts: MemTab<m0,m1,..> lists, in colour-space order, the MEMORY index of each colour
// ------------------------------------------------------------------------------------------------
template <int... M> struct MemTab
{
    static constexpr int n = sizeof...(M);
    static constexpr int mem(int c) { constexpr int t[] = {M...}; return t[c]; }
    static constexpr int col_at(int k)
    {
        constexpr int t[] = {M...};
        for (int c = 0; c < n; ++c) if (t[c] == k) return c;
        return -1;
    }
};
// provided layouts (anchors: rgb.hpp rgba.hpp cmyk.hpp gray.hpp device_n.hpp)
struct LRgb  : MemTab<0, 1, 2>    { using cs = CsRgb;  using gil_t = gil::rgb_layout_t;  static const char* name() { return "rgb"; } };   // R G B
struct LBgr  : MemTab<2, 1, 0>    { using cs = CsRgb;  using gil_t = gil::bgr_layout_t;  static const char* name() { return "bgr"; } };   // B G R
struct LRgba : MemTab<0, 1, 2, 3> { using cs = CsRgba; using gil_t = gil::rgba_layout_t; static const char* name() { return "rgba"; } };  // R G B A
struct LBgra : MemTab<2, 1, 0, 3> { using cs = CsRgba; using gil_t = gil::bgra_layout_t; static const char* name() { return "bgra"; } };  // B G R A
struct LArgb : MemTab<1, 2, 3, 0> { using cs = CsRgba; using gil_t = gil::argb_layout_t; static const char* name() { return "argb"; } };  // A R G B
struct LAbgr : MemTab<3, 2, 1, 0> { using cs = CsRgba; using gil_t = gil::abgr_layout_t; static const char* name() { return "abgr"; } };  // A B G R
struct LCmyk : MemTab<0, 1, 2, 3> { using cs = CsCmyk; using gil_t = gil::cmyk_layout_t; static const char* name() { return "cmyk"; } };
struct LGray : MemTab<0>          { using cs = CsGray; using gil_t = gil::gray_layout_t; static const char* name() { return "gray"; } };
struct LDev5 : MemTab<0, 1, 2, 3, 4> { using cs = CsDev5; using gil_t = gil::devicen_layout_t<5>; static const char* name() { return "dev5"; } };
// plain layout<devicen5> (what planar_pixel_reference<.., devicen_t<5>::type> uses)
struct LDev5l : MemTab<0, 1, 2, 3, 4> { using cs = CsDev5; using gil_t = gil::layout<gil::devicen_t<5>::type>; static const char* name() { return "dev5l"; } };
// user-defined permuted layouts, built with gil::layout<ColorSpace, mp_list_c<int, physical index of each colour>>
// (documented convention of layout<>; non-involutive permutations on purpose)
struct LMykc : MemTab<3, 0, 1, 2> { using cs = CsCmyk; using gil_t = gil::layout<gil::cmyk_t, mp::mp_list_c<int, 3, 0, 1, 2>>; static const char* name() { return "mykc"; } };  // M Y K C
struct LDev5p : MemTab<1, 3, 4, 0, 2> { using cs = CsDev5; using gil_t = gil::layout<gil::devicen_t<5>::type, mp::mp_list_c<int, 1, 3, 4, 0, 2>>; static const char* name() { return "d30412"; } };  // d3 d0 d4 d1 d2

struct LayoutInfo
{
    int n = 0;
    int mem[MAXN] = {}, col_at[MAXN] = {};
    const char* cname[MAXN] = {};
    std::string name;
};
template <class L> inline LayoutInfo layout_info()
{
    LayoutInfo li; li.n = L::cs::N; li.name = L::name();
    for (int c = 0; c < li.n; ++c) { li.mem[c] = L::mem(c); li.col_at[c] = L::col_at(c); li.cname[c] = L::cs::cname(c); }
    return li;
}

// ------------------------------------------------------------------------------------------------
// channel identity and value, for lvalue channels and for GIL's packed channel proxies
// ------------------------------------------------------------------------------------------------
struct ChId
{
    const void* p; int bit;     // bit = -1: a byte-addressable channel object at p; else a bit field starting at bit `bit` of *p
    bool operator==(ChId const& o) const { return p == o.p && bit == o.bit; }
};
template <class T> inline ChId chan_id(T const& x) { return ChId{static_cast<const void*>(std::addressof(x)), -1}; }
template <class BF, int FB, int NB, bool M>
inline ChId chan_id(gil::packed_channel_reference<BF, FB, NB, M> const& r) { return ChId{static_cast<const void*>(r._data_ptr), FB}; }
template <class BF, int NB, bool M>
inline ChId chan_id(gil::packed_dynamic_channel_reference<BF, NB, M> const& r) { return ChId{static_cast<const void*>(r._data_ptr), int(r.first_bit())}; }

template <class T> inline int chan_val(T const& x) { return int(x); }

template <class Ch> struct ChInfo;
template <> struct ChInfo<uint8_t> { static constexpr int W = 8; static std::string name() { return "u8"; } };
template <> struct ChInfo<uint16_t> { static constexpr int W = 16; static std::string name() { return "u16"; } };
template <int B> struct ChInfo<gil::packed_channel_value<B>> { static constexpr int W = B; static std::string name() { return "pv" + std::to_string(B); } };

// ------------------------------------------------------------------------------------------------
// slots: a live pixel of one model + the storage behind it + raw (GIL-free) access by colour
// ------------------------------------------------------------------------------------------------
enum Kind { K_INTER, K_PLANAR, K_PACKED, K_BITAL };

// pixel<Ch,Layout>: variant 0 = a stand-alone value, 1 = pixel& to the middle element of an interleaved 3-pixel row
template <class Ch, class L> struct Inter
{
    using layout = L; using cs = typename L::cs; using channel = Ch;
    static constexpr int N = cs::N;
    static constexpr Kind kind = K_INTER;
    using pixel_t = gil::pixel<Ch, typename L::gil_t>;
    using cview_t = pixel_t const;
    static_assert(sizeof(pixel_t) == N * sizeof(Ch), "interleaved pixel has no padding");
    static constexpr bool homogeneous = true, is_value = true;
    static constexpr int NVAR = 2;
    static int width(int) { return ChInfo<Ch>::W; }
    static std::string tname() { return "pixel<" + ChInfo<Ch>::name() + "," + L::name() + ">"; }
    static const char* vname(int v) { return v ? "ref" : "val"; }

    int var; unsigned char bg;
    pixel_t standalone;
    std::unique_ptr<vh::GuardBuf> arr;
    pixel_t* p;

    Inter(int variant, unsigned char bg_) : var(variant), bg(bg_)
    {
        if (var == 0) p = &standalone;
        else { arr.reset(new vh::GuardBuf(3 * sizeof(pixel_t), bg)); p = reinterpret_cast<pixel_t*>(arr->data()) + 1; }
        wipe();
    }
    pixel_t& px() { return *p; }
    cview_t& cview() { return *p; }
    void wipe()
    {
        if (var == 0) std::memset(static_cast<void*>(p), bg, sizeof(pixel_t));
        else std::memset(arr->data(), bg, 3 * sizeof(pixel_t));
    }
    int raw_get(int c) const
    {
        unsigned v = 0;
        std::memcpy(&v, reinterpret_cast<const unsigned char*>(p) + L::mem(c) * sizeof(Ch), sizeof(Ch));
        return int(v);
    }
    void raw_set(int c, int v)
    {
        unsigned u = unsigned(v);
        std::memcpy(reinterpret_cast<unsigned char*>(p) + L::mem(c) * sizeof(Ch), &u, sizeof(Ch));
    }
    int colour_of(ChId id) const
    {
        if (id.bit != -1) return -1;
        std::ptrdiff_t d = static_cast<const unsigned char*>(id.p) - reinterpret_cast<const unsigned char*>(p);
        if (d < 0 || d >= std::ptrdiff_t(sizeof(pixel_t)) || d % sizeof(Ch)) return -1;
        return L::col_at(int(d / sizeof(Ch)));
    }
    bool intact()
    {
        if (var == 0) return true;
        const unsigned char* b = arr->data();
        for (size_t i = 0; i < sizeof(pixel_t); ++i)
            if (b[i] != bg || b[2 * sizeof(pixel_t) + i] != bg) return false;
        return arr->intact();
    }
};

// planar_pixel_reference<Ch&, ColorSpace> over N separate planes (3 samples each, the middle one is the pixel).
// variant 0: one guard buffer per plane; variant 1: one buffer, planes stored in reverse colour order.
template <class Ch, class L> struct Planar
{
    using layout = L; using cs = typename L::cs; using channel = Ch;
    static constexpr int N = cs::N;
    static constexpr Kind kind = K_PLANAR;
    using pixel_t = gil::planar_pixel_reference<Ch&, typename cs::gil_t>;
    using cview_t = gil::planar_pixel_reference<Ch const&, typename cs::gil_t>;
    static constexpr bool homogeneous = true, is_value = false;
    static constexpr int NVAR = 2;
    static int width(int) { return ChInfo<Ch>::W; }
    static std::string tname() { return "planar_ref<" + ChInfo<Ch>::name() + "," + cs::name() + ">"; }
    static const char* vname(int v) { return v ? "1buf-rev" : "Nbuf"; }

    int var; unsigned char bg;
    std::unique_ptr<vh::GuardBuf> bufs[MAXN];
    Ch* plane[MAXN];      // plane[c] points at the sample of colour c
    typename std::aligned_storage<sizeof(pixel_t), alignof(pixel_t)>::type stor, cstor;

    template <size_t... I> void bind(std::index_sequence<I...>)
    {
        new (&stor) pixel_t(*plane[I]...);
        new (&cstor) cview_t(*plane[I]...);
    }
    Planar(int variant, unsigned char bg_) : var(variant), bg(bg_)
    {
        if (var == 0)
            for (int c = 0; c < N; ++c) { bufs[c].reset(new vh::GuardBuf(3 * sizeof(Ch), bg)); plane[c] = reinterpret_cast<Ch*>(bufs[c]->data()) + 1; }
        else
        {
            bufs[0].reset(new vh::GuardBuf(3 * N * sizeof(Ch), bg));
            for (int c = 0; c < N; ++c) plane[c] = reinterpret_cast<Ch*>(bufs[0]->data()) + 3 * (N - 1 - c) + 1;
        }
        bind(std::make_index_sequence<N>());
    }
    pixel_t& px() { return *reinterpret_cast<pixel_t*>(&stor); }
    cview_t& cview() { return *reinterpret_cast<cview_t*>(&cstor); }
    void wipe()
    {
        if (var == 0) for (int c = 0; c < N; ++c) std::memset(bufs[c]->data(), bg, 3 * sizeof(Ch));
        else std::memset(bufs[0]->data(), bg, 3 * N * sizeof(Ch));
    }
    int raw_get(int c) const { unsigned v = 0; std::memcpy(&v, plane[c], sizeof(Ch)); return int(v); }
    void raw_set(int c, int v) { unsigned u = unsigned(v); std::memcpy(plane[c], &u, sizeof(Ch)); }
    int colour_of(ChId id) const
    {
        if (id.bit != -1) return -1;
        for (int c = 0; c < N; ++c) if (id.p == static_cast<const void*>(plane[c])) return c;
        return -1;
    }
    bool intact()
    {
        int nb = var == 0 ? N : 1;
        for (int c = 0; c < N; ++c)
        {
            const unsigned char* s = reinterpret_cast<const unsigned char*>(plane[c]);
            for (size_t i = 0; i < sizeof(Ch); ++i) if (*(s - sizeof(Ch) + i) != bg || *(s + sizeof(Ch) + i) != bg) return false;
        }
        for (int i = 0; i < nb; ++i) if (!bufs[i]->intact()) return false;
        return true;
    }
};

// widths are given per COLOUR (colour-space order); the memory-order list GIL wants is derived with the tables above
template <class L, class WC, class Seq> struct WM_impl;
template <class L, class WC, size_t... K> struct WM_impl<L, WC, std::index_sequence<K...>>
{
    using type = mp::mp_list<std::integral_constant<unsigned, mp::mp_at_c<WC, L::col_at(int(K))>::value>...>;
};
template <class L, class WC> using WidthsMem = typename WM_impl<L, WC, std::make_index_sequence<L::cs::N>>::type;

template <class WC> struct WInfo
{
    template <size_t... I> static int get(int c, std::index_sequence<I...>) { const int t[] = {int(mp::mp_at_c<WC, I>::value)...}; return t[c]; }
    static int width(int c) { return get(c, std::make_index_sequence<mp::mp_size<WC>::value>()); }
    static int total() { int s = 0; for (int c = 0; c < int(mp::mp_size<WC>::value); ++c) s += width(c); return s; }
    static std::string name() { std::string s; for (int c = 0; c < int(mp::mp_size<WC>::value); ++c) s += std::to_string(width(c)); return s; }
};

// shift (first bit) of colour c inside a packed / bit-aligned pixel: sum of the widths of the colours stored before it
template <class L, class WC> inline int shift_of(int c)
{
    int s = 0;
    for (int k = 0; k < L::mem(c); ++k) s += WInfo<WC>::width(L::col_at(k));
    return s;
}

// packed_pixel: variant 0 = stand-alone value, 1 = middle element of a 3-pixel row
template <class BF, class WC, class L> struct Packed
{
    using layout = L; using cs = typename L::cs; using widths = WC;
    static constexpr int N = cs::N;
    static constexpr Kind kind = K_PACKED;
    using pixel_t = typename gil::packed_pixel_type<BF, WidthsMem<L, WC>, typename L::gil_t>::type;
    using cview_t = pixel_t const;
    static_assert(sizeof(pixel_t) == sizeof(BF), "packed pixel is its bit field");
    static constexpr bool homogeneous = false, is_value = true;
    static constexpr int NVAR = 2;
    static int width(int c) { return WInfo<WC>::width(c); }
    static std::string tname() { return "packed<" + WInfo<WC>::name() + "," + L::name() + ">"; }
    static const char* vname(int v) { return v ? "ref" : "val"; }

    int var; unsigned char bg;
    pixel_t standalone;
    std::unique_ptr<vh::GuardBuf> arr;
    pixel_t* p;
    Packed(int variant, unsigned char bg_) : var(variant), bg(bg_)
    {
        if (var == 0) p = &standalone;
        else { arr.reset(new vh::GuardBuf(3 * sizeof(pixel_t), bg)); p = reinterpret_cast<pixel_t*>(arr->data()) + 1; }
        wipe();
    }
    pixel_t& px() { return *p; }
    cview_t& cview() { return *p; }
    void wipe()
    {
        if (var == 0) std::memset(static_cast<void*>(p), bg, sizeof(pixel_t));
        else std::memset(arr->data(), bg, 3 * sizeof(pixel_t));
    }
    int raw_get(int c) const
    {
        uint64_t bits = 0; std::memcpy(&bits, p, sizeof(BF));
        return int((bits >> shift_of<L, WC>(c)) & ((uint64_t(1) << width(c)) - 1));
    }
    void raw_set(int c, int v)
    {
        uint64_t bits = 0; std::memcpy(&bits, p, sizeof(BF));
        uint64_t m = ((uint64_t(1) << width(c)) - 1) << shift_of<L, WC>(c);
        bits = (bits & ~m) | ((uint64_t(v) << shift_of<L, WC>(c)) & m);
        std::memcpy(p, &bits, sizeof(BF));
    }
    int colour_of(ChId id) const
    {
        if (id.bit < 0) return -1;
        // a bit field named (byte pointer, first bit): normalise to the bit position inside this pixel
        std::ptrdiff_t pos = (static_cast<const unsigned char*>(id.p) - reinterpret_cast<const unsigned char*>(p)) * 8 + id.bit;
        for (int c = 0; c < N; ++c) if (shift_of<L, WC>(c) == pos) return c;
        return -1;
    }
    bool intact()
    {
        if (var == 0) return true;
        const unsigned char* b = arr->data();
        for (size_t i = 0; i < sizeof(pixel_t); ++i)
            if (b[i] != bg || b[2 * sizeof(pixel_t) + i] != bg) return false;
        return arr->intact();
    }
};

// bit_aligned_pixel_reference over an exactly-sized byte buffer; variant 0 = bit offset 0, 1 = bit offset 3.
// The stream is LSB-first: stream bit i is bit (i%8) of byte i/8.
template <class BF, class WC, class L> struct BitAl
{
    using layout = L; using cs = typename L::cs; using widths = WC;
    static constexpr int N = cs::N;
    static constexpr Kind kind = K_BITAL;
    using pixel_t = gil::bit_aligned_pixel_reference<BF, WidthsMem<L, WC>, typename L::gil_t, true>;
    using cview_t = gil::bit_aligned_pixel_reference<BF, WidthsMem<L, WC>, typename L::gil_t, false>;
    static constexpr bool homogeneous = false, is_value = false;
    static constexpr int NVAR = 2;
    static int width(int c) { return WInfo<WC>::width(c); }
    static std::string tname() { return "bit_aligned<" + WInfo<WC>::name() + "," + L::name() + ">"; }
    static const char* vname(int v) { return v ? "@3" : "@0"; }

    int var, off; unsigned char bg;
    std::unique_ptr<vh::GuardBuf> buf;
    typename std::aligned_storage<sizeof(pixel_t), alignof(pixel_t)>::type stor, cstor;
    BitAl(int variant, unsigned char bg_) : var(variant), off(variant ? 3 : 0), bg(bg_)
    {
        buf.reset(new vh::GuardBuf(size_t(off + WInfo<WC>::total() + 7) / 8, bg));
        new (&stor) pixel_t(buf->data(), off);
        new (&cstor) cview_t(static_cast<const unsigned char*>(buf->data()), off);
    }
    pixel_t& px() { return *reinterpret_cast<pixel_t*>(&stor); }
    cview_t& cview() { return *reinterpret_cast<cview_t*>(&cstor); }
    void wipe() { std::memset(buf->data(), bg, buf->size()); }
    int raw_get(int c) const
    {
        int s = off + shift_of<L, WC>(c), v = 0;
        const unsigned char* b = buf->data();
        for (int i = 0; i < width(c); ++i) v |= ((b[(s + i) / 8] >> ((s + i) % 8)) & 1) << i;
        return v;
    }
    void raw_set(int c, int v)
    {
        int s = off + shift_of<L, WC>(c);
        unsigned char* b = buf->data();
        for (int i = 0; i < width(c); ++i)
        {
            unsigned char m = (unsigned char)(1u << ((s + i) % 8));
            if ((v >> i) & 1) b[(s + i) / 8] |= m; else b[(s + i) / 8] &= (unsigned char)~m;
        }
    }
    int colour_of(ChId id) const
    {
        if (id.bit < 0) return -1;
        std::ptrdiff_t pos = (static_cast<const unsigned char*>(id.p) - buf->data()) * 8 + id.bit - off;
        for (int c = 0; c < N; ++c) if (shift_of<L, WC>(c) == pos) return c;
        return -1;
    }
    bool intact() { return buf->intact(); }
};

} // namespace c05
