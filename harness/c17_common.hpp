// c17_common.hpp — shared pieces of the C17 harness (samplers / resample / resize).
// Reference side only: the model of a source image is a plain array of long double channel
// values indexed in *view* coordinates; the raw buffer is written from that model by address
// arithmetic done here (interleaved / planar / flipped), never through GIL.
#pragma once
#include "vh.hpp"
#include "guard.hpp"
#include <boost/gil.hpp>
#include <boost/gil/extension/numeric/sampler.hpp>
#include <boost/gil/extension/numeric/resample.hpp>
#include <cmath>
#include <cfloat>
#include <memory>
#include <algorithm>

namespace c17 {
namespace gil = boost::gil;

// ------------------------------------------------------------------------------------------
// channel models
template <class C> struct Chan;
template <> struct Chan<uint8_t>
{
    static constexpr bool integral = true;
    static long double get(uint8_t v) { return v; }
    static uint8_t distinct(int k) { return uint8_t(5 + k * 2); }            // k in 0..96 -> 5..197
    static uint8_t constant(int c) { return uint8_t(c == 0 ? 201 : c == 1 ? 101 : 1); }
    static uint8_t sentinel(int c) { return uint8_t(238 - c); }
    static long double tol(long double) { return 0; }
};
template <> struct Chan<int16_t>
{
    static constexpr bool integral = true;
    static long double get(int16_t v) { return v; }
    static int16_t distinct(int k) { return int16_t(-300 + k * 6); }         // -300..276
    static int16_t constant(int c) { return int16_t(c == 0 ? -100 : c == 1 ? 77 : -1); }
    static int16_t sentinel(int c) { return int16_t(12345 + c); }
    static long double tol(long double) { return 0; }
};
template <> struct Chan<uint16_t>
{
    static constexpr bool integral = true;
    static long double get(uint16_t v) { return v; }
    static uint16_t distinct(int k) { return uint16_t(1000 + k * 600); }     // 1000..58600
    static uint16_t constant(int c) { return uint16_t(c == 0 ? 65535 : c == 1 ? 777 : 1); }
    static uint16_t sentinel(int c) { return uint16_t(60001 + c); }
    static long double tol(long double) { return 0; }
};
template <> struct Chan<gil::float32_t>
{
    static constexpr bool integral = false;
    static long double get(gil::float32_t v) { return (long double)float(v); }
    static gil::float32_t distinct(int k) { return gil::float32_t(0.125f + float(k) / 32.0f); }   // dyadic, 0.125..3.125
    static gil::float32_t constant(int c) { return gil::float32_t(c == 0 ? 0.3f : c == 1 ? 0.7f : 0.001f); }
    static gil::float32_t sentinel(int c) { return gil::float32_t(-7.5f - float(c)); }
    // float channels: the interpolation itself is carried out in floating point, so the hull is
    // widened by 4 ulp(float) of the larger magnitude (documented assumption of the check)
    static long double tol(long double mag) { return 4.0L * (long double)FLT_EPSILON * mag; }
};

// ------------------------------------------------------------------------------------------
// source model
enum Fill { DISTINCT = 0, CONSTANT = 1 };
inline const char* fill_name(int f) { return f == DISTINCT ? "distinct" : "const"; }
enum Variant { PLAIN = 0, FLIP_UD = 1 };   // FLIP_UD: same view type, origin = last buffer row, negative row step
inline const char* variant_name(int v) { return v == PLAIN ? "plain" : "flipUD"; }

// index of the "distinct" value of pixel (x,y), channel c: 29 is coprime to 97, so values are
// pairwise distinct for up to 97 (pixel,channel) slots per channel position
inline int distinct_k(int x, int y, int w, int c) { return ((y * w + x) * 29 + c * 11) % 97; }

// Interleaved pixel type P (gil::pixel<C, layout>) source on an exactly-sized guard buffer.
template <class P>
struct Source
{
    using C = typename gil::channel_type<P>::type;
    static constexpr int NC = gil::num_channels<P>::value;
    using view_t = typename gil::type_from_x_iterator<P const*>::view_t;   // const interleaved view
    int w, h, fill, variant;
    std::unique_ptr<vh::GuardBuf> buf;
    std::vector<C> model;           // view coordinates: model[(y*w+x)*NC + c]
    view_t view;

    Source(int w_, int h_, int fill_, int variant_) : w(w_), h(h_), fill(fill_), variant(variant_)
    {
        size_t rowbytes = size_t(w) * sizeof(P);
        buf.reset(new vh::GuardBuf(size_t(h) * rowbytes, 0));
        model.resize(size_t(w) * h * NC);
        for (int y = 0; y < h; ++y)
            for (int x = 0; x < w; ++x)
                for (int c = 0; c < NC; ++c)
                {
                    C v = fill == DISTINCT ? Chan<C>::distinct(distinct_k(x, y, w, c)) : Chan<C>::constant(c);
                    model[(size_t(y) * w + x) * NC + c] = v;
                    int by = variant == FLIP_UD ? h - 1 - y : y;      // buffer row holding view row y
                    std::memcpy(buf->data() + size_t(by) * rowbytes + size_t(x) * sizeof(P) + size_t(c) * sizeof(C), &v, sizeof(C));
                }
        if (variant == PLAIN)
            view = gil::interleaved_view(w, h, reinterpret_cast<P const*>(buf->data()), std::ptrdiff_t(rowbytes));
        else
            view = gil::interleaved_view(w, h, reinterpret_cast<P const*>(buf->data() + size_t(h - 1) * rowbytes), -std::ptrdiff_t(rowbytes));
    }
    C at(int x, int y, int c) const { return model[(size_t(y) * w + x) * NC + c]; }
};

template <class P> inline P sentinel_pixel()
{
    using C = typename gil::channel_type<P>::type;
    P p;
    for (int c = 0; c < gil::num_channels<P>::value; ++c) p[c] = Chan<C>::sentinel(c);
    return p;
}
template <class P> inline std::string pix_str(P const& p)
{
    using C = typename gil::channel_type<P>::type;
    vh::S s; s << "(";
    for (int c = 0; c < gil::num_channels<P>::value; ++c) { char b[40]; snprintf(b, sizeof b, "%s%.9Lg", c ? "," : "", Chan<C>::get(p[c])); s << b; }
    s << ")";
    return s;
}

template <class P> struct PixName;
template <> struct PixName<gil::gray8_pixel_t> { static const char* name() { return "gray8"; } };
template <> struct PixName<gil::rgb8_pixel_t> { static const char* name() { return "rgb8"; } };
template <> struct PixName<gil::gray32f_pixel_t> { static const char* name() { return "gray32f"; } };
template <> struct PixName<gil::rgb32f_pixel_t> { static const char* name() { return "rgb32f"; } };
template <> struct PixName<gil::gray16s_pixel_t> { static const char* name() { return "gray16s"; } };
template <> struct PixName<gil::rgba16_pixel_t> { static const char* name() { return "rgba16"; } };

template <class F> struct FName;
template <> struct FName<double> { static const char* name() { return "f64"; } };
template <> struct FName<float> { static const char* name() { return "f32"; } };

template <class F> inline std::string fstr(F v)
{
    char b[48]; snprintf(b, sizeof b, sizeof(F) == 8 ? "%.17g" : "%.9g", double(v)); return b;
}

// ------------------------------------------------------------------------------------------
// the 1-D coordinate set for a dimension of n pixels, grid denominator g (power of two), in F.
// Contains, for every integer i in [-2, n+1]: i, nextafter(i,+-inf), i+0.5 and its two
// neighbours, every multiple of 1/g in [i, i+1), and (extra != 0) the non-dyadic offsets
// 1/3, 2/3, 0.1, 0.9.  Everything is clipped to [-2, n+1] and deduplicated; (far != 0) adds the two
// far-away coordinates -2^40 and 2^40 (exactly representable, no overflow in the integer conversion).
template <class F>
inline std::vector<F> coord_set(int n, int g, int extra, int far = 0)
{
    std::vector<F> v;
    const F lo = F(-2), hi = F(n + 1);
    const F inf = std::numeric_limits<F>::infinity();
    auto add = [&](F x) { if (x >= lo && x <= hi) v.push_back(x); };
    for (int i = -2; i <= n + 1; ++i)
    {
        F fi = F(i);
        add(fi); add(std::nextafter(fi, inf)); add(std::nextafter(fi, -inf));
        F half = fi + F(0.5);
        add(half); add(std::nextafter(half, inf)); add(std::nextafter(half, -inf));
        for (int k = 1; k < g; ++k) add(fi + F(k) / F(g));
        if (extra)
        {
            add(fi + F(1) / F(3)); add(fi + F(2) / F(3)); add(fi + F(0.1)); add(fi + F(0.9));
        }
    }
    if (far) { v.push_back(F(-1099511627776.0)); v.push_back(F(1099511627776.0)); }
    std::sort(v.begin(), v.end());
    v.erase(std::unique(v.begin(), v.end()), v.end());
    return v;
}

} // namespace c17
