# registry fragment for C11 — fault enumeration over seed files (harness/c11_*.cpp, gen/seeds.py -> harness/io_seeds.hpp)
_C11_DEPS = ['harness/c11_faults.hpp', 'harness/c11_formats.hpp', 'harness/c13_common.hpp', 'harness/io_common.hpp', 'harness/io_seeds.hpp']
def _c11_runs(bounds, shards, groups=('single',), fmts=('bmp', 'pnm', 'targa')):
    return [dict(tu='c11_' + f, group=g, bounds=dict(bounds), shards=shards) for f in fmts for g in groups]

CHECKS['C11'] = dict(
    level='fault_enumeration',
    technique='exhaustive fault enumeration (every truncation, every header-field boundary value, every data byte x values, pairs of field deviations) around independently encoded seed files, each execution of the real readers in an isolated worker with ASan/UBSan, watchdog and a dual-fill differential for uninitialised data',
    rule='case = (seed file variant, deviation, device, entry point). Seeds: 149 tiny valid BMP/PNM/TARGA files of every variant the decoders distinguish, written by independent encoders '
         '(gen/seeds.py) with header field tables and byte regions, plus 13 PNG/JPEG/TIFF files written by GIL at run time (GIL-written JPEG seeds are cut at the true end of the stream; one carries 12 fixed trailing bytes). Deviations (bound 1): every truncation length; every header field x boundary values of its width '
         '{0,1,2,v-1,v+1,0x7F,0x80,0xFF,0x7FFF,0x8000,0xFFFF,0x7FFFFFFF,0x80000000,0xFFFFFFFF} (ascii fields: 16 tokens); every byte of palette/pixel/RLE regions x 8 values '
         '(thorough: all 256); bound 2 (thorough): all pairs of header-field deviations. Entry points: read_image_info, read_image<rgb8|rgba8|gray8>, read_view, read_and_convert_image, '
         'read_and_convert_view, scanline reader; devices: FILE* (fmemopen), std::istream, file name (truncations). Each case is executed twice (stack painted / destination pre-filled with '
         '0x5A vs 0xC3). Allowed outcomes: normal return, C++ exception. Violations: sanitizer report, fatal signal, timeout, differing results between the two fills, silent-accept '
         '(normal return although the encoder\'s layout arithmetic proves the file cannot contain what its header declares). non-trivial = every case except the unmodified seed.',
    assumptions=ASSUME_COMMON + ['operator new above 256 MB throws std::bad_alloc (an absurd declared size must be an exception, not an OOM kill)',
                                 'PNG/JPEG/TIFF: libpng/libjpeg/libtiff are uninstrumented shared libraries — inside them only what ASan\'s interceptors see is visible; the GIL-side glue is fully instrumented. Their seeds are written by GIL\'s own writers at run time (13 files), deviations = every truncation + every byte x {bit 0 flipped, bit 7 flipped, 0x00, 0xFF}; no silent-accept oracle there (no field table)',
                                 'termination is decided by a wall-clock watchdog per case: 4 s for an input of at most a few hundred bytes; a case that exceeds it is run again, first in a fresh worker, with a 60 s limit and is reported as a hang only if that expires too (counters watchdog_expiries_rechecked / watchdog_expiry_not_confirmed_with_15x_limit; after three confirmed hangs in one unit further expiries are reported without the second run); scanline iteration is cut after 70 000 rows'],
    tus=[dict(name='c11_' + f, src='harness/c11_%s.cpp' % f, deps=_C11_DEPS) for f in ('bmp', 'pnm', 'targa')] +
        [dict(name='c11_libfmt', src='harness/c11_libfmt.cpp', deps=_C11_DEPS, libs=['-lpng', '-lz', '-ljpeg', '-ltiffxx', '-ltiff'])],
    runs=dict(quick=_c11_runs(dict(small_only=1, devmask=6), 8) +
                    [dict(tu='c11_libfmt', group='png', bounds=dict(devmask=6), shards=5), dict(tu='c11_libfmt', group='jpeg', bounds=dict(devmask=6), shards=4),
                     dict(tu='c11_libfmt', group='tiff', bounds=dict(devmask=6), shards=4)],
              thorough=_c11_runs(dict(small_only=0, devmask=7, all256=0), 16) +                 # every seed, three devices
                       _c11_runs(dict(small_only=1, devmask=2, all256=1), 16) +                 # smallest seeds: all 256 values of every data byte
                       _c11_runs(dict(small_only=1, devmask=2, pairstride=1), 16, groups=('pairs',)) +
                       [dict(tu='c11_libfmt', group='png', bounds=dict(devmask=7, name_all=1), shards=5), dict(tu='c11_libfmt', group='jpeg', bounds=dict(devmask=7, name_all=1), shards=4),
                        dict(tu='c11_libfmt', group='tiff', bounds=dict(devmask=7, name_all=1), shards=4)]),
    witnesses_required=dict(all=['undersized_view_with_region_settings', 'jpeg_four_component_seed', 'jpeg_seed_with_trailing_bytes', 'truncations', 'field_deviations', 'byte_deviations', 'rejected_with_exception', 'returned_normally']),
    deadline=dict(quick=1200, thorough=7200),
)
