// c19_model.hpp — reference model and helpers for the C19 histogram checks.
// The model is a std::map<array<long,D>, double> filled by the definition in the property
// statement: a pixel is counted when it passes the mask and the optional limits; its bin key is
// (selected channel / bin width) per axis.  Nothing here calls GIL to decide a count.
#pragma once
#include "vh.hpp"
#include "guard.hpp"
#include <boost/gil.hpp>
#include <boost/gil/histogram.hpp>
#include <boost/gil/extension/histogram/std.hpp>
#include <boost/mp11.hpp>
#include <array>
#include <map>
#include <vector>
#include <limits>
#include <cmath>

namespace c19 {
namespace gil = boost::gil;
namespace mp = boost::mp11;

template <size_t D> using Key = std::array<long, D>;
template <size_t D> using Model = std::map<Key<D>, double>;

template <size_t D> std::string kstr(Key<D> const& k)
{
    std::string s = "(";
    for (size_t i = 0; i < D; ++i) { if (i) s += ","; s += std::to_string(k[i]); }
    return s + ")";
}

template <class Tuple, size_t... I>
Key<sizeof...(I)> key_of_impl(Tuple const& t, mp::index_sequence<I...>) { return {{static_cast<long>(std::get<I>(t))...}}; }
template <class Tuple> Key<std::tuple_size<Tuple>::value> key_of(Tuple const& t)
{
    return key_of_impl(t, mp::make_index_sequence<std::tuple_size<Tuple>::value>{});
}
template <class Tuple, size_t D, size_t... I>
Tuple tuple_of_impl(Key<D> const& k, mp::index_sequence<I...>)
{
    return Tuple(static_cast<typename std::tuple_element<I, Tuple>::type>(k[I])...);
}
template <class Tuple> Tuple tuple_of(Key<std::tuple_size<Tuple>::value> const& k)
{
    return tuple_of_impl<Tuple>(k, mp::make_index_sequence<std::tuple_size<Tuple>::value>{});
}

// all bins of a GIL histogram, as they are (zero bins kept)
template <class Hist> Model<Hist::dimension()> bins_of(Hist const& h)
{
    Model<Hist::dimension()> m;
    for (auto const& kv : h) m[key_of(kv.first)] = kv.second;
    return m;
}
template <size_t D> Model<D> nonzero(Model<D> const& m)
{
    Model<D> r;
    for (auto const& kv : m) if (kv.second != 0) r[kv.first] = kv.second;
    return r;
}
template <size_t D> double total(Model<D> const& m) { double s = 0; for (auto const& kv : m) s += kv.second; return s; }
template <size_t D> uint64_t mhash(Model<D> const& m)
{
    uint64_t h = 0x1234567 + D;
    for (auto const& kv : m) { for (long v : kv.first) h = vh::mix(h, uint64_t(v)); h = vh::mix(h, uint64_t(kv.second * 4096)); }
    return h;
}
// first difference between two count maps where an absent bin counts as 0 ("" = equal)
template <size_t D> std::string diff_counts(Model<D> const& got, Model<D> const& want)
{
    for (auto const& kv : want)
    {
        auto it = got.find(kv.first);
        double g = it == got.end() ? 0 : it->second;
        if (g != kv.second) return "bin " + kstr(kv.first) + " has " + std::to_string(g) + ", model " + std::to_string(kv.second);
    }
    for (auto const& kv : got)
        if (!want.count(kv.first) && kv.second != 0) return "bin " + kstr(kv.first) + " has " + std::to_string(kv.second) + ", model 0";
    return "";
}

inline long div_floor(long v, long b) { long q = v / b; if ((v % b != 0) && ((v < 0) != (b < 0))) --q; return q; }
inline long div_trunc(long v, long b) { return v / b; }

// ---- per-channel alphabets (first 4 = DESIGN.md alphabets; 5th/6th = range end points) --------
template <class C> struct Alpha;
template <> struct Alpha<uint8_t>  { static long v(int i) { static const long a[] = {0, 1, 2, 5, 255, 7}; return a[i]; } static const char* n() { return "8"; } };
template <> struct Alpha<int8_t>   { static long v(int i) { static const long a[] = {-2, -1, 0, 1, -128, 127}; return a[i]; } static const char* n() { return "8s"; } };
template <> struct Alpha<uint16_t> { static long v(int i) { static const long a[] = {0, 1, 300, 65535, 2, 256}; return a[i]; } static const char* n() { return "16"; } };
template <> struct Alpha<int16_t>  { static long v(int i) { static const long a[] = {-2, -1, 0, 1, -32768, 32767}; return a[i]; } static const char* n() { return "16s"; } };

template <int N> struct LayoutOf;
template <> struct LayoutOf<1> { using type = gil::gray_layout_t; };
template <> struct LayoutOf<2> { using type = gil::devicen_layout_t<2>; };
template <> struct LayoutOf<3> { using type = gil::rgb_layout_t; };
template <> struct LayoutOf<4> { using type = gil::rgba_layout_t; };

// pixel alphabet: the idx-th pixel value of an A-letter per-channel alphabet; idx -> (idx*91) mod A^nch
// is a permutation for A in {4,5,6} (91 = 7*13 is coprime with 2, 3, 5), so PX = A^nch is the full product,
// and the first values have pairwise different channels: 3ch/A=4: (0,0,0) (5,2,1) (2,1,5) (1,0,1) ...
inline void pixel_value(int idx, int A, int nch, long (*alpha)(int), long* out)
{
    long space = 1; for (int i = 0; i < nch; ++i) space *= A;
    long j = (long(idx) * 91) % space;
    for (int c = 0; c < nch; ++c) { out[c] = alpha(int(j % A)); j /= A; }
}

struct Shape { int w, h; };
inline std::vector<Shape> shapes(long maxpix)
{
    std::vector<Shape> all = {{0, 0}, {1, 1}, {2, 1}, {1, 2}, {3, 1}, {1, 3}, {2, 2}, {3, 2}, {2, 3}};
    std::vector<Shape> r;
    for (auto s : all) if (long(s.w) * s.h <= maxpix) r.push_back(s);
    return r;
}

// ---- derived-operation oracles (cumulative / sub_histogram / normalize) on a GIL histogram ------
template <size_t... I> struct Axes { static std::string name() { std::string s; int d[] = {int(I)...}; for (size_t i = 0; i < sizeof...(I); ++i) { if (i) s += ","; s += std::to_string(d[i]); } return s; } };

struct Derived
{
    vh::Ctx& ctx;
    std::map<std::string, long>& caps;      // failures per signature in the current unit: at most 64 are printed
    void bad(std::string const& id, const char* sig, std::string const& d)
    {
        long n = ++caps[sig];
        if (n <= 64) ctx.fail(id, sig, d); else ++ctx.counters[std::string("failures_not_printed:") + sig];
    }

    template <class Hist> void cumulative(std::string const& id, Hist const& h)
    {
        constexpr size_t D = Hist::dimension();
        if (h.empty()) return;
        auto in = bins_of(h);
        auto c = gil::cumulative_histogram(h);
        auto cm = bins_of(c);
        ++ctx.counters["cumulative_calls"];
        if (D > 1) ++ctx.witness["cumulative_nd"]; else ++ctx.witness["cumulative_1d"];
        for (auto const& kv : in) if (kv.second != double(long(kv.second))) { ++ctx.witness[D > 1 ? "cumulative_nd_non_integral_bin" : "cumulative_1d_non_integral_bin"]; break; }
        // monotone along every axis: two bins whose keys differ in exactly one coordinate
        for (auto a = cm.begin(); a != cm.end(); ++a)
            for (auto b = cm.begin(); b != cm.end(); ++b)
            {
                size_t ndiff = 0, ax = 0;
                for (size_t i = 0; i < D; ++i) if (a->first[i] != b->first[i]) { ++ndiff; ax = i; }
                if (ndiff != 1 || !(a->first[ax] < b->first[ax])) continue;
                ++ctx.counters["cumulative_monotone_pairs"];
                if (a->second > b->second)
                    bad(id + "/cum", "cumulative-not-monotone", "bin " + kstr(a->first) + "=" + std::to_string(a->second) + " > bin " + kstr(b->first) + "=" + std::to_string(b->second));
            }
        // last bin (the bin whose key dominates every key, when there is one) equals the total
        Key<D> mx = cm.begin()->first;
        for (auto const& kv : cm) for (size_t i = 0; i < D; ++i) mx[i] = std::max(mx[i], kv.first[i]);
        auto it = cm.find(mx);
        if (it != cm.end())
        {
            ++ctx.counters["cumulative_last_checked"];
            if (it->second != total(in))
                bad(id + "/cum", "cumulative-last-not-total", "last bin " + kstr(mx) + "=" + std::to_string(it->second) + " total=" + std::to_string(total(in)));
        }
        if (bins_of(h) != in) bad(id + "/cum", "cumulative-modified-input", "");
    }

    template <class Hist> void normalize(std::string const& id, Hist const& h)
    {
        auto in = bins_of(h);
        if (!(total(in) > 0)) return;
        Hist n = h;
        n.normalize();
        double s = 0; for (auto const& kv : n) s += kv.second;
        ++ctx.counters["normalize_calls"];
        if (!(std::fabs(s - 1.0) <= 1e-12)) bad(id + "/norm", "normalize-sum-not-1", "sum=" + std::to_string(s));
    }

    // marginalisation over the axes I...
    template <size_t... I, class Hist> void sub_axes(std::string const& id, Hist& h)
    {
        constexpr size_t D = Hist::dimension(); constexpr size_t E = sizeof...(I);
        auto in = bins_of(h);
        auto s = h.template sub_histogram<I...>();
        auto sm = bins_of(s);
        ++ctx.witness["sub_axes"];
        std::string sid = id + "/sub<" + Axes<I...>::name() + ">";
        if (total(sm) != total(in)) bad(sid, "sub-axes-mass", "sub total=" + std::to_string(total(sm)) + " total=" + std::to_string(total(in)));
        Model<E> want; const size_t ax[] = {I...};
        for (auto const& kv : in) { Key<E> k; for (size_t i = 0; i < E; ++i) k[i] = kv.first[ax[i]]; want[k] += kv.second; }
        if (want.size() < in.size()) ++ctx.witness["sub_axes_merged_bins"];
        std::string d = diff_counts(sm, want);
        if (!d.empty()) bad(sid, "sub-axes-marginal", d);
    }

    // key range [lo,hi] on the axes I... (other coordinates of lo/hi are dummies); "in range" = every
    // selected coordinate lies in its [lo,hi] (doc/histogram/subhistogram.rst: red in 10-20 AND blue in 2-10)
    template <size_t... I, class Hist> void sub_range(std::string const& id, Hist& h, Key<Hist::dimension()> lo, Key<Hist::dimension()> hi)
    {
        constexpr size_t D = Hist::dimension(); constexpr size_t E = sizeof...(I);
        using key_t = typename Hist::key_type;
        auto in = bins_of(h);
        auto s = h.template sub_histogram<I...>(tuple_of<key_t>(lo), tuple_of<key_t>(hi));
        auto sm = bins_of(s);
        const size_t ax[] = {I...};
        Model<D> want;
        for (auto const& kv : in)
        {
            bool ok = true;
            for (size_t i = 0; i < E; ++i) ok = ok && lo[ax[i]] <= kv.first[ax[i]] && kv.first[ax[i]] <= hi[ax[i]];
            if (ok) want[kv.first] = kv.second;
        }
        ++ctx.witness["sub_range"];
        if (want.size() < in.size()) ++ctx.witness["sub_range_dropped"];
        if (!want.empty()) ++ctx.witness["sub_range_kept"];
        if (sm != want)
        {
            std::string d = "range " + kstr(lo) + ".." + kstr(hi) + " on axes " + Axes<I...>::name() + ": ";
            for (auto const& kv : sm) if (!want.count(kv.first)) { d += "kept out-of-range bin " + kstr(kv.first); break; }
            for (auto const& kv : want) if (!sm.count(kv.first)) { d += " dropped in-range bin " + kstr(kv.first); break; }
            for (auto const& kv : want) if (sm.count(kv.first) && sm[kv.first] != kv.second) { d += " changed bin " + kstr(kv.first); break; }
            bad(id + "/sub<" + Axes<I...>::name() + ">[" + kstr(lo) + ".." + kstr(hi) + "]",
                E > 1 ? "sub-range-bins:multi-axis" : "sub-range-bins", d);
        }
    }
};

// per-dimension families of axis subsets / ranges
template <size_t D> struct SubOps { template <class Hist> static void run(Derived&, std::string const&, Hist&) {} };
inline std::vector<std::pair<long, long>> const& ranges1()
{
    static const std::vector<std::pair<long, long>> r = {{0, 1}, {1, 2}, {0, 5}, {2, 0}, {1, 1}, {-1, 0}};
    return r;
}
template <> struct SubOps<2>
{
    template <class Hist> static void run(Derived& d, std::string const& id, Hist& h)
    {
        d.sub_axes<0>(id, h); d.sub_axes<1>(id, h);
        for (auto r : ranges1())
        {
            d.sub_range<0>(id, h, Key<2>{{r.first, 9}}, Key<2>{{r.second, -9}});
            d.sub_range<1>(id, h, Key<2>{{9, r.first}}, Key<2>{{-9, r.second}});
        }
    }
};
template <> struct SubOps<3>
{
    template <class Hist> static void run(Derived& d, std::string const& id, Hist& h)
    {
        d.sub_axes<0>(id, h); d.sub_axes<2>(id, h); d.sub_axes<0, 1>(id, h); d.sub_axes<2, 0>(id, h); d.sub_axes<1, 2>(id, h);
        for (auto r : ranges1())
        {
            d.sub_range<0>(id, h, Key<3>{{r.first, 9, 9}}, Key<3>{{r.second, -9, -9}});
            d.sub_range<2>(id, h, Key<3>{{9, 9, r.first}}, Key<3>{{-9, -9, r.second}});
            for (auto q : ranges1())
            {
                d.sub_range<0, 2>(id, h, Key<3>{{r.first, 0, q.first}}, Key<3>{{r.second, 0, q.second}});
                d.sub_range<1, 0>(id, h, Key<3>{{q.first, r.first, 0}}, Key<3>{{q.second, r.second, 0}});
            }
        }
    }
};
template <> struct SubOps<4>
{
    template <class Hist> static void run(Derived& d, std::string const& id, Hist& h)
    {
        d.sub_axes<3>(id, h); d.sub_axes<1, 2>(id, h); d.sub_axes<0, 1, 2>(id, h); d.sub_axes<3, 1>(id, h);
        for (auto r : ranges1())
        {
            d.sub_range<1>(id, h, Key<4>{{9, r.first, 9, 9}}, Key<4>{{-9, r.second, -9, -9}});
            for (auto q : ranges1())
                d.sub_range<0, 3>(id, h, Key<4>{{r.first, 0, 0, q.first}}, Key<4>{{r.second, 0, 0, q.second}});
            d.sub_range<0, 1, 2>(id, h, Key<4>{{r.first, r.first, r.first, 0}}, Key<4>{{r.second, r.second, r.second, 0}});
        }
    }
};

template <class Hist> void derived_all(vh::Ctx& ctx, std::map<std::string, long>& caps, std::string const& id, Hist& h)
{
    Derived d{ctx, caps};
    d.cumulative(id, h);
    d.normalize(id, h);
    SubOps<Hist::dimension()>::run(d, id, h);
}

} // namespace c19
