// development test of run_unit's watchdog confirmation (not a registered check)
#include "../../harness/io_common.hpp"
#include <unistd.h>
#include <sys/time.h>
static void arm(ioc::Emit& e, int base) { itimerval it{}; it.it_value.tv_sec = e.case_limit(base); setitimer(ITIMER_REAL, &it, nullptr); }
VH_GROUP(wd)
{
    ioc::run_unit(ctx, "u", [&](ioc::Emit& e) {
        for (int i = 0; i < 9; ++i)
        {
            if (!e.begin("case" + std::to_string(i))) continue;
            arm(e, 1);
            if (i == 2 && e.confirm_idx != 2) sleep(3);          // slow once: as if the machine had been overloaded
            if (i >= 4) for (volatile long k = 0;; ++k) {}         // genuine hang
            e.end();
        }
    });
}
VH_MAIN
