# registry fragment for C07 (exec'd by tools/checks.py with CHECKS, ASSUME_COMMON, NOT_APPLICABLE in scope)
CHECKS['C07'] = dict(
    level='exploration',
    technique='exhaustive finite-domain enumeration of the real channel_multiply / channel_invert against exact '
              '__int128 / long double arithmetic; every clause of the statement evaluated on every enumerated case',
    rule='multiply: every ordered pair (a,b) of uint8, int8, packed_channel_value<1..12> and of 9 packed channel '
         'reference models; uint16/int16/packed13..16: quick = every a x a fixed stratum of 60-115 b (corners, 2^k and '
         'neighbours, thirds, 8-bit replicas) + (a,a) + (a,max-a), thorough = all pairs (2^32 each for the 16-bit models); '
         'uint32/int32: the complete stratum32 of a (135 450 values) x the b stratum (thorough: b stratum extended by k*(max/1021)+-1, ~3100 values); float32: all ordered pairs of the '
         'grid k/G (G=32 quick, 4096 thorough, each grid point with its +-1 ulp neighbours) plus the nextafter neighbours of 0 and 1. '
         'invert: every x of every model <=16 bit and packed1..16 and 9 reference models; uint32/int32/float32 complete '
         'strata (quick) or every bit pattern / every float pattern in [0,1] (thorough). '
         'Case = (model, a, b) or (model, x); distinct by construction (loop indices, diagonals de-duplicated against the '
         'stratum); non-trivial = no operand is the channel min or max.',
    assumptions=ASSUME_COMMON + [
        'signed channels: operands and result are compared as value - min ("after the documented shift to the unsigned range")',
        'float multiply "within float rounding": |r - a*b| <= 2^-23 * a*b + denorm_min against the exact long double product',
        'float invert: "exactly" and the exact involution are demanded where 1-x is representable in float32 (x a multiple '
        'of 2^-24); for the other inputs no float can equal 1-x, there the result must be the float nearest to 1-x and the '
        'involution must hold within 2^-25',
        'a shard unit stops after 64 failures (ids stay deterministic because units are deterministic)',
    ],
    tus=[dict(name='c07_mulinv', src='harness/c07_mulinv.cpp', deps=['harness/chan_models.hpp'], san=False, opt=2)],
    runs=dict(
        quick=[dict(tu='c07_mulinv', group='mul8', shards=4),
               dict(tu='c07_mulinv', group='mulp12', shards=4),
               dict(tu='c07_mulinv', group='mul16', bounds=dict(full=0), shards=4),
               dict(tu='c07_mulinv', group='mulp16', bounds=dict(full=0), shards=4),
               dict(tu='c07_mulinv', group='mul32', shards=6),
               dict(tu='c07_mulinv', group='mulrefs', shards=2),
               dict(tu='c07_mulinv', group='mulf', bounds=dict(G=32, nb=1), shards=1),
               dict(tu='c07_mulinv', group='inv', shards=2),
               dict(tu='c07_mulinv', group='invscoped', shards=1),
               dict(tu='c07_mulinv', group='invwide', bounds=dict(full32=0), shards=2),
               dict(tu='c07_mulinv', group='invrefs', shards=1)],
        thorough=[dict(tu='c07_mulinv', group='mul8', shards=4),
                  dict(tu='c07_mulinv', group='mulp12', shards=4),
                  dict(tu='c07_mulinv', group='mul16', bounds=dict(full=1), shards=48),
                  dict(tu='c07_mulinv', group='mulp16', bounds=dict(full=1), shards=48),
                  dict(tu='c07_mulinv', group='mul32', bounds=dict(bx=1), shards=24),
                  dict(tu='c07_mulinv', group='mulrefs', shards=2),
                  dict(tu='c07_mulinv', group='mulf', bounds=dict(G=4096, nb=1), shards=12),
                  dict(tu='c07_mulinv', group='inv', shards=2),
                  dict(tu='c07_mulinv', group='invscoped', shards=1),
                  dict(tu='c07_mulinv', group='invwide', bounds=dict(full32=1), shards=24),
                  dict(tu='c07_mulinv', group='invrefs', shards=1)]),
    witnesses_required=dict(all=['inv_scoped_nonzero_min_models', 'models_all_pairs', 'models_stratified', 'models_signed', 'results_rounded_up',
                                 'ref_models', 'float_rows', 'inv_models', 'inv_signed_models', 'inv_packed_models',
                                 'inv_float_models', 'inv_float_exact_inputs', 'inv_ref_models']),
    deadline=dict(quick=600, thorough=5400),
)
