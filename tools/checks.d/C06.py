# registry fragment for C06 (exec'd by tools/checks.py with CHECKS, ASSUME_COMMON, NOT_APPLICABLE in scope)
CHECKS['C06'] = dict(
    level='exploration',
    technique='exhaustive finite-domain enumeration of the real channel_convert against an exact-arithmetic reference model',
    rule='every ordered pair of 23 channel value models (u8,s8,u16,s16,u32,s32,float32,packed1..16) x every source '
         'value: complete for sources <=16 bit and all packed widths; 32-bit/float sources: a complete fixed stratum '
         '(quick) or every bit pattern (thorough). Case = (src model, dst model, value); distinct by construction '
         '(the loop index is the value); non-trivial = value is not an end point of the source range. '
         'Plus 9 packed channel reference models x 4 backgrounds x every value x 10 destinations.',
    assumptions=ASSUME_COMMON + ['tolerance for pairs involving float32: one unit + 2^-22 of the destination range '
                                 '(float dst: 4 ulp of 1.0); integral pairs incl. 32-bit: strictly < 1 unit in exact integers'],
    tus=[dict(name='c06_convert', src='harness/c06_convert.cpp', deps=['harness/chan_models.hpp'], san=False, opt=2)],
    runs=dict(
        quick=[dict(tu='c06_convert', group='narrow', shards=8),
               dict(tu='c06_convert', group='wide', bounds=dict(full32=0), shards=6),
               dict(tu='c06_convert', group='refs', shards=2)],
        thorough=[dict(tu='c06_convert', group='narrow', shards=4),
                  dict(tu='c06_convert', group='wide', bounds=dict(full32=1), shards=64),
                  dict(tu='c06_convert', group='refs', shards=1)]),
    witnesses_required=dict(all=['ref_models_64bit_field', 'pairs', 'signed_pairs', 'float_pairs', 'nondivisible_widening_pairs', 'ref_models']),
    deadline=dict(quick=600, thorough=5400),
)
