// C04 — TU: gray8 / rgb16 / rgba8 (pixel sizes 1, 6, 4 in the memmove / memcmp length computations) and copies
// between different pixel types: rgb8 <-> bgr8 (compatible, different layout: a byte copy would be wrong) and
// converting copies between 8-bit, 16-bit and float pixels / gray and rgb.
#include "c04_common.hpp"
using namespace c04;

using PF  = FamP<gil::float32_t>;
using IF  = FamI<gil::rgb32f_pixel_t>;
using G8  = FamI<gil::gray8_pixel_t>;
using I16 = FamI<gil::rgb16_pixel_t>;
using P16 = FamP<uint16_t>;
using A8  = FamI<gil::rgba8_pixel_t>;
using I8  = FamI<gil::rgb8_pixel_t>;
using BGR8 = FamI<gil::bgr8_pixel_t>;
using P8  = FamP<uint8_t>;

#define C04_BOUNDS vh::ubsan_counts() = false; int N = int(ctx.B("N", 4)), X0 = int(ctx.B("X0", 3));

// other pixel sizes through the raw-pointer / planar fast paths
VH_GROUP(sizes)
{
    C04_BOUNDS
    PairRunner<G8, G8, G8>::run(ctx, N, X0);
    PairRunner<I16, I16, P16>::run(ctx, N, X0);
    PairRunner<I16, P16, I16, false>::run(ctx, N, X0);
    PairRunner<P16, P16, I16, false>::run(ctx, N, X0);
    PairRunner<A8, A8, A8>::run(ctx, N, X0);
    run_dst<G8>(ctx, N, X0);
    run_dst<I16>(ctx, N, X0);
    run_dst<P16>(ctx, N, X0);
    run_dst<A8>(ctx, N, X0);
    EqualRunner<G8, G8>::run(ctx, N, X0);
    EqualRunner<I16, I16>::run(ctx, N, X0);
    EqualRunner<P16, P16>::run(ctx, N, X0);
    EqualRunner<I16, P16>::run(ctx, N, X0);
    EqualRunner<A8, A8>::run(ctx, N, X0);
}
// copy_and_convert_pixels between incompatible views (colour space and/or channel type differ), and the
// compatible-but-different-layout pair rgb8 <-> bgr8
VH_GROUP(convert)
{
    C04_BOUNDS
    PairRunner<I8, BGR8, I8, false>::run(ctx, N, X0);
    PairRunner<BGR8, P8, I8, false>::run(ctx, N, X0);
    PairRunner<I8, G8, I8, false>::run(ctx, N, X0);
    PairRunner<G8, P8, I8, false>::run(ctx, N, X0);
    PairRunner<I8, I16, I8, false>::run(ctx, N, X0);
    PairRunner<P16, I8, I8, false>::run(ctx, N, X0);
    PairRunner<I8, PF, I8, false>::run(ctx, N, X0);
    PairRunner<IF, I8, I8, false>::run(ctx, N, X0);
    EqualRunner<I8, BGR8>::run(ctx, N, X0);
    EqualRunner<BGR8, P8>::run(ctx, N, X0);
}
VH_MAIN
