# registry fragment for C15 (exec'd by tools/checks.py with CHECKS, ASSUME_COMMON, NOT_APPLICABLE in scope)
_c15_1d = ['harness/c15_common.hpp', 'harness/c15_conv1d.hpp']
_c15_opts = ['output_ignore', 'output_zero', 'extend_padded', 'extend_zero', 'extend_constant']
_c15_q1 = dict(N=5, K=4, KF=5)
_c15_t1 = dict(N=10, K=9, KF=7)
CHECKS['C15'] = dict(
    level='exploration',
    technique='exhaustive finite-domain enumeration of the real correlate/convolve_rows/cols(_fixed), convolve_2d and '
              'extend_row/col/boundary on exactly-sized guarded buffers (ASan + canaries) against the textbook sums '
              'computed by an independent reference model',
    rule='1-D: every (w,h) in 0..N^2 x every kernel_1d size 1..K with every centre + kernel_1d_fixed<1/3/5/7> (<=KF) '
         'with every centre x {correlate,convolve}x{rows,cols} x all 5 boundary options x contents {ramp, all-ones, '
         'checker, EVERY unit impulse over every pixel and channel of the source incl. its declared padding} x 5 pixel '
         'configurations (gray8>gray32s, rgb8>rgb32s, planar rgb8>rgb32s: exact; gray16 through a float accumulator '
         'with integer taps: exact; gray32f with non-dyadic taps: tolerance 1e-5*sum|k|*max|src|). 2-D: convolve_2d, '
         '(w,h) in 0..N2^2, kernel_2d size 1..K2 and kernel_2d_fixed<1/3>, every centre (cy,cx), same contents, 3 '
         'configurations. Padding: extend_row/col/boundary x {extend_zero, extend_constant, extend_padded} x count '
         '0..E x (w,h) in 0..NE^2 x same contents x {gray8, rgb8, gray32f}. A case = one call of the GIL function, '
         'every destination value compared; distinct by construction (loop indices); non-trivial = non-empty image '
         'and kernel size > 1 (extend: count > 0). Kernel taps are distinct primes so a swapped/reversed/shifted tap '
         'is visible; extend_padded sources are sub-views of a buffer holding exactly the declared padding.',
    assumptions=ASSUME_COMMON + [
        'view(x,y)[c] addressing of harness buffers is correct (validated by C02/C03); only algorithms are under test here',
        'float configuration: tolerance 1e-5 * sum|kernel| * max|source| as in DESIGN.md; sums of integer-valued floats < 2^24 are compared exactly',
        'extend_row/col/boundary with a source that has no pixels: executed for memory accesses only (the statement describes no padded image for it); extend_constant on such a source is not executed',
        'UBSan reports are not counted (the statement speaks about values and accessed samples only)',
    ],
    tus=[dict(name='c15_conv1d_int', src='harness/c15_conv1d_int.cpp', deps=_c15_1d),
         dict(name='c15_conv1d_flt', src='harness/c15_conv1d_flt.cpp', deps=_c15_1d),
         dict(name='c15_conv2d_extend', src='harness/c15_conv2d_extend.cpp', deps=['harness/c15_common.hpp'])],
    runs=dict(
        quick=[dict(tu='c15_conv1d_int', group='gray8', bounds=_c15_q1, shards=2),
               dict(tu='c15_conv1d_int', group='gray32s_inplace', bounds=_c15_q1, shards=3),
               dict(tu='c15_conv1d_int', group='rgb8', bounds=_c15_q1, shards=3),
               dict(tu='c15_conv1d_int', group='rgb8planar', bounds=_c15_q1, shards=4),
               dict(tu='c15_conv1d_flt', group='gray32f', bounds=_c15_q1, shards=2),
               dict(tu='c15_conv1d_flt', group='gray16_floatacc', bounds=_c15_q1, shards=2),
               dict(tu='c15_conv2d_extend', group='conv2d_gray8', bounds=dict(N2=4, K2=3), shards=1),
               dict(tu='c15_conv2d_extend', group='conv2d_rgb8', bounds=dict(N2=4, K2=3), shards=1),
               dict(tu='c15_conv2d_extend', group='conv2d_gray32f', bounds=dict(N2=4, K2=3), shards=1),
               dict(tu='c15_conv2d_extend', group='extend_gray8', bounds=dict(NE=4, E=2), shards=1),
               dict(tu='c15_conv2d_extend', group='extend_rgb8', bounds=dict(NE=4, E=2), shards=1),
               dict(tu='c15_conv2d_extend', group='extend_gray32f', bounds=dict(NE=4, E=2), shards=1)],
        thorough=[dict(tu='c15_conv1d_int', group='gray8', bounds=_c15_t1, shards=12),
                  dict(tu='c15_conv1d_int', group='gray32s_inplace', bounds=_c15_t1, shards=12),
                  dict(tu='c15_conv1d_int', group='rgb8', bounds=_c15_t1, shards=24),
                  dict(tu='c15_conv1d_int', group='rgb8planar', bounds=_c15_t1, shards=36),
                  dict(tu='c15_conv1d_flt', group='gray32f', bounds=_c15_t1, shards=12),
                  dict(tu='c15_conv1d_flt', group='gray16_floatacc', bounds=_c15_t1, shards=12),
                  dict(tu='c15_conv2d_extend', group='conv2d_gray8', bounds=dict(N2=6, K2=5), shards=4),
                  dict(tu='c15_conv2d_extend', group='conv2d_rgb8', bounds=dict(N2=6, K2=5), shards=6),
                  dict(tu='c15_conv2d_extend', group='conv2d_gray32f', bounds=dict(N2=6, K2=5), shards=4),
                  dict(tu='c15_conv2d_extend', group='extend_gray8', bounds=dict(NE=7, E=4), shards=2),
                  dict(tu='c15_conv2d_extend', group='extend_rgb8', bounds=dict(NE=7, E=4), shards=4),
                  dict(tu='c15_conv2d_extend', group='extend_gray32f', bounds=dict(NE=7, E=4), shards=2)]),
    witnesses_required=dict(all=_c15_opts + [
        'in_place_calls', 'destination_sub_view', 'source_window_of_larger_canvas', 'correlate_rows', 'convolve_rows', 'correlate_cols', 'convolve_cols', 'fixed_kernel', 'dynamic_kernel',
        'border_outputs_checked', 'edge_replication_used', 'padding_read', 'image_narrower_than_kernel', 'empty_image',
        'size1_scalar_path', 'asymmetric_centre', 'integer_accumulator', 'float_accumulator', 'tolerance_compared',
        'exactly_compared', 'convolve_2d', 'conv2d_window_leaves_image', 'conv2d_off_centre', 'conv2d_empty_image',
        'conv2d_dynamic_kernel', 'conv2d_fixed_kernel', 'extend_row', 'extend_col', 'extend_boundary',
        'ext_extend_zero', 'ext_extend_constant', 'ext_extend_padded', 'ext_count0', 'ext_empty_source']),
    deadline=dict(quick=300, thorough=2400),
)
