# registry fragment for C01 / C02 / C03 — the view state space (harness/vs_*.hpp)
_VS_SETS = {
    0: ['rgb8', 'gray8', 'rgb16'],
    1: ['bgr8', 'rgba8', 'rgb32f'],
    2: ['argb8', 'cmyk8', 'gray16'],
    3: ['rgb8_planar', 'rgba16_planar'],
    4: ['packed_rgb565', 'packed_bgr556', 'packed_rgb332'],
    5: ['bits_gray1', 'bits_gray2', 'bits_gray4', 'bits_gray3'],
    6: ['bits_rgb121', 'bits_rgb222', 'bits_bgr565'],
}
_VS_C02_ONLY = {7: ['virtual_rgb8']}      # function-backed views: values only (no addresses, no writes, no storage)
_VS_DEPS = ['harness/vs_model.hpp', 'harness/vs_orgs.hpp', 'harness/vs_explore.hpp', 'harness/vs_groups.hpp',
            'harness/vs_c01.hpp', 'harness/vs_c02.hpp', 'harness/vs_c03.hpp']

def _vs_tus(prefix, src, extra=None):
    sets = dict(_VS_SETS); sets.update(extra or {})
    return [dict(name='%s_%d' % (prefix, s), src=src, deps=_VS_DEPS, flags=['-DVS_SET=%d' % s]) for s in sorted(sets)]

def _vs_runs(prefix, bounds, shards, sets=None, extra=None):
    out = []
    allsets = dict(_VS_SETS); allsets.update(extra or {})
    for s, groups in sorted(allsets.items()):
        if sets is not None and s not in sets: continue
        for g in groups:
            out.append(dict(tu='%s_%d' % (prefix, s), group=g, bounds=dict(bounds), shards=shards))
    return out

_VS_ASSUME = ASSUME_COMMON + [
    'the raw buffer model (LSB-first bit string; interleaved/planar/packed/bit-aligned address formulas in harness/vs_orgs.hpp) is correct',
    'unbounded shapes are covered up to N x N (degenerate 0xn, nx0, 1xn, nx1 included); compositions to the stated depth',
    'BOOST_ASSERTs are compiled out (-DNDEBUG), as in the repository suite',
]

CHECKS['C02'] = dict(
    level='model_checking',
    technique='explicit-state breadth-first search over the real view factories, lock-step with an affine index-map model; per-state pixel/address/write-footprint oracle',
    rule='state = (static view type, affine map ox,oy,a,b,c,d, dims, channel selector, conversion flag, concrete locator origin/steps); '
         'initial states: every root shape (w,h) in 0..N squared x pad modes of 23 pixel organisations (interleaved 8/16/32f, planar, packed, bit-aligned incl. '
         'non-byte-aligned rows) over an exactly-sized guarded buffer tagged through the raw model, plus a function-backed (virtual_2d_locator) view checked by value; transitions: flipped_up_down/left_right, transposed, '
         'rotated90cw/ccw/180, subsampled(sx,sy<=maxsub), subimage (corner-anchored/1-inset or every sub-rectangle), nth_channel/kth_channel, color_converted; '
         'explored breadth-first to the depth bound with state merging; in every state: dims, value+address of every channel of every pixel, exact write footprint '
         'over the whole buffer, six algebraic identities. evaluations = states checked; non-trivial = non-empty states.',
    assumptions=_VS_ASSUME,
    tus=_vs_tus('c02', 'harness/c02_views.cpp', _VS_C02_ONLY),
    runs=dict(quick=_vs_runs('c02', dict(N=3, depth=3, pads=2, subimage=1, maxsub=3), 2, extra=_VS_C02_ONLY),
              thorough=_vs_runs('c02', dict(N=5, depth=3, pads=3, subimage=1, maxsub=3), 8, extra=_VS_C02_ONLY) +
                       _vs_runs('c02', dict(N=3, depth=4, pads=2, subimage=2, maxsub=2, probe=1), 8, extra=_VS_C02_ONLY)),
    witnesses_required=dict(all=['negative_step_states', 'transposed_states', 'channel_states', 'converted_states', 'subsampled_states']
                                + ['org_' + g for gs in _VS_SETS.values() for g in gs] + ['org_virtual_rgb8']),
    deadline=dict(quick=900, thorough=5400),
)

CHECKS['C03'] = dict(
    level='model_checking',
    technique='explicit-state search over view states; in every state exhaustive enumeration of navigation paths, single locator moves (closure), cached locations, and all (start, n, m) iterator-law triples against raw-model addresses',
    rule='states as in C02 (without colour-converted views); in every non-empty state: 19 access paths x every pixel; from every locator position in [0,w]x[0,h] every '
         'single move (++/-- x,y, axis iterators, += / -= / xy_at / + / - for every (dx,dy) in [-2,2]^2 staying inside) must land on the raw-model position with unchanged '
         'steps (=> closure under sequences); cache_location for every in-range offset; y_distance_to for every ordered pair of positions; 1-D iterator, x-iterator and '
         'y-iterator laws for every start i and every n, m with i+n, i+n+m inside [0,size]; is_1d_traversable only-when. evaluations = states; non-trivial = non-empty states.',
    assumptions=_VS_ASSUME,
    tus=_vs_tus('c03', 'harness/c03_nav.cpp', _VS_C02_ONLY),
    runs=dict(quick=_vs_runs('c03', dict(N=3, depth=2, pads=2, subimage=1, maxsub=2), 2, extra=_VS_C02_ONLY),
              thorough=_vs_runs('c03', dict(N=5, depth=2, pads=3, subimage=1, maxsub=3), 8, extra=_VS_C02_ONLY) +
                       _vs_runs('c03', dict(N=3, depth=3, pads=2, subimage=2, maxsub=2, probe=1), 8, extra=_VS_C02_ONLY)),
    witnesses_required=dict(all=['negative_step_states', 'transposed_states', 'channel_states', 'padded_rows', 'traversable_true', 'traversable_true_one_row', 'traversable_false']),
    deadline=dict(quick=900, thorough=5400),
)

_C01_ALLOC = {
    0: ['gray8', 'rgb8', 'rgba8'], 1: ['rgb16', 'rgb32f', 'gray16'], 2: ['rgb8_planar', 'rgb16_planar', 'rgba16_planar'],
    3: ['packed565_u16', 'packed1010102_u32', 'packed16x4_u64'], 4: ['bits_gray1', 'bits_gray2', 'bits_gray4', 'bits_gray7'],
    5: ['bits_rgb121', 'bits_rgb222', 'bits_bgr565'], 6: ['bits_rgb101010', 'bits_rgb121212', 'bits_rgba7777'],
    7: ['rgb8_oddbase', 'rgb16_planar_oddbase', 'bits_bgr565_oddbase'],      # allocator handing out odd addresses
    8: ['rgb8_sticky', 'rgb16_planar_sticky'],      # stateful non-propagating allocator: moved-from images that are recreated
}
def _c01_alloc_runs(bounds, shards):
    return [dict(tu='c01a_%d' % s, group=g, bounds=dict(bounds), shards=shards) for s, gs in sorted(_C01_ALLOC.items()) for g in gs]

CHECKS['C01'] = dict(
    level='model_checking',
    technique='explicit-state search over view states with a sanitizer/canary monitor (every pixel touched through every accessor and algorithm in every state) plus exhaustive enumeration of image allocation histories',
    rule='(views) states as in C02 without colour conversion, roots are exactly-sized buffers (height x row-bytes) whose surroundings are ASan-poisoned and canary-filled; in '
         'every state every pixel is read and written through 15 accessors, 4 sequential traversals, cached locations and copy/fill/equal/for_each/generate/transform_pixels + '
         'std::copy/fill; (alloc) 22 image types x every (w,h) in 0..N squared x alignments x {ctor, ctor+fill, copy, assign (2), move, moved-from, 18 recreate histories} x 11 derived views, '
         'plus a deterministic check from the image\'s own bookkeeping that every channel of every pixel lies inside [_memory, _memory+_allocated_bytes). '
         'Oracle: zero ASan reports, canaries intact, inside-allocation. evaluations = states + image cases; non-trivial = those with at least one pixel.',
    assumptions=_VS_ASSUME + ['UBSan reports are recorded in the evidence counters but do not count: the only ones on the tree are null-pointer arithmetic / memmove(null,null,0) on EMPTY images, '
                              'which touch no byte and which the statement (in-range pixels) does not cover'],
    tus=_vs_tus('c01v', 'harness/c01_views.cpp') +
        [dict(name='c01a_%d' % s, src='harness/c01_alloc.cpp', deps=_VS_DEPS, flags=['-DVS_SET=%d' % s]) for s in sorted(_C01_ALLOC)],
    runs=dict(quick=_vs_runs('c01v', dict(N=3, depth=2, pads=3, subimage=1, maxsub=2), 2) + _c01_alloc_runs(dict(N=4, allaligns=0), 2),
              thorough=_vs_runs('c01v', dict(N=4, depth=3, pads=3, subimage=1, maxsub=3), 8) + _c01_alloc_runs(dict(N=9, allaligns=1), 8)),
    witnesses_required=dict(all=['negative_step_states', 'channel_states', 'interior_subview_states'] + ['img_' + g for gs in _C01_ALLOC.values() for g in gs]),
    deadline=dict(quick=900, thorough=5400),
)
