// vh.hpp — harness side of the /verif machinery (see DESIGN.md §1).
//
// A harness TU defines groups with VH_GROUP(name) { ... } and gets a main() from VH_MAIN.
// A group enumerates a finite space completely; the driver (tools/vcheck.py) shards it over
// processes with --shard i/n (the group decides what a shardable "unit" is by calling
// ctx.take()), merges the JSON lines printed here, matches failures against known_findings.txt
// and writes the evidence file.
//
// Output protocol (stdout, one JSON object per line):
//   {"t":"fail","id":"<stable case id>","sig":"<failure signature>","detail":"..."}
//   {"t":"summary","group":..., "evaluations":..,"nontrivial":..,"states":..,"transitions":..,
//    "witness":{..},"counters":{..},"samples":[..],"exhaustive":true|false}
// Sanitizer reports inside a case are captured with the ASan/UBSan report callbacks and turned
// into failures of the case in flight by san_take().
#pragma once
#include <cstdint>
#include <cstdio>
#include <cstdlib>
#include <cstring>
#include <csignal>
#include <string>
#include <vector>
#include <map>
#include <set>
#include <unordered_set>
#include <functional>
#include <sstream>
#include <unistd.h>
#include <sys/wait.h>
#include <sys/time.h>

#if defined(__SANITIZE_ADDRESS__)
#define VH_ASAN 1
#elif defined(__has_feature)
#if __has_feature(address_sanitizer)
#define VH_ASAN 1
#endif
#endif

#ifdef VH_ASAN
extern "C" void __asan_set_error_report_callback(void (*)(const char*));
extern "C" void __asan_poison_memory_region(void const volatile*, size_t);
extern "C" void __asan_unpoison_memory_region(void const volatile*, size_t);
#endif
#ifdef VH_UBSAN
extern "C" void __ubsan_get_current_report_data(const char**, const char**, const char**, unsigned*,
                                                unsigned*, char**);
#endif

namespace vh {

inline std::string jesc(std::string const& s)
{
    std::string o;
    for (unsigned char c : s)
    {
        if (c == '"' || c == '\\') { o += '\\'; o += char(c); }
        else if (c == '\n') o += "\\n";
        else if (c < 0x20 || c >= 0x7f) { char b[8]; snprintf(b, sizeof b, "\\u%04x", c); o += b; }
        else o += char(c);
    }
    return o;
}

// tiny string builder: S() << "a" << 3
struct S
{
    std::ostringstream o;
    template <class T> S& operator<<(T const& v) { o << v; return *this; }
    S& operator<<(unsigned char v) { o << unsigned(v); return *this; }
    S& operator<<(signed char v) { o << int(v); return *this; }
    operator std::string() const { return o.str(); }
    std::string str() const { return o.str(); }
};

inline uint64_t mix(uint64_t h, uint64_t v)
{
    h ^= v + 0x9e3779b97f4a7c15ull + (h << 6) + (h >> 2);
    h *= 0xff51afd7ed558ccdull;
    h ^= h >> 33;
    return h;
}
inline uint64_t hash_bytes(void const* p, size_t n, uint64_t h = 1469598103934665603ull)
{
    auto b = static_cast<unsigned char const*>(p);
    for (size_t i = 0; i < n; ++i) { h ^= b[i]; h *= 1099511628211ull; }
    return h;
}
inline uint64_t hash_str(std::string const& s) { return hash_bytes(s.data(), s.size()); }

struct SanState
{
    // signatures of the sanitizer reports seen since the last san_take()
    std::vector<std::string> pending;
    long total = 0;
    std::map<std::string, long> ignored;   // UBSan reports seen while the property does not count them (informational)
};
inline SanState& san() { static SanState s; return s; }

// Reduce an ASan report to a stable signature: kind, READ/WRITE, innermost boost::gil frame.
inline std::string asan_signature(const char* rep)
{
    std::string r(rep);
    std::string kind = "asan";
    size_t p = r.find("AddressSanitizer: ");
    if (p != std::string::npos)
    {
        size_t e = r.find_first_of(" \n", p + 18);
        kind = r.substr(p + 18, e - (p + 18));
    }
    std::string rw;
    if (r.find("\nREAD of size") != std::string::npos || r.find("READ of size") != std::string::npos) rw = "READ";
    if (r.find("WRITE of size") != std::string::npos) rw = rw.empty() ? "WRITE" : rw;
    size_t rp = r.find("READ of size"), wp = r.find("WRITE of size");
    if (wp != std::string::npos && (rp == std::string::npos || wp < rp)) rw = "WRITE";
    // first frame whose text mentions boost::gil
    std::string fn = "?";
    size_t pos = 0;
    while ((pos = r.find("\n    #", pos)) != std::string::npos)
    {
        size_t eol = r.find('\n', pos + 1);
        std::string line = r.substr(pos + 1, eol - pos - 1);
        size_t in = line.find(" in ");
        if (in != std::string::npos && line.find("boost::gil") != std::string::npos)
        {
            std::string f = line.substr(in + 4);
            // strip template arguments and parameter list: keep qualified name up to first '<' or '('
            size_t cut = f.find_first_of("<(");
            if (cut != std::string::npos) f = f.substr(0, cut);
            // strip leading return type if any
            size_t sp = f.rfind(' ');
            if (sp != std::string::npos) f = f.substr(sp + 1);
            fn = f;
            break;
        }
        if (line.find("SUMMARY") != std::string::npos) break;
        // stop at the end of the first stack trace
        if (eol != std::string::npos && eol + 1 < r.size() && r[eol + 1] == '\n') { pos = eol; break; }
        pos = eol;
    }
    return "asan:" + kind + ":" + rw + "@" + fn;
}

inline void asan_cb(const char* rep)
{
    san().total++;
    if (san().pending.size() < 8) san().pending.push_back(asan_signature(rep));
}

inline bool& ubsan_counts() { static bool b = true; return b; }

struct Fail { std::string id, sig, detail; };

struct Ctx
{
    std::string group;
    std::map<std::string, long> bound;
    int shard_i = 0, shard_n = 1;
    std::string only;          // when set: only failures with this id are printed (replay)
    long unit = 0;             // shard unit counter
    long evaluations = 0, nontrivial = 0, states = 0, transitions = 0, traces = 0;
    long nfail = 0;
    std::map<std::string, long> witness, counters, failsig;
    std::vector<std::string> samples;
    long sample_seen = 0;
    bool exhaustive = true;
    std::string cur;           // coarse description of the case in flight (for crashes)
    double deadline = 0;       // absolute time; 0 = none
    long seed = 0;

    long B(const char* k, long dflt) const
    {
        auto it = bound.find(k);
        return it == bound.end() ? dflt : it->second;
    }
    // shard gate: call once per shardable unit
    bool take() { return (unit++ % shard_n) == shard_i; }

    void sample(std::string const& s)
    {
        // keep the first 2 and then every 4^k-th so samples spread over the run
        long n = ++sample_seen;
        bool keep = n <= 2;
        if (!keep) { long k = n; while (k % 4 == 0) k /= 4; keep = (k == 1) && n >= 4; }
        if (keep && samples.size() < 12) samples.push_back(s);
    }
    void fail(std::string const& id, std::string const& sig, std::string const& detail = "")
    {
        if (!only.empty() && id != only) return;
        ++nfail;
        long& n = failsig[sig];
        ++n;
        if (nfail > 2000000) { exhaustive = false; return; }
        printf("{\"t\":\"fail\",\"id\":\"%s\",\"sig\":\"%s\",\"detail\":\"%s\"}\n", jesc(id).c_str(),
               jesc(sig).c_str(), n <= 20 ? jesc(detail).c_str() : "");
    }
    // sanitizer reports since the previous call become failures of case `id`; returns #reports
    int san_take(std::string const& id)
    {
        auto& p = san().pending;
        int n = int(p.size());
        if (n)
        {
            std::set<std::string> uniq(p.begin(), p.end());
            for (auto const& s : uniq) fail(id, s, "sanitizer report inside this case");
            p.clear();
        }
        return n;
    }
    template <class IdFn> int san_take_lazy(IdFn f)
    {
        if (san().pending.empty()) return 0;
        return san_take(f());
    }
    bool timed_out()
    {
        if (deadline == 0) return false;
        timeval tv; gettimeofday(&tv, nullptr);
        if (tv.tv_sec + tv.tv_usec * 1e-6 > deadline) { exhaustive = false; return true; }
        return false;
    }
    void print_summary()
    {
        std::string w = "{", c = "{", fs = "{", sm = "[";
        bool f = true;
        for (auto& kv : witness) { w += (f ? "" : ",") + ("\"" + jesc(kv.first) + "\":" + std::to_string(kv.second)); f = false; }
        f = true;
        for (auto& kv : san().ignored) counters[kv.first] += kv.second;
        for (auto& kv : counters) { c += (f ? "" : ",") + ("\"" + jesc(kv.first) + "\":" + std::to_string(kv.second)); f = false; }
        f = true;
        for (auto& kv : failsig) { fs += (f ? "" : ",") + ("\"" + jesc(kv.first) + "\":" + std::to_string(kv.second)); f = false; }
        f = true;
        for (auto& s : samples) { sm += (f ? "" : ",") + ("\"" + jesc(s) + "\""); f = false; }
        printf("{\"t\":\"summary\",\"group\":\"%s\",\"shard\":\"%d/%d\",\"evaluations\":%ld,\"nontrivial\":%ld,"
               "\"states\":%ld,\"transitions\":%ld,\"traces\":%ld,\"failures\":%ld,\"san_reports\":%ld,"
               "\"witness\":%s},\"counters\":%s},\"failsig\":%s},\"samples\":%s],\"exhaustive\":%s}\n",
               jesc(group).c_str(), shard_i, shard_n, evaluations, nontrivial, states, transitions, traces,
               nfail, san().total, w.c_str(), c.c_str(), fs.c_str(), sm.c_str(), exhaustive ? "true" : "false");
        fflush(stdout);
    }
};

inline Ctx*& gctx() { static Ctx* c = nullptr; return c; }

using GroupFn = void (*)(Ctx&);
inline std::map<std::string, GroupFn>& groups() { static std::map<std::string, GroupFn> g; return g; }
struct Reg { Reg(const char* n, GroupFn f) { groups()[n] = f; } };

inline void on_fatal(int sig)
{
    // async-signal-safe-ish: format into a static buffer and write()
    static char buf[1024];
    Ctx* c = gctx();
    const char* name = sig == SIGSEGV ? "SIGSEGV" : sig == SIGFPE ? "SIGFPE" : sig == SIGBUS ? "SIGBUS"
                     : sig == SIGILL ? "SIGILL" : sig == SIGABRT ? "SIGABRT" : sig == SIGALRM ? "SIGALRM" : "SIG";
    int n = snprintf(buf, sizeof buf, "\n{\"t\":\"fatal\",\"signal\":\"%s\",\"cur\":\"%s\"}\n", name,
                     c ? jesc(c->cur).c_str() : "");
    if (n > 0) { ssize_t r = write(1, buf, size_t(n)); (void)r; }
    _exit(70);
}
inline void install_fatal_handlers()
{
    for (int s : {SIGSEGV, SIGFPE, SIGBUS, SIGILL, SIGABRT, SIGALRM}) signal(s, on_fatal);
}

// Run `body` in a forked child with a wall-clock limit; returns "ok", "signal:<NAME>", "timeout",
// or "exit:<code>". The child may write up to `cap` bytes of result into the pipe via `out`.
struct IsoResult { std::string status; std::string payload; };
inline IsoResult isolated_once(std::function<void(std::string&)> body, double limit_s);
inline long& isolated_rechecks() { static long n = 0; return n; }
// A wall-clock expiry can be machine load: the (deterministic) body is run once more with a 15x limit and only a second
// expiry is returned as "timeout".
inline IsoResult isolated(std::function<void(std::string&)> body, double limit_s = 5.0)
{
    IsoResult r = isolated_once(body, limit_s);
    if (r.status != "timeout") return r;
    ++isolated_rechecks();
    return isolated_once(body, limit_s * 15);
}
inline IsoResult isolated_once(std::function<void(std::string&)> body, double limit_s)
{
    int fd[2];
    if (pipe(fd) != 0) return {"pipe-failed", ""};
    fflush(stdout); fflush(stderr);
    pid_t pid = fork();
    if (pid == 0)
    {
        close(fd[0]);
        for (int s : {SIGSEGV, SIGFPE, SIGBUS, SIGILL, SIGABRT}) signal(s, SIG_DFL);
        itimerval it{}; long us = long(limit_s * 1e6);
        it.it_value.tv_sec = us / 1000000; it.it_value.tv_usec = us % 1000000;
        signal(SIGALRM, SIG_DFL);
        setitimer(ITIMER_REAL, &it, nullptr);
        std::string out;
        body(out);
        // append sanitizer signatures
        for (auto& s : san().pending) { out += "\x1fSAN:"; out += s; }
        size_t off = 0;
        while (off < out.size()) { ssize_t w = write(fd[1], out.data() + off, out.size() - off); if (w <= 0) break; off += size_t(w); }
        close(fd[1]);
        _exit(0);
    }
    close(fd[1]);
    std::string payload; char b[4096]; ssize_t r;
    while ((r = read(fd[0], b, sizeof b)) > 0) payload.append(b, size_t(r));
    close(fd[0]);
    int st = 0; waitpid(pid, &st, 0);
    std::string status;
    if (WIFSIGNALED(st))
    {
        int s = WTERMSIG(st);
        status = s == SIGALRM ? "timeout" : std::string("signal:") + (s == SIGSEGV ? "SIGSEGV" : s == SIGFPE ? "SIGFPE"
                 : s == SIGABRT ? "SIGABRT" : s == SIGBUS ? "SIGBUS" : s == SIGILL ? "SIGILL" : s == SIGKILL ? "SIGKILL" : std::to_string(s));
    }
    else if (WEXITSTATUS(st) != 0) status = "exit:" + std::to_string(WEXITSTATUS(st));
    else status = "ok";
    return {status, payload};
}

inline int main_impl(int argc, char** argv)
{
    // line-buffered: in recover mode ASan calls Die() at the 26th distinct faulting PC (its pool of reported PCs is full);
    // the failures recorded before that must already be in the pipe, or only a coarse "fatal:rc=1" is left
    setvbuf(stdout, nullptr, _IOLBF, 0);
    Ctx ctx;
    std::string mode;
    for (int i = 1; i < argc; ++i)
    {
        std::string a = argv[i];
        auto next = [&]() -> std::string { return i + 1 < argc ? argv[++i] : ""; };
        if (a == "--list") mode = "list";
        else if (a == "--run") { mode = "run"; ctx.group = next(); }
        else if (a == "--bound")
        {
            std::string b = next(); size_t p = 0;
            while (p < b.size())
            {
                size_t e = b.find(',', p); if (e == std::string::npos) e = b.size();
                std::string kv = b.substr(p, e - p); size_t q = kv.find('=');
                if (q != std::string::npos) ctx.bound[kv.substr(0, q)] = atol(kv.c_str() + q + 1);
                p = e + 1;
            }
        }
        else if (a == "--shard") { std::string s = next(); sscanf(s.c_str(), "%d/%d", &ctx.shard_i, &ctx.shard_n); }
        else if (a == "--only") ctx.only = next();
        else if (a == "--seed") ctx.seed = atol(next().c_str());
        else if (a == "--deadline") { double d = atof(next().c_str()); timeval tv; gettimeofday(&tv, nullptr); ctx.deadline = tv.tv_sec + tv.tv_usec * 1e-6 + d; }
    }
    if (mode == "list") { for (auto& g : groups()) printf("%s\n", g.first.c_str()); return 0; }
    if (mode != "run" || !groups().count(ctx.group)) { fprintf(stderr, "usage: --list | --run <group> [--bound k=v,..] [--shard i/n] [--only id]\n"); return 2; }
    gctx() = &ctx;
#ifdef VH_ASAN
    __asan_set_error_report_callback(asan_cb);
#endif
    install_fatal_handlers();
    setvbuf(stdout, nullptr, _IOFBF, 1 << 16);
    groups()[ctx.group](ctx);
    ctx.san_take(ctx.group + "/<unattributed>");
    if (isolated_rechecks()) ctx.counters["isolated_watchdog_expiries_rechecked"] += isolated_rechecks();
    ctx.print_summary();
    return 0;
}

} // namespace vh

#ifdef VH_UBSAN
// UBSan runtime calls this weak hook for every report (works with -fsanitize-recover=undefined)
extern "C" void __ubsan_on_report(void)
{
    const char *kind = "", *msg = "", *file = ""; unsigned line = 0, col = 0; char* addr = nullptr;
    __ubsan_get_current_report_data(&kind, &msg, &file, &line, &col, &addr);
    vh::san().total++;
    // signature: kind + header file name (no line numbers: they drift)
    std::string f = file ? file : "";
    size_t p = f.rfind("/boost/gil/");
    std::string where = p == std::string::npos ? (f.rfind('/') == std::string::npos ? f : f.substr(f.rfind('/') + 1)) : f.substr(p + 11);
    if (!vh::ubsan_counts()) { ++vh::san().ignored[std::string("ubsan_not_counted:") + kind + "@" + where]; return; }
    if (vh::san().pending.size() < 8) vh::san().pending.push_back(std::string("ubsan:") + kind + "@" + where);
}
#endif

#define VH_GROUP(name)                                   \
    static void vh_group_##name(vh::Ctx& ctx);           \
    static vh::Reg vh_reg_##name(#name, vh_group_##name); \
    static void vh_group_##name(vh::Ctx& ctx)

#define VH_MAIN \
    int main(int argc, char** argv) { return vh::main_impl(argc, argv); }
