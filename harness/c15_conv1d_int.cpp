// C15 — correlate/convolve rows/cols, integer accumulators: exact equality with the textbook sum.
// Configurations: gray8 -> gray32s, rgb8 -> rgb32s (interleaved), planar rgb8 -> rgb32s.
#include "c15_conv1d.hpp"

namespace gil = boost::gil;

struct CfgGray8
{
    using src_px = gil::gray8_pixel_t; using acc_px = gil::gray32s_pixel_t; using dst_px = gil::gray32s_pixel_t;
    using ktype = int;
    static const bool is_float = false, float_acc = false, planar_src = false;
    static const char* name() { return "gray8>gray32s"; }
    static uint8_t store(int v) { return uint8_t(v); }
    static int ktap(int p) { return p; }
    static double sentinel() { return -123456789.0; }
};
struct CfgGray32s      // same source and destination pixel type: also run in place (destination view == source view)
{
    using src_px = gil::gray32s_pixel_t; using acc_px = gil::gray32s_pixel_t; using dst_px = gil::gray32s_pixel_t;
    using ktype = int;
    static const bool is_float = false, float_acc = false, planar_src = false;
    static const char* name() { return "gray32s>gray32s"; }
    static int32_t store(int v) { return int32_t(v); }
    static int ktap(int p) { return p; }
    static double sentinel() { return -123456789.0; }
};
struct CfgRgb8
{
    using src_px = gil::rgb8_pixel_t; using acc_px = gil::rgb32s_pixel_t; using dst_px = gil::rgb32s_pixel_t;
    using ktype = int;
    static const bool is_float = false, float_acc = false, planar_src = false;
    static const char* name() { return "rgb8>rgb32s"; }
    static uint8_t store(int v) { return uint8_t(v); }
    static int ktap(int p) { return p; }
    static double sentinel() { return -123456789.0; }
};
struct CfgRgb8Planar
{
    using src_px = gil::rgb8_pixel_t; using acc_px = gil::rgb32s_pixel_t; using dst_px = gil::rgb32s_pixel_t;
    using ktype = int;
    static const bool is_float = false, float_acc = false, planar_src = true;
    static const char* name() { return "rgb8planar>rgb32s"; }
    static uint8_t store(int v) { return uint8_t(v); }
    static int ktap(int p) { return p; }
    static double sentinel() { return -123456789.0; }
};

// the property text does not constrain integer-overflow/shift UB here; only memory accesses count
VH_GROUP(gray8) { vh::ubsan_counts() = false; c15::Runner<CfgGray8>{ctx}.run(); }
VH_GROUP(gray32s_inplace) { vh::ubsan_counts() = false; c15::Runner<CfgGray32s>{ctx}.run(); }
VH_GROUP(rgb8) { vh::ubsan_counts() = false; c15::Runner<CfgRgb8>{ctx}.run(); }
VH_GROUP(rgb8planar) { vh::ubsan_counts() = false; c15::Runner<CfgRgb8Planar>{ctx}.run(); }

VH_MAIN
