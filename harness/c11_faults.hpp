// c11_faults.hpp — C11: reading any byte sequence as an image terminates safely (DESIGN.md §4 C11).
// Fault enumeration around tiny valid seed files written by independent encoders (gen/seeds.py):
//   deviation bound 1: every truncation, every header field x every boundary value of its width, every byte of the
//   palette / pixel / run-length regions x 8 values;  bound 2 (thorough): pairs of header-field deviations.
// x entry points {read_image_info, read_image (3 native candidates), read_view, read_and_convert_image,
//   read_and_convert_view, scanline reader} x devices {FILE* (fmemopen), std::istream, file name}.
// Every execution runs in a forked worker (io_common.hpp run_unit: a crash or watchdog timeout is attributed to
// the case in flight and the unit resumes after it).  Outcome classes: return / C++ exception are allowed;
// sanitizer report (ASan and UBSan), fatal signal, timeout, result-depends-on-uninitialised-bytes (dual-fill
// differential: stack painted and destination pre-filled with two different patterns) and silent-accept
// (returned normally although the encoder's layout arithmetic proves the file cannot hold what its header
// declares) are violations.
#pragma once
#include "c13_common.hpp"
#include "io_seeds.hpp"
#include <new>
#include <typeinfo>

namespace gil = boost::gil;
using ioc::Emit;

// ---- environment assumption: an absurd declared size is an exception, not an OOM kill
static const std::size_t C11_ALLOC_CAP = std::size_t(256) << 20;
void* operator new(std::size_t n)
{
    if (n > C11_ALLOC_CAP) throw std::bad_alloc();
    void* p = std::malloc(n ? n : 1);
    if (!p) throw std::bad_alloc();
    return p;
}
void* operator new[](std::size_t n) { return operator new(n); }
void operator delete(void* p) noexcept { std::free(p); }
void operator delete[](void* p) noexcept { std::free(p); }
void operator delete(void* p, std::size_t) noexcept { std::free(p); }
void operator delete[](void* p, std::size_t) noexcept { std::free(p); }

namespace c11 {

// ---- stack painting for the dual-fill differential
__attribute__((noinline)) inline void paint_stack(unsigned char b)
{
    volatile unsigned char buf[96 * 1024];
    for (size_t i = 0; i < sizeof buf; i += 1) buf[i] = b;
    asm volatile("" ::: "memory");
}

struct Case { std::string id; std::vector<unsigned char> bytes; int kind; long trunc_at; std::string field; long value; };   // kind 0 trunc, 1 field, 2 byte, 3 pair, 4 valid

inline uint64_t rd(std::vector<unsigned char> const& b, int off, int w, bool le)
{
    uint64_t v = 0;
    for (int i = 0; i < w; ++i) { int k = le ? i : w - 1 - i; v |= uint64_t(b[size_t(off + k)]) << (8 * i); }
    return v;
}
inline void wr(std::vector<unsigned char>& b, int off, int w, uint64_t v)
{
    for (int i = 0; i < w; ++i) b[size_t(off + i)] = (unsigned char)(v >> (8 * i));
}
inline std::vector<uint64_t> boundary_values(uint64_t v, int w)
{
    uint64_t mask = w >= 8 ? ~uint64_t(0) : ((uint64_t(1) << (8 * w)) - 1);
    std::vector<uint64_t> c = {0, 1, 2, v - 1, v + 1, 0x7F, 0x80, 0xFF, 0x7FFF, 0x8000, 0xFFFF, 0x7FFFFFFFull, 0x80000000ull, 0xFFFFFFFFull};
    std::vector<uint64_t> r;
    for (uint64_t x : c) { x &= mask; if (x != (v & mask) && std::find(r.begin(), r.end(), x) == r.end()) r.push_back(x); }
    return r;
}
// ascii numeric header fields (PNM): replacement tokens
inline std::vector<std::string> ascii_values(std::string const& cur)
{
    long v = atol(cur.c_str());
    std::vector<std::string> c = {"0", "1", "2", std::to_string(v - 1), std::to_string(v + 1), "255", "256", "65535", "65536", "2147483647", "2147483648", "4294967295",
                                  "99999999999999999999", "-1", "x", ""};
    std::vector<std::string> r;
    for (auto& s : c) if (s != cur && std::find(r.begin(), r.end(), s) == r.end()) r.push_back(s);
    return r;
}

inline std::vector<Case> single_deviations(Seed const& s, bool all256, bool with_valid)
{
    std::vector<Case> out;
    std::vector<unsigned char> const& b = s.bytes;
    if (with_valid) out.push_back({"valid", b, 4, -1, "", 0});
    for (size_t L = 0; L < b.size(); ++L)
        out.push_back({"trunc@" + std::to_string(L), std::vector<unsigned char>(b.begin(), b.begin() + long(L)), 0, long(L), "", 0});
    for (auto const& f : s.fields)
    {
        std::string enc = f.enc;
        if (enc == "le")
        {
            uint64_t v = rd(b, f.offset, f.width, true);
            for (uint64_t nv : boundary_values(v, f.width))
            {
                Case c{std::string("field:") + f.name + "=" + std::to_string(nv), b, 1, -1, f.role, long(nv)};
                wr(c.bytes, f.offset, f.width, nv);
                out.push_back(std::move(c));
            }
        }
        else if (enc == "ascii")
        {
            std::string cur(b.begin() + f.offset, b.begin() + f.offset + f.width);
            for (auto const& nv : ascii_values(cur))
            {
                Case c{std::string("field:") + f.name + "='" + nv + "'", {}, 1, -1, f.role, atol(nv.c_str())};
                c.bytes.assign(b.begin(), b.begin() + f.offset);
                c.bytes.insert(c.bytes.end(), nv.begin(), nv.end());
                c.bytes.insert(c.bytes.end(), b.begin() + f.offset + f.width, b.end());
                if (std::string(f.role) == "magic" && nv.size() > 0) continue;     // magic: only byte-level changes below
                out.push_back(std::move(c));
            }
        }
        else    // raw bytes (magic, ids): every byte to a few values
        {
            for (int i = 0; i < f.width; ++i) for (int nv : {0, 0x20, 0x31, 0x37, 0x50, 0xFF})
            {
                if (b[size_t(f.offset + i)] == nv) continue;
                Case c{std::string("field:") + f.name + "[" + std::to_string(i) + "]=" + std::to_string(nv), b, 1, -1, f.role, nv};
                c.bytes[size_t(f.offset + i)] = (unsigned char)nv;
                out.push_back(std::move(c));
            }
        }
    }
    if (s.regions.empty())
    {
        // seeds produced by a C library's encoder carry no field table: every byte x {flip bit 0, flip bit 7, 0x00, 0xFF}
        for (size_t off = 0; off < b.size(); ++off) for (int k = 0; k < 4; ++k)
        {
            int nv = k == 0 ? (b[off] ^ 0x01) : k == 1 ? (b[off] ^ 0x80) : k == 2 ? 0x00 : 0xFF;
            if (nv == b[off]) continue;
            Case c{"byte@" + std::to_string(off) + "=" + std::to_string(nv), b, 2, -1, "data", nv};
            c.bytes[off] = (unsigned char)nv;
            out.push_back(std::move(c));
        }
    }
    static const int few[] = {0, 1, 2, 3, 0x7F, 0x80, 0xFE, 0xFF};
    for (auto const& r : s.regions)
    {
        std::string rn = r.name;
        if (rn == "header" || rn == "footer" || rn == "id" || rn.compare(0, 7, "comment") == 0) continue;
        for (int off = r.begin; off < r.end; ++off)
        {
            if (all256) { for (int nv = 0; nv < 256; ++nv) if (nv != b[size_t(off)]) { Case c{rn + "@" + std::to_string(off) + "=" + std::to_string(nv), b, 2, -1, rn, nv}; c.bytes[size_t(off)] = (unsigned char)nv; out.push_back(std::move(c)); } }
            else for (int nv : few) if (nv != b[size_t(off)]) { Case c{rn + "@" + std::to_string(off) + "=" + std::to_string(nv), b, 2, -1, rn, nv}; c.bytes[size_t(off)] = (unsigned char)nv; out.push_back(std::move(c)); }
        }
    }
    return out;
}
// pairs of little-endian / ascii header-field deviations (bound 2)
inline std::vector<Case> pair_deviations(Seed const& s)
{
    std::vector<Case> out;
    std::vector<unsigned char> const& b = s.bytes;
    std::vector<SeedField> fs;
    for (auto const& f : s.fields) if (std::string(f.enc) == "le" && std::string(f.role) != "ignored") fs.push_back(f);
    for (size_t i = 0; i < fs.size(); ++i) for (size_t j = i + 1; j < fs.size(); ++j)
    {
        uint64_t vi = rd(b, fs[i].offset, fs[i].width, true), vj = rd(b, fs[j].offset, fs[j].width, true);
        for (uint64_t ni : boundary_values(vi, fs[i].width)) for (uint64_t nj : boundary_values(vj, fs[j].width))
        {
            Case c{std::string("pair:") + fs[i].name + "=" + std::to_string(ni) + "," + fs[j].name + "=" + std::to_string(nj), b, 3, -1, "", 0};
            wr(c.bytes, fs[i].offset, fs[i].width, ni); wr(c.bytes, fs[j].offset, fs[j].width, nj);
            out.push_back(std::move(c));
        }
    }
    return out;
}

// ---- how many leading bytes of the file a pixel read needs (conservative: never larger than truly needed)
inline long needed_for_pixels(Seed const& s)
{
    long end = -1; std::string kind;
    for (auto const& r : s.regions) { std::string n = r.name; if (n == "pixels" || n == "raster" || n == "rle") { end = r.end; kind = n; } }
    if (end < 0) return -1;
    std::string fmt = s.format;
    if (kind == "rle") return fmt == "bmp" ? end - 2 : end;           // a missing end-of-bitmap marker alone is not demanded
    if (fmt == "bmp")
    {
        long bpp = s.prop("bpp"), row = ((s.w * bpp + 31) / 32) * 4, used = (s.w * bpp + 7) / 8;
        return end - (row - used);                                      // trailing padding of the last stored row carries no pixel
    }
    if (fmt == "pnm")
    {
        char m = char(s.bytes[1]);
        if (m == '1' || m == '2' || m == '3')
        {
            // the last token may lose trailing digits and still be a number: only its first character is needed
            long e = end; while (e > 0 && isspace(s.bytes[size_t(e - 1)])) --e;
            if (m != '1') while (e > 1 && !isspace(s.bytes[size_t(e - 2)])) --e;
            return e;
        }
    }
    return end;
}
// bytes the raster of a raw (non run-length) seed needs when one dimension field is replaced; -1 = cannot tell
inline long needed_with_dimension(Seed const& s, std::string const& field, long value)
{
    long w = field == "width" ? value : s.w, h = field == "height" ? value : s.h;
    long begin = -1, end = -1; std::string kind;
    for (auto const& r : s.regions) { std::string n = r.name; if (n == "pixels" || n == "raster") { begin = r.begin; end = r.end; kind = n; } }
    if (begin < 0) return -1;
    std::string fmt = s.format;
    if (fmt == "bmp") { long bpp = s.prop("bpp"); return begin + ((w * bpp + 31) / 32) * 4 * (h - 1) + (w * bpp + 7) / 8; }
    if (fmt == "targa") return begin + w * h * s.channels;
    if (fmt == "pnm")
    {
        char m = char(s.bytes[1]);
        if (m == '4') return begin + ((w + 7) / 8) * h;
        if (m == '5' || m == '6') return begin + w * h * s.channels;      // seeds use maxval <= 255
        // ascii: count the tokens the raster holds (P1: characters 0/1)
        long tokens = 0; bool in_tok = false;
        for (long i = begin; i < end; ++i)
        {
            bool sp = isspace(s.bytes[size_t(i)]) != 0;
            if (m == '1') { if (!sp) ++tokens; }
            else { if (!sp && !in_tok) ++tokens; in_tok = !sp; }
        }
        return w * h * s.channels > tokens ? long(s.bytes.size()) + 1 : 0;
    }
    return -1;
}
inline long header_end(Seed const& s) { for (auto const& r : s.regions) if (std::string(r.name) == "header") return r.end; return -1; }

enum EP { EP_INFO, EP_IMAGE_RGB8, EP_IMAGE_RGBA8, EP_IMAGE_GRAY8, EP_VIEW, EP_CONVERT_IMAGE, EP_CONVERT_VIEW, EP_SCANLINE, EP_VIEW_REGION_TOO_SMALL, EP_COUNT };
inline const char* ep_name(int e) { static const char* n[] = {"info", "read_image<rgb8>", "read_image<rgba8>", "read_image<gray8>", "read_view", "read_and_convert_image", "read_and_convert_view", "scanline", "read_view(region,view-too-small)"}; return n[e]; }

struct Obs { std::string cls; std::string data; bool na = false; bool returned() const { return cls == "ret"; } bool operator==(Obs const& o) const { return cls == o.cls && data == o.data; } };

template <class V> inline std::string view_digest(V const& v)
{
    uint64_t h = 1469598103934665603ull;
    auto f = ioc::flatten(v);
    for (double d : f) { long x = long(d); h = vh::hash_bytes(&x, sizeof x, h); }
    return std::string(vh::S() << v.width() << "x" << v.height() << ":" << h);
}

// read_image<Img> exists only for pixel types the format supports natively (a compile-time matter)
template <class Tag, class Img, class Dev> inline bool native_read(Dev& d, unsigned char fill, Obs& o, std::true_type)
{ Img img; paint_stack(fill); gil::read_image(d, img, Tag()); o.data = view_digest(gil::const_view(img)); return true; }
template <class Tag, class Img, class Dev> inline bool native_read(Dev&, unsigned char, Obs& o, std::false_type) { o.na = true; return false; }
template <class Tag, class Img> using native_ok = std::integral_constant<bool, gil::is_read_supported<typename gil::get_pixel_type<typename Img::view_t>::type, Tag>::value>;

// how bytes are presented through device kind d (formats decoded by a C library need their own handle type)
struct DefaultDev
{
    static constexpr bool handle_needs_path = false;
    template <class F> static void with(int d, ioc::Source const& s, F f) { ioc::with_dev(d, s, f); }
};

// one execution of one entry point on one device; `fill` paints the stack and pre-fills destinations
template <class Tag, class NativeImg, class DevA = DefaultDev>
Obs run_ep(int ep, int dev, ioc::Source const& src, Seed const& seed, unsigned char fill)
{
    Obs o;
    // dimensions the file declares (through GIL's own header parser; if that throws, so will the read below)
    gil::point_t declared(seed.w, seed.h);
    if (ep == EP_VIEW || ep == EP_CONVERT_VIEW)
    {
        try { DevA::with(dev, src, [&](auto& d) { auto be = gil::read_image_info(d, Tag()); declared = gil::point_t(std::max<long>(0, long(be._info._width)), std::max<long>(0, long(be._info._height))); }); }
        catch (...) {}
    }
    try
    {
        DevA::with(dev, src, [&](auto& d) {
            using P8 = gil::rgb8_pixel_t;
            switch (ep)
            {
            case EP_INFO: { paint_stack(fill); auto be = gil::read_image_info(d, Tag()); o.data = std::string(vh::S() << be._info._width << "x" << be._info._height); break; }
            case EP_IMAGE_RGB8: native_read<Tag, gil::rgb8_image_t>(d, fill, o, native_ok<Tag, gil::rgb8_image_t>()); break;
            case EP_IMAGE_RGBA8: native_read<Tag, gil::rgba8_image_t>(d, fill, o, native_ok<Tag, gil::rgba8_image_t>()); break;
            case EP_IMAGE_GRAY8: native_read<Tag, gil::gray8_image_t>(d, fill, o, native_ok<Tag, gil::gray8_image_t>()); break;
            case EP_VIEW:
            {
                NativeImg img(seed.w, seed.h);
                std::memset(img._memory, fill, img._allocated_bytes);
                paint_stack(fill); gil::read_view(d, gil::view(img), Tag());
                // a destination larger than the declared image is legal; which part of it GIL fills is not specified
                // (top-left, or the bottom rows for top-down TARGA), so pixels are compared only for an exact fit
                o.data = (declared.x == seed.w && declared.y == seed.h) ? view_digest(gil::const_view(img)) : std::string("declared-image-smaller-than-view"); break;
            }
            case EP_CONVERT_IMAGE: { gil::rgb8_image_t img; paint_stack(fill); gil::read_and_convert_image(d, img, Tag()); o.data = view_digest(gil::const_view(img)); break; }
            case EP_CONVERT_VIEW:
            {
                gil::rgb8_image_t img(seed.w, seed.h, P8(fill, fill, fill), 0);
                paint_stack(fill); gil::read_and_convert_view(d, gil::view(img), Tag());
                o.data = (declared.x == seed.w && declared.y == seed.h) ? view_digest(gil::const_view(img)) : std::string("declared-image-smaller-than-view"); break;
            }
            case EP_VIEW_REGION_TOO_SMALL:
            {
                // read_view of the region top_left=(1,1), dim=(w-1,h-1) into a view that is one row shorter than the region: a view that
                // is too small has to be reported, never written past.  The view is the top-left part of a larger image, so an overrun
                // lands in memory the sanitizer tracks.
                if (seed.w < 3 || seed.h < 3) { o.na = true; break; }
                gil::image_read_settings<Tag> st(gil::point_t(1, 1), gil::point_t(seed.w - 1, seed.h - 1));
                NativeImg img(seed.w - 1, seed.h - 2);
                std::memset(img._memory, fill, img._allocated_bytes);
                paint_stack(fill); gil::read_view(d, gil::view(img), st);
                o.data = "returned-normally"; break;
            }
            case EP_SCANLINE:
            {
                paint_stack(fill);
                c13::with_scanline_reader<Tag>(d, [&](auto& reader) {
                    uint64_t h = 7; long rows = 0;
                    auto it = reader.begin(); auto end = reader.end();
                    for (; it != end; ++it, ++rows)
                    {
                        gil::byte_t* p = *it;
                        h = vh::hash_bytes(p, reader._scanline_length, h);
                        if (rows > 70000) break;     // horizon: declared heights above this are cut (counted by the caller as such)
                    }
                    o.data = std::string(vh::S() << rows << "rows:" << h);
                });
                break;
            }
            }
        });
        o.cls = o.na ? "n/a" : "ret";
    }
    catch (std::ios_base::failure const&) { o.cls = "exc:ios_failure"; o.data.clear(); }
    catch (std::runtime_error const& ex) { o.cls = std::strncmp(ex.what(), "harness:", 8) == 0 ? "exc:library-refused-to-open" : "exc:std"; o.data.clear(); }
    catch (std::bad_alloc const&) { o.cls = "exc:bad_alloc"; o.data.clear(); }
    catch (std::exception const&) { o.cls = "exc:std"; o.data.clear(); }
    catch (...) { o.cls = "exc:non-std"; o.data.clear(); }
    return o;
}

static const int CASE_LIMIT_S = 4;      // a <= 300-byte input that needs longer than this, and on a second run alone longer than 60 s, is reported as a hang
struct Opts { int devmask = 3; bool all256 = false; bool pairs = false; bool name_dev_trunc_only = true; };

template <class Tag, class NativeImg, class DevA = DefaultDev>
void run_cases(Emit& e, Seed const& seed, std::vector<Case> const& cases, Opts const& o, std::string const& unit)
{
    const long need = needed_for_pixels(seed), hdr = header_end(seed);
    const std::string fmt = seed.format;
    const bool raw = [&] { for (auto const& r : seed.regions) if (std::string(r.name) == "rle") return false; return true; }();
    for (Case const& c : cases)
    {
        std::unique_ptr<ioc::ScratchFile> file;
        for (int dev = 0; dev < 3; ++dev)
        {
            if (!(o.devmask & (1 << dev))) continue;
            if (dev == ioc::DEV_NAME && o.name_dev_trunc_only && c.kind != 0 && c.kind != 4) continue;
            ioc::Source src{&c.bytes, "", true};
            if (dev == ioc::DEV_NAME || (dev == ioc::DEV_FILE && DevA::handle_needs_path)) { if (!file) file.reset(new ioc::ScratchFile("c11-" + std::string(seed.name), seed.format, c.bytes)); src.path = file->path; }
            for (int ep = 0; ep < EP_COUNT; ++ep)
            {
                std::string id = unit + "/" + c.id + "/" + ioc::dev_name(dev) + "/" + ep_name(ep);
                if (!e.begin(id)) continue;
                { itimerval it{}; it.it_value.tv_sec = e.case_limit(CASE_LIMIT_S); setitimer(ITIMER_REAL, &it, nullptr); }   // per-case watchdog
                Obs a = run_ep<Tag, NativeImg, DevA>(ep, dev, src, seed, 0x5A);
                if (a.na) { e.count("entry_point_not_provided_for_this_format"); e.end(false); continue; }
                Obs b = run_ep<Tag, NativeImg, DevA>(ep, dev, src, seed, 0xC3);
                e.count(std::string("outcome:") + a.cls);
                if (a.cls == "exc:non-std") e.fail("non-std-exception", "");
                if (ep == EP_VIEW_REGION_TOO_SMALL && c.kind == 4 && a.returned()) e.fail("undersized-view-accepted", "read_view of a (w-1)x(h-1) region into a (w-1)x(h-2) view of the valid seed returned normally");
                if (ep == EP_VIEW_REGION_TOO_SMALL && c.kind == 4) e.count("w:undersized_view_with_region_settings");
                if (!(a == b)) e.fail("result-depends-on-uninitialised-bytes", a.cls + " " + a.data + " vs " + b.cls + " " + b.data);
                // silent accept — only what the encoder's layout arithmetic proves
                if (a.returned() && b.returned())
                {
                    bool pixel_ep = ep != EP_INFO;
                    if (c.kind == 0)
                    {
                        if (ep == EP_INFO && hdr > 0 && c.trunc_at < hdr && fmt != "pnm") e.fail("silent-accept:truncated-header", vh::S() << "file cut at " << c.trunc_at << " of a " << hdr << "-byte header");
                        if (pixel_ep && need > 0 && c.trunc_at < need) e.fail("silent-accept:truncated-data", vh::S() << "file cut at " << c.trunc_at << ", pixel data needs " << need << " bytes");
                    }
                    if (c.kind == 1 && pixel_ep && raw && (c.field == "width" || c.field == "height"))
                    {
                        long orig = c.field == "width" ? seed.w : seed.h;
                        // a larger declared dimension needs more data than the file holds (top-down TARGA/BMP use |height|)
                        long need_dim = needed_with_dimension(seed, c.field, c.value);
                        if (c.value > orig && c.value < 0x8000 && need_dim > long(c.bytes.size()) && (ep == EP_IMAGE_RGB8 || ep == EP_IMAGE_RGBA8 || ep == EP_IMAGE_GRAY8 || ep == EP_CONVERT_IMAGE || ep == EP_SCANLINE))
                            e.fail("silent-accept:inflated-dimension", vh::S() << c.field << " " << orig << " -> " << c.value);
                    }
                }
                if (c.kind == 0) e.count("w:truncations"); else if (c.kind == 1) e.count("w:field_deviations"); else if (c.kind == 2) e.count("w:byte_deviations"); else if (c.kind == 3) e.count("w:pair_deviations");
                if (a.cls != "ret") e.count("w:rejected_with_exception"); else e.count("w:returned_normally");
                e.end(c.kind != 4);
            }
        }
    }
}

} // namespace c11
