// c16_threshold.hpp — C16 (part 1): threshold_binary / threshold_truncate compute, independently for every channel of
// every pixel, exactly the documented comparison against the threshold for each mode and direction.
//
//   u8, s8  : an image holding ALL 256 values x ALL 256 thresholds x 8 mode/direction/max variants
//             (i.e. every (value, threshold) pair)
//   rgb8    : three different per-channel ramps x all 256 thresholds (channel independence)
//   u16,s16 : boundary value sets (FULL16=1: all 65536 values) x boundary thresholds
//   f32     : plain-float channel, boundary set incl. -0.0, denormals, +-inf (NaN excluded: the two
//             documented phrasings "greater than" / "less than or equal" disagree only on unordered values)
// Documented behaviour (threshold.hpp doc comments), v = channel value, t = threshold, M = max value:
//   binary  regular: v > t ? M : 0          inverse: v > t ? 0 : M
//   truncate/threshold regular: v > t ? t : v      inverse: v <= t ? t : v
//   truncate/zero      regular: v <= t ? 0 : v     inverse: v > t ? 0 : v
#pragma once
#include "c16_common.hpp"
#include <boost/gil/image_processing/threshold.hpp>

namespace gil = boost::gil;
using namespace c16;

enum Mode { BIN_REG, BIN_INV, BIN_REG_MAX, BIN_INV_MAX, TR_T_REG, TR_T_INV, TR_Z_REG, TR_Z_INV, NMODES };
static const char* MODE_NAME[NMODES] = {"binary/regular/default-max", "binary/inverse/default-max", "binary/regular/explicit-max",
                                        "binary/inverse/explicit-max", "truncate/threshold/regular", "truncate/threshold/inverse",
                                        "truncate/zero/regular", "truncate/zero/inverse"};

template <class T> static T expect(int mode, T v, T t, T m)
{
    const bool gt = v > t;
    switch (mode)
    {
    case BIN_REG: case BIN_REG_MAX: return gt ? m : T(0);
    case BIN_INV: case BIN_INV_MAX: return gt ? T(0) : m;
    case TR_T_REG: return gt ? t : v;
    case TR_T_INV: return !gt ? t : v;       // "less than or equal ... set to threshold_value else no change"
    case TR_Z_REG: return !gt ? T(0) : v;    // "less than or equal ... set to 0 else no change"
    default: return gt ? T(0) : v;           // TR_Z_INV
    }
}

template <class SV, class DV, class T> static void call(int mode, SV const& s, DV const& d, T t, T m)
{
    using D = gil::threshold_direction; using TM = gil::threshold_truncate_mode;
    switch (mode)
    {
    case BIN_REG: gil::threshold_binary(s, d, t, D::regular); break;
    case BIN_INV: gil::threshold_binary(s, d, t, D::inverse); break;
    case BIN_REG_MAX: gil::threshold_binary(s, d, t, m, D::regular); break;
    case BIN_INV_MAX: gil::threshold_binary(s, d, t, m, D::inverse); break;
    case TR_T_REG: gil::threshold_truncate(s, d, t, TM::threshold, D::regular); break;
    case TR_T_INV: gil::threshold_truncate(s, d, t, TM::threshold, D::inverse); break;
    case TR_Z_REG: gil::threshold_truncate(s, d, t, TM::zero, D::regular); break;
    default: gil::threshold_truncate(s, d, t, TM::zero, D::inverse); break;
    }
}

template <class T> static std::string vstr(T v) { char b[48]; if (std::is_floating_point<T>::value) snprintf(b, sizeof b, "%.9g", double(v)); else snprintf(b, sizeof b, "%lld", (long long)v); return b; }
template <class T> static bool same(T a, T b) { return a == b; }

// value / threshold / explicit-max sets
template <class T> struct Sets;
template <> struct Sets<uint8_t>
{
    static std::vector<uint8_t> values(bool) { std::vector<uint8_t> v; for (int i = 0; i < 256; ++i) v.push_back(uint8_t(i)); return v; }
    static std::vector<uint8_t> thresholds() { return values(false); }
    static std::vector<uint8_t> maxes() { return {1, 200, 254}; }
};
template <> struct Sets<int8_t>
{
    static std::vector<int8_t> values(bool) { std::vector<int8_t> v; for (int i = -128; i < 128; ++i) v.push_back(int8_t(i)); return v; }
    static std::vector<int8_t> thresholds() { return values(false); }
    static std::vector<int8_t> maxes() { return {1, 100, -7}; }
};
template <> struct Sets<uint16_t>
{
    static std::vector<uint16_t> thresholds() { return {0, 1, 2, 254, 255, 256, 257, 32766, 32767, 32768, 32769, 65533, 65534, 65535}; }
    static std::vector<uint16_t> values(bool full)
    {
        if (!full) return thresholds();
        std::vector<uint16_t> v; for (int i = 0; i < 65536; ++i) v.push_back(uint16_t(i)); return v;
    }
    static std::vector<uint16_t> maxes() { return {1, 255, 40000}; }
};
template <> struct Sets<int16_t>
{
    static std::vector<int16_t> thresholds() { return {-32768, -32767, -32766, -257, -256, -255, -2, -1, 0, 1, 2, 255, 256, 257, 32765, 32766, 32767}; }
    static std::vector<int16_t> values(bool full)
    {
        if (!full) return thresholds();
        std::vector<int16_t> v; for (int i = -32768; i < 32768; ++i) v.push_back(int16_t(i)); return v;
    }
    static std::vector<int16_t> maxes() { return {1, 255, -300}; }
};
template <> struct Sets<float>
{
    static std::vector<float> thresholds()
    {
        const float inf = std::numeric_limits<float>::infinity(), den = std::numeric_limits<float>::denorm_min();
        return {-inf, -1e30f, -2.5f, -1.0f, -0.5f, -den, -0.0f, 0.0f, den, 0.25f, 0.5f, std::nextafter(0.5f, 1.0f), 0.75f,
                std::nextafter(1.0f, 0.0f), 1.0f, std::nextafter(1.0f, 2.0f), 2.0f, 255.0f, 1e30f, std::numeric_limits<float>::max(), inf};
    }
    static std::vector<float> values(bool) { return thresholds(); }
    static std::vector<float> maxes() { return {1.0f, 0.5f, 255.0f}; }
};

// T = value type of the oracle, Px = gray pixel type under test, DefaultMax = also run the overloads that
// take the maximum from std::numeric_limits (well defined for arithmetic channel types only)
template <class T, class Px, bool DefaultMax> static void run_gray(vh::Ctx& ctx, const char* tn)
{
    const bool full = ctx.B("FULL16", 0) != 0;
    const std::vector<T> vals = Sets<T>::values(full), ths = Sets<T>::thresholds(), maxes = Sets<T>::maxes();
    const int n = int(vals.size());
    const int w = n >= 65536 ? 256 : 16, h = (n + w - 1) / w;
    Buf<Px> src(w, h), dst(w, h);
    auto swv = src.view(); auto sv = src.cview(); auto dv = dst.view();
    for (int i = 0; i < w * h; ++i) swv(i % w, i / w)[0] = vals[i < n ? i : 0];
    for (T t : ths)
    {
        if (!ctx.take()) continue;
        ctx.cur = vh::S() << "thr/" << tn << "/t=" << vstr(t);
        for (int mode = 0; mode < NMODES; ++mode)
        {
            const bool explicit_max = mode == BIN_REG_MAX || mode == BIN_INV_MAX;
            if (!DefaultMax && (mode == BIN_REG || mode == BIN_INV)) continue;
            std::vector<T> ms = explicit_max ? maxes : std::vector<T>{(std::numeric_limits<T>::max)()};
            for (T m : ms)
            {
                dst.fill_bytes(0xA5);
                call(mode, sv, dv, t, m);
                ++ctx.evaluations;
                long bad = 0, above = 0, equal = 0; std::string first;
                for (int i = 0; i < w * h; ++i)
                {
                    T v = vals[i < n ? i : 0], got = dv(i % w, i / w)[0], exp = expect<T>(mode, v, t, m);
                    if (v > t) ++above;
                    if (v == t) ++equal;
                    if (!same(got, exp)) { if (!bad) first = vh::S() << "value " << vstr(v) << " -> " << vstr(got) << " expected " << vstr(exp); ++bad; }
                }
                ctx.counters["value_threshold_pairs"] += w * h;
                if (above > 0 && above < w * h) ++ctx.nontrivial;
                std::string id;
                auto mkid = [&]() { if (id.empty()) { id = vh::S() << "thr/" << tn << "/" << MODE_NAME[mode] << "/t=" << vstr(t); if (explicit_max) id += "/M=" + vstr(m); } return id; };
                if (bad) ctx.fail(mkid(), std::string("threshold!=documented-comparison:") + (mode < TR_T_REG ? "binary" : "truncate"), vh::S() << bad << " wrong pixel(s); first: " << first);
                if (!dst.g.intact()) ctx.fail(mkid(), "write-outside-destination");
                if (!src.g.intact()) ctx.fail(mkid(), "write-into-source-surroundings");
                ctx.san_take_lazy(mkid);
                ++ctx.witness[std::string("thr_") + MODE_NAME[mode]];
                ++ctx.witness[std::string("thr_type_") + tn];
                if (equal) ++ctx.witness["thr_value_equals_threshold"];
                if (above == 0) ++ctx.witness["thr_nothing_above"];
                if (above == w * h) ++ctx.witness["thr_everything_above"];
                if (mode == TR_T_INV && t == ths[ths.size() / 2]) ctx.sample(vh::S() << mkid() << ": " << above << " of " << w * h << " values above, all as documented");
            }
        }
        if (ctx.timed_out()) return;
    }
}


// Source and destination views with DIFFERENT channel types (the functions are templates over both views): the documented
// comparison is between the SOURCE sample and the threshold (which has the destination's channel type); "no change" stores
// the source sample converted to the destination channel type.
template <class TS, class PxS, class TD, class PxD> static void run_gray_mixed(vh::Ctx& ctx, const char* tn)
{
    const std::vector<TS> vals = Sets<TS>::values(false);
    const std::vector<TD> ths = Sets<TD>::thresholds(), maxes = Sets<TD>::maxes();
    const int n = int(vals.size());
    const int w = 16, h = (n + w - 1) / w;
    Buf<PxS> src(w, h); Buf<PxD> dst(w, h);
    auto swv = src.view(); auto sv = src.cview(); auto dv = dst.view();
    for (int i = 0; i < w * h; ++i) swv(i % w, i / w)[0] = vals[i < n ? i : 0];
    for (TD t : ths)
    {
        if (!ctx.take()) continue;
        ctx.cur = vh::S() << "thr/" << tn << "/t=" << vstr(t);
        for (int mode = 0; mode < NMODES; ++mode)
        {
            const bool explicit_max = mode == BIN_REG_MAX || mode == BIN_INV_MAX;
            std::vector<TD> ms = explicit_max ? maxes : std::vector<TD>{(std::numeric_limits<TD>::max)()};
            for (TD m : ms)
            {
                dst.fill_bytes(0xA5);
                call(mode, sv, dv, t, m);
                ++ctx.evaluations;
                long bad = 0, above = 0, narrowed_differs = 0; std::string first;
                for (int i = 0; i < w * h; ++i)
                {
                    TS v = vals[i < n ? i : 0];
                    const bool gt = (long long)v > (long long)t;
                    const TD keep = static_cast<TD>(v);
                    TD exp;
                    switch (mode)
                    {
                    case BIN_REG: case BIN_REG_MAX: exp = gt ? m : TD(0); break;
                    case BIN_INV: case BIN_INV_MAX: exp = gt ? TD(0) : m; break;
                    case TR_T_REG: exp = gt ? t : keep; break;
                    case TR_T_INV: exp = !gt ? t : keep; break;
                    case TR_Z_REG: exp = !gt ? TD(0) : keep; break;
                    default: exp = gt ? TD(0) : keep; break;
                    }
                    TD got = dv(i % w, i / w)[0];
                    if (gt) ++above;
                    if (((long long)keep > (long long)t) != gt) ++narrowed_differs;
                    if (!same(got, exp)) { if (!bad) first = vh::S() << "source value " << vstr(v) << " -> " << vstr(got) << " expected " << vstr(exp); ++bad; }
                }
                ctx.counters["value_threshold_pairs"] += w * h;
                if (above > 0 && above < w * h) ++ctx.nontrivial;
                std::string id = vh::S() << "thr/" << tn << "/" << MODE_NAME[mode] << "/t=" << vstr(t) << (explicit_max ? std::string("/M=") + vstr(m) : std::string());
                if (bad) ctx.fail(id, std::string("threshold!=documented-comparison:") + (mode < TR_T_REG ? "binary" : "truncate"), vh::S() << bad << " wrong pixel(s); first: " << first);
                if (!dst.g.intact()) ctx.fail(id, "write-outside-destination");
                ctx.san_take(id);
                ++ctx.witness[std::string("thr_mixed_") + tn];
                if (narrowed_differs) ++ctx.witness["thr_mixed_narrowing_changes_the_comparison"];
            }
        }
        if (ctx.timed_out()) return;
    }
}

// Source and destination ORGANISATIONS differ (the functions take two arbitrary views): whole contiguous image, sub-view of a larger
// canvas (rows not contiguous), up-down flipped view (negative row step), left-right flipped view (x step iterator).  Every ordered pair
// of organisations x every shape up to LW x LH x 8 modes x 3 thresholds.  Oracle: the documented comparison for every pixel of the
// destination view, every byte of the destination canvas outside the view unchanged, source canvas unchanged, guards intact.
static const char* ORG_NAME[4] = {"whole", "sub", "flipud", "fliplr"};
template <class Px> struct OrgCanvas
{
    int org, w, h, cw, ch, x0, y0;
    Buf<Px> buf;
    OrgCanvas(int org_, int w_, int h_) : org(org_), w(w_), h(h_), cw(org_ == 1 ? w_ + 3 : w_), ch(org_ == 1 ? h_ + 2 : h_), x0(org_ == 1 ? 2 : 0), y0(org_ == 1 ? 1 : 0), buf(cw, ch) {}
    // canvas coordinates of view pixel (x, y) — written from the definitions of the organisations, no GIL involved
    int cx(int x) const { return org == 3 ? w - 1 - x : x0 + x; }
    int cy(int y) const { return org == 2 ? h - 1 - y : y0 + y; }
    Px& at(int x, int y) { return reinterpret_cast<Px*>(buf.g.data())[size_t(cy(y)) * size_t(cw) + size_t(cx(x))]; }
    template <class F> void with_view(F f)
    {
        auto v = buf.view();
        if (org == 0) f(v);
        else if (org == 1) f(gil::subimage_view(v, x0, y0, w, h));
        else if (org == 2) f(gil::flipped_up_down_view(v));
        else f(gil::flipped_left_right_view(v));
    }
};
static void run_gray_layouts(vh::Ctx& ctx)
{
    using Px = gil::gray8_pixel_t; using T = uint8_t;
    const int LW = int(ctx.B("LW", 4)), LH = int(ctx.B("LH", 3));
    const T ths[3] = {0, 100, 254};
    for (int so = 0; so < 4; ++so) for (int dorg = 0; dorg < 4; ++dorg)
    {
        if (!ctx.take()) continue;
        for (int w = 1; w <= LW; ++w) for (int h = 1; h <= LH; ++h)
        {
            OrgCanvas<Px> S(so, w, h), D(dorg, w, h);
            for (T t : ths) for (int mode = 0; mode < NMODES; ++mode)
            {
                const T m = 200;
                S.buf.fill_bytes(0x11); D.buf.fill_bytes(0xA5);
                for (int y = 0; y < h; ++y) for (int x = 0; x < w; ++x) S.at(x, y)[0] = T(90 + 7 * (y * w + x));      // values on both sides of t = 100
                std::vector<unsigned char> s0(S.buf.g.data(), S.buf.g.data() + S.buf.g.size());
                S.with_view([&](auto sv) { D.with_view([&](auto dv) { call(mode, sv, dv, t, m); }); });
                ++ctx.evaluations; ++ctx.nontrivial;
                const std::string id = vh::S() << "thr_layouts/" << ORG_NAME[so] << ">" << ORG_NAME[dorg] << "/" << w << "x" << h << "/" << MODE_NAME[mode] << "/t=" << int(t);
                long bad = 0; std::string first;
                std::vector<char> inside(size_t(D.cw) * size_t(D.ch), 0);
                for (int y = 0; y < h; ++y) for (int x = 0; x < w; ++x)
                {
                    T v = S.at(x, y)[0], got = D.at(x, y)[0];
                    T exp = expect<T>(mode, v, t, (mode == BIN_REG || mode == BIN_INV) ? T(255) : m);
                    inside[size_t(D.cy(y)) * size_t(D.cw) + size_t(D.cx(x))] = 1;
                    if (got != exp) { if (!bad) first = vh::S() << "(" << x << "," << y << ") value " << int(v) << " -> " << int(got) << " expected " << int(exp); ++bad; }
                }
                long outside = 0;
                for (size_t i = 0; i < inside.size(); ++i) if (!inside[i] && D.buf.g.data()[i] != 0xA5) ++outside;
                if (bad) ctx.fail(id, std::string("threshold!=documented-comparison:") + (mode < TR_T_REG ? "binary" : "truncate"), vh::S() << bad << " wrong pixel(s); first: " << first);
                if (outside) ctx.fail(id, "write-outside-destination-view", vh::S() << outside << " canvas byte(s) around the destination view changed");
                if (!D.buf.g.intact()) ctx.fail(id, "write-outside-destination");
                if (!std::equal(s0.begin(), s0.end(), S.buf.g.data()) || !S.buf.g.intact()) ctx.fail(id, "source-modified");
                ctx.san_take_lazy([&]() { return id; });
                ++ctx.witness[std::string("thr_layouts_") + ORG_NAME[so] + ">" + ORG_NAME[dorg]];
                if (so == 0 && dorg == 1 && h >= 2) ++ctx.witness["thr_contiguous_source_into_sub_view"];
            }
        }
        if (ctx.timed_out()) return;
    }
}
