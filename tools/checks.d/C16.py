# registry fragment for C16 (exec'd by tools/checks.py with CHECKS, ASSUME_COMMON, NOT_APPLICABLE in scope)
#
# threshold.hpp does not compile for the float32_t channel (gray32f) on the unchanged tree (operands of ?: are
# `float32_t` and `int`; drafts/Fnew_C16_threshold_float32_channel_compile.patch).  A TU that does not build
# makes the driver stop with BUILD-ERROR, so harness/c16_thr_f32.cpp is only run when this switch is True.
# Set it to True once that patch (or an equivalent fix) is in /repo.
_C16_FLOAT32_T_CHANNEL_COMPILES = True

_c16_thr_deps = ['harness/c16_common.hpp', 'harness/c16_threshold.hpp']
_c16_q_otsu = dict(P=4, PC=1, CONST16=0)
_c16_t_otsu = dict(P=6, PC=2, CONST16=1)
_c16_f32_tu = [dict(name='c16_thr_f32', src='harness/c16_thr_f32.cpp', deps=_c16_thr_deps)] if _C16_FLOAT32_T_CHANNEL_COMPILES else []
_c16_f32_run = [dict(tu='c16_thr_f32', group='thr_gray32f', shards=1)] if _C16_FLOAT32_T_CHANNEL_COMPILES else []
CHECKS['C16'] = dict(
    level='exploration',
    technique='exhaustive finite-domain enumeration of the real threshold_binary/truncate/optimal, dilate/erode/opening/'
              'closing and median_filter on exactly-sized guarded buffers (ASan + canaries; Otsu in forked children with '
              'a watchdog, UBSan counted) against per-pixel definitions written as plain loops',
    rule='threshold: an image holding ALL 256 values of u8 / s8 x ALL 256 thresholds x {binary regular/inverse with '
         'default and 3 explicit max values, truncate threshold/zero x regular/inverse} (every (value,threshold) pair); '
         'rgb8 with three different per-channel ramps x all 256 thresholds; u16/s16/float on boundary sets (thorough: all '
         '65536 values). Otsu: every image of <= P pixels (all shapes incl. 0x0, 0x2, 2x0) over the alphabet {min, min+1, '
         'mid-1, mid, max-1, max} of u8, s8, u16, s16, both directions, every constant 1x1/2x2 image (8-bit: all values; '
         '16-bit: stride 257 quick / all 65536 thorough), rgb8/rgb16 images of <= PC pixels; oracle = returns, no '
         'sanitizer report, dst is (src > t ? M : 0) for some t, M per channel. Morphology: ALL binary images with <= PB '
         'cells and all {0,1,2}-images with <= PT cells (w,h <= 5, plus empty shapes) x every 3x3 structuring element '
         'invariant under transposition and 180-degree rotation with non-zero centre (8) + 5x5 cross/box/disc/diagonal '
         '(thorough: all 256 symmetric 5x5) x {dilate, erode} x {1,2 iterations}, opening, closing, their second '
         'application, and every comparable pair of binary images with <= PM cells (monotonicity); rgb8 triples of '
         'binary images. Median: all {0,1,2}-images with <= PMED cells x k in {1,3,..,KMAX}; rgb8 triples. A case = one '
         'GIL call with every output pixel compared; distinct by construction (the loop index is the image); non-trivial '
         '= non-constant image (threshold: some but not all values above the threshold).',
    assumptions=ASSUME_COMMON + [
        'view(x,y)[c] addressing of harness buffers is correct (validated by C02/C03)',
        'structuring elements: "symmetric" = invariant under transposition and under 180-degree rotation, centre in the middle and non-zero (GIL applies the transposed/reflected element and always includes the centre pixel; not reported, per DESIGN.md)',
        'Otsu: nothing is assumed about WHICH threshold is chosen; termination is decided by a 10 s watchdog per case',
        'threshold on float: NaN excluded (the documented phrasings "greater than" and "less than or equal" differ only on unordered values); float32_t (gray32f) does not compile on the unchanged tree and is run only after the fix (switch in tools/checks.d/C16.py)',
        'UBSan reports count for Otsu only (the statement says "without undefined behaviour" there); ASan reports and canaries count everywhere',
        'median_filter / morphology on sources without pixels: morphology is run (memory only); median is not (edge replication is undefined without an edge)',
    ],
    tus=[dict(name='c16_threshold', src='harness/c16_threshold.cpp', deps=_c16_thr_deps),
         dict(name='c16_otsu', src='harness/c16_otsu.cpp', deps=['harness/c16_common.hpp']),
         dict(name='c16_morph_median', src='harness/c16_morph_median.cpp', deps=['harness/c16_common.hpp'])] + _c16_f32_tu,
    runs=dict(
        quick=[dict(tu='c16_threshold', group=g, shards=1) for g in ('thr_u8', 'thr_s8', 'thr_u16', 'thr_s16', 'thr_f32', 'thr_rgb8', 'thr_mixed', 'thr_layouts')] + _c16_f32_run +
              [dict(tu='c16_otsu', group=g, bounds=_c16_q_otsu, shards=2) for g in ('otsu_u8', 'otsu_s8', 'otsu_u16', 'otsu_s16')] +
              [dict(tu='c16_otsu', group=g, bounds=_c16_q_otsu, shards=1) for g in ('otsu_rgb8', 'otsu_rgb16')] +
              [dict(tu='c16_morph_median', group='morph', bounds=dict(PB=9, PT=6, PM=6, SE5=0), shards=4),
               dict(tu='c16_morph_median', group='morph_rgb8', bounds=dict(PC=3), shards=1),
               dict(tu='c16_morph_median', group='morph_signed', bounds=dict(PS=6, VS=3), shards=4),
               dict(tu='c16_morph_median', group='median', bounds=dict(PMED=9, KMAX=5), shards=4),
               dict(tu='c16_morph_median', group='median_rgb8', bounds=dict(PCM=2), shards=1)],
        thorough=[dict(tu='c16_threshold', group=g, shards=2) for g in ('thr_u8', 'thr_s8', 'thr_rgb8')] +
                 [dict(tu='c16_threshold', group=g, bounds=dict(FULL16=1), shards=2) for g in ('thr_u16', 'thr_s16')] +
                 [dict(tu='c16_threshold', group='thr_f32', shards=1), dict(tu='c16_threshold', group='thr_mixed', shards=2), dict(tu='c16_threshold', group='thr_layouts', bounds=dict(LW=9, LH=6), shards=4)] + _c16_f32_run +
                 [dict(tu='c16_otsu', group=g, bounds=_c16_t_otsu, shards=12) for g in ('otsu_u8', 'otsu_s8', 'otsu_u16', 'otsu_s16')] +
                 [dict(tu='c16_otsu', group=g, bounds=_c16_t_otsu, shards=4) for g in ('otsu_rgb8', 'otsu_rgb16')] +
                 [dict(tu='c16_morph_median', group='morph', bounds=dict(PB=12, PT=8, PM=8, SE5=1), shards=48),
                  dict(tu='c16_morph_median', group='morph_rgb8', bounds=dict(PC=4), shards=6),
                  dict(tu='c16_morph_median', group='morph_signed', bounds=dict(PS=8, VS=3), shards=16),
                  dict(tu='c16_morph_median', group='median', bounds=dict(PMED=10, KMAX=7), shards=24),
                  dict(tu='c16_morph_median', group='median_rgb8', bounds=dict(PCM=3), shards=4)]),
    witnesses_required=dict(all=[
        'thr_binary/regular/default-max', 'thr_binary/inverse/default-max', 'thr_binary/regular/explicit-max',
        'thr_binary/inverse/explicit-max', 'thr_truncate/threshold/regular', 'thr_truncate/threshold/inverse',
        'thr_truncate/zero/regular', 'thr_truncate/zero/inverse', 'thr_type_u8', 'thr_type_s8', 'thr_type_u16',
        'thr_type_s16', 'thr_type_f32', 'thr_type_rgb8', 'thr_value_equals_threshold', 'thr_nothing_above',
        'thr_channels_differ_per_pixel', 'thr_mixed_narrowing_changes_the_comparison', 'thr_contiguous_source_into_sub_view', 'morph_rgb8_into_bgr8',
        'otsu_u8', 'otsu_s8', 'otsu_u16', 'otsu_s16', 'otsu_rgb8', 'otsu_rgb16', 'otsu_regular', 'otsu_inverse',
        'otsu_constant_image', 'otsu_empty_image',
        'morph_se3', 'morph_se5', 'morph_dilate_changes_image', 'morph_erode_changes_image', 'morph_opening_changes_image',
        'morph_second_iteration_differs', 'morph_idempotence_checked', 'morph_monotone_pairs_checked',
        'morph_non_square_image', 'morph_empty_image', 'morph_rgb8_channels', 'morph_gray8s', 'morph_gray16s', 'morph_gray16',
        'median_k1', 'median_k3', 'median_k5', 'median_window_wider_than_image', 'median_changes_image',
        'median_rgb8_channels'] + (['thr_float32_t_channel'] if _C16_FLOAT32_T_CHANNEL_COMPILES else [])),
    deadline=dict(quick=300, thorough=2400),
)
