#!/bin/bash
# validate_seed.sh CNN [tag] — confirm an independently seeded breaking change (worktree /tmp/seed_<tag>, default tag = CNN):
#   the patch applies to a clean checkout of /repo HEAD, the repository suite still passes with it, the demonstration
#   passes without and fails with it, and the property's quick check reports it. Keeps it under /verif/seeded/<tag>/.
P=$1; TAG=${2:-$1}; SRCDIR=${3:-/tmp/seed_$TAG}; SRC=$SRCDIR/seed; VAL=/tmp/val_$TAG; OUT=/verif/seeded/$TAG
set -u
[ -f $SRC/patch.diff ] || { echo "$TAG: no patch.diff"; exit 2; }
git -C /repo worktree remove --force $VAL >/dev/null 2>&1; rm -rf $VAL
git -C /repo worktree add -q $VAL HEAD || exit 2
if ! git -C $VAL apply $SRC/patch.diff; then echo "$TAG: PATCH DOES NOT APPLY"; git -C /repo worktree remove --force $VAL; exit 3; fi
( cd $VAL && cmake -G Ninja -S . -B _build -DCMAKE_BUILD_TYPE=RelWithDebInfo -DCMAKE_CXX_FLAGS=-Wno-error -DBOOST_GIL_BUILD_EXAMPLES=OFF -DBOOST_GIL_BUILD_HEADER_TESTS=OFF >/dev/null 2>&1 && cmake --build _build -j${VERIF_JOBS:-8} >/dev/null 2>&1 )
SUITE=$(ctest --test-dir $VAL/_build -j8 2>&1 | grep "tests passed" | head -1)
LIBS=""; grep -q "extension/io" $SRC/demo.cpp && LIBS="-lpng -ljpeg -ltiff -lz"
mkdir -p /verif/build/seedval
g++ -std=c++14 -I/repo/include $SRC/demo.cpp -o /verif/build/seedval/demo0_$TAG $LIBS 2>/dev/null; ( cd /verif/build/seedval && timeout 300 ./demo0_$TAG >/dev/null 2>&1 ); D0=$?
g++ -std=c++14 -I$VAL/include $SRC/demo.cpp -o /verif/build/seedval/demo1_$TAG $LIBS 2>/dev/null; ( cd /verif/build/seedval && timeout 300 ./demo1_$TAG > /verif/build/seedval/demo1_$TAG.out 2>&1 ); D1=$?
CHK=$(cd /verif && python3 tools/vcheck.py $P --tier quick --repo $VAL --no-evidence 2>&1)
RC=$?
NV=$(echo "$CHK" | grep -c "^VIOLATION")
SIGS=$(echo "$CHK" | grep "^  case=" | sed 's/.*sig=\([^ ]*\).*/\1/' | sort -u | head -8 | tr '\n' ',')
FIRST=$(echo "$CHK" | grep "^  case=" | head -1 | cut -c1-300)
rm -rf /verif/replays/$P
echo "$TAG: suite=[$SUITE] demo_without=$D0 demo_with=$D1 check_rc=$RC violations=$NV sigs=$SIGS"
if [ -n "$SUITE" ] && echo "$SUITE" | grep -q "100% tests passed, 0 tests failed out of 132" && [ $D0 -eq 0 ] && [ $D1 -ne 0 ]; then
  mkdir -p $OUT; cp $SRC/patch.diff $SRC/demo.cpp $OUT/; [ -f $SRC/notes.md ] && cp $SRC/notes.md $OUT/
  python3 - "$P" "$TAG" "$SUITE" "$D0" "$D1" "$RC" "$NV" "$SIGS" "$FIRST" <<'PY'
import json,sys,subprocess
p,tag,suite,d0,d1,rc,nv,sigs,first=sys.argv[1:10]
head=subprocess.run(['git','-C','/repo','log','--format=%h','-1'],stdout=subprocess.PIPE,text=True).stdout.strip()
notes=''
try: notes=open('/verif/seeded/%s/notes.md'%tag).read()
except Exception: pass
json.dump(dict(property=p, seed=tag, source='independent sub-agent given only the property text and a scratch worktree',
  repo_head_when_validated=head,
  needs_to_manifest='see notes.md (written by the sub-agent)',
  ran=['git apply patch.diff on a clean worktree of /repo HEAD', 'cmake --build + ctest of the whole repository suite with the change: '+suite,
       'demo.cpp against /repo/include: exit %s; against the changed tree: exit %s'%(d0,d1),
       'python3 tools/vcheck.py %s --tier quick --repo <changed tree> --no-evidence: exit %s, %s VIOLATION lines'%(p,rc,nv)],
  caught_by_quick_check=(rc=='1' and int(nv)>0), failure_signatures=[s for s in sigs.split(',') if s], first_violation=first),
  open('/verif/seeded/%s/meta.json'%tag,'w'), indent=1)
PY
  echo "$TAG: kept under $OUT"
else
  echo "$TAG: NOT KEPT (suite/demo conditions not met)"
fi
git -C /repo worktree remove --force $VAL; rm -rf $VAL
