# registry fragment for C20 (exec'd by tools/checks.py with CHECKS, ASSUME_COMMON, NOT_APPLICABLE in scope)
CHECKS['C20'] = dict(
    level='exploration',
    technique='exhaustive finite-domain enumeration of the real rasterizers against integer geometric predicates; '
              'outputs in exactly-sized guard buffers, apply_rasterizer on bounding-box views inside canary canvases',
    rule='line: every ordered pair (start,end) of the (2N+1)^2 window; case = the pair, distinct by construction, '
         'non-trivial = neither axis-parallel, diagonal nor a single point. circle: both rasterizers x every radius '
         '0..R x 4 centres + apply_rasterizer on 2 views containing the bounding box; non-trivial = r >= 2. '
         'ellipse: every semi-axes pair (a,b) in 1..A; trajectory + drawing on bounding box (+1 ring) views; '
         'non-trivial = a != b, both > 1.',
    assumptions=ASSUME_COMMON + [
        '"within one pixel of the ideal curve": circle (r-1)^2 <= d^2 <= (r+1)^2; ellipse: the curve crosses the closed '
        'square [x-1,x+1]x[y-1,y+1] (exact integers); line: |minor*D - major*d| <= |D|',
        '"closed": the centre is not 4-connected to the outside of the bounding box through unpainted pixels; circles '
        'additionally: every point has >= 2 8-neighbours in the set (r >= 2)',
        'the ellipse rasterizer has no point_count(); its count clause is not applicable',
        'radii 0..R and semi-axes 1..A only (documented domain); centres are translation representatives',
    ],
    tus=[dict(name='c20_raster', src='harness/c20_raster.cpp')],
    runs=dict(
        quick=[dict(tu='c20_raster', group='line', bounds=dict(N=8, cap=64), shards=6),
               dict(tu='c20_raster', group='circle', bounds=dict(R=64), shards=2),
               dict(tu='c20_raster', group='ellipse', bounds=dict(A=32), shards=2)],
        thorough=[dict(tu='c20_raster', group='line', bounds=dict(N=20, cap=16), shards=24),
                  dict(tu='c20_raster', group='circle', bounds=dict(R=1024), shards=12),
                  dict(tu='c20_raster', group='ellipse', bounds=dict(A=160), shards=12)]),
    witnesses_required=dict(all=['line_through_back_inserter', 'line_octant_0', 'line_octant_1', 'line_octant_2', 'line_octant_3', 'line_octant_4',
                                 'line_octant_5', 'line_octant_6', 'line_octant_7', 'line_axis_parallel', 'line_diagonal',
                                 'line_single_point', 'line_shallow_4to1', 'line_apply_painted', 'circle_trigonometric',
                                 'circle_midpoint', 'circle_apply_painted', 'ellipse_thin', 'ellipse_general',
                                 'ellipse_circle_like', 'ellipse_apply_painted']),
    deadline=dict(quick=300, thorough=2400),
)
