// C07 — channel_multiply / channel_invert satisfy their scaled-arithmetic laws.
//
// Every clause of the property statement is checked on every enumerated case against exact
// integer (__int128) / long double arithmetic that never calls GIL:
//   multiply:  |r - a*b/max| <= 1 unit   (float: within float rounding)
//              r(a,b) == r(b,a)                      commutative
//              r(a,b) <= r(a,b+1), r(a,b) <= r(a+1,b) monotone in each argument
//              r(a,max) == a == r(max,a)             maximum is the identity
//              r(a,min) == min == r(min,a)           minimum is the annihilator
//              min <= r <= max                       never outside the channel range
//   for signed channels all of this "after the documented shift to the unsigned range": operands and
//   result are taken as index = value - min (0..max-min), the reference is ia*ib/(max-min).
//   invert:    r == max - x + min exactly, invert(invert(x)) == x, min <= r <= max.
// All values below are handled as such indices; ids print the real channel values.
#include "vh.hpp"
#include "chan_models.hpp"
#include <boost/mp11.hpp>
#include <cfloat>

namespace gil = boost::gil;
namespace mp = boost::mp11;
using namespace cm;

// ------------------------------------------------------------------------------------------------
// adaptors: a channel model seen as indices 0..maxi
// ------------------------------------------------------------------------------------------------
template <class T> struct ValAd
{
    using Mo = M<T>;
    static std::string name() { return Mo::name(); }
    static uint64_t maxi() { return Mo::count() - 1; }
    static bool is_signed() { return Mo::lo() < 0; }
    static long long value_of(uint64_t idx) { return (long long)(Mo::lo() + i128(idx)); }
    static inline int64_t mul(uint64_t a, uint64_t b)
    {
        return int64_t(Mo::to_int(gil::channel_multiply(Mo::make(a), Mo::make(b))) - Mo::lo());
    }
    static inline int64_t inv(uint64_t x) { return int64_t(Mo::to_int(gil::channel_invert(Mo::make(x))) - Mo::lo()); }
};

template <class Ref, class Field> static Ref c07_mk(Field* f, int, std::false_type) { return Ref(f); }
template <class Ref, class Field> static Ref c07_mk(Field* f, int fb, std::true_type) { return Ref(f, unsigned(fb)); }

// channel *references* into bit fields: the operands live at [FB, FB+NB) of two different fields whose
// other bits are a background pattern; the field is written here with plain shifts (no GIL).
template <class Ref, class Field, int FB, int NB, bool DYN, int TAG> struct RefAd
{
    static const char*& nm() { static const char* n = ""; return n; }
    static std::string name() { return nm(); }
    static uint64_t maxi() { return (uint64_t(1) << NB) - 1; }
    static bool is_signed() { return false; }
    static long long value_of(uint64_t idx) { return (long long)idx; }
    static Field place(Field bg, uint64_t v)
    {
        Field mask = Field(Field(maxi()) << FB);
        return Field((bg & Field(~mask)) | Field(Field(v) << FB));
    }
    static inline int64_t mul(uint64_t a, uint64_t b)
    {
        Field fa = place(Field(0xA5A5A5A5A5A5A5A5ull), a), fb = place(Field(0x3C3C3C3C3C3C3C3Cull), b);
        Ref ra = c07_mk<Ref, Field>(&fa, FB, std::integral_constant<bool, DYN>());
        Ref rb = c07_mk<Ref, Field>(&fb, FB, std::integral_constant<bool, DYN>());
        auto r = gil::channel_multiply(ra, rb);
        return int64_t(uint64_t(typename Ref::integer_t(r)));
    }
    static inline int64_t inv(uint64_t x)
    {
        Field fa = place(Field(0x5A5A5A5A5A5A5A5Aull), x);
        Ref ra = c07_mk<Ref, Field>(&fa, FB, std::integral_constant<bool, DYN>());
        auto r = gil::channel_invert(ra);
        return int64_t(uint64_t(typename Ref::integer_t(r)));
    }
};

// ------------------------------------------------------------------------------------------------
// multiply laws on one ordered pair
// ------------------------------------------------------------------------------------------------
template <class Ad> struct MulCheck
{
    vh::Ctx& ctx;
    std::string nm;
    uint64_t mx;
    long fails_unit = 0;
    long rounded_up = 0, inexact = 0;

    MulCheck(vh::Ctx& c) : ctx(c), nm(Ad::name()), mx(Ad::maxi()) {}

    void bad(const char* sig, uint64_t a, uint64_t b, int64_t r, std::string const& extra = "")
    {
        ++fails_unit;
        ctx.fail(vh::S() << nm << "/a=" << Ad::value_of(a) << ",b=" << Ad::value_of(b), sig,
                 vh::S() << "result=" << (long long)(r + (Ad::value_of(0))) << " (shifted: a=" << a << " b=" << b << " r=" << (long long)r
                         << " exact=" << (double)((long double)a * (long double)b / (long double)mx) << ") " << extra);
    }

    inline void pair(uint64_t a, uint64_t b)
    {
        const int64_t r = Ad::mul(a, b);
        ++ctx.evaluations;
        if (a != 0 && b != 0 && a != mx && b != mx) ++ctx.nontrivial;
        // never outside the channel range
        if (r < 0 || uint64_t(r) > mx) bad("out-of-range", a, b, r);
        // equals a*b/max within one unit:  |r*max - a*b| <= max   (exact integers)
        const i128 prod = i128(a) * i128(b);
        i128 d = i128(r) * i128(mx) - prod;
        if (d < 0) d = -d;
        if (d > i128(mx)) bad("error>1unit", a, b, r);
        if (prod % i128(mx) != 0) { ++inexact; if (i128(r) * i128(mx) > prod) ++rounded_up; }
        // commutative
        const int64_t s = Ad::mul(b, a);
        if (s != r) bad("not-commutative", a, b, r, vh::S() << "r(b,a) shifted=" << (long long)s);
        // monotone in each argument
        if (b < mx) { const int64_t r2 = Ad::mul(a, b + 1); if (r2 < r) bad("not-monotone-in-b", a, b, r, vh::S() << "r(a,b+1) shifted=" << (long long)r2); }
        if (a < mx) { const int64_t r3 = Ad::mul(a + 1, b); if (r3 < r) bad("not-monotone-in-a", a, b, r, vh::S() << "r(a+1,b) shifted=" << (long long)r3); }
        // channel maximum is the identity, minimum the annihilator (both argument positions)
        if (b == mx && r != int64_t(a)) bad("max-not-identity", a, b, r);
        if (a == mx && r != int64_t(b)) bad("max-not-identity", a, b, r);
        if ((b == 0 || a == 0) && r != 0) bad("min-not-annihilator", a, b, r);
    }
};

static const uint64_t UNIT_PAIRS = uint64_t(1) << 24;   // pairs per shard unit in dense scans

// every ordered pair (a,b) of the model
template <class Ad> static void all_pairs(vh::Ctx& ctx)
{
    const uint64_t n = Ad::maxi() + 1;
    uint64_t rows = UNIT_PAIRS / n; if (rows < 1) rows = 1; if (rows > n) rows = n;
    bool took = false; long total_fail = 0, ru = 0, ix = 0;
    for (uint64_t a0 = 0; a0 < n; a0 += rows)
    {
        if (!ctx.take()) continue;
        took = true;
        ctx.cur = vh::S() << Ad::name() << "/rows " << a0 << "..";
        MulCheck<Ad> mc(ctx);
        const uint64_t a1 = std::min(n, a0 + rows);
        // models of <= 12 bits report their complete failing set; wider ones stop a unit after the row that reaches 64
        const long cap = n <= 4096 ? (1L << 30) : 64;
        for (uint64_t a = a0; a < a1 && mc.fails_unit < cap; ++a)
            for (uint64_t b = 0; b < n; ++b) mc.pair(a, b);
        if (mc.fails_unit >= cap) ++ctx.counters["units_stopped_after_64_failures"];
        total_fail += mc.fails_unit; ru += mc.rounded_up; ix += mc.inexact;
        if (a0 == 0 && n > 3)
        {
            uint64_t a = n / 3 + 1, b = (2 * n) / 3;
            ctx.sample(vh::S() << Ad::name() << ": " << Ad::value_of(a) << " * " << Ad::value_of(b) << " -> "
                               << (long long)(Ad::mul(a, b) + Ad::value_of(0)) << "  (all " << n << "^2 ordered pairs)");
        }
        if (ctx.timed_out()) return;
    }
    if (!took) return;
    ctx.counters["inexact_products"] += ix;
    ctx.witness["results_rounded_up"] += ru;
    ++ctx.witness["models_all_pairs"];
    if (Ad::is_signed()) ++ctx.witness["models_signed"];
    if (total_fail) ++ctx.witness["models_failing"]; else ++ctx.witness["models_clean"];
}

// the B-side stratum for wide models: corners, every power of two and its neighbours, thirds, 8-bit replicas
static std::vector<uint64_t> bset(uint64_t mx, bool extended = false)
{
    std::vector<uint64_t> v;
    auto add = [&](i128 x) { if (x >= 0 && x <= i128(mx)) v.push_back(uint64_t(x)); };
    for (int i = 0; i <= 3; ++i) { add(i); add(i128(mx) - i); }
    for (int k = 1; k < 40; ++k) for (int d = -1; d <= 1; ++d) add((i128(1) << k) + d);
    add(mx / 2); add(mx / 2 + 1); add(mx / 3); add(mx / 3 * 2); add(mx / 3 + 1); add(mx / 5); add(mx / 7 * 3);
    for (int k = 0; k <= 255; k += 17) add(i128(mx) / 255 * k);
    if (extended) for (int k = 0; k <= 1021; ++k) for (int d = -1; d <= 1; ++d) add(i128(mx) / 1021 * k + d);
    std::sort(v.begin(), v.end());
    v.erase(std::unique(v.begin(), v.end()), v.end());
    return v;
}

// every a of A (dense 0..maxi, or the complete 32-bit stratum) against every b of bset, plus (a,a), (a,max-a)
template <class Ad> static void strat_pairs(vh::Ctx& ctx, bool a_stratum32, bool b_extended = false)
{
    const uint64_t mx = Ad::maxi();
    std::vector<uint64_t> B = bset(mx, b_extended);
    IndexSet A; if (a_stratum32) A = stratum32(); else { A.dense = true; A.a = 0; A.b = mx + 1; }
    const uint64_t na = A.size(), CH = 4096;
    bool took = false; long total_fail = 0, ru = 0, ix = 0;
    for (uint64_t i0 = 0; i0 < na; i0 += CH)
    {
        if (!ctx.take()) continue;
        took = true;
        ctx.cur = vh::S() << Ad::name() << "/stratified a-chunk " << i0;
        MulCheck<Ad> mc(ctx);
        for (uint64_t i = i0; i < std::min(na, i0 + CH) && mc.fails_unit < 64; ++i)
        {
            uint64_t a = A.dense ? A.a + i : A.list[i];
            for (uint64_t b : B) mc.pair(a, b);
            if (!std::binary_search(B.begin(), B.end(), a)) mc.pair(a, a);
            uint64_t c = mx - a;
            if (c != a && !std::binary_search(B.begin(), B.end(), c)) mc.pair(a, c);
        }
        if (mc.fails_unit >= 64) ++ctx.counters["units_stopped_after_64_failures"];
        total_fail += mc.fails_unit; ru += mc.rounded_up; ix += mc.inexact;
        if (i0 == 0)
            ctx.sample(vh::S() << Ad::name() << ": " << Ad::value_of(mx / 3 + 1) << " * " << Ad::value_of(mx / 3 * 2) << " -> "
                               << (long long)(Ad::mul(mx / 3 + 1, mx / 3 * 2) + Ad::value_of(0)) << "  (" << na << " a-values x " << B.size() << " b-values + diagonals)");
        if (ctx.timed_out()) return;
    }
    if (!took) return;
    ctx.counters["inexact_products"] += ix;
    ctx.witness["results_rounded_up"] += ru;
    ++ctx.witness["models_stratified"];
    if (Ad::is_signed()) ++ctx.witness["models_signed"];
    if (total_fail) ++ctx.witness["models_failing"]; else ++ctx.witness["models_clean"];
}

template <int N> using PV = gil::packed_channel_value<N>;

// --- 8-bit and packed 1..8: all pairs (DESIGN §3 C07) ---------------------------------------------
VH_GROUP(mul8)
{
    all_pairs<ValAd<uint8_t>>(ctx); all_pairs<ValAd<int8_t>>(ctx);
    all_pairs<ValAd<PV<1>>>(ctx); all_pairs<ValAd<PV<2>>>(ctx); all_pairs<ValAd<PV<3>>>(ctx); all_pairs<ValAd<PV<4>>>(ctx);
    all_pairs<ValAd<PV<5>>>(ctx); all_pairs<ValAd<PV<6>>>(ctx); all_pairs<ValAd<PV<7>>>(ctx); all_pairs<ValAd<PV<8>>>(ctx);
}
// --- packed 9..12: all pairs (extension of the design: the statement says "all pairs for packed channels")
VH_GROUP(mulp12)
{
    all_pairs<ValAd<PV<9>>>(ctx); all_pairs<ValAd<PV<10>>>(ctx); all_pairs<ValAd<PV<11>>>(ctx); all_pairs<ValAd<PV<12>>>(ctx);
}
// --- uint16 / int16: full=0 every a x stratum of b + diagonals; full=1 all 2^32 pairs ---------------
VH_GROUP(mul16)
{
    if (ctx.B("full", 0)) { all_pairs<ValAd<uint16_t>>(ctx); all_pairs<ValAd<int16_t>>(ctx); }
    else { strat_pairs<ValAd<uint16_t>>(ctx, false); strat_pairs<ValAd<int16_t>>(ctx, false); }
}
// --- packed 13..16 (extension): same two modes --------------------------------------------------------
VH_GROUP(mulp16)
{
    if (ctx.B("full", 0)) { all_pairs<ValAd<PV<13>>>(ctx); all_pairs<ValAd<PV<14>>>(ctx); all_pairs<ValAd<PV<15>>>(ctx); all_pairs<ValAd<PV<16>>>(ctx); }
    else { strat_pairs<ValAd<PV<13>>>(ctx, false); strat_pairs<ValAd<PV<14>>>(ctx, false); strat_pairs<ValAd<PV<15>>>(ctx, false); strat_pairs<ValAd<PV<16>>>(ctx, false); }
}
// --- uint32 / int32 (extension): complete stratum of a (chan_models stratum32) x stratum of b -----------
VH_GROUP(mul32)
{
    const bool bx = ctx.B("bx", 0) != 0;     // bx=1: the b stratum additionally holds k*(max/1021) +-1, k = 0..1021
    strat_pairs<ValAd<uint32_t>>(ctx, true, bx); strat_pairs<ValAd<int32_t>>(ctx, true, bx);
}

// --- channel references: the same laws through packed_channel_reference / packed_dynamic_channel_reference
VH_GROUP(mulrefs)
{
#define C07_REF(TAG, NAME, REF, FIELD, FB, NB, DYN)                                   \
    { using Ad = RefAd<REF, FIELD, FB, NB, DYN, TAG>; Ad::nm() = NAME; all_pairs<Ad>(ctx); ++ctx.witness["ref_models"]; }
    { using MR0 = gil::packed_channel_reference<uint8_t, 0, 3, true>; C07_REF(0, "pref<u8,0,3>", MR0, uint8_t, 0, 3, false) }
    { using MR1 = gil::packed_channel_reference<uint8_t, 3, 5, true>; C07_REF(1, "pref<u8,3,5>", MR1, uint8_t, 3, 5, false) }
    { using MR2 = gil::packed_channel_reference<uint16_t, 5, 6, true>; C07_REF(2, "pref<u16,5,6>", MR2, uint16_t, 5, 6, false) }
    { using MR3 = gil::packed_channel_reference<uint16_t, 11, 5, false>; C07_REF(3, "cpref<u16,11,5>", MR3, uint16_t, 11, 5, false) }
    { using MR4 = gil::packed_channel_reference<uint32_t, 10, 9, true>; C07_REF(4, "pref<u32,10,9>", MR4, uint32_t, 10, 9, false) }
    { using MR5 = gil::packed_channel_reference<uint64_t, 40, 7, true>; C07_REF(5, "pref<u64,40,7>", MR5, uint64_t, 40, 7, false) }
    { using MR6 = gil::packed_dynamic_channel_reference<uint8_t, 2, true>; C07_REF(6, "dref<u8,2>@5", MR6, uint8_t, 5, 2, true) }
    { using MR7 = gil::packed_dynamic_channel_reference<uint16_t, 7, true>; C07_REF(7, "dref<u16,7>@7", MR7, uint16_t, 7, 7, true) }
    { using MR8 = gil::packed_dynamic_channel_reference<uint32_t, 9, false>; C07_REF(8, "cdref<u32,9>@6", MR8, uint32_t, 6, 9, true) }
}

// ------------------------------------------------------------------------------------------------
// float32_t multiply: complete grid k/G (+ `nb` ulp neighbours of every grid point; always the
// nextafter neighbours of 0 and 1), all ordered pairs
// ------------------------------------------------------------------------------------------------
static float f_of(uint32_t b) { float f; std::memcpy(&f, &b, 4); return f; }
static uint32_t b_of(float f) { uint32_t b; std::memcpy(&b, &f, 4); return b; }
static std::string fstr(float f) { char b[48]; snprintf(b, sizeof b, "%.9g", double(f)); return b; }

VH_GROUP(mulf)
{
    const long G = ctx.B("G", 32), NB = ctx.B("nb", 0);
    const uint32_t ONE = 0x3f800000u;
    std::vector<uint32_t> bits;
    for (long k = 0; k <= G; ++k)
    {
        uint32_t c = b_of(float(double(k) / double(G)));
        for (long d = -NB; d <= NB; ++d) { int64_t x = int64_t(c) + d; if (x >= 0 && x <= int64_t(ONE)) bits.push_back(uint32_t(x)); }
    }
    bits.push_back(1); bits.push_back(2); bits.push_back(ONE - 1); bits.push_back(ONE - 2);
    bits.push_back(0x00800000u); bits.push_back(0x007fffffu);     // smallest normal, largest denormal
    std::sort(bits.begin(), bits.end()); bits.erase(std::unique(bits.begin(), bits.end()), bits.end());
    const size_t n = bits.size();
    auto mul = [](float a, float b) { return float(gil::channel_multiply(gil::float32_t(a), gil::float32_t(b))); };
    long fails = 0;
    auto bad = [&](const char* sig, float a, float b, float r, std::string const& extra) {
        ++fails;
        ctx.fail("float32/a=" + fstr(a) + ",b=" + fstr(b), sig, "result=" + fstr(r) + " " + extra);
    };
    for (size_t i = 0; i < n; ++i)
    {
        if (!ctx.take()) continue;
        if (fails >= 64) break;
        const float a = f_of(bits[i]);
        ctx.cur = "float32/a=" + fstr(a);
        for (size_t j = 0; j < n; ++j)
        {
            const float b = f_of(bits[j]);
            const float r = mul(a, b);
            ++ctx.evaluations;
            if (a != 0 && b != 0 && a != 1 && b != 1) ++ctx.nontrivial;
            if (!(r >= 0.0f && r <= 1.0f)) bad("out-of-range", a, b, r, "");
            // within float rounding of the exact product (exact in long double: 24 x 24 bit mantissas)
            const long double exact = (long double)a * (long double)b;
            const long double tol = exact * 1.1920928955078125e-7L /*2^-23*/ + 1.40129846432481707e-45L /*denorm_min*/;
            if (!(fabsl((long double)r - exact) <= tol)) { char x[96]; snprintf(x, sizeof x, "exact=%.12Lg tol=%.3Lg", exact, tol); bad("error>float-rounding", a, b, r, x); }
            if ((long double)r != exact) ++ctx.counters["float_products_rounded"];
            const float s = mul(b, a);
            if (!(s == r)) bad("not-commutative", a, b, r, "r(b,a)=" + fstr(s));
            if (j + 1 < n) { float r2 = mul(a, f_of(bits[j + 1])); if (r2 < r) bad("not-monotone-in-b", a, b, r, "r(a,next b)=" + fstr(r2)); }
            if (i + 1 < n) { float r3 = mul(f_of(bits[i + 1]), b); if (r3 < r) bad("not-monotone-in-a", a, b, r, "r(next a,b)=" + fstr(r3)); }
            if (b == 1.0f && !(r == a)) bad("max-not-identity", a, b, r, "");
            if (a == 1.0f && !(r == b)) bad("max-not-identity", a, b, r, "");
            if ((a == 0.0f || b == 0.0f) && !(r == 0.0f)) bad("min-not-annihilator", a, b, r, "");
        }
        if (i == n / 3) ctx.sample("float32: " + fstr(a) + " * " + fstr(f_of(bits[2 * n / 3])) + " -> " + fstr(mul(a, f_of(bits[2 * n / 3]))) + "  (" + std::to_string(n) + "^2 ordered pairs)");
        ++ctx.witness["float_rows"];
    }
}

// ------------------------------------------------------------------------------------------------
// channel_invert
// ------------------------------------------------------------------------------------------------
template <class T> struct InvCheck
{
    using Mo = M<T>;
    vh::Ctx& ctx; long fails = 0;
    void bad(const char* sig, uint64_t idx, long long r, std::string const& extra = "")
    {
        ++fails;
        ctx.fail(vh::S() << Mo::name() << "/x=" << (long long)(Mo::lo() + i128(idx)), sig, vh::S() << "result=" << r << " " << extra);
    }
    inline void one(uint64_t idx)
    {
        T x = Mo::make(idx);
        T r = gil::channel_invert(x);
        ++ctx.evaluations;
        if (idx != 0 && idx != Mo::count() - 1) ++ctx.nontrivial;
        const i128 ri = Mo::to_int(r), xi = Mo::to_int(x);
        if (ri < Mo::lo() || ri > Mo::hi()) bad("out-of-range", idx, (long long)ri);
        if (ri != Mo::hi() - xi + Mo::lo()) bad("not-max-minus-x-plus-min", idx, (long long)ri, vh::S() << "expected=" << (long long)(Mo::hi() - xi + Mo::lo()));
        T back = gil::channel_invert(r);
        if (Mo::to_int(back) != xi) bad("not-involution", idx, (long long)ri, vh::S() << "invert(result)=" << (long long)Mo::to_int(back));
    }
    void run(bool full32)
    {
        IndexSet is = full_or_stratum<Mo>(full32);
        const uint64_t CH = uint64_t(1) << 24;
        bool took = false;
        for (uint64_t a = 0; a < is.size(); a += CH)
        {
            if (!ctx.take()) continue;
            took = true;
            ctx.cur = vh::S() << "invert " << Mo::name() << " chunk " << a;
            const uint64_t b = std::min<uint64_t>(is.size(), a + CH);
            if (is.dense) for (uint64_t i = a; i < b && fails < 64; ++i) one(is.a + i);
            else for (uint64_t i = a; i < b && fails < 64; ++i) one(is.list[i]);
            if (ctx.timed_out()) return;
        }
        if (!took) return;
        ++ctx.witness["inv_models"];
        if (Mo::lo() < 0) ++ctx.witness["inv_signed_models"];
        uint64_t mid = is.dense ? is.a + is.size() / 3 : is.list[is.size() / 3];
        ctx.sample(vh::S() << "invert " << Mo::name() << ": " << (long long)(Mo::lo() + i128(mid)) << " -> "
                           << (long long)Mo::to_int(gil::channel_invert(Mo::make(mid))) << (is.dense ? "  (dense, " : "  (stratum, ") << is.size() << " values)");
    }
};

// float: "max - x + min exactly" is satisfiable by a float32 channel exactly when 1-x is representable,
// i.e. when x is a multiple of 2^-24; there result and involution are demanded exactly. For the other
// inputs no float result can equal 1-x; there the result must be the float nearest to 1-x (what the
// formula evaluates to in float arithmetic) and the involution must hold within that rounding (2^-25).
static void inv_float(vh::Ctx& ctx, bool full)
{
    using Mo = M<gil::float32_t>;
    IndexSet is = full_or_stratum<Mo>(full);
    const uint64_t CH = uint64_t(1) << 24;
    long fails = 0; bool took = false;
    auto bad = [&](const char* sig, float x, float r, std::string const& extra) {
        ++fails; ctx.fail("float32/x=" + fstr(x), sig, "result=" + fstr(r) + " " + extra);
    };
    for (uint64_t a = 0; a < is.size(); a += CH)
    {
        if (!ctx.take()) continue;
        took = true;
        ctx.cur = vh::S() << "invert float32 chunk " << a;
        const uint64_t e = std::min<uint64_t>(is.size(), a + CH);
        for (uint64_t i = a; i < e && fails < 64; ++i)
        {
            const float x = f_of(uint32_t(is.dense ? is.a + i : is.list[i]));
            const float r = float(gil::channel_invert(gil::float32_t(x)));
            const float back = float(gil::channel_invert(gil::float32_t(r)));
            ++ctx.evaluations;
            if (x != 0.0f && x != 1.0f) ++ctx.nontrivial;
            if (!(r >= 0.0f && r <= 1.0f)) bad("out-of-range", x, r, "");
            const long double scaled = ldexpl((long double)x, 24);
            const bool representable = scaled == floorl(scaled);
            const long double exact = 1.0L - (long double)x;      // exact in long double whenever `representable`
            if (representable)
            {
                ++ctx.witness["inv_float_exact_inputs"];
                if ((long double)r != exact) bad("not-max-minus-x-plus-min", x, r, "expected=" + fstr(float(exact)));
                if (!(back == x)) bad("not-involution", x, r, "invert(result)=" + fstr(back));
            }
            else
            {
                ++ctx.counters["inv_float_inexact_inputs"];
                if (!(r == float(exact))) bad("not-nearest-to-max-minus-x-plus-min", x, r, "expected=" + fstr(float(exact)));
                if (!(fabsl((long double)back - (long double)x) <= 2.98023223876953125e-8L)) bad("not-involution-within-rounding", x, r, "invert(result)=" + fstr(back));
            }
        }
        if (ctx.timed_out()) return;
    }
    if (!took) return;
    ++ctx.witness["inv_models"]; ++ctx.witness["inv_float_models"];
    ctx.sample("invert float32: 0.3 -> " + fstr(float(gil::channel_invert(gil::float32_t(0.3f)))) + (is.dense ? "  (every float pattern in [0,1], " : "  (stratum, ") + std::to_string(is.size()) + " values)");
}

struct InvAll
{
    vh::Ctx& ctx; bool full32; int which;   // which: 0 = <=16-bit, 1 = 32-bit integral
    template <class T> void operator()(mp::mp_identity<T>) const
    {
        if ((M<T>::bits == 32) != (which == 1)) return;
        InvCheck<T> c{ctx}; c.run(full32);
        if (M<T>::bits <= 16 && M<T>::lo() == 0 && !std::is_integral<T>::value) ++ctx.witness["inv_packed_models"];
    }
};
using InvModels = mp::mp_list<uint8_t, int8_t, uint16_t, int16_t, uint32_t, int32_t,
    PV<1>, PV<2>, PV<3>, PV<4>, PV<5>, PV<6>, PV<7>, PV<8>, PV<9>, PV<10>, PV<11>, PV<12>, PV<13>, PV<14>, PV<15>, PV<16>>;

// scoped channels whose minimum is not zero: channel_invert(x) == max - x + min exactly, inside [min, max], involution.
// double in [-0.5, 0.5] on the dyadic grid k/4096 - 0.5 (max - x + min = -x, exact in double); uint8_t in [16, 235], every value.
struct ScMinusHalf { static double apply() { return -0.5; } };
struct ScPlusHalf { static double apply() { return 0.5; } };
struct Sc16 { static uint8_t apply() { return 16; } };
struct Sc235 { static uint8_t apply() { return 235; } };
VH_GROUP(invscoped)
{
    if (!ctx.take()) return;
    using D = gil::scoped_channel_value<double, ScMinusHalf, ScPlusHalf>;
    using U = gil::scoped_channel_value<uint8_t, Sc16, Sc235>;
    long fails = 0;
    for (int k = 0; k <= 4096; ++k)
    {
        const double x = double(k) / 4096 - 0.5;
        const double r = double(gil::channel_invert(D(x))), back = double(gil::channel_invert(D(r)));
        ++ctx.evaluations; if (k != 0 && k != 4096 && k != 2048) ++ctx.nontrivial;
        const std::string id = vh::S() << "scoped<double,-0.5,0.5>/x=" << x;
        if (!(r >= -0.5 && r <= 0.5) && ++fails <= 64) ctx.fail(id, "out-of-range", vh::S() << "result=" << r);
        if (r != -x && ++fails <= 64) ctx.fail(id, "not-max-minus-x-plus-min", vh::S() << "result=" << r << " expected=" << -x);
        if (back != x && ++fails <= 64) ctx.fail(id, "not-involution", vh::S() << "invert(result)=" << back);
    }
    for (int v = 16; v <= 235; ++v)
    {
        const int r = int(uint8_t(gil::channel_invert(U(uint8_t(v))))), back = int(uint8_t(gil::channel_invert(U(uint8_t(r)))));
        ++ctx.evaluations; if (v != 16 && v != 235) ++ctx.nontrivial;
        const std::string id = vh::S() << "scoped<uint8,16,235>/x=" << v;
        if (!(r >= 16 && r <= 235) && ++fails <= 64) ctx.fail(id, "out-of-range", vh::S() << "result=" << r);
        if (r != 235 - v + 16 && ++fails <= 64) ctx.fail(id, "not-max-minus-x-plus-min", vh::S() << "result=" << r << " expected=" << 235 - v + 16);
        if (back != v && ++fails <= 64) ctx.fail(id, "not-involution", vh::S() << "invert(result)=" << back);
    }
    ++ctx.witness["inv_scoped_nonzero_min_models"];
    ctx.sample(vh::S() << "invert scoped<double,-0.5,0.5>: 0.25 -> " << double(gil::channel_invert(D(0.25))) << "; scoped<uint8,16,235>: 20 -> " << int(uint8_t(gil::channel_invert(U(uint8_t(20))))));
}

// every x of every model of <= 16 bits and every packed width
VH_GROUP(inv) { mp::mp_for_each<mp::mp_transform<mp::mp_identity, InvModels>>(InvAll{ctx, false, 0}); }
// uint32 / int32 / float32: full32=0 complete strata, full32=1 every bit pattern (floats: every pattern in [0,1])
VH_GROUP(invwide)
{
    bool full = ctx.B("full32", 0) != 0;
    mp::mp_for_each<mp::mp_transform<mp::mp_identity, InvModels>>(InvAll{ctx, full, 1});
    inv_float(ctx, full);
}
// channel references
template <class Ad> static void inv_ref(vh::Ctx& ctx)
{
    if (!ctx.take()) return;
    const uint64_t mx = Ad::maxi();
    for (uint64_t x = 0; x <= mx; ++x)
    {
        int64_t r = Ad::inv(x);
        ++ctx.evaluations; if (x != 0 && x != mx) ++ctx.nontrivial;
        std::string id = vh::S() << Ad::name() << "/x=" << x;
        if (r < 0 || uint64_t(r) > mx) ctx.fail(id, "out-of-range", vh::S() << "result=" << (long long)r);
        if (r != int64_t(mx - x)) ctx.fail(id, "not-max-minus-x-plus-min", vh::S() << "result=" << (long long)r);
        else if (Ad::inv(uint64_t(r)) != int64_t(x)) ctx.fail(id, "not-involution", vh::S() << "result=" << (long long)r);
    }
    ++ctx.witness["inv_ref_models"];
}
VH_GROUP(invrefs)
{
#define C07_IREF(TAG, NAME, REF, FIELD, FB, NB, DYN) { using Ad = RefAd<REF, FIELD, FB, NB, DYN, 100 + TAG>; Ad::nm() = NAME; inv_ref<Ad>(ctx); }
    { using IR0 = gil::packed_channel_reference<uint8_t, 0, 3, true>; C07_IREF(0, "pref<u8,0,3>", IR0, uint8_t, 0, 3, false) }
    { using IR1 = gil::packed_channel_reference<uint8_t, 3, 5, true>; C07_IREF(1, "pref<u8,3,5>", IR1, uint8_t, 3, 5, false) }
    { using IR2 = gil::packed_channel_reference<uint16_t, 5, 6, true>; C07_IREF(2, "pref<u16,5,6>", IR2, uint16_t, 5, 6, false) }
    { using IR3 = gil::packed_channel_reference<uint16_t, 0, 16, false>; C07_IREF(3, "cpref<u16,0,16>", IR3, uint16_t, 0, 16, false) }
    { using IR4 = gil::packed_channel_reference<uint32_t, 10, 10, true>; C07_IREF(4, "pref<u32,10,10>", IR4, uint32_t, 10, 10, false) }
    { using IR5 = gil::packed_channel_reference<uint64_t, 40, 13, true>; C07_IREF(5, "pref<u64,40,13>", IR5, uint64_t, 40, 13, false) }
    { using IR6 = gil::packed_dynamic_channel_reference<uint8_t, 1, true>; C07_IREF(6, "dref<u8,1>@7", IR6, uint8_t, 7, 1, true) }
    { using IR7 = gil::packed_dynamic_channel_reference<uint16_t, 8, true>; C07_IREF(7, "dref<u16,8>@7", IR7, uint16_t, 7, 8, true) }
    { using IR8 = gil::packed_dynamic_channel_reference<uint32_t, 12, false>; C07_IREF(8, "cdref<u32,12>@5", IR8, uint32_t, 5, 12, true) }
}

VH_MAIN
