// C11 for PNM
#include "c11_formats.hpp"
#include <boost/gil/extension/io/pnm.hpp>
using namespace c11;
using mono_img = gil::bit_aligned_image1_type<1, gil::gray_layout_t>::type;
static void go(vh::Ctx& ctx, bool pairs)
{
    vh::ubsan_counts() = true;
    Opts o = opts_from(ctx);
    for_seeds(ctx, "pnm", [&](Seed const& s) {
        char m = char(s.bytes[1]);
        if (m == '1' || m == '4') seed_units<gil::pnm_tag, mono_img>(ctx, s, o, pairs);
        else if (m == '2' || m == '5') seed_units<gil::pnm_tag, gil::gray8_image_t>(ctx, s, o, pairs);
        else seed_units<gil::pnm_tag, gil::rgb8_image_t>(ctx, s, o, pairs);
    });
}
VH_GROUP(single) { go(ctx, false); }
VH_GROUP(pairs) { go(ctx, true); }
VH_MAIN
