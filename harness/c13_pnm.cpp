// C13 for PNM: every generated PNM seed (gen/seeds.py -> io_seeds.hpp) and the repo's sample files.
#include "c13_common.hpp"
#include "io_seeds.hpp"
#include <boost/gil/extension/io/pnm.hpp>
#include <dirent.h>

namespace gil = boost::gil;
using c13::SeedView; using c13::Opts; using ioc::Flat; using ioc::Emit;

struct PnmFmt : c13::DefaultDevices
{
    using tag = gil::pnm_tag;
    static const char* name() { return "pnm"; }
    using conv_list = boost::mp11::mp_list<gil::gray8_image_t, gil::rgb8_image_t, gil::rgba8_image_t, gil::gray16_image_t,
                                           gil::rgb16_image_t>;
    using any_t = gil::any_image<gil::gray1_image_t, gil::gray8_image_t, gil::rgb8_image_t>;

    // gray1 (P4): 1 = white -> 255
    template <class Img> static Flat to_expected_space(Flat const& full, int)
    {
        if (!std::is_same<Img, gil::gray1_image_t>::value) return full;
        Flat f = full; for (auto& v : f.v) v *= 255; return f;
    }

    // "depth" of a PNM is its type and maxval
    template <class Img, class Info> static std::string depth_check(Info const& info, SeedView const& sv)
    {
        if (sv.aux1 && int(info._type) != sv.aux1) return std::string(vh::S() << "info._type=" << info._type << " file is P" << sv.aux1);
        if (sv.aux2 && int(info._max_value) != sv.aux2) return std::string(vh::S() << "info._max_value=" << info._max_value << " file declares " << sv.aux2);
        int ch = int(gil::num_channels<typename Img::view_t>::value);
        bool color = info._type == 3 || info._type == 6;
        if ((color ? 3 : 1) != ch) return std::string(vh::S() << "info._type=" << info._type << " but native image has " << ch << " channels");
        return "";
    }

    // scanline rows: P1/P2/P5 -> gray8, P3/P6 -> rgb8, P4 -> gray1 (bit-aligned)
    template <class Img, class Reader> static int scan_row(Reader& r, gil::byte_t* p, std::vector<double>& out)
    {
        long w = r._info._width;
        int t = r._info._type;
        if (t == 3 || t == 6) { auto v = gil::interleaved_view(w, 1, reinterpret_cast<gil::rgb8_pixel_t const*>(p), std::ptrdiff_t(r._scanline_length)); for (long x = 0; x < w; ++x) ioc::flat_px(v(x, 0), out); return 3; }
        if (t == 4)
        {
            using it_t = gil::gray1_image_t::view_t::x_iterator;
            it_t it(p);
            for (long x = 0; x < w; ++x, ++it) { gil::gray1_image_t::value_type px(*it); ioc::flat_px(px, out); }
            return 1;
        }
        for (long x = 0; x < w; ++x) out.push_back(p[x]);
        return 1;
    }

    template <class Img> static void view_exact(Emit& e, ioc::Source const& src, int d, Flat const& full)
    { view_exact_impl<Img>(e, src, d, full, std::is_same<Img, gil::gray1_image_t>()); }
    template <class Img> static void view_exact_impl(Emit& e, ioc::Source const& src, int d, Flat const& full, std::false_type)
    { c13::view_exact_interleaved<PnmFmt, Img>(e, src, d, full); }
    // bit-aligned: a fresh image (rows bit-packed back to back, allocation exactly ceil(w*h/8) bytes, ASan red zones)
    template <class Img> static void view_exact_impl(Emit& e, ioc::Source const& src, int d, Flat const& full, std::true_type)
    {
        Img img(full.w, full.h);
        std::string err = c13::guarded([&] { with_dev(d, src, [&](auto& dev) { gil::read_view(dev, gil::view(img), tag()); }); });
        if (!err.empty()) e.fail("read_view-throws", err);
        else { std::string df = ioc::diff(full, ioc::flat(gil::const_view(img))); if (!df.empty()) e.fail("read_view!=full", df); }
    }
};

static void run_one(vh::Ctx& ctx, SeedView const& sv, int ptype, Opts const& o)
{
    ioc::run_unit(ctx, sv.name, [&](Emit& e) {
        if (ptype == 3 || ptype == 6) c13::check_seed<PnmFmt, gil::rgb8_image_t>(e, sv, o);
        else if (ptype == 4) c13::check_seed<PnmFmt, gil::gray1_image_t>(e, sv, o);
        else c13::check_seed<PnmFmt, gil::gray8_image_t>(e, sv, o);
    });
}

VH_GROUP(seeds)
{
    vh::ubsan_counts() = false;
    long allrect = ctx.B("allrect", 0);
    Opts o; o.devmask = int(ctx.B("devmask", 7));
    for (Seed const& s : io_seeds())
    {
        if (std::string(s.format) != "pnm") continue;
        if (!ctx.take()) continue;
        ctx.cur = s.name;
        ioc::ScratchFile file(std::string("c13-") + s.name, "pnm", s.bytes);
        SeedView sv;
        sv.name = s.name; sv.bytes = &s.bytes; sv.path = file.path;
        sv.expected = &s.expected; sv.expected_alt = &s.expected_alt; sv.exp_channels = s.channels; sv.exp_w = s.w; sv.exp_h = s.h;
        sv.aux1 = s.prop("pnm_type"); sv.aux2 = s.prop("maxval");
        sv.subrects = (allrect && s.w * s.h <= 20) || (s.w <= 5 && s.h <= 4);
        // P1 rasters may omit the white space between samples (pbm(5)); GIL's text reader then parses a whole row as one
        // number and returns normally with most of the image never written -> agreement clauses would compare
        // uninitialised memory.  Only the tie to the encoder is evaluated for that seed (reported as decode!=encoder).
        sv.spec_only = std::string(s.variant).find("nospace") != std::string::npos;
        ++ctx.witness[std::string("pnm_p") + std::to_string(s.prop("pnm_type"))];
        if (s.prop("comments")) ++ctx.witness["pnm_comments"];
        if (s.prop("maxval") > 1 && s.prop("maxval") < 255) ++ctx.witness["pnm_maxval_lt_255"];
        run_one(ctx, sv, s.prop("pnm_type"), o);
        ctx.san_take(std::string(s.name) + "/<parent>");
        if (ctx.timed_out()) return;
    }
}

VH_GROUP(samples)
{
    vh::ubsan_counts() = false;
    std::string dir = "/repo/test/extension/io/images/pnm";
    std::vector<std::string> names;
    if (DIR* d = opendir(dir.c_str()))
    {
        while (dirent* de = readdir(d)) { std::string n = de->d_name; if (n.size() > 4 && n.substr(n.size() - 4) == ".pnm") names.push_back(n); }
        closedir(d);
    }
    std::sort(names.begin(), names.end());
    Opts o; o.devmask = int(ctx.B("devmask", 7));
    for (auto const& n : names)
    {
        if (!ctx.take()) continue;
        ctx.cur = n;
        std::vector<unsigned char> bytes;
        { FILE* f = fopen((dir + "/" + n).c_str(), "rb"); if (!f) continue; unsigned char b[65536]; size_t r; while ((r = fread(b, 1, sizeof b, f)) > 0) bytes.insert(bytes.end(), b, b + r); fclose(f); }
        if (bytes.size() < 8 || bytes[0] != 'P') continue;
        SeedView sv;
        sv.name = "sample:" + n; sv.bytes = &bytes; sv.path = dir + "/" + n;
        sv.aux1 = bytes[1] - '0'; sv.subrects = false; sv.big = true;
        ++ctx.witness["sample_files"];
        run_one(ctx, sv, bytes[1] - '0', o);
        if (ctx.timed_out()) return;
    }
}

VH_MAIN
