// C12 for PNM: write_view -> read_image round trip for every pixel type with is_write_supported && is_read_supported.
#include "c12_common.hpp"
#include <boost/gil/extension/io/pnm.hpp>

namespace gil = boost::gil;
namespace mp = boost::mp11;
using ioc::Flat; using ioc::Emit;

struct Fmt
{
    using tag = gil::pnm_tag;
    static const char* name() { return "pnm"; }
    static const char* ext() { return "pnm"; }
    static int nvariants() { return 1; }
    static const char* variant_name(int) { return "default"; }
    static gil::image_write_info<tag> info(int) { return gil::image_write_info<tag>(); }
    static bool dest_supported(int) { return true; }
    template <class V> static void write_handle(std::string const& path, V const& v, int var) { c12::write_via_FILE<Fmt>(path, v, var); }
    // the PNM writer static_asserts that a bit-aligned view is exactly gray1_image_t::view_t: the x-step view of
    // subsampled(2,1) does not compile for gray1 (not covered); sub-views and flipped views have that type
    template <class Img> struct Orgs : std::integral_constant<int, std::is_same<Img, gil::gray1_image_t>::value ? (1 | 2 | 8) : 31> {};
    template <class Img> static void judge(Emit& e, Flat const& want, Flat const& got, int) { c12::judge_exact(e, want, got); }
};

using Tested = c12::Supported<Fmt::tag>;

VH_GROUP(roundtrip)
{
    vh::ubsan_counts() = false;
    c12::Bounds b = c12::bounds_from(ctx);
    mp::mp_for_each<mp::mp_transform<mp::mp_identity, Tested>>([&](auto Id) {
        using Img = typename decltype(Id)::type;
        for (int var = 0; var < Fmt::nvariants(); ++var) c12::run_type<Fmt, Img>(ctx, var, b);
    });
}

VH_GROUP(matrix) { c12::record_matrix<Fmt::tag>(ctx, Fmt::name()); }

VH_MAIN
