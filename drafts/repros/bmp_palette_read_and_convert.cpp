#include <boost/gil.hpp>
#include <boost/gil/extension/io/bmp.hpp>
#include <sstream>
#include <cstdio>
namespace gil = boost::gil;
static void le(std::string& s, unsigned v, int n) { for (int i = 0; i < n; ++i) s += char((v >> (8 * i)) & 255); }
int main()
{
    // 8-bit palette bitmap, 2x1, palette[0] = (r=200,g=10,b=30), palette[1] = (r=0,g=255,b=0)
    std::string f = "BM"; std::string pal, pix;
    le(pal, 30, 1); le(pal, 10, 1); le(pal, 200, 1); le(pal, 0, 1);   // b g r 0
    le(pal, 0, 1); le(pal, 255, 1); le(pal, 0, 1); le(pal, 0, 1);
    pix = std::string("\x00\x01\x00\x00", 4);
    unsigned off = 14 + 40 + 8;
    le(f, off + 4, 4); le(f, 0, 4); le(f, off, 4);
    le(f, 40, 4); le(f, 2, 4); le(f, 1, 4); le(f, 1, 2); le(f, 8, 2); le(f, 0, 4); le(f, 4, 4); le(f, 0, 4); le(f, 0, 4); le(f, 2, 4); le(f, 0, 4);
    f += pal + pix;
    std::istringstream in(f, std::ios::binary);
    gil::gray8_image_t g;
    gil::read_and_convert_image(in, g, gil::bmp_tag());
    gil::rgb8_pixel_t p0(200, 10, 30), p1(0, 255, 0); gil::gray8_pixel_t e0, e1;
    gil::color_convert(p0, e0); gil::color_convert(p1, e1);
    printf("gray = %d %d, color_convert gives %d %d\n", int(gil::view(g)(0, 0)[0]), int(gil::view(g)(1, 0)[0]), int(e0[0]), int(e1[0]));
    std::istringstream in2(f, std::ios::binary);
    gil::rgba8_image_t r; gil::read_image(in2, r, gil::bmp_tag());
    auto q = gil::view(r)(0, 0);
    printf("rgba = %d %d %d %d\n", int(q[0]), int(q[1]), int(q[2]), int(q[3]));
    return !(gil::view(g)(0, 0)[0] == e0[0] && gil::view(g)(1, 0)[0] == e1[0]);
}
