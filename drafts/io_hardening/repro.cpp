// Stand-alone reproducer for the defects fixed by drafts/io_hardening/01..10 (one crafted input per defect).
// Every case runs in a forked child with a 5 s alarm.  Build and run against the unchanged and the patched tree:
//   g++ -std=c++14 -O1 -g1 -DNDEBUG -fsanitize=address,undefined -fsanitize-recover=address,undefined -fno-sanitize=vptr,alignment -w -I<tree>/include repro.cpp -o repro
//   ASAN_OPTIONS=halt_on_error=0:detect_leaks=0 ./repro
// unchanged tree: normal returns for truncated / inconsistent files, sanitizer reports, one hang;  patched tree: std::ios_base::failure
// for every malformed input, correct pixels for the two valid ones (RLE offset + end-of-bitmap, P1 without white space).
#include <boost/gil.hpp>
#include <boost/gil/extension/io/bmp.hpp>
#include <boost/gil/extension/io/pnm.hpp>
#include <boost/gil/extension/io/targa.hpp>
#include <sstream>
#include <iostream>
#include <vector>
#include <string>
#include <unistd.h>
#include <sys/wait.h>
namespace gil = boost::gil;
using B = std::vector<unsigned char>;
static void le(B& b, unsigned v, int n){ for(int i=0;i<n;++i) b.push_back((unsigned char)(v>>(8*i))); }
static void put(B& b, size_t off, unsigned v, int n){ for(int i=0;i<n;++i) b[off+i]=(unsigned char)(v>>(8*i)); }
// 4x3 24-bit BMP
static B bmp24(){ B b; b.push_back('B'); b.push_back('M'); le(b,90,4); le(b,0,4); le(b,54,4); le(b,40,4); le(b,4,4); le(b,3,4); le(b,1,2); le(b,24,2); le(b,0,4); le(b,36,4); le(b,2835,4); le(b,2835,4); le(b,0,4); le(b,0,4); for(int i=0;i<36;++i) b.push_back((unsigned char)(i*7+1)); return b; }
// 4x3 8-bit BMP with `ncol` palette entries
static B bmp8(unsigned ncol, unsigned char fillidx){ B b; unsigned off=54+4*ncol; b.push_back('B'); b.push_back('M'); le(b,off+12,4); le(b,0,4); le(b,off,4); le(b,40,4); le(b,4,4); le(b,3,4); le(b,1,2); le(b,8,2); le(b,0,4); le(b,12,4); le(b,2835,4); le(b,2835,4); le(b,ncol,4); le(b,0,4); for(unsigned i=0;i<ncol;++i){ b.push_back(i); b.push_back(i); b.push_back(i); b.push_back(0);} for(int i=0;i<12;++i) b.push_back(fillidx); return b; }
template<class Tag, class Img, class F> static void run(const char* name, B const& b, F f){
    std::istringstream in(std::string(b.begin(), b.end()), std::ios::binary);
    std::cout << name << ": " << std::flush;
    pid_t pid=fork(); if(pid){ int st; waitpid(pid,&st,0); if(WIFSIGNALED(st)) std::cout << "KILLED by signal " << WTERMSIG(st) << (WTERMSIG(st)==14?" (no termination within 5 s)":"") << "\n"; return; }
    alarm(5);
    try { Img img; f(in, img); std::cout << "returned " << img.width() << "x" << img.height(); if(img.width()>0) { auto p = gil::const_view(img)(img.width()-1,0); std::cout << " last px of row0=" << int(gil::at_c<0>(p)); } std::cout << "\n"; }
    catch(std::ios_base::failure const& e){ std::cout << "ios_base::failure: " << e.what() << "\n"; }
    catch(std::exception const& e){ std::cout << "exception: " << e.what() << "\n"; }
    std::cout << std::flush; _exit(0);
}
int main(){
    auto rd_bmp=[](std::istream& in, gil::rgb8_image_t& img){ gil::read_image(in,img,gil::bmp_tag()); };
    auto rdc_bmp=[](std::istream& in, gil::rgb8_image_t& img){ gil::read_and_convert_image(in,img,gil::bmp_tag()); };
    { B b=bmp24(); b.resize(60); run<gil::bmp_tag,gil::rgb8_image_t>("bmp24 cut at 60/90", b, rd_bmp); }
    { B b=bmp24(); b.resize(20); run<gil::bmp_tag,gil::rgb8_image_t>("bmp24 cut at 20 (inside header)", b, [](std::istream& in, gil::rgb8_image_t&){ auto be=gil::read_image_info(in,gil::bmp_tag()); std::cout << "info " << be._info._width << "x" << be._info._height << " "; }); }
    { B b=bmp24(); put(b,18,0,4); run<gil::bmp_tag,gil::rgb8_image_t>("bmp24 width=0", b, rdc_bmp); }
    { B b=bmp24(); put(b,22,0x80000000u,4); run<gil::bmp_tag,gil::rgb8_image_t>("bmp24 height=0x80000000", b, rdc_bmp); }
    { B b=bmp24(); put(b,28,2,2); run<gil::bmp_tag,gil::rgb8_image_t>("bmp24 bpp=2", b, rdc_bmp); }
    { B b=bmp24(); b[0]='X'; b[1]='Y'; run<gil::bmp_tag,gil::rgb8_image_t>("bmp24 magic XY", b, rd_bmp); }
    { B b=bmp8(2,5); run<gil::bmp_tag,gil::rgba8_image_t>("bmp8 clr_used=2, pixel index 5", b, [](std::istream& in, gil::rgba8_image_t& img){ gil::read_image(in,img,gil::bmp_tag()); }); }
    // 16 bit bitfields, red mask 0
    { B b; b.push_back('B'); b.push_back('M'); le(b,66+24,4); le(b,0,4); le(b,66,4); le(b,40,4); le(b,4,4); le(b,3,4); le(b,1,2); le(b,16,2); le(b,3,4); le(b,24,4); le(b,0,4); le(b,0,4); le(b,0,4); le(b,0,4); le(b,0,4); le(b,0x07E0,4); le(b,0x001F,4); for(int i=0;i<24;++i) b.push_back(0xAA);
      run<gil::bmp_tag,gil::rgb8_image_t>("bmp16 bitfields red mask 0", b, rd_bmp);
      put(b,54,0xFFFF,4); run<gil::bmp_tag,gil::rgb8_image_t>("bmp16 bitfields red mask 0xFFFF", b, rd_bmp); }
    // RLE8 1x?: width 4 height 3, stream = delta(0,2), EOB
    { B b; unsigned off=54+8; b.push_back('B'); b.push_back('M'); le(b,off+8,4); le(b,0,4); le(b,off,4); le(b,40,4); le(b,4,4); le(b,3,4); le(b,1,2); le(b,8,2); le(b,1,4); le(b,8,4); le(b,0,4); le(b,0,4); le(b,2,4); le(b,0,4); for(int i=0;i<2;++i){ b.push_back(10+i); b.push_back(20+i); b.push_back(30+i); b.push_back(0);} 
      unsigned char s[]={0,2,0,2, 4,1, 0,1}; b.insert(b.end(), s, s+8);
      run<gil::bmp_tag,gil::rgb8_image_t>("bmp rle8: delta(0,2), 4 x colour 1, end of bitmap", b, [](std::istream& in, gil::rgb8_image_t& img){ gil::read_image(in,img,gil::bmp_tag()); auto v=gil::const_view(img); std::cout << "rows: "; for(int y=0;y<3;++y) std::cout << int(gil::at_c<0>(v(0,y))) << " "; });
      B c(b.begin(), b.begin()+off); unsigned char t[]={0,0}; (void)t; c.push_back(4); c.push_back(1);   // stream ends after one run: no EOL/EOB
      run<gil::bmp_tag,gil::rgb8_image_t>("bmp rle8 stream cut after first run", c, rd_bmp); }
    // PNM
    auto rd_pgm=[](std::istream& in, gil::gray8_image_t& img){ gil::read_image(in,img,gil::pnm_tag()); };
    { std::string s="P2\n4 3\n255\n1 2 3 4\n5 6"; run<gil::pnm_tag,gil::gray8_image_t>("P2 4x3 with 6 of 12 samples", B(s.begin(),s.end()), rd_pgm); }
    { std::string s="P2\n2 1\n255\n00000000000000000000000000000000000000000000000000000000000000007 1\n"; run<gil::pnm_tag,gil::gray8_image_t>("P2 64-digit sample", B(s.begin(),s.end()), rd_pgm); }
    { std::string s="P2\n0 3\n255\n"; run<gil::pnm_tag,gil::gray8_image_t>("P2 width 0", B(s.begin(),s.end()), [](std::istream& in, gil::gray8_image_t& img){ gil::read_and_convert_image(in,img,gil::pnm_tag()); }); }
    { std::string s="P1\n4 2\n0110\n1001\n"; run<gil::pnm_tag,gil::gray8_image_t>("P1 without white space", B(s.begin(),s.end()), [](std::istream& in, gil::gray8_image_t& img){ gil::read_image(in,img,gil::pnm_tag()); auto v=gil::const_view(img); std::cout << "px: "; for(int y=0;y<2;++y) for(int x=0;x<4;++x) std::cout << int(v(x,y)[0]) << " "; }); }
    // TARGA rle 24 bit 4x3
    { B b; b.push_back(0); b.push_back(0); b.push_back(10); le(b,0,2); le(b,0,2); b.push_back(0); le(b,0,2); le(b,0,2); le(b,4,2); le(b,3,2); b.push_back(24); b.push_back(0);
      b.push_back(0xFF); b.push_back(1); b.push_back(2); b.push_back(3);   // one run of 128 pixels
      run<gil::targa_tag,gil::rgb8_image_t>("tga rle 4x3, one run packet of 128 pixels", b, [](std::istream& in, gil::rgb8_image_t& img){ gil::read_image(in,img,gil::targa_tag()); }); 
      B c(b.begin(), b.begin()+18); c[0]=255; for(int i=0;i<255;++i) c.push_back(0x80|1); for(int k=0;k<6;++k){ c.push_back(0x81); c.push_back(9); c.push_back(9); c.push_back(9);} 
      run<gil::targa_tag,gil::rgb8_image_t>("tga id_length 255 (offset 273)", c, [](std::istream& in, gil::rgb8_image_t& img){ auto be=gil::read_image_info(in,gil::targa_tag()); std::cout << "offset=" << int(be._info._offset) << " "; (void)img; }); }
}
