// C15 — convolve_2d equals the zero-extended 2-D convolution sum; extend_row / extend_col /
// extend_boundary produce the padded image their policy describes.  Sources and destinations are
// exactly-sized guarded buffers (ASan + canary), so any access outside the source (other than the
// declared padding) or the destination is a failure of the case in flight.
#include "c15_common.hpp"

namespace gil = boost::gil;
using namespace c15;

static const int PRIMES25[25] = {2, 3, 5, 7, 11, 13, 17, 19, 23, 29, 31, 37, 41, 43, 47, 53, 59, 61, 67, 71, 73, 79, 83, 89, 97};

struct C2Gray8
{
    using src_px = gil::gray8_pixel_t; using dst_px = gil::gray32s_pixel_t;
    static const bool is_float = false;
    static const char* name() { return "gray8>gray32s"; }
    static uint8_t store(int v) { return uint8_t(v); }
    static float ktap(int p) { return float(p); }
    static double sentinel() { return -123456789.0; }
};
struct C2Rgb8
{
    using src_px = gil::rgb8_pixel_t; using dst_px = gil::rgb32s_pixel_t;
    static const bool is_float = false;
    static const char* name() { return "rgb8>rgb32s"; }
    static uint8_t store(int v) { return uint8_t(v); }
    static float ktap(int p) { return float(p); }
    static double sentinel() { return -123456789.0; }
};
struct C2Gray32f
{
    using src_px = gil::gray32f_pixel_t; using dst_px = gil::gray32f_pixel_t;
    static const bool is_float = true;
    static const char* name() { return "gray32f>gray32f"; }
    static gil::float32_t store(int v) { return gil::float32_t(float(v) * 0.01f); }
    static float ktap(int p) { return float(p) * 0.1f; }
    static double sentinel() { return -7777.0; }
};

template <class Cfg> struct Conv2D
{
    vh::Ctx& ctx;
    static const int NC = nchan<typename Cfg::src_px>::value;
    using src_ch = typename gil::channel_type<typename Cfg::src_px>::type;
    using dst_ch = typename gil::channel_type<typename Cfg::dst_px>::type;

    // unit = (kernel form, size, centre, w, h): every content
    template <class Kernel> void unit(Kernel const& ker, const char* form, std::vector<double> const& K, int n, int cy, int cx, int w, int h)
    {
        std::string ubase = vh::S() << "convolve_2d/" << Cfg::name() << "/" << form << n << "cy" << cy << "cx" << cx << "/" << w << "x" << h;
        ctx.cur = ubase;
        Buf<typename Cfg::src_px> src(w, h);
        Buf<typename Cfg::dst_px> dst(w, h);
        std::vector<double> F(size_t(w) * h * NC);
        auto sv = src.cview(); auto swv = src.view(); auto dv = dst.view();
        double sumabs = 0; for (double t : K) sumabs += std::fabs(t);
        long fails_here = 0;
        for (Content const& ct : all_contents(0, w, 0, h, NC))
        {
            double maxabs = 0;
            for (int y = 0; y < h; ++y) for (int x = 0; x < w; ++x) for (int c = 0; c < NC; ++c)
            {
                src_ch v = Cfg::store(ct.value(x, y, c)); swv(x, y)[c] = v;
                F[(size_t(y) * w + x) * NC + c] = double(v); maxabs = std::max(maxabs, std::fabs(double(v)));
                dv(x, y)[c] = dst_ch(Cfg::sentinel());
            }
            gil::detail::convolve_2d(sv, ker, dv);
            ++ctx.evaluations;
            bool nontriv = w > 0 && h > 0 && n > 1;
            if (nontriv) ++ctx.nontrivial;
            const double tol = Cfg::is_float ? 1e-5 * sumabs * maxabs : 0.0;
            long bad = 0, clipped = 0; std::string first;
            for (int y = 0; y < h; ++y) for (int x = 0; x < w; ++x) for (int c = 0; c < NC; ++c)
            {
                double exp = 0;
                for (int j = 0; j < n; ++j) for (int i = 0; i < n; ++i)
                {
                    int sx = x + cx - i, sy = y + cy - j;      // dst(p) = sum_k src(p - (k - centre)) K(k)
                    if (sx < 0 || sx >= w || sy < 0 || sy >= h) { ++clipped; continue; }   // zero extension
                    exp += F[(size_t(sy) * w + sx) * NC + c] * K[size_t(j) * n + i];
                }
                double got = double(dv(x, y)[c]);
                bool ok = Cfg::is_float ? std::fabs(got - exp) <= tol : got == exp;
                if (!ok) { if (!bad) first = vh::S() << "dst(" << x << "," << y << ")[" << c << "]=" << got << " expected " << exp; ++bad; }
            }
            std::string id;
            auto mkid = [&]() { if (id.empty()) id = ubase + "/" + ct.name(); return id; };
            if (bad) { ++fails_here; ctx.fail(mkid(), "dst!=zero-extended-2d-sum", vh::S() << bad << " wrong value(s); first: " << first); }
            if (!dst.g.intact()) { ++fails_here; ctx.fail(mkid(), "write-outside-destination"); }
            if (!src.g.intact()) { ++fails_here; ctx.fail(mkid(), "write-into-source-surroundings"); }
            if (ctx.san_take_lazy(mkid)) ++fails_here;
            ++ctx.witness["convolve_2d"];
            if (clipped) ++ctx.witness["conv2d_window_leaves_image"];
            if (n > 1 && (cx != n / 2 || cy != n / 2 || n % 2 == 0)) ++ctx.witness["conv2d_off_centre"];
            if (w == 0 || h == 0) ++ctx.witness["conv2d_empty_image"];
            if (nontriv && ct.kind == RAMP) ctx.sample(vh::S() << mkid() << ": dst(0,0)[0]=" << double(dv(0, 0)[0]));
            if (fails_here >= 64) { ++ctx.counters["units_cut_after_64_failures"]; break; }
        }
    }

    template <int S> void fixed(int N)
    {
        std::vector<float> kt(S * S); std::vector<double> K(S * S);
        for (int i = 0; i < S * S; ++i) { kt[i] = Cfg::ktap(PRIMES25[i]); K[i] = double(kt[i]); }
        for (int cy = 0; cy < S; ++cy) for (int cx = 0; cx < S; ++cx)
        {
            gil::detail::kernel_2d_fixed<float, S> ker(kt.begin(), cy, cx);
            for (int h = 0; h <= N; ++h) for (int w = 0; w <= N; ++w)
            {
                if (!ctx.take()) continue;
                unit(ker, "fixed", K, S, cy, cx, w, h);
                ++ctx.witness["conv2d_fixed_kernel"];
                if (ctx.timed_out()) return;
            }
        }
    }
    void run()
    {
        const int N = int(ctx.B("N2", 3)), K2 = int(ctx.B("K2", 3));
        for (int n = 1; n <= K2; ++n)
        {
            std::vector<float> kt(n * n); std::vector<double> K(n * n);
            for (int i = 0; i < n * n; ++i) { kt[i] = Cfg::ktap(PRIMES25[i]); K[i] = double(kt[i]); }
            for (int cy = 0; cy < n; ++cy) for (int cx = 0; cx < n; ++cx)
            {
                gil::detail::kernel_2d<float> ker(kt.begin(), size_t(n * n), cy, cx);
                for (int h = 0; h <= N; ++h) for (int w = 0; w <= N; ++w)
                {
                    if (!ctx.take()) continue;
                    unit(ker, "dyn", K, n, cy, cx, w, h);
                    ++ctx.witness["conv2d_dynamic_kernel"];
                    if (ctx.timed_out()) return;
                }
            }
        }
        fixed<1>(N); fixed<3>(N);
    }
};

VH_GROUP(conv2d_gray8) { vh::ubsan_counts() = false; Conv2D<C2Gray8>{ctx}.run(); }
VH_GROUP(conv2d_rgb8) { vh::ubsan_counts() = false; Conv2D<C2Rgb8>{ctx}.run(); }
VH_GROUP(conv2d_gray32f) { vh::ubsan_counts() = false; Conv2D<C2Gray32f>{ctx}.run(); }

// ------------------------------------------------------------------------------------------------
// extend_row / extend_col / extend_boundary
// ------------------------------------------------------------------------------------------------
enum ExtFn { EXT_ROW = 0, EXT_COL = 1, EXT_BOUNDARY = 2 };
static const char* EXT_NAME[3] = {"extend_row", "extend_col", "extend_boundary"};
static const boundary_option EXT_OPTS[3] = {boundary_option::extend_zero, boundary_option::extend_constant, boundary_option::extend_padded};

template <class Px> struct Extend
{
    vh::Ctx& ctx; const char* pname;
    static const int NC = nchan<Px>::value;
    using ch_t = typename gil::channel_type<Px>::type;
    static ch_t store(int v, std::true_type) { return ch_t(float(v) * 0.01f); }
    static ch_t store(int v, std::false_type) { return ch_t(v); }

    void unit(int fn, boundary_option opt, int e, int w, int h)
    {
        const bool padded = opt == boundary_option::extend_padded;
        const int ex = (fn == EXT_COL || fn == EXT_BOUNDARY) ? e : 0;     // columns added left/right
        const int ey = (fn == EXT_ROW || fn == EXT_BOUNDARY) ? e : 0;     // rows added top/bottom
        const int ox = padded ? ex : 0, oy = padded ? ey : 0;
        const int FW = w + 2 * ox, FH = h + 2 * oy;                       // declared padding only
        std::string ubase = vh::S() << EXT_NAME[fn] << "/" << pname << "/" << opt_name(opt) << "/e" << e << "/" << w << "x" << h;
        ctx.cur = ubase;
        Buf<Px> full(FW, FH);
        std::vector<double> F(size_t(FW) * FH * NC);
        auto fwv = full.view();
        auto sv = gil::subimage_view(full.cview(), ox, oy, w, h);
        long fails_here = 0;
        for (Content const& ct : all_contents(-ox, FW - ox, -oy, FH - oy, NC))
        {
            for (int y = 0; y < FH; ++y) for (int x = 0; x < FW; ++x) for (int c = 0; c < NC; ++c)
            {
                ch_t v = store(ct.value(x - ox, y - oy, c), std::is_same<ch_t, gil::float32_t>());
                fwv(x, y)[c] = v; F[(size_t(y) * FW + x) * NC + c] = double(v);
            }
            gil::image<Px> res = fn == EXT_ROW ? gil::extend_row(sv, size_t(e), opt)
                               : fn == EXT_COL ? gil::extend_col(sv, size_t(e), opt)
                                               : gil::extend_boundary(sv, size_t(e), opt);
            ++ctx.evaluations;
            bool nontriv = w > 0 && h > 0 && e > 0;
            if (nontriv) ++ctx.nontrivial;
            std::string id;
            auto mkid = [&]() { if (id.empty()) id = ubase + "/" + ct.name(); return id; };
            const int RW = w + 2 * ex, RH = h + 2 * ey;
            if (w == 0 || h == 0)
            {
                // A source without pixels: the statement describes no padded image for it (gil::image also
                // normalises any zero dimension to 0x0, so extend_boundary's intermediate image collapses).
                // Executed for the memory-access clause only (ASan + canaries below); values/dims not compared.
                ++ctx.counters["ext_empty_source_memory_only"];
            }
            else if (res.width() != RW || res.height() != RH)
            {
                ++fails_here; ctx.fail(mkid(), "padded-image-has-wrong-dimensions", vh::S() << res.width() << "x" << res.height() << " expected " << RW << "x" << RH);
            }
            else
            {
                auto rv = gil::const_view(res);
                long bad = 0; std::string first;
                for (int Y = 0; Y < RH; ++Y) for (int X = 0; X < RW; ++X) for (int c = 0; c < NC; ++c)
                {
                    int sx = X - ex, sy = Y - ey;
                    bool inside = sx >= 0 && sx < w && sy >= 0 && sy < h;
                    double exp;
                    if (inside || padded) exp = F[(size_t(sy + oy) * FW + (sx + ox)) * NC + c];
                    else if (opt == boundary_option::extend_zero) exp = 0;
                    else
                    {
                        int qx = sx < 0 ? 0 : sx >= w ? w - 1 : sx, qy = sy < 0 ? 0 : sy >= h ? h - 1 : sy;   // nearest edge pixel
                        exp = F[(size_t(qy) * FW + qx) * NC + c];
                    }
                    double got = double(rv(X, Y)[c]);
                    if (got != exp) { if (!bad) first = vh::S() << "result(" << X << "," << Y << ")[" << c << "]=" << got << " expected " << exp; ++bad; }
                }
                if (bad) { ++fails_here; ctx.fail(mkid(), "padded-image!=policy", vh::S() << bad << " wrong value(s); first: " << first); }
                if (nontriv && ct.kind == RAMP) ctx.sample(vh::S() << mkid() << ": result " << RW << "x" << RH << " (0,0)[0]=" << double(rv(0, 0)[0]));
            }
            if (!full.g.intact()) { ++fails_here; ctx.fail(mkid(), "write-into-source-surroundings"); }
            if (ctx.san_take_lazy(mkid)) ++fails_here;
            ++ctx.witness[EXT_NAME[fn]];
            ++ctx.witness[std::string("ext_") + opt_name(opt)];
            if (e == 0) ++ctx.witness["ext_count0"];
            if (w == 0 || h == 0) ++ctx.witness["ext_empty_source"];
            if (fails_here >= 64) { ++ctx.counters["units_cut_after_64_failures"]; break; }
        }
    }
    void run()
    {
        const int N = int(ctx.B("NE", 3)), E = int(ctx.B("E", 2));
        for (int fn = 0; fn < 3; ++fn) for (int oi = 0; oi < 3; ++oi) for (int e = 0; e <= E; ++e)
            for (int h = 0; h <= N; ++h) for (int w = 0; w <= N; ++w)
            {
                // "nearest edge pixel" does not exist for a source without pixels: the statement describes no
                // padded image for that combination, so it is not executed (see design_notes/C15.md)
                if (EXT_OPTS[oi] == boundary_option::extend_constant && (w == 0 || h == 0)) { ++ctx.counters["ext_constant_empty_source_skipped"]; continue; }
                if (!ctx.take()) continue;
                unit(fn, EXT_OPTS[oi], e, w, h);
                if (ctx.timed_out()) return;
            }
    }
};

VH_GROUP(extend_gray8) { vh::ubsan_counts() = false; Extend<gil::gray8_pixel_t>{ctx, "gray8"}.run(); }
VH_GROUP(extend_rgb8) { vh::ubsan_counts() = false; Extend<gil::rgb8_pixel_t>{ctx, "rgb8"}.run(); }
VH_GROUP(extend_gray32f) { vh::ubsan_counts() = false; Extend<gil::gray32f_pixel_t>{ctx, "gray32f"}.run(); }

VH_MAIN
