// C13 PNG part A: gray types
#define PNG_PART_TYPES mp::mp_list<gil::gray1_image_t, gil::gray2_image_t, gil::gray4_image_t, gil::gray8_image_t, gil::gray16_image_t>
#define PNG_PART_GRAY 1
#include "c13_png.hpp"
using PartB = mp::mp_list<gil::rgb8_image_t, gil::rgb16_image_t, gil::rgba8_image_t, gil::rgba16_image_t>;
static_assert(mp::mp_size<mp::mp_set_union<Types, PartB>>::value == mp::mp_size<AllTypes>::value, "PNG parts must cover the supported list");
