// C05 — the same search over a small cross-section of proxies, built WITH ASan/UBSan instrumentation (monitor only)
#include "c05_families.hpp"
using namespace c05;
VH_GROUP(san565) { run_family<San565, San565>(ctx); }
VH_GROUP(san4444) { run_family<San4444, San4444>(ctx); }
VH_GROUP(sangray1) { run_family<Gray1, Gray1>(ctx); }
VH_MAIN
