// c15_conv1d.hpp — bounded-exhaustive check of correlate/convolve_rows/cols (dynamic and fixed kernels)
// against the textbook sum; instantiated per pixel configuration by c15_conv1d_*.cpp.
//
// Space (all of it is executed): w,h in 0..N, kernel size 1..K with every centre (dynamic kernel_1d)
// plus kernel_1d_fixed<1/3/5/7> with every centre (sizes <= KF), 4 functions (correlate/convolve x
// rows/cols), 5 boundary options, contents = ramp, all-ones, checker and EVERY unit impulse (every
// position of the source incl. its declared padding, every channel).
#pragma once
#include "c15_common.hpp"

namespace c15 {

enum Fn { CORR_ROWS = 0, CONV_ROWS = 1, CORR_COLS = 2, CONV_COLS = 3 };
static const char* FN_NAME[4] = {"correlate_rows", "convolve_rows", "correlate_cols", "convolve_cols"};

// ---- source stores: interleaved (one exactly-sized block) or planar (three exactly-sized planes)
template <class Cfg, bool Planar> struct SrcStore;

template <class Cfg> struct SrcStore<Cfg, false>
{
    using px = typename Cfg::src_px;
    Buf<px> b;
    SrcStore(int fw, int fh) : b(fw, fh) {}
    using view_t = typename Buf<px>::cview_t;
    view_t view() { return b.cview(); }
    auto mview() -> decltype(b.view()) { return b.view(); }      // mutable view of the same pixels (in-place calls)
    void set(int x, int y, int c, typename gil::channel_type<px>::type v) { b.view()(x, y)[c] = v; }
    bool intact() { return b.g.intact(); }
};
template <class Cfg> struct SrcStore<Cfg, true>
{
    using ch = typename gil::channel_type<typename Cfg::src_px>::type;
    int fw, fh;
    vh::GuardBuf p0, p1, p2;
    SrcStore(int fw_, int fh_) : fw(fw_), fh(fh_), p0(size_t(fw_) * fh_ * sizeof(ch)), p1(size_t(fw_) * fh_ * sizeof(ch)), p2(size_t(fw_) * fh_ * sizeof(ch)) {}
    using view_t = typename gil::type_from_x_iterator<gil::planar_pixel_iterator<ch const*, gil::rgb_t>>::view_t;
    view_t view()
    {
        return gil::planar_rgb_view(fw, fh, reinterpret_cast<ch const*>(p0.data()), reinterpret_cast<ch const*>(p1.data()),
                                    reinterpret_cast<ch const*>(p2.data()), std::ptrdiff_t(fw) * sizeof(ch));
    }
    void set(int x, int y, int c, ch v)
    {
        vh::GuardBuf& p = c == 0 ? p0 : c == 1 ? p1 : p2;
        reinterpret_cast<ch*>(p.data())[size_t(y) * fw + x] = v;
    }
    view_t mview() { return view(); }
    bool intact() { return p0.intact() && p1.intact() && p2.intact(); }
};

template <class Cfg, class SV, class K, class DV>
inline void call_dyn(int fn, SV const& s, K const& k, DV const& d, boundary_option o)
{
    using A = typename Cfg::acc_px;
    switch (fn)
    {
    case CORR_ROWS: gil::correlate_rows<A>(s, k, d, o); break;
    case CONV_ROWS: gil::convolve_rows<A>(s, k, d, o); break;
    case CORR_COLS: gil::correlate_cols<A>(s, k, d, o); break;
    default: gil::convolve_cols<A>(s, k, d, o); break;
    }
}
template <class Cfg, class SV, class K, class DV>
inline void call_fix(int fn, SV const& s, K const& k, DV const& d, boundary_option o)
{
    using A = typename Cfg::acc_px;
    switch (fn)
    {
    case CORR_ROWS: gil::correlate_rows_fixed<A>(s, k, d, o); break;
    case CONV_ROWS: gil::convolve_rows_fixed<A>(s, k, d, o); break;
    case CORR_COLS: gil::correlate_cols_fixed<A>(s, k, d, o); break;
    default: gil::convolve_cols_fixed<A>(s, k, d, o); break;
    }
}

template <class Cfg> struct Runner
{
    vh::Ctx& ctx;
    static const int NC = nchan<typename Cfg::src_px>::value;
    using src_ch = typename gil::channel_type<typename Cfg::src_px>::type;
    using dst_ch = typename gil::channel_type<typename Cfg::dst_px>::type;

    template <class SV, class K, class DV> static void call(std::true_type, int fn, SV const& s, K const& k, DV const& d, boundary_option o) { call_fix<Cfg>(fn, s, k, d, o); }
    template <class SV, class K, class DV> static void call(std::false_type, int fn, SV const& s, K const& k, DV const& d, boundary_option o) { call_dyn<Cfg>(fn, s, k, d, o); }

    // one shardable unit = (kernel form, size, centre, w, h): every fn x option x content
    template <class F, class SVw> static void in_place(F&, Content const&, SVw const&, std::false_type) {}
    template <class F, class SVw> static void in_place(F& one, Content const& ct, SVw const& sv, std::true_type) { one(ct, sv, true); }

    template <class Kernel, bool Fixed>
    void unit(Kernel const& ker, std::vector<double> const& taps, int ks, int cc, int w, int h)
    {
        const char* form = Fixed ? "fixed" : "dyn";
        std::string ubase = vh::S() << Cfg::name() << "/" << form << ks << "c" << cc << "/" << w << "x" << h;
        ctx.cur = ubase;
        long fails_here = 0;
        for (int fn = 0; fn < 4 && fails_here < 64; ++fn)
        {
            const int axis = fn >= 2 ? 1 : 0;
            const bool conv = (fn & 1) != 0;
            // the kernel the textbook correlation uses: reversed (own reversal) for convolution
            std::vector<double> et(taps);
            int ecc = cc;
            if (conv) { for (int i = 0; i < ks; ++i) et[i] = taps[ks - 1 - i]; ecc = ks - 1 - cc; }
            const int L = ecc, R = ks - 1 - ecc;
            double sumabs = 0; for (double t : et) sumabs += std::fabs(t);
            for (int oi2 = 0; oi2 < 10 && fails_here < 64; ++oi2)
            {
                const int oi = oi2 % 5;
                // second pass (the four options without declared padding): the source view is a window of a larger canvas, so its rows
                // are not contiguous and unrelated pixels lie around it; they must never be read (the expectation never uses them)
                const bool window = oi2 >= 5;
                const boundary_option opt = ALL_OPTS[oi];
                const bool padded = opt == boundary_option::extend_padded;
                if (window && padded) continue;
                // declared padding: exactly L samples before and R after along the axis, nothing else
                const int ox = window ? 2 : ((padded && axis == 0) ? L : 0), oy = window ? 1 : ((padded && axis == 1) ? L : 0);
                const int FW = window ? w + 3 : w + ((padded && axis == 0) ? L + R : 0), FH = window ? h + 2 : h + ((padded && axis == 1) ? L + R : 0);
                SrcStore<Cfg, Cfg::planar_src> store(FW, FH);
                Buf<typename Cfg::dst_px> dst(w, h);
                std::vector<double> F(size_t(FW) * FH * NC);     // shadow of the stored source values
                auto Fat = [&](int x, int y, int c) -> double { return F[(size_t(y + oy) * FW + (x + ox)) * NC + c]; };
                auto full = store.view();
                auto sv = gil::subimage_view(full, ox, oy, w, h);
                auto dv = dst.view();
                const std::vector<Content> contents = all_contents(-ox, FW - ox, -oy, FH - oy, NC);
                // one content, one destination: a separate guarded destination, or (alias) the source view itself — the
                // expectation is always computed from the shadow copy F of the ORIGINAL source values
                auto one = [&](Content const& ct, auto const& dvx, bool alias) {
                    double maxabs = 0;
                    for (int y = 0; y < FH; ++y)
                        for (int x = 0; x < FW; ++x)
                            for (int c = 0; c < NC; ++c)
                            {
                                src_ch v = Cfg::store(ct.value(x - ox, y - oy, c));
                                store.set(x, y, c, v);
                                double d = double(v);
                                F[(size_t(y) * FW + x) * NC + c] = d;
                                if (std::fabs(d) > maxabs) maxabs = std::fabs(d);
                            }
                    for (int y = 0; y < h; ++y)
                        for (int x = 0; x < w; ++x)
                            for (int c = 0; c < NC; ++c) if (!alias) dvx(x, y)[c] = dst_ch(Cfg::sentinel());
                    // ---- the real code
                    call(std::integral_constant<bool, Fixed>(), fn, sv, ker, dvx, opt);
                    if (alias) ++ctx.witness["in_place_calls"];
                    if (window) ++ctx.witness["source_window_of_larger_canvas"];
                    ++ctx.evaluations;
                    const bool nontriv = w > 0 && h > 0 && ks > 1;
                    if (nontriv) ++ctx.nontrivial;
                    // ---- the textbook sum
                    const double tol = Cfg::is_float ? 1e-5 * sumabs * maxabs : 0.0;
                    long bad = 0; std::string first;
                    const int n = axis == 0 ? w : h;
                    long borders = 0, edge_used = 0, pad_used = 0;
                    for (int y = 0; y < h; ++y)
                        for (int x = 0; x < w; ++x)
                        {
                            const int pos = axis == 0 ? x : y;
                            const bool border = (pos - L < 0) || (pos + R >= n);
                            for (int c = 0; c < NC; ++c)
                            {
                                double exp;
                                bool exact = !Cfg::is_float;
                                if (border && opt == boundary_option::output_ignore) { exp = alias ? Fat(x, y, c) : double(dst_ch(Cfg::sentinel())); exact = true; ++borders; }
                                else if (border && opt == boundary_option::output_zero) { exp = 0; exact = true; ++borders; }
                                else
                                {
                                    exp = 0;
                                    for (int k = 0; k < ks; ++k)
                                    {
                                        int q = pos + k - ecc;
                                        double s;
                                        if (q >= 0 && q < n) s = axis == 0 ? Fat(q, y, c) : Fat(x, q, c);
                                        else if (opt == boundary_option::extend_zero) s = 0;
                                        else if (opt == boundary_option::extend_constant)
                                        {
                                            int qc = q < 0 ? 0 : n - 1;
                                            s = axis == 0 ? Fat(qc, y, c) : Fat(x, qc, c);
                                            ++edge_used;
                                        }
                                        else { s = axis == 0 ? Fat(q, y, c) : Fat(x, q, c); ++pad_used; }   // extend_padded
                                        exp += s * et[k];
                                    }
                                }
                                double got = double(dvx(x, y)[c]);
                                bool ok = exact ? (got == exp) : (std::fabs(got - exp) <= tol);
                                if (!ok)
                                {
                                    if (!bad) first = vh::S() << "dst(" << x << "," << y << ")[" << c << "]=" << got << " expected " << exp << (border ? " (border output)" : "");
                                    ++bad;
                                }
                            }
                        }
                    std::string id;
                    auto mkid = [&]() { if (id.empty()) id = vh::S() << ubase << "/" << FN_NAME[fn] << "/" << opt_name(opt) << "/" << ct.name() << (alias ? "/in-place" : "") << (window ? "/src-window" : ""); return id; };
                    if (bad)
                    {
                        ++fails_here;
                        ctx.fail(mkid(), (opt == boundary_option::output_ignore || opt == boundary_option::output_zero) ? "dst!=textbook-sum(output_*)" : "dst!=textbook-sum",
                                 vh::S() << bad << " wrong value(s); first: " << first);
                    }
                    if (!dst.g.intact()) { ++fails_here; ctx.fail(mkid(), "write-outside-destination"); }
                    if (!store.intact()) { ++fails_here; ctx.fail(mkid(), "write-into-source-surroundings"); }
                    if (ctx.san_take_lazy(mkid)) ++fails_here;
                    // ---- witnesses
                    ++ctx.witness[opt_name(opt)];
                    ++ctx.witness[FN_NAME[fn]];
                    ++ctx.witness[Fixed ? "fixed_kernel" : "dynamic_kernel"];
                    if (borders) ++ctx.witness["border_outputs_checked"];
                    if (edge_used) ++ctx.witness["edge_replication_used"];
                    if (pad_used) ++ctx.witness["padding_read"];
                    if (n > 0 && n < ks && w > 0 && h > 0) ++ctx.witness["image_narrower_than_kernel"];
                    if (w == 0 || h == 0) ++ctx.witness["empty_image"];
                    if (ks == 1) ++ctx.witness["size1_scalar_path"];
                    if (ks > 1 && L != R) ++ctx.witness["asymmetric_centre"];
                    if (ct.kind == IMPULSE) ++ctx.counters["impulse_cases"]; else ++ctx.counters["pattern_cases"];
                    ++ctx.witness[Cfg::float_acc ? "float_accumulator" : "integer_accumulator"];
                    ++ctx.witness[Cfg::is_float ? "tolerance_compared" : "exactly_compared"];
                    if (nontriv && ct.kind == RAMP && w > L && h > 0 && opt == boundary_option::extend_zero)
                        ctx.sample(vh::S() << mkid() << ": dst(" << (axis == 0 ? L : 0) << "," << (axis == 1 && h > L ? L : 0) << ")[0]="
                                           << double(dvx(axis == 0 ? L : 0, (axis == 1 && h > L) ? L : 0)[0]));
                };
                // a destination whose rows are not contiguous: a sub-view of a larger guarded canvas (the source is a whole image for the
                // four non-padded options); every canvas byte outside the view must be left alone
                Buf<typename Cfg::dst_px> canvas(w + 3, h + 2);
                auto dsub = gil::subimage_view(canvas.view(), 2, 1, w, h);
                for (Content const& ct : contents)
                {
                    one(ct, dv, false);
                    if (fails_here >= 64) break;
                    if (ct.kind == RAMP || ct.kind == IMPULSE)
                    {
                        if (canvas.g.size()) std::memset(canvas.g.data(), 0x6B, canvas.g.size());
                        one(ct, dsub, false);
                        ++ctx.witness["destination_sub_view"];
                        long outside = 0;
                        const size_t pxb = sizeof(typename Cfg::dst_px);
                        for (int cy = 0; cy < h + 2; ++cy) for (int cx = 0; cx < w + 3; ++cx)
                        {
                            if (cx >= 2 && cx < 2 + w && cy >= 1 && cy < 1 + h) continue;
                            const unsigned char* b = canvas.g.data() + (size_t(cy) * size_t(w + 3) + size_t(cx)) * pxb;
                            for (size_t k = 0; k < pxb; ++k) if (b[k] != 0x6B) ++outside;
                        }
                        if (outside || !canvas.g.intact())
                        {
                            ++fails_here;
                            ctx.fail(vh::S() << Cfg::name() << "/" << FN_NAME[fn] << "/" << opt_name(opt) << "/" << w << "x" << h << "/k" << ks << "c" << cc << "/dst-sub-view", "write-outside-destination-view", vh::S() << outside << " canvas byte(s) around the destination view changed");
                        }
                        if (fails_here >= 64) break;
                    }
                    in_place(one, ct, gil::subimage_view(store.mview(), ox, oy, w, h), std::integral_constant<bool, (std::is_same<typename Cfg::src_px, typename Cfg::dst_px>::value && !Cfg::planar_src)>());
                    if (fails_here >= 64) break;
                }
            }
        }
        if (fails_here >= 64) ++ctx.counters["units_cut_after_64_failures"];
    }

    template <int S> void fixed_size(int N, int KF)
    {
        if (S > KF) return;
        std::vector<typename Cfg::ktype> kt(S); std::vector<double> taps(S);
        for (int i = 0; i < S; ++i) { kt[i] = Cfg::ktap(PRIMES[i]); taps[i] = double(kt[i]); }
        for (int cc = 0; cc < S; ++cc)
        {
            gil::kernel_1d_fixed<typename Cfg::ktype, S> ker(kt.begin(), cc);
            for (int h = 0; h <= N; ++h)
                for (int w = 0; w <= N; ++w)
                {
                    if (!ctx.take()) continue;
                    unit<gil::kernel_1d_fixed<typename Cfg::ktype, S>, true>(ker, taps, S, cc, w, h);
                    if (ctx.timed_out()) return;
                }
        }
    }

    void run()
    {
        const int N = int(ctx.B("N", 4)), K = int(ctx.B("K", 4)), KF = int(ctx.B("KF", 3));
        for (int ks = 1; ks <= K; ++ks)
        {
            std::vector<typename Cfg::ktype> kt(ks); std::vector<double> taps(ks);
            for (int i = 0; i < ks; ++i) { kt[i] = Cfg::ktap(PRIMES[i]); taps[i] = double(kt[i]); }
            for (int cc = 0; cc < ks; ++cc)
            {
                gil::kernel_1d<typename Cfg::ktype> ker(kt.begin(), ks, cc);
                for (int h = 0; h <= N; ++h)
                    for (int w = 0; w <= N; ++w)
                    {
                        if (!ctx.take()) continue;
                        unit<gil::kernel_1d<typename Cfg::ktype>, false>(ker, taps, ks, cc, w, h);
                        if (ctx.timed_out()) return;
                    }
            }
        }
        fixed_size<1>(N, KF); fixed_size<3>(N, KF); fixed_size<5>(N, KF); fixed_size<7>(N, KF);
    }
};

} // namespace c15
