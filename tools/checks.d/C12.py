# registry fragment for C12 (exec'd by tools/checks.py with CHECKS, ASSUME_COMMON, NOT_APPLICABLE in scope)
_c12_deps = ['harness/io_common.hpp', 'harness/c12_common.hpp']
_c12_tiff_deps = _c12_deps + ['harness/c12_tiff.hpp']
# TIFF cost classes (harness/c12_tiff.hpp): class 0 = uncompressed strip/tile (full product), class 1 = cheap codecs
# (LZW, PackBits, Deflate x2, CCITT x4 for gray1), class 2 = LZMA / ZSTD (~10 ms codec set-up per image).
_c12_tiff_quick = dict(N=9, mid_orgs=3, mid_dests=5, mid_contents=15, slow_orgs=1, slow_dests=4, slow_contents=9)
_c12_tiff_thorough = dict(N=18, mid_orgs=31, mid_dests=7, mid_contents=15, slow_orgs=3, slow_dests=4, slow_contents=15)
CHECKS['C12'] = dict(
    level='exploration',
    technique='exhaustive finite-domain enumeration of the real write_view -> read_image round trip against the source view '
              '(identity reference model), ASan/UBSan as monitors, every case in a forked worker',
    rule='for each format (BMP, PNM binary, TARGA, PNG, TIFF {strip, tiled 16x16} x {none, LZW, PackBits, Deflate, Adobe '
         'Deflate, LZMA, ZSTD; CCITT RLE/T.4/T.6 for 1-bit}, JPEG q=100) x every pixel type of the 14 candidates with '
         'is_write_supported && is_read_supported (computed at compile time) x every (w,h) in {1..N}^2 x view organisation '
         '{image, interior sub-view, subsampled(2,1), flipped_up_down, planar} where the writer compiles for it x destination '
         '{file name, FILE* (TIFF: TIFF* handle), std::ostream} x content {unique tags, all-min, all-max, checker}. '
         'Case = that tuple (distinct by construction); non-trivial = tagged content or the plain image organisation. '
         'TIFF codecs other than "none" run on a stated sub-product of organisations/destinations (bounds mid_*/slow_*).',
    assumptions=ASSUME_COMMON + [
        'libpng 1.6 / libjpeg-turbo / libtiff 4.5 as installed in this image; inside them only interceptor-visible errors are seen',
        'JPEG bound fixed once from measurement on this libjpeg (all w,h<=18): gray8/cmyk8 max error 1 -> bound 2; '
        'rgb8/bgr8 (YCbCr, 2x2 chroma subsampling, tags wrap modulo 256) max 173 -> bound 192; constant images: 1',
        'scratch files live under /verif/build/io (never /tmp)',
        'pixels are read from the source view with view(x,y) (validated by C02/C08)',
    ],
    tus=[dict(name='c12_bmp', src='harness/c12_bmp.cpp', deps=_c12_deps),
         dict(name='c12_pnm', src='harness/c12_pnm.cpp', deps=_c12_deps),
         dict(name='c12_targa', src='harness/c12_targa.cpp', deps=_c12_deps),
         dict(name='c12_png', src='harness/c12_png.cpp', deps=_c12_deps, libs=['-lpng', '-lz']),
         dict(name='c12_jpeg', src='harness/c12_jpeg.cpp', deps=_c12_deps, libs=['-ljpeg']),
         dict(name='c12_tiff_a', src='harness/c12_tiff_a.cpp', deps=_c12_tiff_deps, libs=['-ltiffxx', '-ltiff']),
         dict(name='c12_tiff_b', src='harness/c12_tiff_b.cpp', deps=_c12_tiff_deps, libs=['-ltiffxx', '-ltiff']),
         dict(name='c12_tiff_c', src='harness/c12_tiff_c.cpp', deps=_c12_tiff_deps, libs=['-ltiffxx', '-ltiff'])],
    runs=dict(
        quick=[dict(tu='c12_tiff_a', group='roundtrip', bounds=_c12_tiff_quick, shards=12),
               dict(tu='c12_tiff_b', group='roundtrip', bounds=_c12_tiff_quick, shards=12),
               dict(tu='c12_tiff_c', group='roundtrip', bounds=_c12_tiff_quick, shards=10),
               dict(tu='c12_png', group='roundtrip', bounds=dict(N=9), shards=10),
               dict(tu='c12_pnm', group='roundtrip', bounds=dict(N=9), shards=4),
               dict(tu='c12_bmp', group='roundtrip', bounds=dict(N=9), shards=2),
               dict(tu='c12_targa', group='roundtrip', bounds=dict(N=9), shards=2),
               dict(tu='c12_jpeg', group='roundtrip', bounds=dict(N=9), shards=2),
               dict(tu='c12_bmp', group='matrix'), dict(tu='c12_pnm', group='matrix'), dict(tu='c12_targa', group='matrix'),
               dict(tu='c12_png', group='matrix'), dict(tu='c12_jpeg', group='matrix'), dict(tu='c12_tiff_a', group='matrix')],
        thorough=[dict(tu='c12_tiff_a', group='roundtrip', bounds=_c12_tiff_thorough, shards=18),
                  dict(tu='c12_tiff_b', group='roundtrip', bounds=_c12_tiff_thorough, shards=18),
                  dict(tu='c12_tiff_c', group='roundtrip', bounds=_c12_tiff_thorough, shards=18),
                  dict(tu='c12_png', group='roundtrip', bounds=dict(N=18), shards=18),
                  dict(tu='c12_pnm', group='roundtrip', bounds=dict(N=18), shards=9),
                  dict(tu='c12_bmp', group='roundtrip', bounds=dict(N=18), shards=6),
                  dict(tu='c12_targa', group='roundtrip', bounds=dict(N=18), shards=6),
                  dict(tu='c12_jpeg', group='roundtrip', bounds=dict(N=18), shards=6),
                  dict(tu='c12_bmp', group='matrix'), dict(tu='c12_pnm', group='matrix'), dict(tu='c12_targa', group='matrix'),
                  dict(tu='c12_png', group='matrix'), dict(tu='c12_jpeg', group='matrix'), dict(tu='c12_tiff_a', group='matrix')]),
    witnesses_required=dict(
        quick=['types_bmp', 'types_pnm', 'types_targa', 'types_png', 'types_jpeg', 'types_tiff', 'tiff_strip', 'tiff_tiled', 'tiff_tile32x16-none', 'tiff_tile16x32-none',
               'tiff_strip-lzw', 'tiff_tile16-lzw', 'tiff_strip-packbits', 'tiff_strip-adobe-deflate', 'tiff_strip-deflate',
               'org_image', 'org_subview', 'org_subsampled21', 'org_flipped_ud', 'org_planar',
               'dest_name', 'dest_FILE', 'dest_ostream', 'content_tags', 'content_min', 'content_max', 'content_checker',
               'width_not_multiple_of_4', 'width_not_multiple_of_8'],
        thorough=['types_bmp', 'types_pnm', 'types_targa', 'types_png', 'types_jpeg', 'types_tiff', 'tiff_strip', 'tiff_tiled', 'tiff_tile32x16-none', 'tiff_tile16x32-none',
                  'tiff_strip-lzw', 'tiff_tile16-lzw', 'tiff_strip-packbits', 'tiff_strip-adobe-deflate', 'tiff_strip-deflate',
                  'org_image', 'org_subview', 'org_subsampled21', 'org_flipped_ud', 'org_planar',
                  'dest_name', 'dest_FILE', 'dest_ostream', 'content_tags', 'content_min', 'content_max', 'content_checker',
                  'width_not_multiple_of_4', 'width_not_multiple_of_8', 'beyond_tile_edge']),
    deadline=dict(quick=900, thorough=5400),
)
