// guard.hpp — exactly-sized harness buffers whose surroundings are (a) ASan-poisoned, so a stray
// read or write produces a sanitizer report attributed to the case in flight, and (b) filled with
// a canary that is compared afterwards, so a stray write is seen even without ASan.
#pragma once
#include "vh.hpp"
#include <cstdlib>
#include <cstring>

namespace vh {

class GuardBuf
{
    unsigned char* raw_ = nullptr;
    size_t n_ = 0, pre_ = 0, post_ = 0, total_ = 0;
    static constexpr unsigned char CANARY = 0xC5;

public:
    // n usable bytes starting at an address that is 64-byte aligned plus `misalign` (0..7 keeps the
    // ASan poisoning byte-precise at the end; the start then shares a shadow granule with the
    // left redzone, which stays canary-checked only).
    explicit GuardBuf(size_t n, unsigned char fill = 0, size_t misalign = 0, size_t slack = 128)
        : n_(n), pre_(slack + misalign), post_(slack)
    {
        total_ = pre_ + n_ + post_ + 64;
        void* p = nullptr;
        if (posix_memalign(&p, 64, total_) != 0) abort();
        raw_ = static_cast<unsigned char*>(p);
        std::memset(raw_, CANARY, total_);
        std::memset(raw_ + pre_, fill, n_);
        poison();
    }
    GuardBuf(GuardBuf const&) = delete;
    GuardBuf& operator=(GuardBuf const&) = delete;
    ~GuardBuf() { unpoison(); free(raw_); }

    unsigned char* data() { return raw_ + pre_; }
    unsigned char const* data() const { return raw_ + pre_; }
    size_t size() const { return n_; }

    void poison()
    {
#ifdef VH_ASAN
        // left: [raw_, data) — only whole granules can be poisoned on the left of an unaligned start
        size_t left = pre_ & ~size_t(7);
        __asan_poison_memory_region(raw_, left);
        __asan_poison_memory_region(raw_ + pre_ + n_, total_ - pre_ - n_);
#endif
    }
    void unpoison()
    {
#ifdef VH_ASAN
        __asan_unpoison_memory_region(raw_, total_);
#endif
    }
    // true when no byte outside [data, data+n) was modified
    bool intact()
    {
        unpoison();
        bool ok = true;
        for (size_t i = 0; i < pre_ && ok; ++i) ok = raw_[i] == CANARY;
        for (size_t i = pre_ + n_; i < total_ && ok; ++i) ok = raw_[i] == CANARY;
        poison();
        return ok;
    }
};

} // namespace vh
