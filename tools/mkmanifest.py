#!/usr/bin/env python3
"""Regenerate /verif/MANIFEST.json from tools/checks.py (single source of truth) and validate it."""
import json, os, sys
VERIF = os.path.dirname(os.path.dirname(os.path.abspath(__file__)))
sys.path.insert(0, os.path.join(VERIF, 'tools'))
import checks as REG

props = [json.loads(l) for l in open(os.path.join(VERIF, 'properties.jsonl'))]
checks = []
for pid in sorted(REG.CHECKS):
    c = REG.CHECKS[pid]
    if pid not in REG.CLAIMED:
        continue
    checks.append(dict(
        property_id=pid,
        quick_cmd='python3 tools/vcheck.py %s --tier quick' % pid,
        thorough_cmd='python3 tools/vcheck.py %s --tier thorough' % pid,
        evidence_file='/verif/evidence/%s.json' % pid,
        replay_cmd_template='python3 tools/vcheck.py %s --replay {path}' % pid,
        engine='vcheck',
        level_claimed=dict(category=c['level'], text=c.get('level_text', c['rule']), design_ref=c.get('design_ref', 'DESIGN.md ' + pid)),
        level_note=c.get('level_note', '; '.join(c.get('assumptions', []))),
        technique=c['technique']))
claimed = {c['property_id'] for c in checks}
na = []
for p in props:
    if p['id'] not in claimed:
        na.append(dict(property_id=p['id'], reason=REG.NOT_APPLICABLE.get(p['id'], 'check not built yet in this round; see DESIGN.md for the planned bounded-exhaustive exploration')))
m = dict(
    version=1,
    setup_cmd='python3 tools/vcheck.py --build-all',
    hooks=dict(guard='BOOSTORG_GIL_VERIF',
               enable='harnesses are compiled with -DBOOSTORG_GIL_VERIF against /repo/include (header-only); no source hook exists',
               baseline_off_cmd='cmake --build /repo/_build -j16 && ctest --test-dir /repo/_build -j8 --timeout 900',
               source_commits=[], add_only=True),
    engines=[dict(name='vcheck', path='tools/vcheck.py', serves_properties=sorted(claimed),
                  kind_free_text='bounded exhaustive exploration of the real GIL code: C++ harnesses (harness/*.cpp over engine/vh.hpp) '
                                 'enumerate a finite alphabet/state space completely and compare every step with an independent reference model; '
                                 'python driver shards, merges, matches known findings, writes evidence')],
    checks=checks,
    not_applicable=na,
    notes='See DESIGN.md. Known findings: known_findings.txt. Seeded breaking changes: seeded/.')
json.dump(m, open(os.path.join(VERIF, 'MANIFEST.json'), 'w'), indent=1)
try:
    import jsonschema
    jsonschema.validate(m, json.load(open('/root/.vp/MANIFEST.schema.json')))
    print('MANIFEST.json valid; claimed:', ' '.join(sorted(claimed)))
except ImportError:
    print('MANIFEST.json written (jsonschema not importable here)')
