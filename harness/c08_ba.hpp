// c08_ba.hpp — memory site and background enumeration for the bit-aligned part of C08.
// A 64-byte window: target pixel at byte 8 + bit offset o (o = 0..7), a second mutable pixel at byte 24,
// a pixel reached through const references at byte 40; >= 8 bytes of slack before the first and 16 after
// the last pixel. GIL sees plain `unsigned char` memory, as a bit-aligned image owns it.
// BitField carriers follow GIL's own rule (bit_aligned_image_type): the smallest unsigned type with at
// least pixel-bits + 7 bits, so every channel fits in one carrier read at any bit offset.
#pragma once
#include "c08_ops.hpp"

namespace c08 {

template <class C> struct BASite
{
    static constexpr size_t LEN = 64;
    static constexpr size_t TB = 8, OB = 24, CB = 40;    // byte positions of target / other / const pixel
    unsigned char buf[LEN + 16];
    int o = 0, o2 = 0, o3 = 0;
    BASite() { std::memset(buf, 0, sizeof buf); }
    void offsets(int off) { o = off; o2 = (off * 3 + 5) & 7; o3 = (off * 5 + 3) & 7; }
    void load(unsigned char const* b) { std::memcpy(buf, b, LEN); }
    void store(unsigned char* g) { std::memcpy(g, buf, LEN); }
    size_t tpos() const { return TB * 8 + size_t(o); }
    size_t opos() const { return OB * 8 + size_t(o2); }
    size_t cpos() const { return CB * 8 + size_t(o3); }
    typename C::ref_t tref() { return typename C::ref_t(buf + TB, o); }
    typename C::ref_t oref() { return typename C::ref_t(buf + OB, o2); }
    typename C::cref_t cref() { return typename C::cref_t(buf + CB, o3); }
    template <int K> auto tgt() { return gil::at_c<K>(tref()); }
    template <int K> auto oth() { return gil::at_c<K>(oref()); }
    template <int K> auto cst() { return gil::at_c<K>(cref()); }
};

// Enumerate backgrounds for configuration C at every bit offset 0..7 and call f(ops) once per background
// (ops.before holds the background, ops.where/bg id are set). Shard unit = (offset, background chunk).
//   dense = 2: every content of the two bytes that hold the target pixel (pixels of <= 9 bits)
//   dense = 3: every content of the three bytes that hold it (pixels of <= 17 bits; thorough tier)
//   dense = 0: pattern backgrounds (zeros, ones, 0xAA, 0x55, walking one / walking zero over the pixel and
//              its surroundings, 16 hashed fills)
template <class C, class F> inline void ba_enumerate(vh::Ctx& ctx, const char* what, int dense, F&& f)
{
    using Site = BASite<C>;
    static_assert(sizeof(typename C::bf) * 8 >= size_t(7), "");
    const int P = C::P();
    if (int(sizeof(typename C::bf)) * 8 < P + 7) { ctx.fail(C::name(), "harness-config-error", "carrier smaller than pixel bits + 7"); return; }
    if (dense == 2 && P > 9) dense = 0;
    if (dense == 3 && P > 17) dense = 0;
    if (dense == 3 && P <= 9) dense = 2;
    Site site;
    ChanOps<C, Site> ops(ctx, site);
    const std::string cname = std::string(what) + " " + C::name();
    for (int off = 0; off < 8; ++off)
    {
        site.offsets(off);
        const std::string prefix = vh::S() << "ba " << C::name() << "/o=" << off;
        if (dense)
        {
            const uint64_t nbg = uint64_t(1) << (8 * dense), CH = dense == 2 ? 8192 : (uint64_t(1) << 18);
            for (uint64_t b0 = 0; b0 < nbg; b0 += CH)
            {
                if (!ctx.take()) continue;
                ctx.cur = vh::S() << cname << " o=" << off << " backgrounds " << b0 << "..";
                ops.where = prefix; ops.fails = 0;
                unsigned char bytes[Site::LEN];
                for (uint64_t bg = b0; bg < b0 + CH && ops.fails < 64; ++bg)
                {
                    // surroundings (and the other two pixels) vary with the background, deterministically
                    if ((bg & 63) == 0 || bg == b0) model::fill_hashed(bytes, Site::LEN, 0xBA5E0000ull + (bg >> 6) * 8 + uint64_t(off));
                    bytes[Site::TB] = (unsigned char)(bg & 255); bytes[Site::TB + 1] = (unsigned char)((bg >> 8) & 255);
                    if (dense == 3) bytes[Site::TB + 2] = (unsigned char)((bg >> 16) & 255);
                    ops.set_background_num(bytes, bg, 2 * dense);
                    f(ops);
                }
                if (ops.fails >= 64) ++ctx.counters["units_stopped_after_64_failures"];
                ++ctx.witness[dense == 2 ? "ba_dense2_units" : "ba_dense3_units"];
                if (ctx.timed_out()) return;
            }
        }
        else
        {
            if (!ctx.take()) continue;
            ctx.cur = vh::S() << cname << " o=" << off << " pattern backgrounds";
            ops.fails = 0;
            auto pats = pattern_backgrounds(Site::LEN, Site::TB * 8 - 8, Site::TB * 8 + 7 + size_t(P) + 9);
            for (auto const& p : pats)
            {
                if (ops.fails >= 64) break;
                ops.set_background(p.bytes.data(), prefix + "/bg=" + p.name);
                f(ops);
            }
            if (ops.fails >= 64) ++ctx.counters["units_stopped_after_64_failures"];
            ++ctx.witness["ba_pattern_units"];
            if (ctx.timed_out()) return;
        }
    }
    ++ctx.witness["ba_configs"];
    ctx.sample(vh::S() << cname << ": " << C::N << " channel(s), " << P << " bits/pixel, offsets 0..7, "
                       << (dense == 2 ? "all 2^16 contents of the 2 bytes under the pixel" : dense == 3 ? "all 2^24 contents of the 3 bytes under the pixel" : "pattern backgrounds"));
}

// the bit-aligned configurations of DESIGN §3 C08 (b)
#define C08_BA_CONFIGS(X)                                                                          \
    X((Cfg<uint8_t, 1>)) X((Cfg<uint16_t, 2>)) X((Cfg<uint16_t, 3>)) X((Cfg<uint16_t, 4>))         \
    X((Cfg<uint16_t, 5>)) X((Cfg<uint16_t, 6>)) X((Cfg<uint16_t, 7>)) X((Cfg<uint16_t, 8>))        \
    X((Cfg<uint16_t, 1, 2, 3>)) X((Cfg<uint16_t, 2, 2, 2>)) X((Cfg<uint16_t, 3, 5>))               \
    X((Cfg<uint32_t, 5, 6, 5>)) X((Cfg<uint32_t, 4, 4, 4>)) X((Cfg<uint32_t, 12, 12>))             \
    X((Cfg<uint64_t, 7, 7, 7, 7>)) X((Cfg<uint64_t, 16, 16, 16>))

template <class T> struct c08_unparen;
template <class T> struct c08_unparen<void(T)> { using type = T; };
#define C08_T(P) typename c08_unparen<void P>::type

} // namespace c08
