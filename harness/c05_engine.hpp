// c05_engine.hpp — C05 part 2: the explicit-state search (type-independent part).
//
// A *unit* is one configuration: (model/layout of pixel A, model/layout of pixel B, storage variant of each,
// background byte).  State = the two value maps colour -> value (that is all two pixels can remember; the
// storage behind them is a function of it, which is re-checked through the raw accessors on every step).
// Breadth-first over the op alphabet up to `depth`; every expansion re-creates the state by replaying its op
// history through the REAL GIL calls from the raw-written initial state, stepping the model in lock-step, checks that
// the replay reproduces the recorded key (canon on replay), applies one more op and evaluates the full invariant.
#pragma once
#include "c05_model.hpp"

namespace c05 {

enum OpCode : uint8_t
{
    // unary, mutating, on slot s
    SET_COLOR, SET_SEM, SET_ATC, SET_IDX, FILL, GENERATE, XFORM1_SELF,
    // binary, mutating A from B
    CONSTRUCT, CONSTRUCT_CV, ASSIGN, ASSIGN_CV, COPY, COPY_CV, XFORM1, XFORM2_AB, XFORM2_BA, SWAP, ALIAS_SET, ALIAS_ASSIGN,
    // read-only self loops
    R_FOREACH1, R_FOREACH1_C, R_MINMAX, R_MINMAX_C, R_EQ, R_EQ_CV, R_FOREACH2, R_FOREACH3, R_ALIAS_READ, R_CALIAS_READ,
    OP_COUNT
};
inline const char* op_name(uint8_t c)
{
    static const char* n[] = {"get_color=", "semantic_at_c=", "at_c=", "operator[]=", "static_fill", "static_generate", "static_transform1(self)",
                              "construct", "construct(const-view)", "assign", "assign(const-view)", "static_copy", "static_copy(const-view)",
                              "static_transform1", "static_transform2(A,B)", "static_transform2(B,A)", "swap", "alias.get_color=", "alias=",
                              "static_for_each1", "static_for_each1(const)", "static_min/max", "static_min/max(const)", "==/!=/static_equal",
                              "==/!=/static_equal(const-view)", "static_for_each2", "static_for_each3", "alias-read", "const-alias-read"};
    return c < OP_COUNT ? n[c] : "?";
}
struct Op { uint8_t code, slot, ch; int val; };

struct Model { int n = 0; int v[MAXN] = {}; };
inline bool operator==(Model const& a, Model const& b) { for (int i = 0; i < a.n; ++i) if (a.v[i] != b.v[i]) return false; return a.n == b.n; }

// what GIL's accessors returned for one pixel (filled by template code, judged by check_obs)
struct Obs
{
    int n = 0; bool has_idx = false;
    int v_color[MAXN], v_sem[MAXN], v_atc[MAXN], v_idx[MAXN];
    int c_color[MAXN], c_sem[MAXN], c_atc[MAXN], c_idx[MAXN];
    bool rel[MAXN];
};
// recording functor log
struct Rec
{
    int ncalls = 0, arity = 0;
    ChId id[8][3]; int val[8][3]; int col[8][3];
    int gen[8]; int ngen = 0;
    void clear() { ncalls = 0; arity = 0; ngen = 0; }
};

struct Verdict
{
    bool ok = true; std::string clause, detail;
    void bad(std::string const& c, std::string const& d) { if (ok) { ok = false; clause = c; detail = d; } }
};

inline std::string mstr(Model const& m, LayoutInfo const& li)
{
    std::string s = "{";
    for (int c = 0; c < m.n; ++c) { if (c) s += ","; s += li.cname[c]; s += "="; s += std::to_string(m.v[c]); }
    return s + "}";
}

// every clause of "at_c/operator[] = memory order, semantic_at_c/get_color = colour order, related by the mapping"
inline void check_obs(Obs const& o, LayoutInfo const& li, Model const& m, const char* who, Verdict& vd)
{
    for (int c = 0; c < o.n && vd.ok; ++c)
    {
        if (o.v_color[c] != m.v[c]) vd.bad("get_color-value", vh::S() << who << " get_color(" << li.cname[c] << ")=" << o.v_color[c] << " model " << mstr(m, li));
        else if (o.c_color[c] != c) vd.bad("get_color-channel", vh::S() << who << " get_color(" << li.cname[c] << ") refers to the storage of colour#" << o.c_color[c]);
        else if (o.v_sem[c] != m.v[c]) vd.bad("semantic_at_c-value", vh::S() << who << " semantic_at_c<" << c << ">=" << o.v_sem[c] << " model " << mstr(m, li));
        else if (o.c_sem[c] != c) vd.bad("semantic_at_c-channel", vh::S() << who << " semantic_at_c<" << c << "> refers to the storage of colour#" << o.c_sem[c]);
        else if (!o.rel[c]) vd.bad("mapping-relation", vh::S() << who << " semantic_at_c<" << c << "> is not at_c<channel_mapping[" << c << "]>");
    }
    for (int k = 0; k < o.n && vd.ok; ++k)
    {
        int c = li.col_at[k];
        if (o.v_atc[k] != m.v[c]) vd.bad("at_c-value", vh::S() << who << " at_c<" << k << ">=" << o.v_atc[k] << " but memory slot " << k << " of " << li.name << " is " << li.cname[c] << "; model " << mstr(m, li));
        else if (o.c_atc[k] != c) vd.bad("at_c-channel", vh::S() << who << " at_c<" << k << "> refers to the storage of colour#" << o.c_atc[k] << ", expected " << li.cname[c]);
        else if (o.has_idx && o.v_idx[k] != m.v[c]) vd.bad("operator[]-value", vh::S() << who << " [" << k << "]=" << o.v_idx[k] << " model " << mstr(m, li));
        else if (o.has_idx && o.c_idx[k] != c) vd.bad("operator[]-channel", vh::S() << who << " [" << k << "] refers to the storage of colour#" << o.c_idx[k]);
    }
}

// "visit each channel exactly once, pairing arguments by colour": n calls, every colour once, all arguments of a call
// have the same colour, and the values seen are the model's. ms[j] = model of the j-th argument.
inline void check_rec(Rec const& r, int n, int arity, Model const* const* ms, const char* what, Verdict& vd)
{
    if (r.ncalls != n) { vd.bad("visit-count", vh::S() << what << ": functor called " << r.ncalls << " times for " << n << " channels"); return; }
    int seen[MAXN] = {};
    for (int i = 0; i < n; ++i)
    {
        int c = r.col[i][0];
        if (c < 0 || c >= n) { vd.bad("visit-channel", vh::S() << what << ": call " << i << " got something that is not a channel of the pixel"); return; }
        ++seen[c];
        for (int j = 0; j < arity; ++j)
        {
            if (r.col[i][j] != c) { vd.bad("visit-pairing", vh::S() << what << ": call " << i << " paired colour#" << c << " with colour#" << r.col[i][j] << " (argument " << j << ")"); return; }
            if (r.val[i][j] != ms[j]->v[c]) { vd.bad("visit-value", vh::S() << what << ": call " << i << " argument " << j << " value " << r.val[i][j] << " model " << ms[j]->v[c]); return; }
        }
    }
    for (int c = 0; c < n; ++c) if (seen[c] != 1) { vd.bad("visit-once", vh::S() << what << ": colour#" << c << " visited " << seen[c] << " times"); return; }
}

struct Bounds { int depth = 2, vals = 0, rots = 2, bgs = 2; };

// type-erased unit
struct IPair
{
    LayoutInfo la, lb;
    Model ma, mb;
    int wa[MAXN], wb[MAXN];       // channel widths per colour
    bool same_type = false, a_homog = false, b_homog = false, can_construct = false, can_alias = false, can_calias = false, a_value = false;
    std::string name;             // "<A type>[variant] <- <B type>[variant] bg=.."
    Rec rec;
    bool cross_layout = false;
    // coverage witnesses counted by the ops themselves
    long w_eq_true = 0, w_eq_false = 0, w_assign_xl = 0, w_gen_semantic = 0, w_gen_other = 0, w_construct = 0, w_alias_write = 0, w_swap = 0, w_minmax = 0;
    virtual ~IPair() {}
    virtual void wipe() = 0;                       // storage := background
    virtual void raw_write() = 0;                  // storage := models (GIL-free)
    virtual void raw_check(Verdict&) = 0;          // storage == models (GIL-free)
    virtual void exec(Op const&, Verdict&) = 0;    // run the real GIL op, step the model, op-specific clauses
    virtual void invariant(Verdict&) = 0;          // all accessors of both pixels, through mutable and const access paths
    virtual bool intact() = 0;

    int maxv(int slot, int c) const { int w = slot ? wb[c] : wa[c]; return (1 << w) - 1; }
    int minmax(int slot) const { int m = 1 << 30; for (int c = 0; c < la.n; ++c) m = std::min(m, maxv(slot, c)); return m; }
    // value j of the colour-distinct assignments, fitted to the channel
    int vfit(int slot, int c, int j) const { int w = slot ? wb[c] : wa[c]; int m = (1 << w) - 1; return w >= 16 ? ((j * 4099 + 257) & m) : w >= 8 ? ((j * 37 + 11) & m) : (j & m); }
};

inline std::string op_str(Op const& o, IPair const& P)
{
    vh::S s; s << op_name(o.code);
    bool unary = o.code <= XFORM1_SELF || o.code == R_FOREACH1 || o.code == R_FOREACH1_C || o.code == R_MINMAX || o.code == R_MINMAX_C;
    if (unary) s << "@" << (o.slot ? "B" : "A");
    if (o.code == SET_COLOR || o.code == SET_SEM || o.code == ALIAS_SET) s << "(" << (o.slot ? P.lb : P.la).cname[o.ch] << "," << o.val << ")";
    else if (o.code == SET_ATC || o.code == SET_IDX) s << "(" << int(o.ch) << "," << o.val << ")";
    else if (o.code == FILL || o.code == GENERATE) s << "(" << o.val << ")";
    return s;
}

// the op alphabet of a unit
inline void build_ops(IPair const& P, Bounds const& bd, std::vector<Op>& mut, std::vector<Op>& ro)
{
    int n = P.la.n;
    for (int s = 0; s < 2; ++s)
    {
        bool hom = s ? P.b_homog : P.a_homog;
        for (int c = 0; c < n; ++c)
        {
            std::vector<int> vs;
            int w = s ? P.wb[c] : P.wa[c], mx = (1 << w) - 1;
            if (bd.vals >= 1 && w <= 4) for (int v = 0; v <= mx; ++v) vs.push_back(v);
            else
            {
                for (int j = 1; j <= n; ++j) vs.push_back(P.vfit(s, c, j));       // the base assignment and its rotations
                if (n == 1) vs.push_back(P.vfit(s, c, 2));
                if (bd.vals >= 1) { vs.push_back(0); vs.push_back(mx); vs.push_back(mx - 1); }
            }
            std::sort(vs.begin(), vs.end()); vs.erase(std::unique(vs.begin(), vs.end()), vs.end());
            for (int v : vs)
            {
                mut.push_back(Op{SET_COLOR, uint8_t(s), uint8_t(c), v});
                mut.push_back(Op{SET_SEM, uint8_t(s), uint8_t(c), v});
                // memory-order ops name the memory index k; the value alphabet is that of the colour stored there
                int k = (s ? P.lb : P.la).mem[c];
                mut.push_back(Op{SET_ATC, uint8_t(s), uint8_t(k), v});
                if (hom) mut.push_back(Op{SET_IDX, uint8_t(s), uint8_t(k), v});
            }
        }
        int mm = P.minmax(s);
        std::vector<int> fv = {1 & mm, mm};
        if (bd.vals >= 1) { fv.push_back(0); fv.push_back(mm / 2); if (mm <= 15) for (int v = 0; v <= mm; ++v) fv.push_back(v); }
        std::sort(fv.begin(), fv.end()); fv.erase(std::unique(fv.begin(), fv.end()), fv.end());
        for (int v : fv) mut.push_back(Op{FILL, uint8_t(s), 0, v});
        mut.push_back(Op{GENERATE, uint8_t(s), 0, 0});
        mut.push_back(Op{GENERATE, uint8_t(s), 0, 1});
        if (bd.vals >= 1) mut.push_back(Op{GENERATE, uint8_t(s), 0, 3});
        mut.push_back(Op{XFORM1_SELF, uint8_t(s), 0, 0});
        ro.push_back(Op{R_FOREACH1, uint8_t(s), 0, 0});
        ro.push_back(Op{R_FOREACH1_C, uint8_t(s), 0, 0});
        if (hom) { ro.push_back(Op{R_MINMAX, uint8_t(s), 0, 0}); ro.push_back(Op{R_MINMAX_C, uint8_t(s), 0, 0}); }
    }
    if (P.can_construct) { mut.push_back(Op{CONSTRUCT, 0, 0, 0}); mut.push_back(Op{CONSTRUCT_CV, 0, 0, 0}); }
    for (uint8_t c : {ASSIGN, ASSIGN_CV, COPY, COPY_CV, XFORM1, XFORM2_AB, XFORM2_BA}) mut.push_back(Op{c, 0, 0, 0});
    if (P.same_type) mut.push_back(Op{SWAP, 0, 0, 0});
    if (P.can_alias)
    {
        for (int c = 0; c < n; ++c) { mut.push_back(Op{ALIAS_SET, 1, uint8_t(c), P.vfit(1, c, 1)}); mut.push_back(Op{ALIAS_SET, 1, uint8_t(c), P.vfit(1, c, 2 + c)}); }
        mut.push_back(Op{ALIAS_ASSIGN, 0, 0, 0});
        ro.push_back(Op{R_ALIAS_READ, 0, 0, 0});
    }
    if (P.can_calias) ro.push_back(Op{R_CALIAS_READ, 0, 0, 0});
    for (uint8_t c : {R_EQ, R_EQ_CV, R_FOREACH2, R_FOREACH3}) ro.push_back(Op{c, 0, 0, 0});
}

inline std::string state_key(Model const& a, Model const& b)
{
    std::string k; k.reserve(4 * MAXN);
    for (int c = 0; c < a.n; ++c) { k += char(a.v[c] & 0xff); k += char((a.v[c] >> 8) & 0xff); }
    for (int c = 0; c < b.n; ++c) { k += char(b.v[c] & 0xff); k += char((b.v[c] >> 8) & 0xff); }
    return k;
}

struct Node { Model a, b; uint8_t depth; uint8_t init; Op hist[4]; };

inline bool distinct_values(Model const& m) { for (int i = 1; i < m.n; ++i) if (m.v[i] != m.v[0]) return true; return m.n == 1 && m.v[0] != 0; }

inline void explore(IPair& P, vh::Ctx& ctx, Bounds const& bd)
{
    std::vector<Op> mut, ro;
    build_ops(P, bd, mut, ro);
    const int n = P.la.n;
    long fails_here = 0;
    auto hist_str = [&](Node const& nd, int upto, Op const* extra) {
        std::string s;
        for (int i = 0; i < upto; ++i) { if (i) s += ";"; s += op_str(nd.hist[i], P); }
        if (extra) { if (upto) s += ";"; s += op_str(*extra, P); }
        return s;
    };
    auto report = [&](Node const& nd, int upto, Op const* extra, Verdict const& vd) {
        ++fails_here;
        std::string opn = extra ? op_name(extra->code) : (upto ? op_name(nd.hist[upto - 1].code) : "init");
        ctx.fail(P.name + "/init" + std::to_string(nd.init) + "/" + hist_str(nd, upto, extra), opn + ":" + vd.clause, vd.detail);
    };
    auto set_init = [&](int r) {
        P.ma.n = P.mb.n = n;
        for (int c = 0; c < n; ++c) { P.ma.v[c] = P.vfit(0, c, 1 + c); P.mb.v[c] = P.vfit(1, c, n + 1 + (c + r) % n); }
        P.wipe(); P.raw_write();
    };
    auto san = [&](Node const& nd, int upto, Op const* extra) {
        ctx.san_take_lazy([&] { return P.name + "/init" + std::to_string(nd.init) + "/" + hist_str(nd, upto, extra); });
    };
    // read-only self loops + full invariant in a state that is live right now
    auto visit_state = [&](Node const& nd) -> bool {
        Verdict vd;
        P.raw_check(vd);
        if (vd.ok) P.invariant(vd);
        if (vd.ok && !P.intact()) vd.bad("guard", "bytes outside the pixel changed");
        ++ctx.evaluations;
        if (!vd.ok) { report(nd, nd.depth, nullptr, vd); return false; }
        for (Op const& o : ro)
        {
            Verdict v2; Model a0 = P.ma, b0 = P.mb;
            P.exec(o, v2);
            if (v2.ok) P.raw_check(v2);
            if (v2.ok && !(a0 == P.ma && b0 == P.mb)) v2.bad("readonly-changed-model", "");
            ++ctx.transitions; ++ctx.evaluations; ++ctx.traces; ++ctx.counters[std::string("op:") + op_name(o.code)];
            if (distinct_values(P.ma) || distinct_values(P.mb)) ++ctx.nontrivial;
            san(nd, nd.depth, &o);
            if (!v2.ok) { report(nd, nd.depth, &o, v2); return false; }
        }
        return true;
    };

    std::unordered_map<std::string, int> seen;
    std::deque<Node> q;
    int rots = std::min(bd.rots, n);
    for (int r = 0; r < rots; ++r)
    {
        set_init(r);
        Node nd; nd.a = P.ma; nd.b = P.mb; nd.depth = 0; nd.init = uint8_t(r);
        if (!seen.emplace(state_key(nd.a, nd.b), 0).second) continue;
        ++ctx.states;
        if (visit_state(nd)) q.push_back(nd);
    }
    while (!q.empty() && fails_here < 16)
    {
        Node nd = q.front(); q.pop_front();
        if (nd.depth >= bd.depth) continue;
        for (Op const& o : mut)
        {
            if (fails_here >= 16) break;
            // re-create the state: raw initial state, then the history through GIL
            set_init(nd.init);
            Verdict vd;
            for (int i = 0; i < nd.depth && vd.ok; ++i) { P.exec(nd.hist[i], vd); if (vd.ok) P.raw_check(vd); ++ctx.counters["replayed_steps"]; }
            if (vd.ok && !(P.ma == nd.a && P.mb == nd.b)) vd.bad("replay-not-canonical", "replayed history reached another state");
            if (!vd.ok) { vd.clause = "replay:" + vd.clause; report(nd, nd.depth, nullptr, vd); break; }
            Model a0 = P.ma, b0 = P.mb;
            P.exec(o, vd);
            if (vd.ok) P.raw_check(vd);
            if (vd.ok) P.invariant(vd);
            if (vd.ok && !P.intact()) vd.bad("guard", "bytes outside the pixel changed");
            ++ctx.transitions; ++ctx.evaluations; ++ctx.traces; ++ctx.counters[std::string("op:") + op_name(o.code)];
            if (distinct_values(a0) || distinct_values(b0) || distinct_values(P.ma)) ++ctx.nontrivial;
            san(nd, nd.depth, &o);
            if (!vd.ok) { report(nd, nd.depth, &o, vd); continue; }
            std::string k = state_key(P.ma, P.mb);
            if (seen.emplace(k, nd.depth + 1).second)
            {
                ++ctx.states;
                Node nx; nx.a = P.ma; nx.b = P.mb; nx.depth = uint8_t(nd.depth + 1); nx.init = nd.init;
                for (int i = 0; i < nd.depth; ++i) nx.hist[i] = nd.hist[i];
                nx.hist[nd.depth] = o;
                if (visit_state(nx)) q.push_back(nx);
            }
        }
        if (ctx.timed_out()) return;
    }
    if (fails_here == 0) ++ctx.witness["units_clean"]; else ++ctx.witness["units_failing"];
}

} // namespace c05
