// vs_model.hpp — GIL-free reference side of the view state space (C01/C02/C03):
//  * the affine index map of a derived view, stepped by the documented formula of each transformation
//  * the raw buffer as an LSB-first bit string (byte i/8, bit i%8) — on little-endian x86 this single
//    model covers byte channels, 16/32-bit integers, floats (by bit pattern), packed bit fields and
//    bit-aligned pixels alike.
#pragma once
#include <cstdint>
#include <cstring>
#include <string>
#include <vector>
#include <sstream>

namespace vs {

// derived(x,y) == source(ox + a*x + b*y, oy + c*x + d*y); k = selected source channel (memory order) or -1
struct Model
{
    long ox = 0, oy = 0, a = 1, b = 0, c = 0, d = 1;
    long w = 0, h = 0;
    int k = -1;       // source channel selected before any conversion
    int k2 = -1;      // channel of the CONVERTED pixel selected after conversion
    int conv = 0;     // 1: colour-converted (read-only adapted view)

    long sx(long x, long y) const { return ox + a * x + b * y; }
    long sy(long x, long y) const { return oy + c * x + d * y; }
    std::string key() const
    {
        std::ostringstream o;
        o << ox << ',' << oy << ',' << a << ',' << b << ',' << c << ',' << d << ',' << w << 'x' << h << ",k" << k << ",v" << conv << ",k2_" << k2;
        return o.str();
    }
    // v'(x,y) = v(x, h-1-y)
    Model flip_ud() const { Model m = *this; m.ox = ox + b * (h - 1); m.oy = oy + d * (h - 1); m.b = -b; m.d = -d; return m; }
    // v'(x,y) = v(w-1-x, y)
    Model flip_lr() const { Model m = *this; m.ox = ox + a * (w - 1); m.oy = oy + c * (w - 1); m.a = -a; m.c = -c; return m; }
    // v'(x,y) = v(y, x), dims (h,w)
    Model transposed() const { Model m = *this; m.a = b; m.b = a; m.c = d; m.d = c; m.w = h; m.h = w; return m; }
    // v'(x,y) = v(y, h-1-x), dims (h,w)      [property statement]
    Model rot90cw() const
    {
        Model m = *this; m.ox = ox + b * (h - 1); m.oy = oy + d * (h - 1);
        m.a = -b; m.b = a; m.c = -d; m.d = c; m.w = h; m.h = w; return m;
    }
    // v'(x,y) = v(w-1-y, x), dims (h,w)
    Model rot90ccw() const
    {
        Model m = *this; m.ox = ox + a * (w - 1); m.oy = oy + c * (w - 1);
        m.a = b; m.b = -a; m.c = d; m.d = -c; m.w = h; m.h = w; return m;
    }
    // v'(x,y) = v(w-1-x, h-1-y)
    Model rot180() const
    {
        Model m = *this; m.ox = ox + a * (w - 1) + b * (h - 1); m.oy = oy + c * (w - 1) + d * (h - 1);
        m.a = -a; m.b = -b; m.c = -c; m.d = -d; return m;
    }
    // v'(x,y) = v(x0+x, y0+y), dims (w2,h2)
    Model subimage(long x0, long y0, long w2, long h2) const
    {
        Model m = *this; m.ox = ox + a * x0 + b * y0; m.oy = oy + c * x0 + d * y0; m.w = w2; m.h = h2; return m;
    }
    // v'(x,y) = v(x*sx, y*sy), dims ceil(w/sx) x ceil(h/sy)      [property statement]
    Model subsampled(long sxs, long sys) const
    {
        Model m = *this; m.a = a * sxs; m.c = c * sxs; m.b = b * sys; m.d = d * sys;
        m.w = (w + sxs - 1) / sxs; m.h = (h + sys - 1) / sys; return m;
    }
    Model channel(int kk) const { Model m = *this; m.k = (k < 0 ? kk : k); return m; }
    Model channel2(int kk) const { Model m = *this; m.k2 = kk; return m; }
    Model converted() const { Model m = *this; m.conv = 1; return m; }
};

// ---- raw bit string
inline uint64_t peek_bits(unsigned char const* base, long bitpos, int nbits)
{
    uint64_t v = 0;
    for (int i = 0; i < nbits; ++i)
    {
        long p = bitpos + i;
        if ((base[p >> 3] >> (p & 7)) & 1) v |= (uint64_t(1) << i);
    }
    return v;
}
inline void poke_bits(unsigned char* base, long bitpos, int nbits, uint64_t v)
{
    for (int i = 0; i < nbits; ++i)
    {
        long p = bitpos + i;
        unsigned char m = (unsigned char)(1u << (p & 7));
        if ((v >> i) & 1) base[p >> 3] |= m; else base[p >> 3] &= (unsigned char)~m;
    }
}
inline uint64_t float_pattern(float f) { uint32_t b; std::memcpy(&b, &f, 4); return b; }
inline float pattern_float(uint64_t p) { uint32_t b = uint32_t(p); float f; std::memcpy(&f, &b, 4); return f; }

} // namespace vs
