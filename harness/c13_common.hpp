// c13_common.hpp -- C13 "all ways of reading one file agree": the format-independent differential engine.
// A format TU supplies a traits struct Fmt (tag, native-type dispatch, scanline row decoding, info check) and
// calls c13::check_seed<Fmt, Img>() for every seed.  Every oracle below transcribes one clause of the C13
// statement (properties.jsonl); the clause is named in the failure signature.
//
//   sig                         clause
//   crop!=full-crop             sub-rectangle (top_left, dim) == that crop of the full read_image result
//   convert!=color_convert      read_and_convert_image<P> == pixel-wise color_convert of the native image
//   scanline!=full              scanline reader rows == rows of the full image
//   read_view!=full             read_view into a pre-allocated view == full image
//   any_image!=full             reading through any_image == full image
//   device-disagrees            file name / FILE* / istream give identical images
//   info-dims / info-depth      read_image_info reports dimensions / depth of the image read_image produces
//   small-view-accepted         a destination view smaller than the region is rejected with an exception
//   wrote-outside-view          no read writes outside the destination view (canvas border / guard canaries; ASan
//                               reports appear as asan:* signatures of the case)
//   <entry>-throws              an entry point the format provides failed on a valid file
//   decode!=encoder             (tie to the independent encoders of gen/seeds.py, not a clause of the statement:
//                               the full image GIL decodes from a seed equals the pixels the encoder was given)
#pragma once
#include "io_common.hpp"
#include <boost/gil/extension/dynamic_image/dynamic_image_all.hpp>
#include <boost/gil/io/read_image.hpp>
#include <boost/gil/io/read_view.hpp>
#include <boost/gil/io/read_image_info.hpp>
#include <boost/gil/io/read_and_convert_image.hpp>
#include <boost/gil/io/read_and_convert_view.hpp>
#include <boost/gil/io/make_scanline_reader.hpp>
#include <boost/gil/io/scanline_read_iterator.hpp>

namespace c13 {

namespace gil = boost::gil;
namespace mp = boost::mp11;
using ioc::Flat; using ioc::Emit;

// what a seed looks like to the engine (generated seeds of io_seeds.hpp, GIL-written library seeds, sample files)
struct SeedView
{
    std::string name;
    std::vector<unsigned char> const* bytes = nullptr;
    std::string path;                       // file under /verif/build/io with the same bytes (or the sample file)
    bool fmem = true;                       // FILE* via fmemopen (false: fopen(path))
    std::vector<int> const* expected = nullptr; int exp_channels = 0; int exp_w = 0, exp_h = 0;
    std::vector<int> const* expected_alt = nullptr;
    int file_bpp = 0;                       // depth declared by the encoder (0 = unknown)
    int aux1 = 0, aux2 = 0;                 // format specific (pnm: type, maxval)
    bool subrects = true;                   // enumerate every sub-rectangle
    bool big = false;                       // sample file: run each entry point once, no canvases
    bool sparse_subrects = false;           // larger images: every single pixel, every whole row, every whole column (instead of every rectangle)
    bool scan_expected = true;              // the format provides a scanline reader for this variant
    bool partial_expected = true;           // the format supports partial reads of this variant
    bool spec_only = false;                 // only the tie to the encoder (the reader leaves the image unwritten: nothing to compare)
};

struct Opts { int devmask = 7; bool conv_crops = true; bool view_crops = true; };

// drop trailing channels so that rgb and rgba flats can be compared on their common colours
inline Flat first_channels(Flat const& f, int k)
{
    if (f.ch <= k) return f;
    Flat o{f.w, f.h, k, {}};
    for (size_t i = 0; i < f.v.size(); i += size_t(f.ch)) for (int c = 0; c < k; ++c) o.v.push_back(f.v[i + size_t(c)]);
    return o;
}
inline std::string diff_common(Flat const& a, Flat const& b)
{
    int k = a.ch < b.ch ? a.ch : b.ch;
    return ioc::diff(first_channels(a, k), first_channels(b, k));
}

// generic canvas fill that also works for bit-aligned images
template <class V> inline void fill_sentinel(V const& v)
{
    ioc::fill_content(v, ioc::C_TAGS, 991);
}

template <class F> inline std::string guarded(F f)
{
    try { f(); return ""; }
    catch (std::ios_base::failure const& e) { return std::string("ios_base::failure: ") + e.what(); }
    catch (std::bad_alloc const&) { return "bad_alloc"; }
    catch (std::exception const& e) { return std::string("exception: ") + e.what(); }
    catch (...) { return "unknown exception"; }
}

// short stable names of the image types used in case ids
template <class T> struct TypeName { static const char* get() { return "?"; } };
#define C13_TN(T, N) template <> struct TypeName<gil::T> { static const char* get() { return N; } };
C13_TN(gray8_image_t, "gray8") C13_TN(gray16_image_t, "gray16") C13_TN(rgb8_image_t, "rgb8") C13_TN(bgr8_image_t, "bgr8")
C13_TN(rgba8_image_t, "rgba8") C13_TN(bgra8_image_t, "bgra8") C13_TN(rgb16_image_t, "rgb16") C13_TN(rgba16_image_t, "rgba16")
C13_TN(cmyk8_image_t, "cmyk8") C13_TN(rgb32f_image_t, "rgb32f") C13_TN(gray32f_image_t, "gray32f") C13_TN(gray1_image_t, "gray1")
C13_TN(gray2_image_t, "gray2") C13_TN(gray4_image_t, "gray4") C13_TN(rgb8_planar_image_t, "rgb8p") C13_TN(cmyk16_image_t, "cmyk16")
C13_TN(rgb32_image_t, "rgb32") C13_TN(gray32_image_t, "gray32")
#undef C13_TN

// default device presentation (TIFF overrides DEV_FILE with its TIFF* handle)
struct DefaultDevices
{
    template <class F> static void with_dev(int d, ioc::Source const& s, F f) { ioc::with_dev(d, s, f); }
};

struct Rect { long x0, y0, dx, dy; };
inline std::vector<Rect> all_rects(long w, long h)
{
    std::vector<Rect> r;
    for (long y0 = 0; y0 < h; ++y0) for (long x0 = 0; x0 < w; ++x0)
        for (long dy = 1; y0 + dy <= h; ++dy) for (long dx = 1; x0 + dx <= w; ++dx) r.push_back({x0, y0, dx, dy});
    return r;
}
inline std::vector<Rect> sparse_rects(long w, long h)
{
    std::vector<Rect> r;
    for (long y0 = 0; y0 < h; ++y0) for (long x0 = 0; x0 < w; ++x0) r.push_back({x0, y0, 1, 1});
    for (long y0 = 0; y0 < h; ++y0) r.push_back({0, y0, w, 1});
    for (long x0 = 0; x0 < w; ++x0) r.push_back({x0, 0, 1, h});
    r.push_back({w / 2, h / 2, w - w / 2, h - h / 2});
    return r;
}
inline std::string rect_id(Rect const& r) { return std::string(vh::S() << r.x0 << "," << r.y0 << "+" << r.dx << "x" << r.dy); }

// make_scanline_reader(Device&, tag) of this tree does not compile (it forwards to a (Device&, settings) overload that
// does not exist), so for FILE* / std::istream the scanline_reader is constructed the way make_scanline_reader
// constructs it for a file name.  Recorded in design_notes/C13.md.
template <class Tag, class F> inline void with_scanline_reader(std::string& path, F f)
{
    auto r = gil::make_scanline_reader(path, Tag());
    f(r);
}
template <class Tag, class Dev, class F> inline void with_scanline_reader(Dev& dev, F f)
{
    using device_t = typename gil::get_read_device<Dev, Tag>::type;
    device_t device(dev);
    gil::scanline_reader<device_t, Tag> r(device, gil::image_read_settings<Tag>());
    f(r);
}

// ------------------------------------------------------------------------------------------------------------------
template <class Fmt, class Img>
void check_seed(Emit& e, SeedView const& s, Opts const& o)
{
    using tag = typename Fmt::tag;
    using settings_t = gil::image_read_settings<tag>;
    using view_t = typename Img::view_t;
    ioc::Source src{s.bytes, s.path, s.fmem};
    std::string const S = s.name;
    const char* nat = TypeName<Img>::get();

    // ---- reference: full read through std::istream
    Img ref;
    if (!e.begin(S + "/ref")) {}
    {
        std::string err = guarded([&] { Fmt::with_dev(ioc::DEV_STREAM, src, [&](auto& dev) { gil::read_image(dev, ref, tag()); }); });
        if (e.active)
        {
            if (!err.empty()) e.fail("read_image-throws", err);
            e.count(std::string("w:native_") + Fmt::name() + "_" + nat);
            e.end();
        }
        else vh::san().pending.clear();   // resumed unit: reports of the re-executed reference read were already attributed
        if (!err.empty()) return;      // nothing to compare against; the failure above is the finding
    }
    Flat const full = ioc::flat(gil::const_view(ref));
    long const W = full.w, H = full.h;
    // samples the file leaves undefined do not take part in whole-image comparisons
    ioc::undef_mask() = ioc::UndefMask();
    if (s.expected && long(s.expected->size()) == W * H * s.exp_channels && s.exp_w == W && s.exp_h == H)
    {
        ioc::UndefMask um; um.w = W; um.h = H; um.px.assign(size_t(W * H), 0); bool any_undef = false;
        for (long i = 0; i < W * H; ++i) for (int c = 0; c < s.exp_channels; ++c) if ((*s.expected)[size_t(i * s.exp_channels + c)] < 0) { um.px[size_t(i)] = 1; any_undef = true; }
        if (any_undef) ioc::undef_mask() = um;
    }

    // ---- tie to the independent encoder
    if (s.expected && e.begin(S + "/spec"))
    {
        Flat ex{s.exp_w, s.exp_h, s.exp_channels, {}};
        for (int v : *s.expected) ex.v.push_back(v);
        Flat got = Fmt::template to_expected_space<Img>(full, s.exp_channels);
        auto masked_diff = [&](Flat const& want) {
            if (want.w != got.w || want.h != got.h) return ioc::diff(want, got);
            Flat g2 = got;
            for (size_t i = 0; i < want.v.size() && i < g2.v.size(); ++i) if (want.v[i] < 0) g2.v[i] = want.v[i];   // undefined sample
            return ioc::diff(want, g2);
        };
        std::string d = masked_diff(ex);
        if (!d.empty() && s.expected_alt && !s.expected_alt->empty())
        {
            Flat ex2{s.exp_w, s.exp_h, s.exp_channels, {}};
            for (int v : *s.expected_alt) ex2.v.push_back(v);
            std::string d2 = masked_diff(ex2);
            if (d2.empty()) { d.clear(); e.count("spec_matched_alt_decoding"); }
        }
        else if (d.empty()) e.count("spec_matched_primary_decoding");
        if (!d.empty()) e.fail("decode!=encoder", "encoder(expected) vs GIL: " + d);
        e.count("w:spec_checked");
        e.end();
    }

    if (s.spec_only) return;

    for (int d = 0; d < 3; ++d)
    {
        if (!(o.devmask & (1 << d))) continue;
        std::string const D = ioc::dev_name(d);

        // ---- same bytes through every device
        if (e.begin(S + "/full/" + D))
        {
            Img img;
            std::string err = guarded([&] { Fmt::with_dev(d, src, [&](auto& dev) { gil::read_image(dev, img, tag()); }); });
            if (!err.empty()) e.fail("read_image-throws", err);
            else { std::string df = ioc::diff(full, ioc::flat(gil::const_view(img))); if (!df.empty()) e.fail("device-disagrees", "istream vs " + D + ": " + df); }
            e.count(std::string("w:dev_") + D);
            e.end();
        }

        // ---- read_image_info
        if (e.begin(S + "/info/" + D))
        {
            std::string msg;
            std::string err = guarded([&] { Fmt::with_dev(d, src, [&](auto& dev) {
                auto backend = gil::read_image_info(dev, tag());
                if (long(backend._info._width) != W || long(backend._info._height) != H)
                    e.fail("info-dims", std::string(vh::S() << "info " << backend._info._width << "x" << backend._info._height << " image " << W << "x" << H));
                std::string dd = Fmt::template depth_check<Img>(backend._info, s);
                if (!dd.empty()) e.fail("info-depth", dd);
            }); });
            if (!err.empty()) e.fail("read_image_info-throws", err);
            e.count("w:info_checked");
            e.end();
        }

        // ---- every sub-rectangle
        if (s.subrects || s.sparse_subrects)
        {
            for (Rect const& r : (s.subrects ? all_rects(W, H) : sparse_rects(W, H)))
            {
                // samples the file leaves undefined (RLE delta skips; expected == -1) hold whatever the reader's buffers held:
                // a sub-rectangle is compared with the crop of the full read only where every sample is defined by the file
                if (s.expected && long(s.expected->size()) == s.exp_w * s.exp_h * s.exp_channels && s.exp_w == W && s.exp_h == H)
                {
                    bool undef = false;
                    for (long y = r.y0; y < r.y0 + r.dy && !undef; ++y) for (long x = r.x0; x < r.x0 + r.dx && !undef; ++x)
                        for (int c = 0; c < s.exp_channels; ++c) if ((*s.expected)[size_t((y * W + x) * s.exp_channels + c)] < 0) undef = true;
                    if (undef) { e.count("subrects_skipped_file_leaves_samples_undefined"); continue; }
                }
                std::string rid = rect_id(r);
                settings_t st(gil::point_t(r.x0, r.y0), gil::point_t(r.dx, r.dy));
                Flat want = ioc::crop(full, r.x0, r.y0, r.dx, r.dy);
                bool whole = r.x0 == 0 && r.y0 == 0 && r.dx == W && r.dy == H;
                if (e.begin(S + "/crop/" + D + "/" + rid))
                {
                    Img img;
                    std::string err = guarded([&] { Fmt::with_dev(d, src, [&](auto& dev) { gil::read_image(dev, img, st); }); });
                    if (!err.empty())
                    {
                        if (s.partial_expected) e.fail("partial-read-throws", err); else e.count("not_covered_partial_read_unsupported");
                    }
                    else { std::string df = ioc::diff(want, ioc::flat(gil::const_view(img))); if (!df.empty()) e.fail("crop!=full-crop", df); }
                    e.count("w:subrect_reads");
                    if (r.x0 > 0) e.count("w:subrect_x0>0"); if (r.y0 > 0) e.count("w:subrect_y0>0");
                    if (r.y0 + r.dy < H) e.count("w:subrect_bottom_cut");
                    e.end(!whole);
                }
                if (o.conv_crops && e.begin(S + "/convcrop/" + D + "/" + rid))
                {
                    using P = gil::rgba8_image_t;
                    P img;
                    std::string err = guarded([&] { Fmt::with_dev(d, src, [&](auto& dev) { gil::read_and_convert_image(dev, img, st); }); });
                    if (!err.empty())
                    {
                        if (s.partial_expected) e.fail("partial-read-throws", err); else e.count("not_covered_partial_read_unsupported");
                    }
                    else
                    {
                        P wantimg(r.dx, r.dy);
                        gil::copy_and_convert_pixels(gil::subimage_view(gil::const_view(ref), int(r.x0), int(r.y0), int(r.dx), int(r.dy)), gil::view(wantimg));
                        std::string df = ioc::diff(ioc::flat(gil::const_view(wantimg)), ioc::flat(gil::const_view(img)));
                        if (!df.empty()) e.fail("convert-crop!=color_convert(full-crop)", df);
                    }
                    e.count("w:subrect_convert_reads");
                    e.end(!whole);
                }
                if (o.view_crops && e.begin(S + "/viewcrop/" + D + "/" + rid))
                {
                    // destination: interior sub-view of a pre-filled canvas; border must stay
                    Img canvas(r.dx + 2, r.dy + 3);
                    fill_sentinel(gil::view(canvas));
                    Flat before = ioc::flat(gil::const_view(canvas));
                    auto dst = gil::subimage_view(gil::view(canvas), 1, 2, int(r.dx), int(r.dy));
                    std::string err = guarded([&] { Fmt::with_dev(d, src, [&](auto& dev) { gil::read_view(dev, dst, st); }); });
                    if (!err.empty())
                    {
                        if (s.partial_expected) e.fail("partial-read-throws", err); else e.count("not_covered_partial_read_unsupported");
                    }
                    else
                    {
                        std::string df = ioc::diff(want, ioc::flat(dst));
                        if (!df.empty()) e.fail("read_view-crop!=full-crop", df);
                    }
                    // border
                    Flat after = ioc::flat(gil::const_view(canvas));
                    bool border_ok = true;
                    for (long y = 0; y < after.h && border_ok; ++y) for (long x = 0; x < after.w && border_ok; ++x)
                    {
                        bool inside = x >= 1 && x < 1 + r.dx && y >= 2 && y < 2 + r.dy;
                        if (inside) continue;
                        for (int k = 0; k < after.ch; ++k) if (after.v[size_t((y * after.w + x) * after.ch + k)] != before.v[size_t((y * after.w + x) * after.ch + k)]) border_ok = false;
                    }
                    if (!border_ok) e.fail("wrote-outside-view", "canvas border changed by read_view into an interior sub-view");
                    e.count("w:canvas_reads");
                    e.end(!whole);
                }
            }
        }

        // ---- read_and_convert_image<P> for every P of the format's list
        mp::mp_for_each<mp::mp_transform<mp::mp_identity, typename Fmt::conv_list>>([&](auto Id) {
            using P = typename decltype(Id)::type;
            std::string pn = TypeName<P>::get();
            if (!e.begin(S + "/conv/" + pn + "/" + D)) return;
            P img;
            std::string err = guarded([&] { Fmt::with_dev(d, src, [&](auto& dev) { gil::read_and_convert_image(dev, img, tag()); }); });
            if (!err.empty()) e.fail("read_and_convert_image-throws", err);
            else
            {
                P want(W, H);
                gil::copy_and_convert_pixels(gil::const_view(ref), gil::view(want));     // pixel-wise color_convert (validated by C09)
                std::string df = ioc::diff(ioc::flat(gil::const_view(want)), ioc::flat(gil::const_view(img)));
                if (!df.empty()) e.fail("convert!=color_convert", df);
            }
            e.count("w:convert_reads");
            e.end();
        });

        // ---- scanline reader: all rows; then only the odd rows (exercises skip())
        for (int mode = 0; mode < 2; ++mode)
        {
            if (!e.begin(S + (mode ? "/scanskip/" : "/scan/") + D)) continue;
            Flat rows{W, 0, 0, {}};
            std::vector<long> which;
            std::string err = guarded([&] { Fmt::with_dev(d, src, [&](auto& dev) {
                with_scanline_reader<tag>(dev, [&](auto& reader) {
                    auto it = reader.begin(); auto end = reader.end();
                    for (long row = 0; it != end; ++it, ++row)
                    {
                        if (mode == 1 && row % 2 == 0) continue;
                        gil::byte_t* p = *it;
                        int ch = Fmt::template scan_row<Img>(reader, p, rows.v);
                        rows.ch = ch; ++rows.h; which.push_back(row);
                    }
                });
            }); });
            if (err.find("harness: scanline row layout") != std::string::npos) e.count("not_covered_scanline_row_layout_unknown");
            else if (!err.empty())
            {
                if (s.scan_expected) e.fail("scanline-throws", err);
                else e.count("not_covered_scanline_unsupported_variant");
            }
            else
            {
                Flat want{W, long(which.size()), full.ch, {}};
                for (long row : which) { if (row >= H) { want.h = -1; break; } for (long i = 0; i < W * full.ch; ++i) want.v.push_back(full.v[size_t(row * W * full.ch + i)]); }
                std::string df = want.h < 0 ? "scanline reader produced more rows than the image has" : diff_common(want, rows);
                if (mode == 0 && long(which.size()) != H) df = std::string(vh::S() << "scanline reader produced " << which.size() << " rows, image has " << H);
                if (!df.empty()) e.fail("scanline!=full", df);
                e.count(mode ? "w:scanline_skip_reads" : "w:scanline_reads");
            }
            e.end();
        }

        // ---- read_view into an exactly-sized guarded buffer
        if (!s.big && e.begin(S + "/view-exact/" + D))
        {
            Fmt::template view_exact<Img>(e, src, d, full);
            e.count("w:exact_view_reads");
            e.end();
        }

        // ---- read_view / read_and_convert_view into an interior sub-view of a canvas, a larger view, and too-small views
        if (!s.big)
        {
            auto canvas_case = [&](std::string const& id, long vw, long vh, bool conv, bool use_region, int expect /*0 ok,1 throw,2 any*/) {
                if (!e.begin(id)) return;
                Img canvas(vw + 2, vh + 2);
                fill_sentinel(gil::view(canvas));
                Flat before = ioc::flat(gil::const_view(canvas));
                auto dst = gil::subimage_view(gil::view(canvas), 1, 1, int(vw), int(vh));
                long rx = use_region ? 1 : 0, ry = use_region ? 1 : 0, rw = use_region ? W - 1 : W, rh = use_region ? H - 1 : H;
                settings_t st = use_region ? settings_t(gil::point_t(rx, ry), gil::point_t(rw, rh)) : settings_t();
                std::string err = guarded([&] { Fmt::with_dev(d, src, [&](auto& dev) {
                    if (conv) gil::read_and_convert_view(dev, dst, st); else gil::read_view(dev, dst, st);
                }); });
                Flat after = ioc::flat(gil::const_view(canvas));
                bool border_ok = true;
                for (long y = 0; y < after.h; ++y) for (long x = 0; x < after.w; ++x)
                {
                    bool inside = x >= 1 && x < 1 + vw && y >= 1 && y < 1 + vh;
                    if (inside) continue;
                    for (int k = 0; k < after.ch; ++k) if (after.v[size_t((y * after.w + x) * after.ch + k)] != before.v[size_t((y * after.w + x) * after.ch + k)]) border_ok = false;
                }
                if (!border_ok) e.fail("wrote-outside-view", "canvas border changed");
                if (expect == 1)
                {
                    if (err.empty()) e.fail("small-view-accepted", std::string(vh::S() << "view " << vw << "x" << vh << " region " << rw << "x" << rh << (conv ? " read_and_convert_view" : " read_view") << " returned normally"));
                    e.count("w:small_view_cases");
                }
                else if (expect == 0)
                {
                    if (!err.empty()) e.fail(conv ? "read_and_convert_view-throws" : "read_view-throws", err);
                    else
                    {
                        std::string df = ioc::diff(ioc::crop(full, rx, ry, rw, rh), ioc::flat(dst));
                        if (!df.empty()) e.fail(conv ? "read_and_convert_view!=full" : "read_view!=full", df);
                    }
                    e.count("w:canvas_reads");
                }
                else
                {
                    // larger destination view: the statement does not say where the pixels land or whether it is accepted
                    e.count(err.empty() ? "larger_view_accepted" : "larger_view_rejected");
                    if (err.empty())
                    {
                        Flat got = ioc::flat(gil::subimage_view(dst, 0, 0, int(rw), int(rh)));
                        e.count(ioc::diff(ioc::crop(full, rx, ry, rw, rh), got).empty() ? "larger_view_region_at_top_left" : "larger_view_region_elsewhere");
                    }
                    e.count("w:larger_view_cases");
                }
                e.end();
            };
            canvas_case(S + "/view-canvas/" + D, W, H, false, false, 0);
            canvas_case(S + "/cview-canvas/" + D, W, H, true, false, 0);
            canvas_case(S + "/view-larger/" + D, W + 1, H + 1, false, false, 2);
            // all one-short destination views: whole image (3) and explicit region (3), both entry points
            for (int conv = 0; conv < 2; ++conv)
                for (int reg = 0; reg < 2; ++reg)
                {
                    if (reg && (W < 2 || H < 2 || !s.partial_expected)) continue;
                    long rw = reg ? W - 1 : W, rh = reg ? H - 1 : H;
                    const char* en = conv ? "cview-small" : "view-small";
                    std::string base = S + "/" + en + (reg ? "-region/" : "/") + D;
                    canvas_case(base + "/short-x", rw - 1, rh, conv != 0, reg != 0, 1);
                    canvas_case(base + "/short-y", rw, rh - 1, conv != 0, reg != 0, 1);
                    canvas_case(base + "/short-xy", rw - 1, rh - 1, conv != 0, reg != 0, 1);
                }
        }

        // ---- any_image
        if (e.begin(S + "/any/" + D))
        {
            typename Fmt::any_t any;
            std::string err = guarded([&] { Fmt::with_dev(d, src, [&](auto& dev) { gil::read_image(dev, any, tag()); }); });
            if (!err.empty()) e.fail("any_image-read-throws", err);
            else
            {
                Flat got;
                gil::apply_operation(gil::const_view(any), [&](auto const& v) { got = ioc::flat(v); });
                std::string df = got.ch == full.ch ? ioc::diff(full, got) : diff_common(full, got);
                if (!df.empty()) e.fail("any_image!=full", df);
                if (got.ch != full.ch) e.count("any_image_holds_other_channel_count");
            }
            e.count("w:any_image_reads");
            e.end();
        }
    }
}

// read_view into an exactly sized interleaved byte buffer with poisoned, canary-filled surroundings
template <class Fmt, class Img>
inline void view_exact_interleaved(Emit& e, ioc::Source const& src, int d, Flat const& full)
{
    using pixel_t = typename Img::value_type;
    size_t rowbytes = size_t(full.w) * sizeof(pixel_t);
    vh::GuardBuf buf(rowbytes * size_t(full.h), 0x5A);
    auto dst = gil::interleaved_view(full.w, full.h, reinterpret_cast<pixel_t*>(buf.data()), std::ptrdiff_t(rowbytes));
    std::string err = guarded([&] { Fmt::with_dev(d, src, [&](auto& dev) { gil::read_view(dev, dst, typename Fmt::tag()); }); });
    if (!err.empty()) e.fail("read_view-throws", err);
    else { std::string df = ioc::diff(full, ioc::flat(dst)); if (!df.empty()) e.fail("read_view!=full", df); }
    if (!buf.intact()) e.fail("wrote-outside-view", "canary around an exactly-sized destination buffer changed");
}

} // namespace c13
