// C12 for PNG: write_view -> read_image round trip for every pixel type with is_write_supported && is_read_supported.
#include "c12_common.hpp"
#include <boost/gil/extension/io/png.hpp>

namespace gil = boost::gil;
namespace mp = boost::mp11;
using ioc::Flat; using ioc::Emit;

struct Fmt
{
    using tag = gil::png_tag;
    static const char* name() { return "png"; }
    static const char* ext() { return "png"; }
    // Registered variant: default (non-interlaced).  Variant 1 (Adam7) is NOT part of the registered runs: the C12
    // statement does not list PNG write options, and GIL's writer passes _interlace_method to png_set_IHDR but writes
    // every row once -> libpng error -> crash (reported as an extra finding in design_notes/C12.md; run it with
    // --bound adam7=1 to reproduce).
    static int nvariants() { return 2; }
    static const char* variant_name(int v) { return v == 0 ? "default" : "adam7"; }
    static gil::image_write_info<tag> info(int v)
    {
        gil::image_write_info<tag> i;
        if (v == 1) i._interlace_method = PNG_INTERLACE_ADAM7;
        return i;
    }
    static bool dest_supported(int) { return true; }
    template <class V> static void write_handle(std::string const& path, V const& v, int var) { c12::write_via_FILE<Fmt>(path, v, var); }
    template <class Img> struct Orgs : std::integral_constant<int, 31> {};
    template <class Img> static void judge(Emit& e, Flat const& want, Flat const& got, int) { c12::judge_exact(e, want, got); }
};

using Tested = c12::Supported<Fmt::tag>;

VH_GROUP(roundtrip)
{
    vh::ubsan_counts() = false;
    c12::Bounds b = c12::bounds_from(ctx);
    mp::mp_for_each<mp::mp_transform<mp::mp_identity, Tested>>([&](auto Id) {
        using Img = typename decltype(Id)::type;
        for (int var = 0; var < (ctx.B("adam7", 0) ? 2 : 1); ++var) c12::run_type<Fmt, Img>(ctx, var, b);
    });
}

VH_GROUP(matrix) { c12::record_matrix<Fmt::tag>(ctx, Fmt::name()); }

VH_MAIN
