// pixel<T,L> cannot be copy-constructed from a compatible packed_pixel / bit_aligned_pixel_reference,
// although pixels_are_compatible<> is true and assignment between the same two types works.
#include <boost/gil.hpp>
namespace gil = boost::gil; namespace mp = boost::mp11;
using bits4 = gil::packed_channel_value<4>;
using value_t  = gil::pixel<bits4, gil::rgba_layout_t>;
using packed_t = gil::packed_pixel_type<std::uint16_t, mp::mp_list_c<unsigned,4,4,4,4>, gil::argb_layout_t>::type;
using bitref_t = gil::bit_aligned_pixel_reference<std::uint32_t, mp::mp_list_c<unsigned,4,4,4,4>, gil::abgr_layout_t, true>;
static_assert(gil::pixels_are_compatible<value_t, packed_t>::value, "compatible");
static_assert(gil::pixels_are_compatible<value_t, bitref_t>::value, "compatible");
int main()
{
    packed_t p(1, 2, 3, 4);              // A=1 R=2 G=3 B=4
    value_t a; a = p;                    // assignment: compiles, pairs by colour
    value_t b(p);                        // construction: error: invalid static_cast from packed_pixel to unsigned char
    unsigned char buf[3] = {}; bitref_t r(buf, 3); r = p;
    value_t c(r);                        // same error
    return (a == b && b == c && int(gil::get_color(b, gil::red_t())) == 2) ? 0 : 1;
}
