# registry fragment for C05 (exec'd by tools/checks.py with CHECKS, ASSUME_COMMON, NOT_APPLICABLE in scope)
_C05_DEPS = ['harness/c05_model.hpp', 'harness/c05_engine.hpp', 'harness/c05_ops.hpp', 'harness/c05_families.hpp']


def _c05_tu(name, **kw):
    # C05_F1_FIXED: pixel<T,L>(packed/bit-aligned pixel) compiles since /repo 330cfdb, so those constructions are in the alphabet
    d = dict(name=name, src='harness/%s.cpp' % name, deps=_C05_DEPS, san=False, opt=1, flags=['-DC05_F1_FIXED'])
    d.update(kw)
    return d


def _c05_runs(spec):
    # spec: list of (tu, group, shards, [bounds, bounds_v])  -> the second bounds dict runs under the alias group '<group>_v'
    out = []
    for tu, group, shards, bl in spec:
        for i, b in enumerate(bl):
            out.append(dict(tu=tu, group=group + ('_v' if i else ''), bounds=b, shards=shards if i == 0 else max(1, shards // 2)))
    return out


_Q = dict(depth=2, vals=0, rots=2, bgs=2)
_T3 = dict(depth=3, vals=1, rots=3, bgs=4)          # 3-channel families: depth 3, extended / complete value alphabet
_T4 = dict(depth=3, vals=0, rots=4, bgs=2)          # 4-channel, byte channels: depth 3, all four rotations
_T4p = dict(depth=3, vals=0, rots=2, bgs=2)         # 4-channel packed: depth 3
_T4v = dict(depth=2, vals=1, rots=2, bgs=2)         # 4-channel: depth 2 with every value of every <=4-bit channel
_T44 = dict(depth=3, vals=0, rots=1, bgs=2)         # 13x13 models with 4-bit channels: depth 3
_T5 = dict(depth=3, vals=0, rots=2, bgs=2)          # 5-channel devicen
_T1 = dict(depth=3, vals=1, rots=1, bgs=4)          # gray: closure is reached

CHECKS['C05'] = dict(
    level='model_checking',
    technique='explicit-state search on the real GIL pixel code: state = two live pixels + the model map colour->value of each; '
              'breadth-first over the operation alphabet, states deduplicated by the canonical key (values by colour of both pixels), '
              'every expansion replays the op history through GIL from a raw-written initial state (canon on replay), '
              'the model is stepped in lock-step and the invariant is evaluated after every transition',
    rule='unit = (ordered pair of mutually compatible pixel models of one colour space) x (storage variant of each: stand-alone value / '
         'C++ reference into an interleaved row; planes in N buffers / one buffer reversed; bit offset 0 / 3) x background byte. '
         'Models: pixel<T,L> (T = uint8, uint16, packed_channel_value<2|4>), planar_pixel_reference, packed_pixel (5-6-5, 3-3-2, 2-2-2; '
         '5-5-5-1, 1-2-3-2, 4-4-4-4; 2-2-2-2; 4; 1; 1-2-3-4-5), bit_aligned_pixel_reference, each also through const access paths '
         '(const pixel&, const planar reference, immutable bit-aligned reference); layouts rgb/bgr, rgba/bgra/argb/abgr, cmyk (+user-defined mykc), '
         'gray, devicen<5> (+user-defined permutation). Only pairs with pixels_are_compatible (compile-time dispatch; an incompatible pair of a family is reported). '
         'Transitions: get_color/semantic_at_c/at_c/operator[] writes (every channel x value alphabet), static_fill, static_generate, '
         'static_transform (1 and 2 sources, both argument orders), converting construction, assignment, static_copy (from mutable and const views), '
         'swap, reference-onto-value construction (planar ref over pixel, bit-aligned ref over packed pixel) with writes through it; '
         'read-only self-loops in every state: ==, !=, static_equal, static_min/max, static_for_each with 1, 2 (all four const combinations) and 3 pixels '
         'using recording functors. Value alphabet: a colour-distinct assignment and its rotations (vals=0), plus 0/max/max-1 and EVERY value of '
         'channels of <= 4 bits (vals=1). A transition is distinct by construction ((state, op) executed once per unit); '
         'non-trivial = a pixel involved holds at least two different channel values (a wrong index is observable).',
    assumptions=ASSUME_COMMON + [
        'the reference tables colour name -> memory index are written from the layout names (bgr = B,G,R ... argb = A,R,G,B) and the raw '
        'accessors read the pixel storage without GIL (bytes of pixel<>, separate planes, LSB-first bit fields)',
        'merging states by (values of A by colour, values of B by colour) is sound because the storage of both pixels is a function of the key; '
        'this is re-checked by the raw accessors after every step and by canon-on-replay',
        'static_generate / static_for_each: the statement fixes no visiting order, so only "each channel exactly once" and the pairing are checked',
        'user-defined layouts are built with gil::layout<ColorSpace, mp_list_c<int, physical index of each colour>> (documented convention)',
    ],
    tus=[_c05_tu('c05_rgb_a'), _c05_tu('c05_rgb_b'), _c05_tu('c05_rgba_a'), _c05_tu('c05_rgba_b'), _c05_tu('c05_rgba_c'),
         _c05_tu('c05_rgba_d'), _c05_tu('c05_rgba_e'), _c05_tu('c05_misc'), _c05_tu('c05_san', san=True)],
    runs=dict(
        quick=_c05_runs([
            ('c05_rgb_a', 'rgb8', 1, [_Q]), ('c05_rgb_a', 'rgb565', 1, [_Q]), ('c05_rgb_a', 'rgb332', 1, [_Q]),
            ('c05_rgb_b', 'rgb222', 2, [_Q]),
            ('c05_rgba_a', 'rgba8', 3, [_Q]), ('c05_rgba_a', 'rgba5551', 6, [_Q]),
            ('c05_rgba_b', 'rgba1232', 5, [_Q]),
            ('c05_rgba_c', 'rgba4444_h', 5, [_Q]), ('c05_rgba_d', 'rgba4444_p', 5, [_Q]), ('c05_rgba_e', 'rgba4444_b', 5, [_Q]),
            ('c05_misc', 'cmyk8', 1, [_Q]), ('c05_misc', 'cmyk2222', 2, [_Q]), ('c05_misc', 'gray8', 1, [_Q]), ('c05_misc', 'gray4', 1, [_Q]),
            ('c05_misc', 'gray1', 1, [_Q]), ('c05_misc', 'dev5_8', 2, [_Q]), ('c05_misc', 'dev5_12345', 3, [_Q]),
            ('c05_misc', 'packed_padding', 2, [dict()]), ('c05_misc', 'ba_exact_bitfield', 2, [dict()]),
            ('c05_san', 'san565', 1, [dict(depth=2, vals=0, rots=1, bgs=2)]), ('c05_san', 'san4444', 2, [dict(depth=2, vals=0, rots=1, bgs=2)]),
            ('c05_san', 'sangray1', 1, [_T1]),
        ]),
        thorough=_c05_runs([
            ('c05_rgb_a', 'rgb8', 6, [_T3]), ('c05_rgb_a', 'rgb16', 6, [_T3]), ('c05_rgb_a', 'rgb565', 8, [_T3]), ('c05_rgb_a', 'rgb332', 8, [_T3]),
            ('c05_rgb_b', 'rgb222', 12, [_T3]),
            ('c05_rgba_a', 'rgba8', 12, [_T4, _T4v]), ('c05_rgba_a', 'rgba5551', 16, [_T4p, _T4v]),
            ('c05_rgba_b', 'rgba1232', 16, [_T4p, _T4v]),
            ('c05_rgba_c', 'rgba4444_h', 12, [_T44, _T4v]), ('c05_rgba_d', 'rgba4444_p', 12, [_T44, _T4v]), ('c05_rgba_e', 'rgba4444_b', 12, [_T44, _T4v]),
            ('c05_misc', 'cmyk8', 6, [_T4, _T4v]), ('c05_misc', 'cmyk2222', 8, [_T4p, _T4v]),
            ('c05_misc', 'gray8', 1, [_T1]), ('c05_misc', 'gray4', 1, [_T1]), ('c05_misc', 'gray1', 1, [_T1]),
            ('c05_misc', 'dev5_8', 8, [_T5]), ('c05_misc', 'dev5_12345', 12, [_T5, _T4v]),
            ('c05_san', 'san565', 2, [_Q]), ('c05_san', 'san4444', 3, [_Q]), ('c05_san', 'sangray1', 1, [_T1]),
            ('c05_misc', 'packed_padding', 2, [dict()]), ('c05_misc', 'ba_exact_bitfield', 2, [dict()]),
        ])),
    witnesses_required=dict(all=['units', 'units_clean', 'units_cross_layout', 'units_cross_model', 'units_with_construct', 'units_with_alias',
                                 'units_with_swap', 'units_with_minmax_index', 'units_bit_aligned', 'units_packed', 'units_planar',
                                 'eq_true', 'eq_false', 'packed_pixels_with_unused_bits', 'bit_aligned_reference_with_exact_width_bitfield', 'assign_cross_layout_distinct', 'construct_ops', 'alias_writes', 'swap_ops', 'minmax_ops']),
    deadline=dict(quick=600, thorough=3000),
)
