// C08 (a) — packed_pixel<BitField, ...>: channel writes change exactly their own bits.
// Three adjacent packed pixels; GIL works on the middle one (and on the first as swap partner / source,
// on the third through const proxies). 8- and 16-bit carriers: ALL 2^8 / 2^16 contents of the target
// pixel; 32/64-bit carriers: pattern backgrounds. Every channel x every value (all 2^w up to w = 16).
// Reference: bit-string model of the 3*sizeof(BitField) bytes (c08_model.hpp), no GIL.
#include "c08_ops.hpp"

using namespace c08;

template <class C> struct PackedSite
{
    using Px = typename C::packed_t;
    using BF = typename C::bf;
    static constexpr size_t SZ = sizeof(BF);
    static constexpr size_t LEN = 3 * SZ;
    static_assert(sizeof(Px) == SZ, "packed_pixel is exactly its bit field");
    Px arr[3];
    void load(unsigned char const* b) { std::memcpy(static_cast<void*>(arr), b, LEN); }
    void store(unsigned char* g) { std::memcpy(g, static_cast<void const*>(arr), LEN); }
    size_t tpos() const { return SZ * 8; }
    size_t opos() const { return 0; }
    size_t cpos() const { return 2 * SZ * 8; }
    template <int K> auto tgt() { return gil::at_c<K>(arr[1]); }
    template <int K> auto oth() { return gil::at_c<K>(arr[0]); }
    template <int K> auto cst() { return gil::at_c<K>(const_cast<Px const&>(arr[2])); }
};

// a second packed pixel type with the same channels over a different carrier (for the channel-wise operator=)
template <class C> struct other_carrier;
template <int... W> struct other_carrier<Cfg<uint8_t, W...>> { using type = Cfg<uint64_t, W...>; };
template <int... W> struct other_carrier<Cfg<uint16_t, W...>> { using type = Cfg<uint64_t, W...>; };
template <int... W> struct other_carrier<Cfg<uint32_t, W...>> { using type = Cfg<uint64_t, W...>; };
template <int... W> struct other_carrier<Cfg<uint64_t, W...>> { using type = Cfg<uint64_t, W...>; };   // same type: skipped

template <class C> struct PackedRun
{
    using Site = PackedSite<C>;
    using Px = typename C::packed_t;
    using BF = typename C::bf;
    static constexpr size_t SZ = Site::SZ, LEN = Site::LEN;
    vh::Ctx& ctx;
    Site site;
    ChanOps<C, Site> ops;
    std::vector<std::vector<uint64_t>> vals;

    PackedRun(vh::Ctx& c) : ctx(c), ops(c, site) { for (int k = 0; k < C::N; ++k) vals.push_back(channel_values(C::width(k))); }

    // ---- whole-pixel assignment --------------------------------------------------------------------
    std::vector<uint64_t> pixel_numbers(uint64_t salt) const
    {
        std::vector<uint64_t> v;
        const int P = C::P();
        if (P <= 8) { for (uint64_t x = 0; x < (uint64_t(1) << P); ++x) v.push_back(x); return v; }
        const uint64_t mx = P >= 64 ? ~uint64_t(0) : (uint64_t(1) << P) - 1;
        uint64_t s = salt * 0x9e3779b97f4a7c15ull + 12345;
        v = {0, mx, mx & 0x5555555555555555ull, mx & 0xAAAAAAAAAAAAAAAAull, salt & mx, ~salt & mx};
        for (int i = 0; i < 10; ++i) v.push_back(model::sm64(s) & mx);
        return v;
    }
    template <class SrcPx> void set_channels(SrcPx& src, uint64_t x)
    {
        for_channels<C::N>([&](auto k) {
            constexpr int K = decltype(k)::value;
            using proxy_t = typename std::remove_const<decltype(gil::at_c<K>(src))>::type;
            gil::at_c<K>(src) = typename proxy_t::integer_t(C::chan_of(x, K));
        });
    }
    bool readback_pixel(uint64_t x, uint64_t& got_k, uint64_t& want_k, int& bad_k)
    {
        bool ok = true;
        for_channels<C::N>([&](auto k) {
            constexpr int K = decltype(k)::value;
            using proxy_t = typename std::remove_const<decltype(site.template tgt<K>())>::type;
            uint64_t rb = uint64_t(typename proxy_t::integer_t(site.template tgt<K>()));
            if (rb != C::chan_of(x, K) && ok) { ok = false; got_k = rb; want_k = C::chan_of(x, K); bad_k = K; }
        });
        return ok;
    }
    void pixel_ops(uint64_t salt)
    {
        const size_t tp = site.tpos();
        for (uint64_t x : pixel_numbers(salt))
        {
            uint64_t g = 0, w = 0; int bk = -1;
            {   // same-type value assignment: plain C++ copy of the value object. May replace the target's own
                // unused bits (they belong to the value that is copied); neighbours must stay.
                Px src; set_channels(src, x);
                ops.begin();
                for (int k = 0; k < C::N; ++k) model::set(ops.exp, tp + C::first(k), C::width(k), C::chan_of(x, k));
                ops.allow(tp, SZ * 8);
                site.arr[1] = src;
                bool ok = readback_pixel(x, g, w, bk);
                // count (do not fail) replaced unused bits
                site.store(ops.got);
                if (SZ * 8 > size_t(C::P()) && model::get(ops.got, tp + C::P(), int(SZ * 8 - C::P())) != model::get(ops.before, tp + C::P(), int(SZ * 8 - C::P())))
                    ++ctx.counters["value_copy_replaced_own_unused_bits"];
                // expected image for the fast path: own unused bits as the copy left them
                if (SZ * 8 > size_t(C::P())) model::set(ops.exp, tp + C::P(), int(SZ * 8 - C::P()), model::get(ops.got, tp + C::P(), int(SZ * 8 - C::P())));
                ops.finish("pixel=value", bk, (long long)x, ops.NOARG, ok, g, w);
            }
            pixel_from_other_carrier(x, std::is_same<typename other_carrier<C>::type, C>());
        }
    }
    void pixel_from_other_carrier(uint64_t, std::true_type) {}
    void pixel_from_other_carrier(uint64_t x, std::false_type)
    {
        // packed_pixel::operator=(Pixel const&) with a compatible pixel of another type: channel-wise copy,
        // every bit outside the channels (the unused bits included) must stay
        using C2 = typename other_carrier<C>::type;
        typename C2::packed_t src;
        for_channels<C::N>([&](auto k) {
            constexpr int K = decltype(k)::value;
            using proxy_t = typename std::remove_const<decltype(gil::at_c<K>(src))>::type;
            gil::at_c<K>(src) = typename proxy_t::integer_t(C::chan_of(x, K));
        });
        const size_t tp = site.tpos();
        uint64_t g = 0, w = 0; int bk = -1;
        ops.begin();
        for (int k = 0; k < C::N; ++k) model::set(ops.exp, tp + C::first(k), C::width(k), C::chan_of(x, k));
        ops.allow(tp, size_t(C::P()));
        site.arr[1] = src;
        bool ok = readback_pixel(x, g, w, bk);
        ops.finish("pixel=other-carrier-pixel", bk, (long long)x, ops.NOARG, ok, g, w);
        ++ctx.witness["packed_channelwise_pixel_assign"];
    }

    void one_background(unsigned char const* bytes, std::string const& bgid)
    {
        ops.set_background(bytes, C::name() + "/bg=" + bgid);
        for_channels<C::N>([&](auto k) {
            constexpr int K = decltype(k)::value;
            ops.template assign_values<K>(vals[K]);
            ops.template arithmetic<K>();
            ops.template from_proxies<K>();
        });
        uint64_t salt = 0; std::memcpy(&salt, bytes + SZ, SZ);
        pixel_ops(salt);
    }

    void run()
    {
        const std::string cname = "packed " + C::name();
        if (SZ <= 2)
        {
            const uint64_t nbg = uint64_t(1) << (SZ * 8), CH = 4096;
            for (uint64_t b0 = 0; b0 < nbg; b0 += CH)
            {
                if (!ctx.take()) continue;
                ctx.cur = vh::S() << cname << " backgrounds " << b0 << "..";
                for (uint64_t bg = b0; bg < std::min(nbg, b0 + CH) && ops.fails < 64; ++bg)
                {
                    unsigned char bytes[LEN];
                    BF t = BF(bg), n0 = BF((bg * 40503u) ^ 0xA5A5A5A5u), n2 = BF(~bg ^ (bg << 3) ^ 0x0F0Fu);
                    std::memcpy(bytes, &n0, SZ); std::memcpy(bytes + SZ, &t, SZ); std::memcpy(bytes + 2 * SZ, &n2, SZ);
                    char id[24]; snprintf(id, sizeof id, "%0*llx", int(SZ * 2), (unsigned long long)bg);
                    one_background(bytes, id);
                }
                ++ctx.witness["packed_dense_units"];
                if (ctx.timed_out()) return;
            }
        }
        else
        {
            if (!ctx.take()) return;
            ctx.cur = cname + " pattern backgrounds";
            auto pats = pattern_backgrounds(LEN, SZ * 8 - 8, 2 * SZ * 8 + 8);
            for (auto const& p : pats) { if (ops.fails >= 64) break; one_background(p.bytes.data(), p.name); }
            ++ctx.witness["packed_pattern_units"];
        }
        if (ops.fails >= 64) ++ctx.counters["units_stopped_after_64_failures"];
        ctx.sample(vh::S() << cname << ": " << C::N << " channel(s), " << (SZ <= 2 ? "all 2^" + std::to_string(SZ * 8) + " target contents" : std::string("pattern backgrounds"))
                           << ", every channel value; ops = value, ++/--, +=, =proxy, swap x3, pixel=");
    }
};

template <class C> static void run_packed(vh::Ctx& ctx) { PackedRun<C> r(ctx); r.run(); ++ctx.witness["packed_configs"]; }

// BitField in {u8,u16,u32,u64} x splits {5-6-5, 4-4-4-4, 1-2-3, 3-3-2, 1, 10-10-10-2, 16-16-16-16} where the split fits
VH_GROUP(packed)
{
    vh::ubsan_counts() = false;
    run_packed<Cfg<uint8_t, 1, 2, 3>>(ctx); run_packed<Cfg<uint8_t, 3, 3, 2>>(ctx); run_packed<Cfg<uint8_t, 1>>(ctx);
    run_packed<Cfg<uint16_t, 5, 6, 5>>(ctx); run_packed<Cfg<uint16_t, 4, 4, 4, 4>>(ctx); run_packed<Cfg<uint16_t, 1, 2, 3>>(ctx);
    run_packed<Cfg<uint16_t, 3, 3, 2>>(ctx); run_packed<Cfg<uint16_t, 1>>(ctx);
    run_packed<Cfg<uint32_t, 5, 6, 5>>(ctx); run_packed<Cfg<uint32_t, 4, 4, 4, 4>>(ctx); run_packed<Cfg<uint32_t, 1, 2, 3>>(ctx);
    run_packed<Cfg<uint32_t, 3, 3, 2>>(ctx); run_packed<Cfg<uint32_t, 1>>(ctx); run_packed<Cfg<uint32_t, 10, 10, 10, 2>>(ctx);
    run_packed<Cfg<uint64_t, 5, 6, 5>>(ctx); run_packed<Cfg<uint64_t, 4, 4, 4, 4>>(ctx); run_packed<Cfg<uint64_t, 1, 2, 3>>(ctx);
    run_packed<Cfg<uint64_t, 3, 3, 2>>(ctx); run_packed<Cfg<uint64_t, 1>>(ctx); run_packed<Cfg<uint64_t, 10, 10, 10, 2>>(ctx);
    run_packed<Cfg<uint64_t, 16, 16, 16, 16>>(ctx);
}

VH_MAIN
