// F13e: PBM (P4): reader swaps nibbles instead of mirroring bits; writer allocates width/8 (rounded down) bytes per row
#include <boost/gil.hpp>
#include <boost/gil/extension/io/pnm.hpp>
#include <sstream>
#include <iostream>
using namespace boost::gil;
int main(int argc, char**) {
    std::istringstream in(std::string("P4\n8 1\n") + char(0x80));      // leftmost pixel black (1), the other seven white
    gray1_image_t img; read_image(in, img, pnm_tag());
    std::cout << "P4 byte 0x80, expected 0 1 1 1 1 1 1 1 (1 = white), got:";
    for (int x = 0; x < 8; ++x) std::cout << " " << int(at_c<0>(view(img)(x, 0))); std::cout << "\n";
    if (argc > 1) {   // any width that is not a multiple of 8: row buffer of 0 bytes -> null dereference / heap overflow
        gray1_image_t w(5, 1); std::stringstream out(std::ios::in | std::ios::out | std::ios::binary);
        write_view(out, view(w), pnm_tag());
    }
}
