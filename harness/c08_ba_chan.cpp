// C08 (b1) — bit_aligned_pixel_reference: channel-level writes at every bit offset 0..7 change exactly
// their own bits. Operations per (configuration, offset, background, channel): `=` every value, pre/post
// ++ and --, += over a delta set (modulo 2^bits), = from a mutable / const channel proxy of another pixel,
// swap(proxy,proxy), swap(proxy,value), swap(value,proxy). Reference: bit-string model, no GIL.
#include "c08_ba.hpp"

using namespace c08;

template <class C> static void chan_config(vh::Ctx& ctx, int dense)
{
    std::vector<std::vector<uint64_t>> vals;
    for (int k = 0; k < C::N; ++k) vals.push_back(channel_values(C::width(k)));
    ba_enumerate<C>(ctx, "channel ops", dense, [&](ChanOps<C, BASite<C>>& ops) {
        for_channels<C::N>([&](auto k) {
            constexpr int K = decltype(k)::value;
            ops.template assign_values<K>(vals[K]);
            ops.template arithmetic<K>();
            ops.template from_proxies<K>();
        });
    });
}

// dense=2: pixels of <= 9 bits see all 2^16 contents of their two bytes, wider ones pattern backgrounds
// dense=3: pixels of 10..17 bits additionally see all 2^24 contents of their three bytes
VH_GROUP(ba_chan)
{
    vh::ubsan_counts() = false;
    const int dense = int(ctx.B("dense", 2));
#define X(T) chan_config<C08_T(T)>(ctx, dense);
    C08_BA_CONFIGS(X)
#undef X
}

VH_MAIN
