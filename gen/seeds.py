#!/usr/bin/env python3
"""seeds.py -- independent encoders for tiny valid BMP / PNM / TARGA files (C11, C12, C13 seeds).

Written from the format specifications (MS BITMAPFILEHEADER / BITMAPCOREHEADER / BITMAPINFOHEADER /
BITMAPV4HEADER + BI_RLE4/BI_RLE8 description; Netpbm pbm(5)/pgm(5)/ppm(5); Truevision TGA 2.0 spec).
Nothing here calls or imitates GIL.  Pure python3, standard library only, deterministic
(no clocks, no random module; byte-for-byte identical output on every run).

  python3 gen/seeds.py <outdir>           writes <name>.<ext> and <name>.json for every seed
  python3 gen/seeds.py --header <file>    writes all seeds as a C++ header (harness/io_seeds.hpp)
  python3 gen/seeds.py --list             one line per seed

For every seed:
  * bytes            the file
  * expected         decoded pixels, flat list, top-down row-major, channel-interleaved
                     (channels = 1: gray 0..255; 3: r,g,b; 4: r,g,b,a), derived from the encoder's
                     *input*.  -1 = the format leaves this sample undefined (RLE delta skips).
  * expected_alt     only where two decodings are defensible (16-bit BMP: bit replication vs plain
                     left shift; PNM maxval<255: raw sample vs sample scaled to 0..255); else empty
  * fields           header field table: name, offset, width (bytes), role, enc ('le'|'ascii'|'bytes')
                     roles: magic width height data_offset palette_count bpp compression header_size
                            file_size image_size planes mask maxval id_length image_type cmap_type
                            cmap_length descriptor ignored
  * regions          named byte ranges [begin,end): header, masks, palette, pixels, rle, id, footer,
                     comment<k>, raster
  * props            small integers describing the variant (bpp, compression, header_size, top_down,
                     clr_used, pnm_type, maxval, tga_type, tga_top, tga_idlen, big)
See design_notes/gen.md.
"""
import sys, os, json, struct

SIZES = [(4, 3), (5, 4), (9, 2)]


# ----------------------------------------------------------------------------- content functions
def rgb_at(x, y):
    return ((x * 29 + y * 7 + 13) & 255, (x * 5 + y * 53 + 101) & 255, (x * 83 + y * 19 + 211) & 255)


def alpha_at(x, y):
    return (x * 11 + y * 41 + 60) & 255


def rgb5_at(x, y, gbits=5):
    return ((x * 3 + y * 7 + 1) & 31, (x * 5 + y * 11 + 2) & ((1 << gbits) - 1), (x * 7 + y * 3 + 29) & 31)


def gray_at(x, y, maxval=255):
    return (x * 37 + y * 11 + 5) % (maxval + 1)


def palette_color(i):
    # distinct for i in 0..255
    return ((i * 67 + 31) & 255, (i * 29 + 140) & 255, (255 - i * 13) & 255)


def index_unique(x, y, w, n):
    """index image with as many distinct indices as n allows (7 is coprime to every n used)"""
    return ((y * w + x) * 7 + 3) % n


def index_runs(x, y, w, n):
    """index image with horizontal pairs on even rows (run-length friendly), unique on odd rows"""
    if y % 2 == 0:
        return ((x // 2) * 3 + y * 5 + 1) % n
    return ((y * w + x) * 7 + 3) % n


def bit_at(x, y):
    # fixed 1-bit pattern whose rows are pairwise distinct for all three sizes and whose columns
    # are pairwise distinct for 4x3 and 5x4 (checked in selftest)
    table = [0b101100111, 0b011010010, 0b110001101, 0b000111010]
    if x > 8:      # wide-row seeds: continue with a fixed aperiodic pattern
        return ((x * 5 + y * 3 + (x * x) // 7) >> 1) & 1
    return (table[y] >> (8 - x)) & 1


def pad4(b):
    return b + b'\0' * (-len(b) % 4)


def expand_bits(v, bits):
    """bit replication (what most decoders do): 5-bit 31 -> 255"""
    v <<= (8 - bits)
    return v | (v >> bits)


# ----------------------------------------------------------------------------- field-tracking buffer
class Buf:
    def __init__(self):
        self.b = bytearray()
        self.fields = []
        self.regions = {}

    def _f(self, name, width, role, enc):
        self.fields.append(dict(name=name, offset=len(self.b), width=width, role=role or '', enc=enc))

    def u8(self, name, v, role=None):
        self._f(name, 1, role, 'le'); self.b += struct.pack('<B', v)

    def u16(self, name, v, role=None):
        self._f(name, 2, role, 'le'); self.b += struct.pack('<H', v)

    def u32(self, name, v, role=None):
        self._f(name, 4, role, 'le'); self.b += struct.pack('<I', v & 0xFFFFFFFF)

    def i32(self, name, v, role=None):
        self._f(name, 4, role, 'le'); self.b += struct.pack('<i', v)

    def tag(self, name, data, role=None, enc='bytes'):
        self._f(name, len(data), role, enc); self.b += data

    def raw(self, region, data):
        s = len(self.b); self.b += data; self.regions[region] = [s, len(self.b)]

    def lit(self, data):
        self.b += data

    def patch_u32(self, name, v):
        for f in self.fields:
            if f['name'] == name:
                self.b[f['offset']:f['offset'] + 4] = struct.pack('<I', v)
                return
        raise KeyError(name)


class Seed:
    def __init__(self, fmt, ext, variant, w, h, channels, buf, expected, expected_alt=None, props=None):
        self.format, self.ext, self.variant = fmt, ext, variant
        self.w, self.h, self.channels = w, h, channels
        self.name = '%s_%s_%dx%d' % (fmt, variant, w, h)
        self.bytes = bytes(buf.b)
        self.fields, self.regions = buf.fields, buf.regions
        self.expected = expected
        self.expected_alt = expected_alt or []
        self.props = props or {}
        assert len(expected) == w * h * channels, self.name
        assert not self.expected_alt or len(self.expected_alt) == len(expected)

    def meta(self):
        return dict(name=self.name, format=self.format, ext=self.ext, variant=self.variant, width=self.w,
                    height=self.h, channels=self.channels, size=len(self.bytes), expected=self.expected,
                    expected_alt=self.expected_alt, fields=self.fields, regions=self.regions, props=self.props)


# ----------------------------------------------------------------------------- BMP
BI_RGB, BI_RLE8, BI_RLE4, BI_BITFIELDS = 0, 1, 2, 3


def bmp_rle_encode(rows_file_order, bpp, delta_demo=False, eol_before_eob=False):
    """BI_RLE8 / BI_RLE4 stream for index rows given in FILE order (bottom-up).
    Greedy: runs >= 2 -> encoded mode; literal stretches >= 3 -> absolute mode (padded to 16 bit);
    shorter literals -> encoded runs of length 1.  Every row ends with end-of-line (00 00) except the
    last, the stream ends with end-of-bitmap (00 01) (optionally preceded by an end-of-line).
    delta_demo: additionally skip some pixels with a delta escape (00 02 dx dy); returns the set of
    skipped (file_row, x) so the caller can mark them undefined."""
    out = bytearray()
    skipped = set()

    def emit_run(count, a, b=None):
        # RLE4: the byte holds two indices that alternate; RLE8: one index
        if bpp == 8:
            out.extend([count, a])
        else:
            out.extend([count, (a << 4) | (b if b is not None else a)])

    def emit_abs(px):
        assert 3 <= len(px) <= 255
        out.extend([0, len(px)])
        if bpp == 8:
            data = bytes(px)
        else:
            q = list(px) + [0] * (len(px) % 2)
            data = bytes((q[i] << 4) | q[i + 1] for i in range(0, len(q), 2))
        out.extend(data)
        if len(data) % 2:
            out.append(0)

    nrows = len(rows_file_order)
    for r, row in enumerate(rows_file_order):
        x, w = 0, len(row)
        if delta_demo == 2 and nrows >= 4:
            # a delta that jumps over a whole row: file row 0 holds two pixels, then delta (dx=1, dy=2) lands on file
            # row 2 at x=3; the rest of row 0, all of row 1 and the first three pixels of row 2 are skipped
            if r == 0:
                emit_run(1, row[0]); emit_run(1, row[1]); out.extend([0, 2, 1, 2])
                skipped.update({(0, i) for i in range(2, w)}); skipped.update({(1, i) for i in range(0, w)}); skipped.update({(2, i) for i in range(0, 3)})
                continue
            if r == 1:
                continue
            if r == 2:
                x = 3
        if delta_demo == 1 and r == 1 and w >= 4:
            # row 1: one pixel, then delta (dx=2, dy=0) skipping two pixels, then the rest
            emit_run(1, row[0]); out.extend([0, 2, 2, 0]); skipped.update({(r, 1), (r, 2)}); x = 3
        if delta_demo == 1 and r == 2 and nrows >= 4:
            # row 2: two pixels, then delta (dx=1, dy=1): lands on row 3 at x=3; the rest of row 2 and the
            # first three pixels of row 3 are skipped
            emit_run(1, row[0]); emit_run(1, row[1])
            out.extend([0, 2, 1, 1])
            skipped.update({(r, i) for i in range(2, w)}); skipped.update({(r + 1, i) for i in range(0, 3)})
            continue
        if delta_demo == 1 and r == 3 and nrows >= 4:
            x = 3
        lit = []

        def flush_lit():
            nonlocal lit
            while lit:
                if len(lit) >= 3:
                    emit_abs(lit[:255]); lit = lit[255:]
                else:
                    if bpp == 4 and len(lit) == 2:
                        emit_run(2, lit[0], lit[1]); lit = []
                    else:
                        emit_run(1, lit[0]); lit = lit[1:]
        while x < w:
            n = 1
            while x + n < w and row[x + n] == row[x] and n < 255:
                n += 1
            if n >= 2:
                flush_lit(); emit_run(n, row[x]); x += n
            else:
                lit.append(row[x]); x += 1
        flush_lit()
        if r < nrows - 1 or eol_before_eob:
            out.extend([0, 0])
    out.extend([0, 1])
    return bytes(out), skipped


def make_bmp(variant, w, h):
    """variant: dict(kind=pal1|pal4|pal8|rle4|rle8|rgb555|bf565|bf555|rgb24|rgb32, header=win|os2|v4,
    top_down=bool, clr_used=int (0 = full palette), delta=bool, label=str)"""
    kind, header = variant['kind'], variant.get('header', 'win')
    top_down, clr_used = variant.get('top_down', False), variant.get('clr_used', 0)
    delta = variant.get('delta', False)
    bpp = dict(pal1=1, pal4=4, pal8=8, rle4=4, rle8=8, rgb555=16, bf565=16, bf555=16, rgb24=24, rgb32=32)[kind]
    comp = dict(rle4=BI_RLE4, rle8=BI_RLE8, bf565=BI_BITFIELDS, bf555=BI_BITFIELDS).get(kind, BI_RGB)
    paletted = bpp <= 8
    assert not (top_down and comp in (BI_RLE4, BI_RLE8)), 'top-down bitmaps cannot be compressed'
    assert not (header == 'os2' and (comp != BI_RGB or bpp == 16 or bpp == 32 or top_down or clr_used))
    ncolors = (clr_used or (1 << bpp)) if paletted else 0

    # ---- pixel content (top-down logical image)
    undefined = set()
    if paletted:
        if bpp == 1:
            idx = [[bit_at(x, y) % ncolors for x in range(w)] for y in range(h)]
        elif kind in ('rle4', 'rle8'):
            idx = [[index_runs(x, y, w, ncolors) for x in range(w)] for y in range(h)]
        else:
            idx = [[index_unique(x, y, w, ncolors) for x in range(w)] for y in range(h)]
        pal = [palette_color(i) for i in range(ncolors)]
        channels = 3
    elif bpp == 16:
        gbits = 6 if kind == 'bf565' else 5
        v = [[rgb5_at(x, y, gbits) for x in range(w)] for y in range(h)]
        channels = 3
    elif bpp == 24:
        v = [[rgb_at(x, y) for x in range(w)] for y in range(h)]
        channels = 3
    else:
        v = [[rgb_at(x, y) + (alpha_at(x, y),) for x in range(w)] for y in range(h)]
        channels = 4

    # ---- rows in file order
    order = list(range(h)) if top_down else list(range(h - 1, -1, -1))
    rle_stream = None
    if kind in ('rle4', 'rle8'):
        rle_stream, skipped = bmp_rle_encode([idx[y] for y in order], bpp, delta_demo=int(delta),
                                             eol_before_eob=variant.get('eol_eob', False))
        undefined = {(order[r], x) for (r, x) in skipped}
        data = rle_stream
    else:
        rows = []
        for y in order:
            if bpp == 1:
                bits = idx[y] + [0] * (-w % 8)
                row = bytes(sum(bits[i + k] << (7 - k) for k in range(8)) for i in range(0, len(bits), 8))
            elif bpp == 4:
                q = idx[y] + [0] * (w % 2)
                row = bytes((q[i] << 4) | q[i + 1] for i in range(0, len(q), 2))
            elif bpp == 8:
                row = bytes(idx[y])
            elif bpp == 16:
                gb = 6 if kind == 'bf565' else 5
                row = b''.join(struct.pack('<H', (r << (5 + gb)) | (g << 5) | b) for (r, g, b) in v[y])
            elif bpp == 24:
                row = b''.join(bytes((b, g, r)) for (r, g, b) in v[y])
            else:
                row = b''.join(bytes((b, g, r, a)) for (r, g, b, a) in v[y])
            rows.append(pad4(row))
        data = b''.join(rows)

    # ---- headers
    B = Buf()
    B.tag('magic', b'BM', 'magic')
    B.u32('file_size', 0, 'file_size')
    B.u16('reserved1', 0, 'ignored')
    B.u16('reserved2', 0, 'ignored')
    B.u32('data_offset', 0, 'data_offset')
    if header == 'os2':
        B.u32('header_size', 12, 'header_size')
        B.u16('width', w, 'width')
        B.u16('height', h, 'height')
        B.u16('planes', 1, 'planes')
        B.u16('bpp', bpp, 'bpp')
    else:
        hs = 40 if header == 'win' else 108
        B.u32('header_size', hs, 'header_size')
        B.i32('width', w, 'width')
        B.i32('height', -h if top_down else h, 'height')
        B.u16('planes', 1, 'planes')
        B.u16('bpp', bpp, 'bpp')
        B.u32('compression', comp, 'compression')
        B.u32('image_size', len(data), 'image_size')
        B.i32('x_ppm', 2835, 'ignored')
        B.i32('y_ppm', 2835, 'ignored')
        B.u32('clr_used', clr_used, 'palette_count')
        B.u32('clr_important', 0, 'ignored')
        masks = None
        if comp == BI_BITFIELDS:
            masks = (0xF800, 0x07E0, 0x001F) if kind == 'bf565' else (0x7C00, 0x03E0, 0x001F)
        if header == 'v4':
            m = masks or (0, 0, 0)
            B.u32('red_mask', m[0], 'mask'); B.u32('green_mask', m[1], 'mask'); B.u32('blue_mask', m[2], 'mask')
            B.u32('alpha_mask', 0, 'mask')
            B.tag('cs_type', b'BGRs', 'ignored')          # LCS_sRGB
            B.tag('endpoints', b'\0' * 36, 'ignored')
            B.u32('gamma_red', 0, 'ignored'); B.u32('gamma_green', 0, 'ignored'); B.u32('gamma_blue', 0, 'ignored')
        elif masks:
            s = len(B.b)
            B.u32('red_mask', masks[0], 'mask'); B.u32('green_mask', masks[1], 'mask'); B.u32('blue_mask', masks[2], 'mask')
            B.regions['masks'] = [s, len(B.b)]
    B.regions['header'] = [0, len(B.b)]
    if paletted:
        if header == 'os2':
            B.raw('palette', b''.join(bytes((b, g, r)) for (r, g, b) in pal))
        else:
            B.raw('palette', b''.join(bytes((b, g, r, 0)) for (r, g, b) in pal))
    off = len(B.b)
    B.raw('rle' if rle_stream is not None else 'pixels', data)
    B.patch_u32('data_offset', off)
    B.patch_u32('file_size', len(B.b))

    # ---- expected
    exp, alt = [], []
    for y in range(h):
        for x in range(w):
            if paletted:
                if (y, x) in undefined:
                    exp += [-1, -1, -1]
                else:
                    exp += list(pal[idx[y][x]])
            elif bpp == 16:
                gb = 6 if kind == 'bf565' else 5
                r, g, b = v[y][x]
                exp += [expand_bits(r, 5), expand_bits(g, gb), expand_bits(b, 5)]
                alt += [r << 3, g << (8 - gb), b << 3]
            else:
                exp += list(v[y][x])
    label = variant.get('label') or '_'.join([kind] + ([header] if header != 'win' else []) +
                                             (['td'] if top_down else []) +
                                             (['c%d' % clr_used] if clr_used else []) +
                                             (['delta' if int(delta) == 1 else 'delta_dy2'] if delta else []) +
                                             (['eoleob'] if variant.get('eol_eob') else []))
    props = dict(bpp=bpp, compression=comp, header_size=dict(win=40, os2=12, v4=108)[header],
                 top_down=int(top_down), clr_used=clr_used, palette_entries=ncolors,
                 big=int(len(B.b) > 400))
    return Seed('bmp', 'bmp', label, w, h, channels, B, exp, alt, props)


BMP_VARIANTS = [
    # palette, Win32 header, full and reduced palettes
    dict(kind='pal1'), dict(kind='pal1', clr_used=2),
    dict(kind='pal4'), dict(kind='pal4', clr_used=6),
    dict(kind='pal8', clr_used=24), dict(kind='pal8', clr_used=24, top_down=True),
    dict(kind='pal4', top_down=True), dict(kind='pal1', top_down=True),
    # run-length encoded (always bottom-up)
    dict(kind='rle8', clr_used=24), dict(kind='rle8', clr_used=24, eol_eob=True),
    dict(kind='rle8', clr_used=24, delta=True), dict(kind='rle8', clr_used=24, delta=2),
    dict(kind='rle4'), dict(kind='rle4', clr_used=6, eol_eob=True), dict(kind='rle4', delta=True), dict(kind='rle4', delta=2),
    # 16 bit
    dict(kind='rgb555'), dict(kind='rgb555', top_down=True), dict(kind='bf565'), dict(kind='bf555'),
    dict(kind='bf565', header='v4'),
    # true colour
    dict(kind='rgb24'), dict(kind='rgb24', top_down=True), dict(kind='rgb32'), dict(kind='rgb32', top_down=True),
    dict(kind='rgb24', header='v4'), dict(kind='rgb32', header='v4'),
    # OS/2 1.x core header (3-byte palette entries, always a full palette)
    dict(kind='pal1', header='os2'), dict(kind='pal4', header='os2'), dict(kind='rgb24', header='os2'),
    # V4 header with palette
    dict(kind='pal8', header='v4', clr_used=24), dict(kind='pal4', header='v4'),
]
# variants with a full 256-entry palette are > 1 KB: one size only, flagged big
BMP_BIG = [dict(kind='pal8'), dict(kind='pal8', header='os2'), dict(kind='rle8')]
BMP_WIDE = [dict(kind='rgb555'), dict(kind='bf565'), dict(kind='pal1'), dict(kind='pal4'), dict(kind='rgb24')]


# ----------------------------------------------------------------------------- PNM
def make_pnm(ptype, w, h, maxval=255, comments=False, nospace=False):
    B = Buf()
    B.tag('magic', b'P%d' % ptype, 'magic', 'ascii')
    k = [0]

    def comment(text):
        s = len(B.b); B.lit(b'# ' + text + b'\n'); B.regions['comment%d' % k[0]] = [s, len(B.b)]; k[0] += 1
    B.lit(b'\n')
    if comments:
        comment(b'made by gen/seeds.py')
    B.tag('width', b'%d' % w, 'width', 'ascii')
    if comments and ptype in (1, 4):
        # no maxval follows: the second comment must sit between width and height, because the single
        # white-space character after the height is immediately followed by the raster
        B.lit(b'\n'); comment(b'second comment 12 34')
    else:
        B.lit(b' ')
    B.tag('height', b'%d' % h, 'height', 'ascii')
    B.lit(b'\n')
    if comments and ptype not in (1, 4):
        comment(b'second comment 12 34')
    if ptype not in (1, 4):
        B.tag('maxval', b'%d' % maxval, 'maxval', 'ascii')
        B.lit(b'\n')
    B.regions['header'] = [0, len(B.b)]
    exp, alt = [], []
    if ptype in (1, 4):
        channels = 1
        bits = [[bit_at(x, y) for x in range(w)] for y in range(h)]      # 1 = black
        exp = [0 if bits[y][x] else 255 for y in range(h) for x in range(w)]
        if ptype == 1:
            sep = b'' if nospace else b' '
            txt = b''.join(sep.join(b'%d' % v for v in row) + b'\n' for row in bits)
            B.raw('raster', txt)
        else:
            rows = []
            for row in bits:
                p = row + [0] * (-w % 8)
                rows.append(bytes(sum(p[i + j] << (7 - j) for j in range(8)) for i in range(0, len(p), 8)))
            B.raw('raster', b''.join(rows))
    elif ptype in (2, 5):
        channels = 1
        g = [[gray_at(x, y, maxval) for x in range(w)] for y in range(h)]
        exp = [v for row in g for v in row]
        if ptype == 2:
            B.raw('raster', b''.join(b' '.join(b'%d' % v for v in row) + b'\n' for row in g))
        else:
            B.raw('raster', bytes(exp))
    else:
        channels = 3
        c = [[tuple(v % (maxval + 1) for v in rgb_at(x, y)) for x in range(w)] for y in range(h)]
        exp = [v for row in c for px in row for v in px]
        if ptype == 3:
            B.raw('raster', b''.join(b'  '.join(b'%d %d %d' % px for px in row) + b'\n' for row in c))
        else:
            B.raw('raster', bytes(exp))
    if maxval != 255 and ptype not in (1, 4):
        alt = [(v * 255 + maxval // 2) // maxval for v in exp]
    label = 'p%d' % ptype + ('_max%d' % maxval if maxval != 255 and ptype not in (1, 4) else '') + \
            ('_cmt' if comments else '') + ('_nospace' if nospace else '')
    props = dict(pnm_type=ptype, maxval=1 if ptype in (1, 4) else maxval, comments=int(comments), big=0)
    return Seed('pnm', 'pnm', label, w, h, channels, B, exp, alt, props)


# ----------------------------------------------------------------------------- TARGA
def tga_rle_encode(pixels, w, cross_rows=False):
    """pixels: list of per-pixel byte strings in file order. Packets never cross scan lines unless
    cross_rows (allowed by TGA 1.0 decoders, discouraged by 2.0)."""
    out = bytearray()
    lines = [pixels] if cross_rows else [pixels[i:i + w] for i in range(0, len(pixels), w)]
    for line in lines:
        i, n = 0, len(line)
        lit = []

        def flush():
            nonlocal lit
            while lit:
                chunk, lit = lit[:128], lit[128:]
                out.append(len(chunk) - 1); out.extend(b''.join(chunk))
        while i < n:
            r = 1
            while i + r < n and line[i + r] == line[i] and r < 128:
                r += 1
            if r >= 2:
                flush(); out.append(0x80 | (r - 1)); out.extend(line[i]); i += r
            else:
                lit.append(line[i]); i += 1
        flush()
    return bytes(out)


def make_tga(bpp, rle, top, w, h, idlen=0, footer=False, cross=False):
    B = Buf()
    B.u8('id_length', idlen, 'id_length')
    B.u8('cmap_type', 0, 'cmap_type')
    B.u8('image_type', 10 if rle else 2, 'image_type')
    B.u16('cmap_start', 0, 'ignored')
    B.u16('cmap_length', 0, 'cmap_length')
    B.u8('cmap_depth', 0, 'ignored')
    B.u16('x_origin', 0, 'ignored')
    B.u16('y_origin', 0, 'ignored')
    B.u16('width', w, 'width')
    B.u16('height', h, 'height')
    B.u8('bpp', bpp, 'bpp')
    B.u8('descriptor', (8 if bpp == 32 else 0) | (0x20 if top else 0), 'descriptor')
    B.regions['header'] = [0, len(B.b)]
    if idlen:
        B.raw('id', (b'seedsid' * 40)[:idlen])
    ch = 4 if bpp == 32 else 3

    def px(x, y):
        if rle:   # run friendly: horizontal pairs on even rows
            xx = (x // 2) * 2 if y % 2 == 0 else x
        else:
            xx = x
        r, g, b = rgb_at(xx, y)
        return (r, g, b) + ((alpha_at(xx, y),) if ch == 4 else ())
    order = list(range(h)) if top else list(range(h - 1, -1, -1))
    stream = []
    for y in order:
        for x in range(w):
            p = px(x, y)
            stream.append(bytes((p[2], p[1], p[0]) + p[3:]))
    if rle:
        B.raw('rle', tga_rle_encode(stream, w, cross))
    else:
        B.raw('pixels', b''.join(stream))
    if footer:
        B.raw('footer', struct.pack('<II', 0, 0) + b'TRUEVISION-XFILE.\0')
    exp = [v for y in range(h) for x in range(w) for v in px(x, y)]
    label = 'rgb%d_%s_%s' % (bpp, 'rle' if rle else 'raw', 'tl' if top else 'bl') + \
            ('_id%d' % idlen if idlen else '') + ('_ftr' if footer else '') + ('_cross' if cross else '')
    props = dict(bpp=bpp, tga_type=10 if rle else 2, tga_top=int(top), tga_idlen=idlen, big=0)
    return Seed('targa', 'tga', label, w, h, ch, B, exp, None, props)


# ----------------------------------------------------------------------------- the seed list
def all_seeds():
    seeds = []
    for v in BMP_VARIANTS:
        for (w, h) in SIZES:
            if v.get('delta') and (w, h) != (5, 4):
                continue
            seeds.append(make_bmp(v, w, h))
    for v in BMP_BIG:
        seeds.append(make_bmp(v, 5, 4))
    # wide rows: widths above 16 are where a wrong row pitch for 15/16-bit (and 1/4-bit) pixels stops being hidden by
    # the 4-byte row rounding
    for v in BMP_WIDE:
        seeds.append(make_bmp(v, 19, 2))
    for (w, h) in SIZES:
        seeds.append(make_pnm(1, w, h))
        seeds.append(make_pnm(2, w, h))
        seeds.append(make_pnm(3, w, h))
        seeds.append(make_pnm(4, w, h))
        seeds.append(make_pnm(5, w, h))
        seeds.append(make_pnm(6, w, h))
    for t in (1, 2, 3, 4, 5, 6):
        seeds.append(make_pnm(t, 5, 4, comments=True))
    seeds.append(make_pnm(2, 5, 4, maxval=15, comments=True))
    seeds.append(make_pnm(3, 5, 4, maxval=100))
    seeds.append(make_pnm(5, 5, 4, maxval=15))
    seeds.append(make_pnm(5, 9, 2, maxval=100, comments=True))
    seeds.append(make_pnm(6, 5, 4, maxval=100, comments=True))
    seeds.append(make_pnm(6, 4, 3, maxval=15))
    seeds.append(make_pnm(1, 5, 4, nospace=True))
    for bpp in (24, 32):
        for rle in (False, True):
            for top in (False, True):
                for (w, h) in SIZES:
                    seeds.append(make_tga(bpp, rle, top, w, h))
    seeds.append(make_tga(24, False, False, 5, 4, idlen=7))
    seeds.append(make_tga(32, True, True, 5, 4, idlen=3))
    seeds.append(make_tga(24, False, True, 5, 4, footer=True))
    seeds.append(make_tga(24, True, False, 5, 4, cross=True))
    seeds.append(make_tga(32, True, False, 4, 3, cross=True, footer=True))
    names = [s.name for s in seeds]
    assert len(names) == len(set(names)), 'duplicate seed names'
    return seeds


def selftest(seeds):
    # content functions give pairwise distinct pixels (so every crop is distinguishable)
    for (w, h) in SIZES:
        px = [rgb_at(x, y) for y in range(h) for x in range(w)]
        assert len(set(px)) == len(px)
        px = [rgb5_at(x, y) for y in range(h) for x in range(w)]
        assert len(set(px)) == len(px)
        g = [gray_at(x, y) for y in range(h) for x in range(w)]
        assert len(set(g)) == len(g)
        rows = [tuple(bit_at(x, y) for x in range(w)) for y in range(h)]
        assert len(set(rows)) == h
        if w <= 5:
            cols = [tuple(bit_at(x, y) for y in range(h)) for x in range(w)]
            assert len(set(cols)) == w, (w, h, cols)
    assert len(set(palette_color(i) for i in range(256))) == 256
    for s in seeds:
        for f in s.fields:
            assert 0 <= f['offset'] and f['offset'] + f['width'] <= len(s.bytes), (s.name, f)
        for r, (a, b) in s.regions.items():
            assert 0 <= a <= b <= len(s.bytes), (s.name, r)
        if not s.props.get('big'):
            assert 8 <= len(s.bytes) <= 320, (s.name, len(s.bytes))


# ----------------------------------------------------------------------------- output
def write_dir(seeds, outdir):
    os.makedirs(outdir, exist_ok=True)
    for s in seeds:
        with open(os.path.join(outdir, '%s.%s' % (s.name, s.ext)), 'wb') as fh:
            fh.write(s.bytes)
        with open(os.path.join(outdir, s.name + '.json'), 'w') as fh:
            json.dump(s.meta(), fh, indent=1, sort_keys=True)
            fh.write('\n')


def cstr(b):
    """C string literal for arbitrary bytes (octal escapes, split so no escape swallows a digit)"""
    out, line = [], ''
    for c in b:
        line += '\\%03o' % c
        if len(line) >= 96:
            out.append('"%s"' % line); line = ''
    if line or not out:
        out.append('"%s"' % line)
    return '\n        '.join(out)


def write_header(seeds, path):
    L = []
    L.append('// io_seeds.hpp -- GENERATED by `python3 gen/seeds.py --header harness/io_seeds.hpp`; do not edit.')
    L.append('// Independent (non-GIL) encodings of tiny valid BMP / PNM / TARGA files with their expected pixels,')
    L.append('// header field tables and byte regions.  See gen/seeds.py and design_notes/gen.md.')
    L.append('#pragma once')
    L.append('#include <vector>')
    L.append('#include <cstring>')
    L.append('')
    L.append('struct SeedField  { const char* name; int offset; int width; const char* role; const char* enc; };')
    L.append('struct SeedRegion { const char* name; int begin; int end; };')
    L.append('struct SeedProp   { const char* key; int value; };')
    L.append('struct Seed')
    L.append('{')
    L.append('    const char* name; const char* format; const char* variant;')
    L.append('    int w, h, channels;')
    L.append('    std::vector<unsigned char> bytes;      // the file')
    L.append('    std::vector<int> expected;             // top-down row-major, channel-interleaved; -1 = undefined')
    L.append('    std::vector<int> expected_alt;         // alternative defensible decoding, or empty')
    L.append('    std::vector<SeedField> fields;')
    L.append('    std::vector<SeedRegion> regions;')
    L.append('    std::vector<SeedProp> props;')
    L.append('    int prop(const char* k, int dflt = 0) const')
    L.append('    { for (auto const& p : props) if (!std::strcmp(p.key, k)) return p.value; return dflt; }')
    L.append('};')
    L.append('')
    L.append('inline std::vector<Seed> const& io_seeds()')
    L.append('{')
    L.append('    static std::vector<Seed> const all = [] {')
    L.append('        std::vector<Seed> v;')
    L.append('        auto add = [&v](const char* name, const char* format, const char* variant, int w, int h, int ch,')
    L.append('                        const char* bytes, int nbytes, std::vector<int> exp, std::vector<int> alt,')
    L.append('                        std::vector<SeedField> f, std::vector<SeedRegion> r, std::vector<SeedProp> p) {')
    L.append('            Seed s{name, format, variant, w, h, ch, {}, std::move(exp), std::move(alt), std::move(f), std::move(r), std::move(p)};')
    L.append('            s.bytes.assign(reinterpret_cast<unsigned char const*>(bytes), reinterpret_cast<unsigned char const*>(bytes) + nbytes);')
    L.append('            v.push_back(std::move(s));')
    L.append('        };')
    for s in seeds:
        L.append('        add("%s", "%s", "%s", %d, %d, %d,' % (s.name, s.format, s.variant, s.w, s.h, s.channels))
        L.append('        %s, %d,' % (cstr(s.bytes), len(s.bytes)))
        L.append('        {%s},' % ','.join(str(v) for v in s.expected))
        L.append('        {%s},' % ','.join(str(v) for v in s.expected_alt))
        L.append('        {%s},' % ','.join('{"%s",%d,%d,"%s","%s"}' % (f['name'], f['offset'], f['width'], f['role'], f['enc'])
                                         for f in s.fields))
        L.append('        {%s},' % ','.join('{"%s",%d,%d}' % (k, a, b) for k, (a, b) in sorted(s.regions.items())))
        L.append('        {%s});' % ','.join('{"%s",%d}' % (k, v) for k, v in sorted(s.props.items())))
    L.append('        return v;')
    L.append('    }();')
    L.append('    return all;')
    L.append('}')
    with open(path, 'w') as fh:
        fh.write('\n'.join(L) + '\n')


def main(argv):
    seeds = all_seeds()
    selftest(seeds)
    if len(argv) >= 2 and argv[1] == '--header':
        write_header(seeds, argv[2])
    elif len(argv) >= 2 and argv[1] == '--list':
        for s in seeds:
            print('%-34s %4d bytes %dx%d ch=%d fields=%d regions=%s' % (s.name, len(s.bytes), s.w, s.h, s.channels,
                                                                       len(s.fields), ','.join(sorted(s.regions))))
        print('%d seeds' % len(seeds))
    elif len(argv) >= 2:
        write_dir(seeds, argv[1])
    else:
        sys.stderr.write(__doc__)
        return 2
    return 0


if __name__ == '__main__':
    sys.exit(main(sys.argv))
