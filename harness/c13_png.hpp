// C13 for PNG (shared by c13_png_a.cpp / c13_png_b.cpp, which split the pixel types to bound compile time): GIL-written seeds of every supported pixel type, Adam7-interlaced seeds written with libpng directly
// (GIL's writer cannot produce them), and the repo's sample PNGs.
#include "c13_lib.hpp"
#include <boost/gil/extension/io/png.hpp>

namespace gil = boost::gil;
namespace mp = boost::mp11;
using c13::SeedView; using c13::Opts; using ioc::Flat; using ioc::Emit;

struct PngFmt : c13::LibFmtBase<gil::png_tag>
{
    static const char* name() { return "png"; }
    using conv_list = mp::mp_list<gil::rgb8_image_t, gil::gray16_image_t>;
    // every native type that occurs must be among the alternatives (otherwise "no matching image type" is correct behaviour)
    using any_t = gil::any_image<gil::gray1_image_t, gil::gray2_image_t, gil::gray4_image_t, gil::gray8_image_t, gil::gray16_image_t,
                                 gil::rgb8_image_t, gil::rgb16_image_t, gil::rgba8_image_t, gil::rgba16_image_t>;

    // depth: bit depth per channel and channel count of the file == those of the image read_image produces
    // (only for seeds whose file layout equals the native type: sv.file_bpp = bits per channel, aux1 = channels)
    template <class Img, class Info> static std::string depth_check(Info const& info, SeedView const& sv)
    {
        if (!sv.file_bpp) return "";
        if (int(info._bit_depth) != sv.file_bpp) return std::string(vh::S() << "info._bit_depth=" << int(info._bit_depth) << " image has " << sv.file_bpp);
        if (int(info._num_channels) != sv.aux1) return std::string(vh::S() << "info._num_channels=" << int(info._num_channels) << " image has " << sv.aux1);
        return "";
    }
    template <class Img> static void view_exact(Emit& e, ioc::Source const& src, int d, Flat const& full)
    { c13::view_exact_any<PngFmt, Img>(e, src, d, full, typename gil::is_bit_aligned<typename Img::value_type>::type()); }
};

using AllTypes = mp::mp_remove<c12::Supported<gil::png_tag>, gil::bgr8_image_t>;   // bgr8 has the same file layout as rgb8
using Types = PNG_PART_TYPES;
static_assert(mp::mp_all_of_q<Types, c12::IsRW<gil::png_tag>>::value, "part types must be supported");

template <class Img> static int chan_bits()
{
    using C = typename gil::kth_semantic_element_type<typename Img::value_type, 0>::type;
    return int(gil::detail::unsigned_integral_num_bits<typename gil::channel_traits<C>::value_type>::value);
}

// ---- Adam7 seeds written with libpng itself
static void mem_write(png_structp p, png_bytep data, png_size_t n)
{ auto* v = static_cast<std::vector<unsigned char>*>(png_get_io_ptr(p)); v->insert(v->end(), data, data + n); }
static void mem_flush(png_structp) {}
static std::vector<unsigned char> adam7_png(int w, int h, int color_type, int channels, std::vector<int>& expected)
{
    std::vector<unsigned char> out;
    std::vector<std::vector<unsigned char>> rows(h, std::vector<unsigned char>(size_t(w * channels)));
    expected.clear();
    for (int y = 0; y < h; ++y) for (int x = 0; x < w; ++x) for (int k = 0; k < channels; ++k)
    { int v = (x * 29 + y * 53 + k * 101 + 17) & 255; rows[y][size_t(x * channels + k)] = (unsigned char)v; expected.push_back(v); }
    png_structp p = png_create_write_struct(PNG_LIBPNG_VER_STRING, nullptr, nullptr, nullptr);
    png_infop i = png_create_info_struct(p);
    if (setjmp(png_jmpbuf(p))) { png_destroy_write_struct(&p, &i); return {}; }
    png_set_write_fn(p, &out, mem_write, mem_flush);
    png_set_IHDR(p, i, w, h, 8, color_type, PNG_INTERLACE_ADAM7, PNG_COMPRESSION_TYPE_DEFAULT, PNG_FILTER_TYPE_DEFAULT);
    png_write_info(p, i);
    std::vector<png_bytep> rp; for (auto& r : rows) rp.push_back(r.data());
    png_write_image(p, rp.data());
    png_write_end(p, i);
    png_destroy_write_struct(&p, &i);
    return out;
}

template <class Img> static void run_typed(vh::Ctx& ctx, SeedView const& sv, Opts const& o)
{
    ioc::run_unit(ctx, sv.name, [&](Emit& e) { c13::check_seed<PngFmt, Img>(e, sv, o); });
}

VH_GROUP(seeds)
{
    vh::ubsan_counts() = false;
    long allrect = ctx.B("allrect", 0);
    Opts o; o.devmask = int(ctx.B("devmask", 7));
    static const long SZ[3][2] = {{5, 4}, {4, 3}, {9, 2}};
    mp::mp_for_each<mp::mp_transform<mp::mp_identity, Types>>([&](auto Id) {
        using Img = typename decltype(Id)::type;
        for (auto const& sz : SZ)
        {
            if (!ctx.take()) continue;
            std::string nm = std::string(vh::S() << "png_" << c12::TypeName<Img>::get() << "_" << sz[0] << "x" << sz[1]);
            ctx.cur = nm;
            std::vector<unsigned char> bytes = c13::gil_written<Img, gil::png_tag>(sz[0], sz[1], gil::image_write_info<gil::png_tag>());
            ioc::ScratchFile file("c13-" + nm, "png", bytes);
            SeedView sv; sv.name = nm; sv.bytes = &bytes; sv.path = file.path;
            sv.file_bpp = chan_bits<Img>(); sv.aux1 = int(gil::num_channels<typename Img::view_t>::value);
            sv.subrects = (allrect && sz[0] * sz[1] <= 20) || (sz[0] <= 5 && sz[1] <= 4);
            ++ctx.witness["png_gil_written_seeds"];
            run_typed<Img>(ctx, sv, o);
            if (ctx.timed_out()) return;
        }
    });
    // Adam7
    struct A7 { const char* n; int w, h, ct, ch; };
    static const A7 a7[] = {{"png_adam7_gray8_5x4", 5, 4, PNG_COLOR_TYPE_GRAY, 1}, {"png_adam7_rgb8_5x4", 5, 4, PNG_COLOR_TYPE_RGB, 3},
                            {"png_adam7_rgba8_4x3", 4, 3, PNG_COLOR_TYPE_RGB_ALPHA, 4}, {"png_adam7_rgb8_9x2", 9, 2, PNG_COLOR_TYPE_RGB, 3}};
    for (auto const& a : a7)
    {
        if ((a.ch == 1) != (PNG_PART_GRAY != 0)) continue;      // gray seeds belong to the gray part
        if (!ctx.take()) continue;
        ctx.cur = a.n;
        std::vector<int> expected;
        std::vector<unsigned char> bytes = adam7_png(a.w, a.h, a.ct, a.ch, expected);
        if (bytes.empty()) { ctx.fail(a.n, "harness:libpng-write-failed"); continue; }
        ioc::ScratchFile file(std::string("c13-") + a.n, "png", bytes);
        SeedView sv; sv.name = a.n; sv.bytes = &bytes; sv.path = file.path;
        sv.expected = &expected; sv.exp_channels = a.ch; sv.exp_w = a.w; sv.exp_h = a.h;
        sv.file_bpp = 8; sv.aux1 = a.ch;
        sv.subrects = (allrect && a.w * a.h <= 20) || (a.w <= 5 && a.h <= 4);
        sv.scan_expected = false;      // documented: scanline_read_iterator cannot read interlaced png images
        ++ctx.witness["png_interlaced_seeds"];
#if PNG_PART_GRAY
        run_typed<gil::gray8_image_t>(ctx, sv, o);
#else
        if (a.ch == 3) run_typed<gil::rgb8_image_t>(ctx, sv, o);
        else run_typed<gil::rgba8_image_t>(ctx, sv, o);
#endif
    }
}

// repo samples: the native type is the candidate read_image accepts for the file (each part tries its own types)
VH_GROUP(samples)
{
    vh::ubsan_counts() = false;
    Opts o; o.devmask = int(ctx.B("devmask", 7));
    std::vector<std::string> files;
    for (auto const& d : {std::string("/repo/test/extension/io/images/png"), std::string("/repo/test/extension/io/images/png/PngSuite"),
                          std::string("/repo/test/extension/io/images/png/EddDawson")})
        for (auto const& n : c13::list_files(d, {".png"})) files.push_back(d + "/" + n);
    for (auto const& path : files)
    {
        if (!ctx.take()) continue;
        ctx.cur = path;
        std::vector<unsigned char> bytes = c13::slurp(path);
        if (bytes.size() < 33) continue;
        SeedView sv; sv.name = "sample:" + path.substr(path.rfind('/') + 1); sv.bytes = &bytes; sv.path = path;
        sv.subrects = false; sv.big = true;
        bool done = false;
        using Try = Types;       // PNG reads are type-exact: at most one type of one part accepts a file
        mp::mp_for_each<mp::mp_transform<mp::mp_identity, Try>>([&](auto Id) {
            using Img = typename decltype(Id)::type;
            if (done) return;
            bool ok = false;
            ioc::run_unit(ctx, sv.name + "/probe", [&](Emit& e) {
                Img img;
                std::string err = c13::guarded([&] { gil::read_image(path, img, gil::png_tag()); });
                e.begin(sv.name + "/probe/" + c12::TypeName<Img>::get()); if (err.empty()) e.count("probe_ok"); e.end(false);
            });
            ok = ctx.counters["probe_ok"] > 0; ctx.counters.erase("probe_ok");
            if (!ok) return;
            done = true;
            ++ctx.witness["sample_files"];
            run_typed<Img>(ctx, sv, o);
        });
        if (!done) ++ctx.counters["sample_not_native_to_this_part"];
        if (ctx.timed_out()) return;
    }
}

VH_MAIN
