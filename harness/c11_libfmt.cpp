// C11 for the formats decoded by C libraries (PNG, JPEG, TIFF): the GIL-side glue (row buffers, setjmp/longjmp
// trampolines, type dispatch, devices) under every truncation and every byte x {bit0 flip, bit7 flip, 0x00, 0xFF} of
// small files written by GIL's own writers at run time.  libpng/libjpeg/libtiff themselves are uninstrumented: inside
// them only what ASan's interceptors see is visible.  No silent-accept oracle (there is no field table).
#include "c11_formats.hpp"
#include <boost/gil/extension/io/png.hpp>
#include <boost/gil/extension/io/jpeg.hpp>
#include <boost/gil/extension/io/tiff.hpp>
#include <tiffio.h>
using namespace c11;

struct TiffDev
{
    static constexpr bool handle_needs_path = true;
    template <class F> static void with(int d, ioc::Source const& s, F f)
    {
        if (d == ioc::DEV_NAME) { std::string p = s.path; f(p); }
        else if (d == ioc::DEV_FILE)
        {
            TIFF* t = TIFFOpen(s.path.c_str(), "r");
            if (!t) throw std::runtime_error("harness: TIFFOpen failed");
            f(t);                               // GIL's tiff device owns the handle
        }
        else { std::istringstream in(std::string(s.bytes->begin(), s.bytes->end()), std::ios::in | std::ios::binary); std::istream& is = in; f(is); }
    }
};
static void tiff_quiet(const char*, const char*, va_list) {}

template <class Tag, class Img, class Info>
static Seed make_seed(const char* name, const char* fmt, int w, int h, Info const& info, unsigned salt)
{
    Img img(w, h);
    ioc::fill_content(gil::view(img), ioc::C_TAGS, salt);
    std::ostringstream os(std::ios::out | std::ios::binary);
    std::ostream& o = os;
    gil::write_view(o, gil::view(img), info);      // (the png writer does not compile for const bit-aligned views)
    std::string b = os.str();
    Seed s{name, fmt, "gil-written", w, h, int(gil::num_channels<typename Img::view_t>::value), {}, {}, {}, {}, {}, {}};
    s.bytes.assign(b.begin(), b.end());
    return s;
}
// GIL's jpeg writer ends every file with its whole 1024-byte buffer, i.e. with up to 1023 uninitialised bytes after the EOI marker
// (writer_backend<jpeg>::close_device -> empty_buffer writes buffer_size, not buffer_size - free_in_buffer).  No listed property is
// about that, but the seed must not differ from process to process: it is cut at the true end of the stream.
static size_t jpeg_true_length(std::vector<unsigned char> const& b)
{
    auto bad = [] { throw std::runtime_error("harness: GIL-written jpeg seed has no parsable marker structure"); return size_t(0); };
    if (b.size() < 4 || b[0] != 0xFF || b[1] != 0xD8) return bad();
    size_t i = 2;
    for (;;)                                        // marker segments up to and including the SOS header
    {
        if (i + 4 > b.size() || b[i] != 0xFF) return bad();
        unsigned m = b[i + 1]; size_t len = (size_t(b[i + 2]) << 8) | b[i + 3];
        i += 2 + len;
        if (m == 0xDA) break;
    }
    for (; i + 1 < b.size(); ++i)                   // entropy-coded data: FF is followed by 00 (stuffing) or RSTn until EOI
        if (b[i] == 0xFF && b[i + 1] != 0x00 && !(b[i + 1] >= 0xD0 && b[i + 1] <= 0xD7)) return b[i + 1] == 0xD9 ? i + 2 : bad();
    return bad();
}
static Opts lib_opts(vh::Ctx& ctx, int default_mask) { Opts o = opts_from(ctx); o.devmask = int(ctx.B("devmask", default_mask)); return o; }

VH_GROUP(png)
{
    vh::ubsan_counts() = true;
    Opts o = lib_opts(ctx, 6);
    using tag = gil::png_tag;
    gil::image_write_info<tag> info;
    if (ctx.take()) { Seed s = make_seed<tag, gil::gray8_image_t>("png_gray8_4x3", "png", 4, 3, info, 1); seed_units<tag, gil::gray8_image_t>(ctx, s, o, false); }
    if (ctx.take()) { Seed s = make_seed<tag, gil::rgb8_image_t>("png_rgb8_4x3", "png", 4, 3, info, 2); seed_units<tag, gil::rgb8_image_t>(ctx, s, o, false); }
    if (ctx.take()) { Seed s = make_seed<tag, gil::rgba8_image_t>("png_rgba8_3x2", "png", 3, 2, info, 3); seed_units<tag, gil::rgba8_image_t>(ctx, s, o, false); }
    if (ctx.take()) { Seed s = make_seed<tag, gil::gray16_image_t>("png_gray16_3x2", "png", 3, 2, info, 4); seed_units<tag, gil::gray16_image_t>(ctx, s, o, false); }
    if (ctx.take()) { Seed s = make_seed<tag, gil::gray1_image_t>("png_gray1_9x2", "png", 9, 2, info, 5); seed_units<tag, gil::gray1_image_t>(ctx, s, o, false); }
}
VH_GROUP(jpeg)
{
    vh::ubsan_counts() = true;
    Opts o = lib_opts(ctx, 6);
    using tag = gil::jpeg_tag;
    gil::image_write_info<tag> info(90);
    auto cut = [&](Seed& s) { size_t n = jpeg_true_length(s.bytes); ctx.counters["jpeg_seed_bytes_after_EOI_removed"] += long(s.bytes.size() - n); s.bytes.resize(n); };
    if (ctx.take()) { Seed s = make_seed<tag, gil::gray8_image_t>("jpeg_gray8_8x8", "jpg", 8, 8, info, 1); cut(s); seed_units<tag, gil::gray8_image_t>(ctx, s, o, false); }
    if (ctx.take()) { Seed s = make_seed<tag, gil::rgb8_image_t>("jpeg_rgb8_9x7", "jpg", 9, 7, info, 2); cut(s); seed_units<tag, gil::rgb8_image_t>(ctx, s, o, false); }
    if (ctx.take())
    {
        // four components: the Adobe APP14 transform byte decides between CMYK and YCCK, which the scanline reader sizes its row buffer from
        Seed s = make_seed<tag, gil::cmyk8_image_t>("jpeg_cmyk8_5x3", "jpg", 5, 3, info, 4); cut(s);
        ++ctx.witness["jpeg_four_component_seed"];
        seed_units<tag, gil::cmyk8_image_t>(ctx, s, o, false);
    }
    if (ctx.take())
    {
        // data after EOI stays in the alphabet, as fixed bytes (the start of another stream) rather than whatever the writer's buffer held
        Seed s = make_seed<tag, gil::gray8_image_t>("jpeg_gray8_8x8_tail", "jpg", 8, 8, info, 1); cut(s);
        for (unsigned char c : {0xFF, 0xD8, 0xFF, 0xE0, 0x00, 0x10, 0x4A, 0x46, 0x49, 0x46, 0x00, 0xFF}) s.bytes.push_back(c);
        ++ctx.witness["jpeg_seed_with_trailing_bytes"];
        seed_units<tag, gil::gray8_image_t>(ctx, s, o, false);
    }
}
VH_GROUP(tiff)
{
    vh::ubsan_counts() = true;
    TIFFSetErrorHandler(tiff_quiet); TIFFSetWarningHandler(tiff_quiet);
    Opts o = lib_opts(ctx, 6);
    using tag = gil::tiff_tag;
    gil::image_write_info<tag> strip; strip._compression = COMPRESSION_NONE;
    gil::image_write_info<tag> tiled; tiled._compression = COMPRESSION_NONE; tiled._is_tiled = true; tiled._tile_width = 16; tiled._tile_length = 16;
    gil::image_write_info<tag> lzw; lzw._compression = COMPRESSION_LZW;
    if (ctx.take()) { Seed s = make_seed<tag, gil::rgb8_image_t>("tiff_rgb8_strip_4x3", "tif", 4, 3, strip, 1); seed_units<tag, gil::rgb8_image_t, TiffDev>(ctx, s, o, false); }
    if (ctx.take()) { Seed s = make_seed<tag, gil::gray8_image_t>("tiff_gray8_tiled_17x3", "tif", 17, 3, tiled, 2); seed_units<tag, gil::gray8_image_t, TiffDev>(ctx, s, o, false); }
    if (ctx.take()) { Seed s = make_seed<tag, gil::gray16_image_t>("tiff_gray16_lzw_5x2", "tif", 5, 2, lzw, 3); seed_units<tag, gil::gray16_image_t, TiffDev>(ctx, s, o, false); }
    if (ctx.take()) { Seed s = make_seed<tag, gil::gray1_image_t>("tiff_gray1_strip_9x2", "tif", 9, 2, strip, 4); seed_units<tag, gil::gray1_image_t, TiffDev>(ctx, s, o, false); }
}
VH_MAIN
