// c18_common.hpp — shared bits of the C18 harnesses (toolbox colour spaces).
// Tolerances are derived from the property statement (DESIGN.md §3 C18), never read off the code:
//   hsv / hsl / xyz round trip  : 0   ("exactly")
//   lab  (float32 intermediate)  : 1   8-bit level
//   ycbcr 601 (studio range, 219 luma steps for 256 inputs, one truncation each way) : 3 levels
//   ycbcr 709 (full range)       : 2 levels
//   cmyka (no rgb->cmyka converter exists: forward leg = core rgb->cmyk + opaque alpha) : 1 level
//   range clause: hue, saturation, value/lightness in [0,1] with a 4-ulp(1.0) allowance
#pragma once
#include "vh.hpp"
#include <boost/gil.hpp>
#include <boost/gil/extension/toolbox/color_spaces/hsv.hpp>
#include <boost/gil/extension/toolbox/color_spaces/hsl.hpp>
#include <boost/gil/extension/toolbox/color_spaces/xyz.hpp>
#include <boost/gil/extension/toolbox/color_spaces/lab.hpp>
#include <boost/gil/extension/toolbox/color_spaces/ycbcr.hpp>
#include <boost/gil/extension/toolbox/color_spaces/cmyka.hpp>
#include <boost/gil/extension/toolbox/color_spaces/gray_alpha.hpp>
#include <cmath>
#include <cstring>

namespace c18 {
namespace gil = boost::gil;

static const float ULP4 = 4.0f * 1.1920928955078125e-7f;   // 4 ulp of 1.0f

inline bool in01(float v) { return v >= -ULP4 && v <= 1.0f + ULP4; }   // false for NaN
inline bool finite(float v) { return std::isfinite(v); }

inline std::string fstr(float v) { char b[48]; snprintf(b, sizeof b, "%.9g", double(v)); return b; }
inline std::string rgbid(const char* space, const char* layout, int r, int g, int b)
{
    return vh::S() << space << "/" << layout << "(" << r << "," << g << "," << b << ")";
}
// optimisation barrier: the value becomes unknown to the optimiser (the conversion must really run)
template <class T> inline void opaque(T& v) { asm volatile("" : "+r"(v)); }
inline uint32_t fbits(float f) { uint32_t u; std::memcpy(&u, &f, 4); return u; }
inline float nextup(float f) { return std::nextafter(f, 2.0f); }
inline float nextdn(float f) { return std::nextafter(f, -1.0f); }

} // namespace c18
