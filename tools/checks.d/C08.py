# registry fragment for C08 (exec'd by tools/checks.py with CHECKS, ASSUME_COMMON, NOT_APPLICABLE in scope)
_c08_deps = ['harness/c08_model.hpp', 'harness/c08_ops.hpp', 'harness/c08_ba.hpp']
CHECKS['C08'] = dict(
    level='exploration',
    technique='exhaustive finite-domain enumeration of the real packed_pixel / bit_aligned_pixel_reference / '
              'bit_aligned_pixel_iterator operations against a bit-string model of the underlying bytes written without GIL',
    rule='(a) packed_pixel over u8/u16/u32/u64 carriers x channel splits {5-6-5, 4-4-4-4, 1-2-3, 3-3-2, 1, 10-10-10-2, 16-16-16-16} '
         '(21 configurations): three adjacent pixels, 8/16-bit carriers with ALL 2^8/2^16 target contents, wider carriers with '
         'pattern backgrounds (0, ~0, 0xAA, 0x55, walking one/zero, 16 hashed fills); (b) bit_aligned_pixel_reference for single '
         'channels of 1..8 bits and {1-2-3, 2-2-2, 3-5, 5-6-5, 4-4-4, 12-12, 7-7-7-7, 16-16-16} at EVERY bit offset 0..7 inside a '
         '64-byte window: pixels <= 9 bits with all 2^16 contents of their two bytes (thorough, channel operations: pixels <= 17 bits with all 2^24 '
         'contents of their three bytes), pattern backgrounds otherwise. Per (configuration, offset, background): every channel x '
         'every value (all 2^w, w <= 16) for `=`; pre/post ++/--; += over 13 deltas; = from a mutable and a const proxy; '
         'swap(proxy,proxy), swap(proxy,value), swap(value,proxy); whole-pixel = from value (all 2^P pixel values for P <= 8, '
         '16 otherwise) / reference / const reference, pixel swaps. std::fill/copy/uninitialized_copy through '
         'bit_aligned_pixel_iterator over every [i,j) of a 10-pixel row x every placement x 8x8 source/destination bit offsets x 8 '
         '(thorough 20) backgrounds. Iterators (mutable and const) from 4 start bytes x 8 bit offsets: every n in [-W,W] reached 5 ways, back '
         '3 ways, every pair distance of the window, one write through it+n / it[n]. Case = one GIL operation on one '
         'background; distinct by construction (loop indices); non-trivial = the operation changed at least one bit '
         '(iterator laws: n != 0).',
    assumptions=ASSUME_COMMON + [
        'documented bit layout: channel k of a pixel occupies the bits after the preceding channels, least significant first; '
        'the bit-string model uses it only to decide WHICH bits an operation may change; whether the bits inside a written '
        'channel equal the documented representation is counted (stored_bits_differ_from_documented_layout), not demanded',
        'read-back is done through GIL (the statement: "reading it back yields the value written")',
        'bit-aligned carriers follow GIL\'s own rule (bit_aligned_image_type): smallest unsigned type with >= pixel bits + 7 bits',
        'same-type assignment of packed_pixel VALUES is the implicit C++ copy of the value object: it may replace the target\'s own '
        'unused bits (counted as value_copy_replaced_own_unused_bits, not a failure); channel-wise pixel assignment and every '
        'bit-aligned operation must leave unused/neighbouring bits alone',
        'only the operations the statement names are judged (=, swap, ++, --, +=, fill, copy); -=, *=, /= are not',
        'a shard unit stops after 64 failures',
    ],
    tus=[dict(name='c08_packed', src='harness/c08_packed.cpp', deps=_c08_deps[:2], san=False, opt=2),
         dict(name='c08_ba_chan', src='harness/c08_ba_chan.cpp', deps=_c08_deps, san=False, opt=2),
         dict(name='c08_ba_pixel', src='harness/c08_ba_pixel.cpp', deps=_c08_deps, san=False, opt=2)],
    runs=dict(
        quick=[dict(tu='c08_packed', group='packed', shards=6),
               dict(tu='c08_ba_chan', group='ba_chan', bounds=dict(dense=2), shards=12),
               dict(tu='c08_ba_pixel', group='ba_pixel', bounds=dict(dense=2), shards=12),
               dict(tu='c08_ba_pixel', group='ba_range', bounds=dict(nbg=8), shards=6),
               dict(tu='c08_ba_pixel', group='ba_iter', bounds=dict(W=40), shards=4)],
        thorough=[dict(tu='c08_packed', group='packed', shards=6),
                  dict(tu='c08_ba_chan', group='ba_chan', bounds=dict(dense=3), shards=96),
                  dict(tu='c08_ba_pixel', group='ba_pixel', bounds=dict(dense=2), shards=12),
                  dict(tu='c08_ba_pixel', group='ba_range', bounds=dict(nbg=20), shards=8),
                  dict(tu='c08_ba_pixel', group='ba_iter', bounds=dict(W=200), shards=8)]),
    witnesses_required=dict(
        quick=['packed_dense_units', 'packed_pattern_units', 'packed_channelwise_pixel_assign', 'arith_wraparound',
               'ba_dense2_units', 'ba_pattern_units', 'ba_range_units', 'iter_write_units', 'iter_bit_offset_changed',
               'iter_negative_moves'],
        thorough=['packed_dense_units', 'packed_pattern_units', 'packed_channelwise_pixel_assign', 'arith_wraparound',
                  'ba_dense2_units', 'ba_dense3_units', 'ba_pattern_units', 'ba_range_units', 'iter_write_units',
                  'iter_bit_offset_changed', 'iter_negative_moves']),
    deadline=dict(quick=600, thorough=5400),
)
