// c12_common.hpp -- C12 "write_view then read_image reproduces the view": the format-independent engine.
//
// Space per (format variant, pixel type): every (w,h) in {1..N}^2 x view organisation {image, subview, subsampled21,
// flipped_ud, planar (multi-channel byte types)} x destination {file name, FILE*, std::ostream} x content
// {tags, min, max, checker}.  Oracle (statement C12): read_image into the same pixel type gives identical
// dimensions and identical pixels (lossless formats); JPEG: identical dimensions and a bounded per-channel error.
//   sig write-throws / read-throws / dims-differ / pixels-differ / jpeg-error>bound / jpeg-constant-error>1
#pragma once
#include "io_common.hpp"
#include <boost/gil/io/read_image.hpp>
#include <boost/gil/io/write_view.hpp>

namespace c12 {

namespace gil = boost::gil;
namespace mp = boost::mp11;
using ioc::Flat; using ioc::Emit;

template <class T> struct TypeName { static const char* get() { return "?"; } };
#define C12_TN(T, N) template <> struct TypeName<gil::T> { static const char* get() { return N; } };
C12_TN(gray8_image_t, "gray8") C12_TN(gray16_image_t, "gray16") C12_TN(rgb8_image_t, "rgb8") C12_TN(bgr8_image_t, "bgr8")
C12_TN(rgba8_image_t, "rgba8") C12_TN(bgra8_image_t, "bgra8") C12_TN(rgb16_image_t, "rgb16") C12_TN(rgba16_image_t, "rgba16")
C12_TN(cmyk8_image_t, "cmyk8") C12_TN(cmyk16_image_t, "cmyk16") C12_TN(rgb32f_image_t, "rgb32f") C12_TN(gray32f_image_t, "gray32f")
C12_TN(gray1_image_t, "gray1") C12_TN(gray2_image_t, "gray2") C12_TN(gray4_image_t, "gray4")
C12_TN(gray32_image_t, "gray32") C12_TN(rgb32_image_t, "rgb32") C12_TN(rgba32f_image_t, "rgba32f")
#undef C12_TN

// candidate image types (DESIGN.md §4 C12); support is a property of the pixel type, planar is an organisation
using Candidates = mp::mp_list<gil::gray1_image_t, gil::gray2_image_t, gil::gray4_image_t, gil::gray8_image_t, gil::gray16_image_t,
                               gil::gray32f_image_t, gil::rgb8_image_t, gil::bgr8_image_t, gil::rgb16_image_t, gil::rgb32f_image_t,
                               gil::rgba8_image_t, gil::rgba16_image_t, gil::cmyk8_image_t, gil::cmyk16_image_t>;
template <class Tag> struct IsRW
{
    template <class Img> using fn = mp::mp_bool<
        gil::is_read_supported<typename gil::get_pixel_type<typename Img::view_t>::type, Tag>::value &&
        gil::is_write_supported<typename gil::get_pixel_type<typename Img::view_t>::type, Tag>::value>;
};
template <class Tag> using Supported = mp::mp_copy_if_q<Candidates, IsRW<Tag>>;

// records the (format x pixel type) matrix computed at compile time as counters of the evidence
template <class Tag> inline void record_matrix(vh::Ctx& ctx, const char* fmt)
{
    mp::mp_for_each<mp::mp_transform<mp::mp_identity, Candidates>>([&](auto Id) {
        using Img = typename decltype(Id)::type;
        using px = typename gil::get_pixel_type<typename Img::view_t>::type;
        bool r = gil::is_read_supported<px, Tag>::value, w = gil::is_write_supported<px, Tag>::value;
        ctx.counters[std::string("matrix:") + fmt + ":" + TypeName<Img>::get() + (r && w ? ":rw" : r ? ":read-only" : w ? ":write-only" : ":none")] = 1;
        ++ctx.evaluations;
    });
}

enum Dest { D_NAME = 0, D_FILE = 1, D_STREAM = 2 };
inline const char* dest_name(int d) { return d == D_NAME ? "name" : d == D_FILE ? "FILE" : "ostream"; }

// can a planar image of this pixel type exist? (homogeneous, byte-addressable, > 1 channel)
template <class Img> struct can_planar
    : std::integral_constant<bool, (gil::num_channels<typename Img::view_t>::value > 1) &&
                                   !gil::is_bit_aligned<typename Img::value_type>::value> {};

// destination "FILE*": GIL's file_stream_device owns and closes fp (TIFF overrides this with its TIFF* handle)
template <class Fmt, class V> inline void write_via_FILE(std::string const& path, V const& v, int var)
{
    FILE* fp = fopen(path.c_str(), "wb");
    if (!fp) throw std::runtime_error("harness: cannot create file");
    gil::write_view(fp, v, Fmt::info(var));
}

struct Result { std::string write_err, read_err; Flat got; };

// writes view `v` with format Fmt (variant `var`) to destination d, reads it back into Img; every step guarded
template <class Fmt, class Img, class V>
inline Result round_trip(V const& v, int d, int var)
{
    using tag = typename Fmt::tag;
    Result r;
    // what the image held before read_image must not matter ("yields an image with identical dimensions"): default-constructed for the
    // stream destination, a LARGER previous picture for the file-name destination, a smaller one for the handle destination
    Img back;
    if (d == D_NAME) back = Img(v.width() + 2, v.height() + 1);
    else if (d != D_STREAM) back = Img(1, 1);
    auto guarded = [](auto f) -> std::string {
        try { f(); return ""; }
        catch (std::ios_base::failure const& e) { return std::string("ios_base::failure: ") + e.what(); }
        catch (std::bad_alloc const&) { return "bad_alloc"; }
        catch (std::exception const& e) { return std::string("exception: ") + e.what(); }
        catch (...) { return "unknown exception"; }
    };
    if (d == D_STREAM)
    {
        std::stringstream ss(std::ios::in | std::ios::out | std::ios::binary);
        r.write_err = guarded([&] { std::ostream& os = ss; gil::write_view(os, v, Fmt::info(var)); });
        if (!r.write_err.empty()) return r;
        ss.seekg(0);
        r.read_err = guarded([&] { std::istream& is = ss; gil::read_image(is, back, tag()); });
    }
    else
    {
        ioc::ScratchFile f(std::string("c12-") + Fmt::name(), Fmt::ext());
        if (d == D_NAME) r.write_err = guarded([&] { gil::write_view(f.path, v, Fmt::info(var)); });
        else r.write_err = guarded([&] { Fmt::write_handle(f.path, v, var); });
        if (!r.write_err.empty()) return r;
        r.read_err = guarded([&] { gil::read_image(f.path, back, tag()); });
    }
    if (r.read_err.empty()) r.got = ioc::flat(gil::const_view(back));
    return r;
}

// every organisation of one (w,h,content); f(org_name, view).  Which organisations exist for (format, type) is a
// compile-time mask Fmt::Orgs<Img>::value (1 image, 2 subview, 4 subsampled21, 8 flipped_ud, 16 planar) because
// some writers do not compile for some view types (recorded per format in design_notes/C12.md).
template <int Bit, bool On> struct Org { template <class Img, class F> static void run(long, long, int, F) {} };
template <> struct Org<1, true> { template <class Img, class F> static void run(long w, long h, int content, F f)
    { Img img(w, h); ioc::fill_content(gil::view(img), content, 1); f("image", gil::view(img)); } };
template <> struct Org<2, true> { template <class Img, class F> static void run(long w, long h, int content, F f)
    { Img big(w + 2, h + 2); ioc::fill_content(gil::view(big), content, 2); f("subview", gil::subimage_view(gil::view(big), 1, 1, int(w), int(h))); } };
template <> struct Org<4, true> { template <class Img, class F> static void run(long w, long h, int content, F f)
    { Img wide(2 * w, h); ioc::fill_content(gil::view(wide), content, 3); f("subsampled21", gil::subsampled_view(gil::view(wide), 2, 1)); } };
template <> struct Org<8, true> { template <class Img, class F> static void run(long w, long h, int content, F f)
    { Img img(w, h); ioc::fill_content(gil::view(img), content, 4); f("flipped_ud", gil::flipped_up_down_view(gil::view(img))); } };
template <> struct Org<16, true> { template <class Img, class F> static void run(long w, long h, int content, F f)
    { gil::image<typename Img::value_type, true> img(w, h); ioc::fill_content(gil::view(img), content, 5); f("planar", gil::view(img)); } };

template <class Fmt, class Img, class F>
inline void for_each_org(long w, long h, int content, int runmask, F f)
{
    constexpr int M = Fmt::template Orgs<Img>::value;
    if (runmask & 1) Org<1, (M & 1) != 0>::template run<Img>(w, h, content, f);
    if (runmask & 2) Org<2, (M & 2) != 0>::template run<Img>(w, h, content, f);
    if (runmask & 4) Org<4, (M & 4) != 0>::template run<Img>(w, h, content, f);
    if (runmask & 8) Org<8, (M & 8) != 0>::template run<Img>(w, h, content, f);
    if (runmask & 16) Org<16, ((M & 16) != 0) && can_planar<Img>::value>::template run<Img>(w, h, content, f);
}

struct Bounds { long N = 9; int orgmask = 31; int destmask = 7; int contentmask = 15; };

// One unit = (format variant, pixel type, width): all heights x organisations x destinations x contents.
template <class Fmt, class Img>
inline void run_type(vh::Ctx& ctx, int var, Bounds const& b)
{
    std::string const tn = TypeName<Img>::get();
    std::string const base = std::string(Fmt::name()) + "/" + Fmt::variant_name(var) + "/" + tn;
    ++ctx.witness[std::string("types_") + Fmt::name()];
    for (long w = 1; w <= b.N; ++w)
    {
        if (!ctx.take()) continue;
        ctx.cur = std::string(vh::S() << base << "/w=" << w);
        ioc::run_unit(ctx, ctx.cur, [&](Emit& e) {
            for (long h = 1; h <= b.N; ++h)
                for (int content = 0; content < 4; ++content)
                {
                    if (!(b.contentmask & (1 << content))) continue;
                    auto one = [&](const char* org, auto const& v) {
                        Flat want = ioc::flat(v);
                        for (int d = 0; d < 3; ++d)
                        {
                            if (!(b.destmask & (1 << d)) || !Fmt::dest_supported(d)) continue;
                            std::string id = std::string(vh::S() << base << "/" << w << "x" << h << "/" << org << "/" << dest_name(d) << "/" << ioc::content_name(content));
                            if (!e.begin(id)) continue;
                            Result r = round_trip<Fmt, Img>(v, d, var);
                            if (!r.write_err.empty()) e.fail("write-throws", r.write_err);
                            else if (!r.read_err.empty()) e.fail("read-throws", r.read_err);
                            else Fmt::template judge<Img>(e, want, r.got, content);
                            e.count(std::string("w:org_") + org); e.count(std::string("w:dest_") + dest_name(d));
                            e.count(std::string("w:content_") + ioc::content_name(content));
                            if (w % 4) e.count("w:width_not_multiple_of_4"); if (w % 8) e.count("w:width_not_multiple_of_8");
                            if (w > 16 || h > 16) e.count("w:beyond_tile_edge");
                            bool trivial = content != ioc::C_TAGS && std::string(org) != "image";
                            e.end(!trivial);
                        }
                    };
                    for_each_org<Fmt, Img>(w, h, content, b.orgmask, one);
                }
        });
        if (ctx.timed_out()) return;
    }
}

// lossless judge: identical dimensions and pixels
inline void judge_exact(Emit& e, Flat const& want, Flat const& got)
{
    if (want.w != got.w || want.h != got.h) { e.fail("dims-differ", std::string(vh::S() << "wrote " << want.w << "x" << want.h << " read " << got.w << "x" << got.h)); return; }
    std::string d = ioc::diff(want, got);
    if (!d.empty()) e.fail("pixels-differ", d);
}

inline Bounds bounds_from(vh::Ctx& ctx)
{
    Bounds b;
    b.N = ctx.B("N", 9); b.orgmask = int(ctx.B("orgs", 31)); b.destmask = int(ctx.B("dests", 7)); b.contentmask = int(ctx.B("contents", 15));
    return b;
}

} // namespace c12
