// C04 — TU 4: rgb8, transposed source (x step = the row stride of the underlying canvas) into every
// destination family; destination-only algorithms and equal_pixels for the transposed family.
#include "c04_common.hpp"
using namespace c04;

using I8  = FamI<gil::rgb8_pixel_t>;
using P8  = FamP<uint8_t>;
using X8  = FamX<I8>;
using T8  = FamT<I8>;
using TP8 = FamT<P8>;

#define C04_BOUNDS vh::ubsan_counts() = false; int N = int(ctx.B("N", 4)), X0 = int(ctx.B("X0", 3));

VH_GROUP(pairs_t)
{
    C04_BOUNDS
    PairRunner<T8, I8, TP8>::run(ctx, N, X0);
    PairRunner<T8, P8, T8>::run(ctx, N, X0);
    PairRunner<T8, X8, P8>::run(ctx, N, X0);
    PairRunner<T8, T8, X8>::run(ctx, N, X0);
    PairRunner<TP8, P8, I8, false>::run(ctx, N, X0);
    PairRunner<I8, TP8, I8, false>::run(ctx, N, X0);
}
VH_GROUP(dst_t)
{
    C04_BOUNDS
    run_dst<T8>(ctx, N, X0);
    run_dst<TP8>(ctx, N, X0);
}
VH_GROUP(equal_t)
{
    C04_BOUNDS
    EqualRunner<T8, I8>::run(ctx, N, X0);
    EqualRunner<T8, P8>::run(ctx, N, X0);
    EqualRunner<T8, X8>::run(ctx, N, X0);
    EqualRunner<T8, T8>::run(ctx, N, X0);
    EqualRunner<TP8, TP8>::run(ctx, N, X0);
}
VH_MAIN
