// C13 for JPEG: GIL-written seeds (quality 100) of every supported pixel type and the repo's sample JPEGs.
// All comparisons are between different ways of *reading the same file*, so they are exact (the decoder is
// deterministic); nothing here depends on the lossy write.
#include "c13_lib.hpp"
#include <fstream>
#include <cstring>
#include <boost/gil/extension/io/jpeg.hpp>

namespace gil = boost::gil;
namespace mp = boost::mp11;
using c13::SeedView; using c13::Opts; using ioc::Flat; using ioc::Emit;

struct JpegFmt : c13::LibFmtBase<gil::jpeg_tag>
{
    static const char* name() { return "jpeg"; }
    using conv_list = mp::mp_list<gil::gray8_image_t, gil::rgb8_image_t, gil::rgba8_image_t, gil::rgb16_image_t>;
    using any_t = gil::any_image<gil::gray8_image_t, gil::rgb8_image_t, gil::cmyk8_image_t>;
    template <class Img, class Info> static std::string depth_check(Info const& info, SeedView const& sv)
    {
        int ch = int(gil::num_channels<typename Img::view_t>::value);
        if (int(info._num_components) != ch) return std::string(vh::S() << "info._num_components=" << int(info._num_components) << " image has " << ch << " channels");
        if (int(info._data_precision) != 8) return std::string(vh::S() << "info._data_precision=" << int(info._data_precision) << " image has 8-bit channels");
        return "";
    }
    template <class Img> static void view_exact(Emit& e, ioc::Source const& src, int d, Flat const& full)
    { c13::view_exact_interleaved<JpegFmt, Img>(e, src, d, full); }
};

using Types = mp::mp_remove<c12::Supported<gil::jpeg_tag>, gil::bgr8_image_t>;

template <class Img> static void run_typed(vh::Ctx& ctx, SeedView const& sv, Opts const& o)
{
    ioc::run_unit(ctx, sv.name, [&](Emit& e) { c13::check_seed<JpegFmt, Img>(e, sv, o); });
}

VH_GROUP(seeds)
{
    vh::ubsan_counts() = false;
    long allrect = ctx.B("allrect", 0);
    Opts o; o.devmask = int(ctx.B("devmask", 7));
    static const long SZ[4][2] = {{5, 4}, {4, 3}, {9, 2}, {17, 9}};      // 17x9 crosses the 8x8 / 16x16 MCU edges
    mp::mp_for_each<mp::mp_transform<mp::mp_identity, Types>>([&](auto Id) {
        using Img = typename decltype(Id)::type;
        for (auto const& sz : SZ)
        {
            if (!ctx.take()) continue;
            std::string nm = std::string(vh::S() << "jpeg_" << c12::TypeName<Img>::get() << "_" << sz[0] << "x" << sz[1]);
            ctx.cur = nm;
            std::vector<unsigned char> bytes = c13::gil_written<Img, gil::jpeg_tag>(sz[0], sz[1], gil::image_write_info<gil::jpeg_tag>(100));
            ioc::ScratchFile file("c13-" + nm, "jpg", bytes);
            SeedView sv; sv.name = nm; sv.bytes = &bytes; sv.path = file.path;
            sv.subrects = (allrect && sz[0] * sz[1] <= 20) || (sz[0] <= 5 && sz[1] <= 4);
            ++ctx.witness["jpeg_gil_written_seeds"];
            run_typed<Img>(ctx, sv, o);
            // a rarely used option value: with a non-default dct_method in the read settings the scanline reader's rows still equal read_image
            // with the same settings (libjpeg chooses the IDCT routine when decompression starts, so the setting must be in place by then)
            for (int dm = 0; dm < 2; ++dm)
            {
                const gil::jpeg_dct_method::type dct = dm == 0 ? gil::jpeg_dct_method::fast : gil::jpeg_dct_method::floating_pt;
                const std::string id = nm + (dm == 0 ? "/dct=fast" : "/dct=float");
                try
                {
                    gil::image_read_settings<gil::jpeg_tag> st; st._dct_method = dct;
                    Img full; gil::read_image(file.path, full, st);
                    using device_t = typename gil::get_read_device<std::istream, gil::jpeg_tag>::type;
                    std::ifstream in(file.path.c_str(), std::ios::binary); std::istream& is = in;
                    device_t dev(is);
                    gil::scanline_reader<device_t, gil::jpeg_tag> reader(dev, st);
                    const size_t rowb = size_t(full.width()) * gil::num_channels<Img>::value;
                    long row = 0, bad = -1;
                    for (auto it = reader.begin(); it != reader.end() && row < full.height(); ++it, ++row)
                    {
                        gil::byte_t* p = *it;
                        if (size_t(reader._scanline_length) < rowb || std::memcmp(p, gil::interleaved_view_get_raw_data(gil::const_view(full)) + size_t(row) * size_t(gil::const_view(full).pixels().row_size()), rowb) != 0) { if (bad < 0) bad = row; }
                    }
                    ++ctx.evaluations; ++ctx.nontrivial; ++ctx.witness["jpeg_scanline_with_dct_setting"];
                    if (bad >= 0) ctx.fail(id, "scanline!=full", std::string(vh::S() << "row " << bad << " of the scanline reader differs from read_image with the same settings"));
                    if (row != full.height()) ctx.fail(id, "scanline!=full", std::string(vh::S() << row << " rows instead of " << full.height()));
                }
                catch (std::exception const& ex) { ctx.fail(id, "scanline-throws", ex.what()); }
            }
            if (ctx.timed_out()) return;
        }
    });
}

VH_GROUP(samples)
{
    vh::ubsan_counts() = false;
    Opts o; o.devmask = int(ctx.B("devmask", 7));
    std::vector<std::string> files;
    for (auto const& d : {std::string("/repo/test/extension/io/images/jpeg"), std::string("/repo/test/extension/io/images/jpeg/EddDawson")})
        for (auto const& n : c13::list_files(d, {".jpg"})) files.push_back(d + "/" + n);
    for (auto const& path : files)
    {
        if (!ctx.take()) continue;
        ctx.cur = path;
        std::vector<unsigned char> bytes = c13::slurp(path);
        if (bytes.size() < 100) continue;
        SeedView sv; sv.name = "sample:" + path.substr(path.rfind('/') + 1); sv.bytes = &bytes; sv.path = path;
        sv.subrects = false; sv.big = true;
        int comps = 0;
        try { auto b = gil::read_image_info(path, gil::jpeg_tag()); comps = b._info._num_components; } catch (...) {}
        ++ctx.witness["sample_files"];
        if (comps == 1) run_typed<gil::gray8_image_t>(ctx, sv, o);
        else if (comps == 3) run_typed<gil::rgb8_image_t>(ctx, sv, o);
        else if (comps == 4) run_typed<gil::cmyk8_image_t>(ctx, sv, o);
        if (ctx.timed_out()) return;
    }
}

VH_MAIN
