// io_common.hpp -- shared helpers of the I/O harnesses (C12 write/read round trip, C13 reading agreement).
//
//  * ioc::run_unit      runs a sequence of cases in a forked child that streams one record per case through a
//                       pipe; a crash / hang / heap corruption inside GIL is attributed to the case in flight
//                       (failure "fatal:<signal>" / "timeout") and the unit is resumed after that case, so every
//                       other case of the enumeration is still executed (nothing is silently dropped).
//  * ioc::Flat / flatten / diff   pixel -> numbers by colour semantics (layout independent), view comparison
//  * devices            the three ways bytes reach GIL: file name under /verif/build/io, FILE* (fmemopen for
//                       reading, fopen under /verif/build/io for writing), std::istream / std::ostream
//  * tag generators     deterministic image contents (unique tags, all-min, all-max, checker)
#pragma once
#include "vh.hpp"
#include "guard.hpp"

#include <boost/gil.hpp>
#include <boost/mp11.hpp>

#include <cstdio>
#include <cerrno>
#include <fstream>
#include <sstream>
#include <string>
#include <vector>
#include <sys/stat.h>
#include <sys/types.h>
#include <unistd.h>
#include <fcntl.h>
#include <dirent.h>

namespace ioc {

namespace gil = boost::gil;
namespace mp = boost::mp11;

// ------------------------------------------------------------------------------------------------ scratch dir
inline std::string const& io_dir()
{
    static std::string d = [] {
        const char* e = getenv("VERIF_IO_DIR");
        std::string p = e ? e : "/verif/build/io";
        mkdir("/verif/build", 0777);
        mkdir(p.c_str(), 0777);
        return p;
    }();
    return d;
}
// a file name unique to this process (shards run in parallel) -- removed by the caller / ScratchFile
inline std::string scratch_name(std::string const& stem, std::string const& ext)
{
    static long n = 0;
    return io_dir() + "/" + stem + "-" + std::to_string(long(getpid())) + "-" + std::to_string(++n) + "." + ext;
}
struct ScratchFile
{
    std::string path;
    ScratchFile(std::string const& stem, std::string const& ext) : path(scratch_name(stem, ext)) {}
    ScratchFile(std::string const& stem, std::string const& ext, std::vector<unsigned char> const& bytes)
        : path(scratch_name(stem, ext))
    {
        FILE* f = fopen(path.c_str(), "wb");
        if (f) { if (!bytes.empty()) fwrite(bytes.data(), 1, bytes.size(), f); fclose(f); }
    }
    ~ScratchFile() { unlink(path.c_str()); }
    ScratchFile(ScratchFile const&) = delete;
    ScratchFile& operator=(ScratchFile const&) = delete;
    std::vector<unsigned char> slurp() const
    {
        std::vector<unsigned char> b;
        FILE* f = fopen(path.c_str(), "rb");
        if (!f) return b;
        unsigned char buf[4096]; size_t r;
        while ((r = fread(buf, 1, sizeof buf, f)) > 0) b.insert(b.end(), buf, buf + r);
        fclose(f);
        return b;
    }
};

// removes the scratch files a (crashed) worker left behind: their names contain "-<pid>-"
inline void remove_scratch_of(pid_t pid)
{
    std::string tag = "-" + std::to_string(long(pid)) + "-";
    std::vector<std::string> victims;
    if (DIR* d = opendir(io_dir().c_str()))
    {
        while (dirent* de = readdir(d)) { std::string n = de->d_name; if (n.find(tag) != std::string::npos) victims.push_back(n); }
        closedir(d);
    }
    for (auto const& n : victims) unlink((io_dir() + "/" + n).c_str());
}

// ------------------------------------------------------------------------------------------------ unit runner
// Child side: one record per case.
struct Emit
{
    int fd = -1;
    long idx = 0, skip = 0;
    long confirm_idx = -1;      // case that hit its watchdog in the previous incarnation: re-run with a 15x limit before it is called a hang
    std::string cur;
    std::map<std::string, long> cnt;
    bool active = false;

    void line(std::string const& s)
    {
        size_t off = 0;
        while (off < s.size()) { ssize_t w = ::write(fd, s.data() + off, s.size() - off); if (w <= 0) _exit(71); off += size_t(w); }
    }
    static std::string esc(std::string const& s)
    {
        std::string o;
        for (char c : s) o += (c == '\t' || c == '\n' || c == '\r') ? ' ' : c;
        return o;
    }
    // returns false when the case was already executed by an earlier incarnation of this unit
    bool begin(std::string const& id)
    {
        long my = idx++;
        if (my < skip) return false;
        cur = id; active = true;
        line("B\t" + std::to_string(my) + "\t" + esc(id) + "\n");
        return true;
    }
    // per-case watchdog limit (seconds) of the case begun last; a wall-clock expiry can be load, so it is confirmed once with a longer limit
    int case_limit(int base) const { return (idx - 1 == confirm_idx) ? base * 15 : base; }
    void fail(std::string const& sig, std::string const& detail = "") { fail_id(cur, sig, detail); }
    void fail_id(std::string const& id, std::string const& sig, std::string const& detail = "")
    {
        line("F\t" + esc(id) + "\t" + esc(sig) + "\t" + esc(detail) + "\n");
    }
    void count(std::string const& name, long n = 1) { cnt[name] += n; }       // witness / counter
    void sample(std::string const& s) { line("S\t" + esc(s) + "\n"); }
    // ends the case: sanitizer reports since begin() become failures of this case
    void end(bool nontrivial = true)
    {
        auto& p = vh::san().pending;
        if (!p.empty())
        {
            std::set<std::string> uniq(p.begin(), p.end());
            for (auto const& s : uniq) fail(s, "sanitizer report inside this case");
            p.clear();
        }
        std::string c;
        for (auto const& kv : cnt) c += "C\t" + esc(kv.first) + "\t" + std::to_string(kv.second) + "\n";
        cnt.clear();
        line(c + (nontrivial ? "E\t1\n" : "E\t0\n"));
        active = false;
    }
};

// Parent side. body(Emit&) must enumerate its cases in a deterministic order, each bracketed by begin()/end().
template <class Body>
inline void run_unit(vh::Ctx& ctx, std::string const& unit, Body body, double limit_s = 120.0)
{
    long skip = 0, confirm_idx = -1; int confirmed_hangs = 0;
    for (int incarnation = 0; incarnation < 4000; ++incarnation)
    {
        int fd[2];
        if (pipe(fd) != 0) { ctx.fail(unit, "harness:pipe-failed"); return; }
        fflush(stdout); fflush(stderr);
        pid_t pid = fork();
        if (pid < 0) { ctx.fail(unit, "harness:fork-failed"); close(fd[0]); close(fd[1]); return; }
        if (pid == 0)
        {
            close(fd[0]);
            for (int s : {SIGSEGV, SIGFPE, SIGBUS, SIGILL, SIGABRT}) signal(s, SIG_DFL);
            signal(SIGALRM, SIG_DFL);
            itimerval it{}; long us = long(limit_s * 1e6);
            it.it_value.tv_sec = us / 1000000; it.it_value.tv_usec = us % 1000000;
            setitimer(ITIMER_REAL, &it, nullptr);
            vh::san().pending.clear();
            Emit e; e.fd = fd[1]; e.skip = skip; e.confirm_idx = confirm_idx;
            int rc = 0;
            try { body(e); }
            catch (std::exception const& ex) { e.fail_id(e.active ? e.cur : unit, "harness:uncaught-exception", ex.what()); rc = 0; }
            catch (...) { e.fail_id(e.active ? e.cur : unit, "harness:uncaught-exception", "?"); }
            if (e.active) e.end();
            e.line("Z\n");
            close(fd[1]);
            _exit(rc);
        }
        close(fd[1]);
        std::string buf; char b[8192]; ssize_t r;
        std::string cur; long curidx = -1; bool done = false; bool in_case = false;
        auto process = [&](std::string const& ln) {
            if (ln.empty()) return;
            std::vector<std::string> f; size_t p = 0;
            while (true) { size_t q = ln.find('\t', p); if (q == std::string::npos) { f.push_back(ln.substr(p)); break; } f.push_back(ln.substr(p, q - p)); p = q + 1; }
            if (f[0] == "B" && f.size() >= 3) { curidx = atol(f[1].c_str()); cur = f[2]; in_case = true; ctx.cur = unit + " :: " + cur; }
            else if (f[0] == "E")
            {
                ++ctx.evaluations; if (f.size() > 1 && f[1] == "1") ++ctx.nontrivial; in_case = false;
                if (curidx == confirm_idx) ++ctx.counters["watchdog_expiry_not_confirmed_with_15x_limit"];
            }
            else if (f[0] == "F" && f.size() >= 3) ctx.fail(f[1], f[2], f.size() > 3 ? f[3] : "");
            else if (f[0] == "C" && f.size() >= 3)
            {
                long n = atol(f[2].c_str());
                if (f[1].compare(0, 2, "w:") == 0) ctx.witness[f[1].substr(2)] += n; else ctx.counters[f[1]] += n;
            }
            else if (f[0] == "S" && f.size() >= 2) ctx.sample(f[1]);
            else if (f[0] == "Z") done = true;
        };
        while ((r = read(fd[0], b, sizeof b)) > 0)
        {
            buf.append(b, size_t(r));
            size_t p;
            while ((p = buf.find('\n')) != std::string::npos) { process(buf.substr(0, p)); buf.erase(0, p + 1); }
        }
        close(fd[0]);
        int st = 0; waitpid(pid, &st, 0);
        if (done && WIFEXITED(st) && WEXITSTATUS(st) == 0) return;
        remove_scratch_of(pid);      // a worker that died could not run its ScratchFile destructors
        // the child died: attribute to the case in flight and resume after it
        std::string status;
        if (WIFSIGNALED(st))
        {
            int s = WTERMSIG(st);
            status = s == SIGALRM ? "timeout" : std::string("fatal:") + (s == SIGSEGV ? "SIGSEGV" : s == SIGFPE ? "SIGFPE" : s == SIGABRT ? "SIGABRT"
                     : s == SIGBUS ? "SIGBUS" : s == SIGILL ? "SIGILL" : s == SIGKILL ? "SIGKILL" : std::to_string(s));
        }
        else status = "fatal:exit" + std::to_string(WEXITSTATUS(st));
        if (!in_case || curidx < 0)
        {
            // died outside any case (set-up code): cannot resume
            ctx.fail(unit, status, "child died outside a case");
            ctx.exhaustive = false;
            return;
        }
        if (status == "timeout" && confirm_idx != curidx && confirmed_hangs < 3)
        {
            // the wall-clock watchdog fired once: run this case again, first in a fresh worker, with a 15x limit; only a second expiry is a hang
            ++ctx.counters["watchdog_expiries_rechecked"];
            confirm_idx = curidx; skip = curidx;
            continue;
        }
        if (status == "timeout" && confirm_idx == curidx) ++confirmed_hangs;
        ctx.fail(cur, status, status != "timeout" ? "process died inside this case; unit resumed after it"
                              : confirm_idx == curidx ? "watchdog fired twice (second time with a 15x limit, case first in a fresh worker); unit resumed after it"
                              : "watchdog fired; not re-run with a longer limit because three hangs of this unit were already confirmed that way");
        ++ctx.evaluations; ++ctx.nontrivial;
        ++ctx.counters["unit_restarts"];
        skip = curidx + 1;
        if (ctx.timed_out()) return;
    }
    ctx.fail(unit, "harness:too-many-restarts");
    ctx.exhaustive = false;
}

// ------------------------------------------------------------------------------------------------ pixels -> numbers
template <class C> inline double ch_num(C const& c)
{
    using V = typename gil::channel_traits<C>::value_type;
    V v = c;
    using B = typename std::conditional<std::is_floating_point<V>::value || std::is_integral<V>::value, V, double>::type;
    return double(static_cast<B>(v));
}
// float32_t & co are scoped_channel_value<float,...>: convertible to their base
template <class B, class Mn, class Mx> inline double ch_num(gil::scoped_channel_value<B, Mn, Mx> const& c) { return double(B(c)); }
template <int N> inline double ch_num(gil::packed_channel_value<N> const& c) { return double(typename gil::packed_channel_value<N>::integer_t(c)); }

template <class P> inline void flat_px(P const& p, std::vector<double>& out)
{
    constexpr int n = gil::num_channels<P>::value;
    mp::mp_for_each<mp::mp_iota_c<n>>([&](auto K) {
        auto const& c = gil::semantic_at_c<decltype(K)::value>(p);
        out.push_back(ch_num(c));
    });
}
// whole view, top-down row-major, channels in colour-space order
template <class V> inline std::vector<double> flatten(V const& v)
{
    std::vector<double> out;
    out.reserve(size_t(v.width()) * size_t(v.height()) * gil::num_channels<V>::value);
    for (std::ptrdiff_t y = 0; y < v.height(); ++y)
        for (std::ptrdiff_t x = 0; x < v.width(); ++x)
        {
            typename V::value_type p(v(x, y));
            flat_px(p, out);
        }
    return out;
}
struct Flat { long w = 0, h = 0; int ch = 0; std::vector<double> v; };
template <class V> inline Flat flat(V const& v) { return Flat{long(v.width()), long(v.height()), int(gil::num_channels<V>::value), flatten(v)}; }
inline Flat crop(Flat const& f, long x0, long y0, long dx, long dy)
{
    Flat c{dx, dy, f.ch, {}};
    for (long y = 0; y < dy; ++y)
        for (long x = 0; x < dx; ++x)
            for (int k = 0; k < f.ch; ++k) c.v.push_back(f.v[size_t(((y0 + y) * f.w + (x0 + x)) * f.ch + k)]);
    return c;
}
// "" when equal; else a short description of the first difference
// Pixels the file under test leaves undefined (e.g. skipped by a BMP RLE delta escape): whole-image comparisons ignore them.
struct UndefMask { long w = 0, h = 0; std::vector<char> px; };
inline UndefMask& undef_mask() { static UndefMask m; return m; }
inline std::string diff(Flat const& a, Flat const& b, double tol = 0)
{
    UndefMask const& um = undef_mask();
    bool const masked = !um.px.empty() && um.w == a.w && um.h == a.h;
    if (a.w != b.w || a.h != b.h) return std::string(vh::S() << "dims " << a.w << "x" << a.h << " vs " << b.w << "x" << b.h);
    if (a.ch != b.ch) return std::string(vh::S() << "channels " << a.ch << " vs " << b.ch);
    long nd = 0; std::string first;
    for (size_t i = 0; i < a.v.size(); ++i)
    {
        double d = a.v[i] - b.v[i]; if (d < 0) d = -d;
        if (masked && um.px[size_t(long(i) / a.ch)]) continue;
        if (d > tol || d != d)
        {
            if (!nd)
            {
                long px = long(i) / a.ch;
                first = std::string(vh::S() << "first at (" << px % a.w << "," << px / a.w << ") ch" << long(i) % a.ch << ": " << a.v[i] << " vs " << b.v[i]);
            }
            ++nd;
        }
    }
    if (!nd) return "";
    return std::string(vh::S() << nd << "/" << a.v.size() << " samples differ, " << first);
}
inline double max_abs_diff(Flat const& a, Flat const& b)
{
    double m = 0;
    for (size_t i = 0; i < a.v.size() && i < b.v.size(); ++i) { double d = a.v[i] - b.v[i]; if (d < 0) d = -d; if (d > m) m = d; }
    return m;
}

// ------------------------------------------------------------------------------------------------ read devices
enum Dev { DEV_NAME = 0, DEV_FILE = 1, DEV_STREAM = 2 };
inline const char* dev_name(int d) { return d == DEV_NAME ? "name" : d == DEV_FILE ? "FILE" : "istream"; }

// Presents `bytes` to f through device kind d.  f is a generic callable taking (std::string const&) | (FILE*&) |
// (std::istream&).  GIL takes ownership of the FILE* (file_stream_device closes it).
struct Source
{
    std::vector<unsigned char> const* bytes;
    std::string path;       // file with the same bytes (for DEV_NAME, and DEV_FILE when fmem=false)
    bool fmem = true;       // FILE* via fmemopen; false: fopen(path)
};
template <class F> inline void with_dev(int d, Source const& s, F f)
{
    if (d == DEV_NAME) { std::string p = s.path; f(p); }
    else if (d == DEV_FILE)
    {
        FILE* fp = s.fmem ? fmemopen(const_cast<unsigned char*>(s.bytes->data()), s.bytes->size(), "rb") : fopen(s.path.c_str(), "rb");
        if (!fp) throw std::runtime_error("harness: cannot open FILE*");
        f(fp);
    }
    else
    {
        std::istringstream in(std::string(s.bytes->begin(), s.bytes->end()), std::ios::in | std::ios::binary);
        std::istream& is = in;
        f(is);
    }
}

// ------------------------------------------------------------------------------------------------ contents
enum Content { C_TAGS = 0, C_MIN = 1, C_MAX = 2, C_CHECKER = 3 };
inline const char* content_name(int c) { return c == C_TAGS ? "tags" : c == C_MIN ? "min" : c == C_MAX ? "max" : "checker"; }

template <class CV> struct is_float_like : std::is_floating_point<CV> {};
template <class B, class Mn, class Mx> struct is_float_like<gil::scoped_channel_value<B, Mn, Mx>> : std::is_floating_point<B> {};

// number -> channel value
template <class CV> struct MakeVal { static CV of(double v) { return static_cast<CV>(v); } };
template <class B, class Mn, class Mx> struct MakeVal<gil::scoped_channel_value<B, Mn, Mx>>
{ static gil::scoped_channel_value<B, Mn, Mx> of(double v) { return gil::scoped_channel_value<B, Mn, Mx>(static_cast<B>(v)); } };
template <int N> struct MakeVal<gil::packed_channel_value<N>>
{ static gil::packed_channel_value<N> of(double v) { return gil::packed_channel_value<N>(static_cast<typename gil::packed_channel_value<N>::integer_t>(v)); } };

inline unsigned long tag_hash(unsigned long x, unsigned long y, unsigned long k, unsigned long salt)
{
    unsigned long h = x * 2654435761ul + y * 40503ul + k * 977ul + salt * 7919ul + 12345ul;
    h ^= h >> 13; h *= 0x9E3779B1ul; h ^= h >> 16;
    return h & 0xFFFFFFul;
}

// Fills any mutable view.  C_TAGS: value = lo + tag(x,y,k) mod (#levels); for channels with >= 256 levels the tag is
// the affine x*7+y*37+k*101+13 (pixels pairwise distinct for all shapes up to 18x18 except where #levels forbids it),
// for narrower channels a fixed integer hash (no period aligned with byte boundaries).  Float channels: k/1024 steps.
template <class V> inline void fill_content(V const& v, int content, unsigned long salt = 0)
{
    using P = typename V::value_type;
    constexpr int n = gil::num_channels<P>::value;
    for (std::ptrdiff_t y = 0; y < v.height(); ++y)
        for (std::ptrdiff_t x = 0; x < v.width(); ++x)
        {
            P p;
            mp::mp_for_each<mp::mp_iota_c<n>>([&](auto K) {
                constexpr int k = decltype(K)::value;
                using C = typename gil::kth_semantic_element_type<P, k>::type;
                using CV = typename gil::channel_traits<C>::value_type;
                double lo = ch_num(CV(gil::channel_traits<C>::min_value()));
                double hi = ch_num(CV(gil::channel_traits<C>::max_value()));
                bool odd = ((x + y) & 1) != 0;
                double val;
                if (content == C_MIN) val = lo;
                else if (content == C_MAX) val = hi;
                else if (content == C_CHECKER) val = odd ? hi : lo;
                else if (is_float_like<CV>::value)
                    val = lo + double(tag_hash(x, y, k, salt) % 1025) / 1024.0 * (hi - lo);
                else
                {
                    double levels = hi - lo + 1.0;
                    unsigned long t = levels >= 256.0 ? (unsigned long)(x * 7 + y * 37 + k * 101 + 13 + salt) : tag_hash(x, y, k, salt);
                    val = lo + double(t % (unsigned long)levels);
                }
                gil::semantic_at_c<k>(p) = MakeVal<CV>::of(val);
            });
            v(x, y) = p;
        }
}

} // namespace ioc
