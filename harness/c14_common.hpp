// c14_common.hpp — shared pieces of the C14 harness (run-time typed images behave like the concrete
// image they hold).  Type lists, an independent compatibility table, injective image contents,
// pixel-by-pixel comparison and observable-state hashing.
//
// Type list: quick {gray8, rgb8, rgb8 planar, rgb16, cmyk8}; -DC14_WIDE adds {bgr8, rgba8, gray16}.
// The facts in INFO[] (channel count, channel bits, colour space) are written by hand, NOT derived
// from GIL metafunctions: they are the reference for num_channels() and for "compatible".
#pragma once
#include "vh.hpp"
#include <boost/gil.hpp>
#include <boost/gil/extension/dynamic_image/dynamic_image_all.hpp>
#include <boost/mp11.hpp>
#include <boost/variant2/variant.hpp>
#include <typeinfo>
#include <unordered_map>

namespace c14 {
namespace gil = boost::gil;
namespace mp = boost::mp11;
namespace bv = boost::variant2;

enum { CS_GRAY, CS_RGB, CS_RGBA, CS_CMYK };
struct TI { const char* name; int nch; int bits; int cs; bool planar; };
constexpr TI INFO[8] = {
    {"gray8", 1, 8, CS_GRAY, false},  {"rgb8", 3, 8, CS_RGB, false},   {"rgb8p", 3, 8, CS_RGB, true},
    {"rgb16", 3, 16, CS_RGB, false},  {"cmyk8", 4, 8, CS_CMYK, false}, {"bgr8", 3, 8, CS_RGB, false},
    {"rgba8", 4, 8, CS_RGBA, false},  {"gray16", 1, 16, CS_GRAY, false}};

#ifdef C14_WIDE
using Images = mp::mp_list<gil::gray8_image_t, gil::rgb8_image_t, gil::rgb8_planar_image_t, gil::rgb16_image_t,
                           gil::cmyk8_image_t, gil::bgr8_image_t, gil::rgba8_image_t, gil::gray16_image_t>;
#else
using Images = mp::mp_list<gil::gray8_image_t, gil::rgb8_image_t, gil::rgb8_planar_image_t, gil::rgb16_image_t,
                           gil::cmyk8_image_t>;
#endif
constexpr int N = int(mp::mp_size<Images>::value);
using AnyImage = mp::mp_rename<Images, gil::any_image>;
using AnyView = AnyImage::view_t;
using AnyCView = AnyImage::const_view_t;
template <int I> using Img = mp::mp_at_c<Images, I>;

// the statement's "compatible": same colour space (as a set of colours: rgb8 ~ bgr8 ~ rgb8 planar) and the
// same channel type.  Hand-written; GIL's views_are_compatible / pixels_are_compatible is what is under test.
constexpr bool compat(int i, int j) { return INFO[i].cs == INFO[j].cs && INFO[i].bits == INFO[j].bits; }

// ---- injective image contents: value of channel c of pixel (x,y) under `seed` (seed 0..3)
// 8-bit: channel c lives in its own band [10+60c, 10+60c+50], strictly increasing in k=3y+x, so all channels of
// all pixels of an image up to 3x3 are pairwise distinct; 16-bit: the 8-bit value in the high byte plus a low byte.
inline unsigned pv(int bits, int x, int y, int c, int seed)
{
    int k = y * 3 + x;
    unsigned v8 = unsigned(10 + 60 * c + k * (6 - c) + seed);
    if (bits == 8) return v8;
    return v8 * 256u + unsigned(k * 13 + c * 3 + seed);
}

template <class View> void paint(View const& v, int bits, int seed)
{
    using ch_t = typename gil::channel_type<View>::type;
    for (std::ptrdiff_t y = 0; y < v.height(); ++y)
        for (std::ptrdiff_t x = 0; x < v.width(); ++x)
        {
            typename View::reference r = v(x, y);
            for (int c = 0; c < int(gil::num_channels<View>::value); ++c) r[c] = ch_t(pv(bits, int(x), int(y), c, seed));
        }
}

// ---- pixel-by-pixel comparison.  The templates only collect numbers; all formatting is in non-template,
// non-inlined code (thousands of view types are instantiated: keep each instantiation small).
struct Diff
{
    bool differ = false, dims = false;
    long x = 0, y = 0, aw = 0, ah = 0, bw = 0, bh = 0;
    int nch = 0;
    unsigned long a[5] = {0, 0, 0, 0, 0}, b[5] = {0, 0, 0, 0, 0};
    __attribute__((noinline)) std::string str() const
    {
        if (!differ) return "";
        vh::S s;
        if (dims) { s << "dims " << aw << "x" << ah << " vs " << bw << "x" << bh; return s; }
        s << "pixel(" << x << "," << y << ") variant side (";
        for (int c = 0; c < nch; ++c) s << (c ? "," : "") << a[c];
        s << ") concrete side (";
        for (int c = 0; c < nch; ++c) s << (c ? "," : "") << b[c];
        s << ")";
        return s;
    }
};

// hash of everything observable through a view: dimensions and every channel of every pixel, row-major
template <class V> uint64_t obs_hash(V const& v)
{
    uint64_t h = vh::mix(0x1234, uint64_t(v.width()) * 131 + uint64_t(v.height()));
    for (std::ptrdiff_t y = 0; y < v.height(); ++y)
        for (std::ptrdiff_t x = 0; x < v.width(); ++x)
        {
            typename V::value_type p = v(x, y);
            for (int c = 0; c < int(gil::num_channels<V>::value); ++c) h = vh::mix(h, uint64_t(p[c]));
        }
    return h;
}

// pixel-by-pixel comparison of two views of the same static type (different buffers)
template <class V> void diff_views(V const& a, V const& b, Diff& d)
{
    d.differ = false;
    if (a.dimensions() != b.dimensions())
    {
        d.differ = d.dims = true; d.aw = a.width(); d.ah = a.height(); d.bw = b.width(); d.bh = b.height();
        return;
    }
    for (std::ptrdiff_t y = 0; y < a.height(); ++y)
        for (std::ptrdiff_t x = 0; x < a.width(); ++x)
        {
            typename V::value_type p = a(x, y), q = b(x, y);
            if (!(p == q))
            {
                d.differ = true; d.dims = false; d.x = x; d.y = y; d.nch = int(gil::num_channels<V>::value);
                for (int c = 0; c < d.nch; ++c) { d.a[c] = (unsigned long)(p[c]); d.b[c] = (unsigned long)(q[c]); }
                return;
            }
        }
}
template <class V> std::string diff_views(V const& a, V const& b) { Diff d; diff_views(a, b, d); return d.str(); }

// Compares the alternative held by a variant with a concrete view CV.  The expected alternative is the position
// of the type CV in the variant's list (first occurrence — boost::variant2 constructs the first matching one);
// returns 0 ok, 1 wrong alternative held, 2 pixels/dims differ (d filled), 3 CV is not an alternative at all.
template <class AV, class CV> struct ExpectedIndex : mp::mp_find<AV, CV> {};
template <class AV, class CV> int held_vs_concrete(AV const& av, CV const& cv, Diff& d, std::true_type)
{
    constexpr std::size_t idx = ExpectedIndex<AV, CV>::value;
    CV const* held = bv::get_if<idx>(&av);
    if (!held) return 1;
    diff_views(*held, cv, d);
    return d.differ ? 2 : 0;
}
template <class AV, class CV> int held_vs_concrete(AV const&, CV const&, Diff&, std::false_type) { return 3; }
template <class AV, class CV> int held_vs_concrete(AV const& av, CV const& cv, Diff& d)
{
    return held_vs_concrete(av, cv, d, mp::mp_bool<(ExpectedIndex<AV, CV>::value < mp::mp_size<AV>::value)>());
}

inline std::string shape_s(int w, int h) { return vh::S() << w << "x" << h; }

// raw bytes of an image's pixel storage (private members; the harness is built with -fno-access-control)
template <class Image> std::vector<unsigned char> raw_bytes(Image const& im)
{
    std::vector<unsigned char> r;
    if (im._memory && im._allocated_bytes) r.assign(im._memory, im._memory + im._allocated_bytes);
    return r;
}

} // namespace c14
