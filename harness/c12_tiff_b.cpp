// C12 TIFF, part B: 16-bit, float and bgr types
// the TIFF writer builds an x_iterator from a byte pointer: does not compile for the x-step view of a bit-aligned
// image (subsampled) -> not covered for gray1/2/4
#define TIFF_ORGS(Img) (gil::is_bit_aligned<typename Img::value_type>::value ? (1 | 2 | 8) : 31)
#include "c12_tiff.hpp"
using Tested = c12::Supported<Fmt::tag>;
using Part = mp::mp_list<gil::gray16_image_t, gil::gray32f_image_t, gil::rgb16_image_t, gil::rgb32f_image_t, gil::bgr8_image_t>;
static_assert(mp::mp_all_of_q<Part, c12::IsRW<gil::tiff_tag>>::value, "part B types must be supported");
VH_GROUP(roundtrip) { tiff_roundtrip<Part>(ctx); }
VH_MAIN
