// C14 (copy_and_convert_pixels) — all six run-time overloads (any/any, any/concrete, concrete/any, each with the
// default colour converter and with a user-supplied, stateful converter) for every ordered pair of alternatives x
// every shape, against the concrete call on twin images.  copy_and_convert never throws: compatible pairs copy,
// incompatible pairs convert.
#include "c14_algo.hpp"

using namespace c14;

namespace {

// stateful converter: default conversion, then a bias on channel 0 (shows whether the overload forwards `cc`)
struct biased_cc
{
    int bias = 0;
    biased_cc() {}
    explicit biased_cc(int b) : bias(b) {}
    template <class S, class D> void operator()(S const& s, D& d) const
    {
        gil::default_color_converter()(s, d);
        using ch = typename gil::channel_type<D>::type;
        d[0] = ch(d[0] + ch(bias));
    }
};

struct ConvertAlg
{
    static constexpr bool always = true, readonly = false;
    template <class S, class D> long operator()(S const& s, D const& d) const { gil::copy_and_convert_pixels(s, d); return 0; }
    template <class S, class D, class T> void prepare(S const&, D const&, int, T) const {}
};
struct ConvertCcAlg
{
    static constexpr bool always = true, readonly = false;
    int bias;
    template <class S, class D> long operator()(S const& s, D const& d) const { gil::copy_and_convert_pixels(s, d, biased_cc(bias)); return 0; }
    template <class S, class D, class T> void prepare(S const&, D const&, int, T) const {}
};

template <class Alg> struct PairLoop
{
    AlgoStats& st; Alg alg; int S, nforms;
    template <class IJ> void operator()(IJ) const
    {
        constexpr int i = int(IJ::value) / N, j = int(IJ::value) % N;
        if (!st.ctx.take()) return;
        st.unit_fails = 0;
        for (int h = 0; h <= S; ++h) for (int w = 0; w <= S; ++w) pair_case<i, j>(st, alg, w, h, w, h, 0, nforms);
        ++st.ctx.witness[compat(i, j) ? "pairs_copying" : "pairs_converting"];
        st.ctx.sample(vh::S() << st.alg << " " << INFO[i].name << ">" << INFO[j].name << (compat(i, j) ? ": copies" : ": converts") << ", equals the concrete call for all shapes 0.." << S << " x " << nforms << " call forms");
    }
};

} // namespace

// -DC14_PART=1: only the default-converter overloads, =2: only the user-converter overloads (the registry builds the
// 8-alternative variant as two TUs; 64 converting pairs x 6 forms is too much for one)
#ifndef C14_PART
#define C14_PART 0
#endif

#if C14_PART == 0 || C14_PART == 1
VH_GROUP(convert)
{
    vh::ubsan_counts() = false;
    AlgoStats st{ctx, "copy_and_convert_pixels"};
    mp::mp_for_each<mp::mp_iota_c<N * N>>(PairLoop<ConvertAlg>{st, ConvertAlg(), int(ctx.B("S", 3)), 6});
}
#endif

#if C14_PART == 0 || C14_PART == 2
VH_GROUP(convert_cc)
{
    vh::ubsan_counts() = false;
    AlgoStats st{ctx, "copy_and_convert_pixels(cc)"};
    mp::mp_for_each<mp::mp_iota_c<N * N>>(PairLoop<ConvertCcAlg>{st, ConvertCcAlg{int(ctx.B("bias", 5))}, int(ctx.B("S", 3)), 4});   // AA, AC, CA, MA
}
#endif

VH_MAIN
