// F_C09-a (C09): rgb -> cmyk quantises every source to 8 bits before the black extraction, so 16-bit and float
// pixels come back from rgb -> cmyk -> rgb up to 1.5 8-bit levels off (statement: within one 8-bit level).
// g++ -std=c++14 -I/repo/include F_C09_rgb16_cmyk_roundtrip_repro.cpp && ./a.out
#include <boost/gil.hpp>
#include <cstdio>
#include <cstdlib>
int main()
{
    namespace gil = boost::gil;
    gil::rgb16_pixel_t p(0, 64507, 16065), q; gil::cmyk16_pixel_t c;
    gil::color_convert(p, c); gil::color_convert(c, q);
    int e = std::abs(int(p[2]) - int(q[2]));
    std::printf("rgb16(%d,%d,%d) -> cmyk16(%d,%d,%d,%d) -> rgb16(%d,%d,%d): blue off by %d = %.3f 8-bit levels\n",
                p[0], p[1], p[2], c[0], c[1], c[2], c[3], q[0], q[1], q[2], e, e / 257.0);
    return e > 257;   // expected 0
}
