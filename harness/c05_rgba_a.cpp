// C05 — rgba/bgra/argb/abgr: byte channels (25 ordered pairs) and packed 5-5-5-1 (64 ordered pairs)
#include "c05_families.hpp"
using namespace c05;
VH_GROUP(rgba8) { run_family<Rgba8, Rgba8>(ctx); }
VH_GROUP(rgba5551) { run_family<Rgba5551, Rgba5551>(ctx); }
// same families under a second name: the thorough tier runs them twice with different bounds (depth 3 / every value at depth 2)
VH_GROUP(rgba8_v) { run_family<Rgba8, Rgba8>(ctx); }
VH_GROUP(rgba5551_v) { run_family<Rgba5551, Rgba5551>(ctx); }
VH_MAIN
