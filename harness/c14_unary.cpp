// C14 (fill_pixels / for_each_pixel on run-time typed views).
//
// fill_pixels(any view holding alternative i, pixel value of alternative j's pixel type): every ordered pair (i, j),
//   every shape, three views of the destination image (plain, rotated180 — a dynamic-step variant —, and a
//   sub-rectangle): compatible -> equals concrete fill_pixels on the twin image (and bytes outside a sub-rectangle
//   keep their values); incompatible -> std::bad_cast and the image storage is byte-identical to its pre-image.
// for_each_pixel(any view, F): every alternative, every shape, const and mutable variant, the same three views:
//   the returned functor state (visit count, order-sensitive hash of the visited values) equals the concrete call's,
//   and so do the pixels a mutating functor leaves behind.
#include "c14_algo.hpp"

using namespace c14;

namespace {

template <int J> typename Img<J>::value_type fill_value()
{
    typename Img<J>::value_type p;
    using ch_t = typename gil::channel_type<typename Img<J>::value_type>::type;
    for (int c = 0; c < INFO[J].nch; ++c) p[c] = ch_t(INFO[J].bits == 8 ? 201 + 11 * c : 51400 + 1111 * c);
    return p;
}

static const char* VIEWS[] = {"plain", "r180", "sub"};

// the three destination view shapes, written once for variants and concrete views alike
template <class V> auto shape_plain(V const& v) { return v; }
template <class V> auto shape_sub(V const& v, int w, int h) { return gil::subimage_view(v, w > 1 ? 1 : 0, 0, w > 1 ? w - 1 : w, h > 1 ? h - 1 : h); }

// concrete reference fill, only instantiated for compatible pairs
template <class Image, class Value> void ref_fill(Image& im, Value const& v, int vk, std::true_type)
{
    if (vk == 0) gil::fill_pixels(gil::view(im), v);
    else if (vk == 1) gil::fill_pixels(gil::rotated180_view(gil::view(im)), v);
    else gil::fill_pixels(shape_sub(gil::view(im), int(im.width()), int(im.height())), v);
}
template <class Image, class Value> void ref_fill(Image&, Value const&, int, std::false_type) {}

template <int I, int J> void fill_case(AlgoStats& st, int w, int h)
{
    vh::Ctx& ctx = st.ctx;
    using image_t = Img<I>;
    constexpr bool ok_pair = compat(I, J);
    using ok_t = mp::mp_bool<ok_pair>;
    const auto val = fill_value<J>();
    for (int vk = 0; vk < 3; ++vk)
    {
        const std::string id = std::string("fill_pixels/") + INFO[I].name + "<-" + INFO[J].name + "/" + shape_s(w, h) + "/" + VIEWS[vk];
        ctx.cur = id;
        image_t ci(w, h);
        paint(gil::view(ci), INFO[I].bits, 1);
        const image_t before(ci);
        AnyImage a{image_t(w, h)};
        image_t& ai = bv::get<I>(a);
        paint(gil::view(ai), INFO[I].bits, 1);
        const std::vector<unsigned char> bytes_before = raw_bytes(ai);
        ref_fill(ci, val, vk, ok_t());
        int rc = guarded([&] {
            AnyView av = gil::view(a);
            if (vk == 0) gil::fill_pixels(av, val);
            else if (vk == 1) gil::fill_pixels(gil::rotated180_view(av), val);
            else gil::fill_pixels(shape_sub(av, int(av.width()), int(av.height())), val);
        });
        ++ctx.evaluations; ++ctx.transitions; ++ctx.traces; ctx.states += 2;
        const bool nonempty = ci.width() > 0 && ci.height() > 0;
        if (nonempty) ++ctx.nontrivial;
        ++ctx.witness[std::string("fill_view_") + VIEWS[vk]];
        if (int(a.index()) != I) st.fail(id, "alternative-changed", "");
        if (ok_pair)
        {
            if (rc != 0) st.fail(id, rc == 1 ? "compatible-pair-threw-bad_cast" : "compatible-pair-threw", "");
            std::string d = diff_views(gil::const_view(ai), gil::const_view(ci));
            if (!d.empty()) st.fail(id, "destination-differs-from-concrete", d);
            else if (nonempty && !(before == ci)) ++ctx.witness["fill_written_and_equal"];
        }
        else
        {
            if (rc != 1) st.fail(id, rc == 0 ? "incompatible-pair-did-not-throw" : "incompatible-pair-threw-other-exception", "");
            else ++ctx.witness["bad_cast_thrown"];
            if (raw_bytes(ai) != bytes_before) st.fail(id, "incompatible-pair-modified-destination", "image bytes changed");
        }
        ctx.san_take_lazy([&] { return id; });
    }
}

struct FillLoop
{
    AlgoStats& st; int S;
    template <class IJ> void operator()(IJ) const
    {
        constexpr int i = int(IJ::value) / N, j = int(IJ::value) % N;
        if (!st.ctx.take()) return;
        st.unit_fails = 0;
        for (int h = 0; h <= S; ++h) for (int w = 0; w <= S; ++w) fill_case<i, j>(st, w, h);
        ++st.ctx.witness[compat(i, j) ? "pairs_compatible" : "pairs_incompatible"];
        st.ctx.sample(vh::S() << "fill_pixels " << INFO[i].name << " view <- " << INFO[j].name << " pixel: " << (compat(i, j) ? "equals the concrete fill" : "std::bad_cast, image unchanged") << ", shapes 0.." << S << " x 3 views");
    }
};

// functor for for_each_pixel: counts, hashes what it sees in visiting order and (mutable pixels) inverts channel 0
struct Visitor
{
    long n = 0;
    uint64_t h = 1;
    template <class P> void see(P const& p)
    {
        ++n;
        for (int c = 0; c < int(gil::num_channels<P>::value); ++c) h = vh::mix(h, uint64_t(p[c]));
    }
    template <class P> void touch(P& p, std::true_type) { using ch_t = typename gil::channel_type<P>::type; p[0] = ch_t(~p[0]); }
    template <class P> void touch(P const&, std::false_type) {}
    template <class P> void operator()(P& p) { see(p); touch(p, mp::mp_bool<!std::is_const<P>::value>()); }
    // planar references arrive as temporaries
    template <class C, class L> void operator()(gil::planar_pixel_reference<C, L> const& p)
    {
        see(p);
        touch2(p, mp::mp_bool<!std::is_const<typename std::remove_reference<C>::type>::value>());
    }
    template <class R> void touch2(R const& p, std::true_type) { using ch_t = typename gil::channel_type<R>::type; gil::at_c<0>(p) = ch_t(~gil::at_c<0>(p)); }
    template <class R> void touch2(R const&, std::false_type) {}
};

template <int I> void foreach_case(AlgoStats& st, int w, int h)
{
    vh::Ctx& ctx = st.ctx;
    using image_t = Img<I>;
    for (int mut = 0; mut < 2; ++mut)
        for (int vk = 0; vk < 3; ++vk)
        {
            const std::string id = std::string("for_each_pixel/") + INFO[I].name + "/" + shape_s(w, h) + (mut ? "/view/" : "/const_view/") + VIEWS[vk];
            ctx.cur = id;
            image_t ci(w, h);
            paint(gil::view(ci), INFO[I].bits, 0);
            AnyImage a{image_t(w, h)};
            image_t& ai = bv::get<I>(a);
            paint(gil::view(ai), INFO[I].bits, 0);
            Visitor ref, got;
            const int cw = int(ci.width()), chh = int(ci.height());
            if (mut)
            {
                if (vk == 0) ref = gil::for_each_pixel(gil::view(ci), Visitor());
                else if (vk == 1) ref = gil::for_each_pixel(gil::rotated180_view(gil::view(ci)), Visitor());
                else ref = gil::for_each_pixel(shape_sub(gil::view(ci), cw, chh), Visitor());
            }
            else
            {
                if (vk == 0) ref = gil::for_each_pixel(gil::const_view(ci), Visitor());
                else if (vk == 1) ref = gil::for_each_pixel(gil::rotated180_view(gil::const_view(ci)), Visitor());
                else ref = gil::for_each_pixel(shape_sub(gil::const_view(ci), cw, chh), Visitor());
            }
            int rc = guarded([&] {
                if (mut)
                {
                    AnyView av = gil::view(a);
                    if (vk == 0) got = gil::for_each_pixel(av, Visitor());
                    else if (vk == 1) got = gil::for_each_pixel(gil::rotated180_view(av), Visitor());
                    else got = gil::for_each_pixel(shape_sub(av, int(av.width()), int(av.height())), Visitor());
                }
                else
                {
                    AnyCView av = gil::const_view(a);
                    if (vk == 0) got = gil::for_each_pixel(av, Visitor());
                    else if (vk == 1) got = gil::for_each_pixel(gil::rotated180_view(av), Visitor());
                    else got = gil::for_each_pixel(shape_sub(av, int(av.width()), int(av.height())), Visitor());
                }
            });
            ++ctx.evaluations; ++ctx.transitions; ++ctx.traces; ctx.states += 2;
            if (ref.n > 0) ++ctx.nontrivial;
            ++ctx.witness[mut ? "foreach_mutable" : "foreach_const"];
            if (rc != 0) st.fail(id, "threw", "");
            if (got.n != ref.n) st.fail(id, "visit-count-differs", vh::S() << got.n << " vs " << ref.n);
            else if (got.h != ref.h) st.fail(id, "visited-values-or-order-differ", "");
            std::string d = diff_views(gil::const_view(ai), gil::const_view(ci));
            if (!d.empty()) st.fail(id, "pixels-differ-after-mutating-visit", d);
            if (mut && ref.n > 0)
            {
                image_t orig(ci.dimensions());
                paint(gil::view(orig), INFO[I].bits, 0);
                if (!(orig == ci) && d.empty()) ++ctx.witness["foreach_mutated_and_equal"];
            }
            if (ref.n > 1) ++ctx.witness["foreach_order_sensitive"];
            ctx.san_take_lazy([&] { return id; });
        }
}

struct ForeachLoop
{
    AlgoStats& st; int S;
    template <class I> void operator()(I) const
    {
        constexpr int i = I::value;
        if (!st.ctx.take()) return;
        st.unit_fails = 0;
        for (int h = 0; h <= S; ++h) for (int w = 0; w <= S; ++w) foreach_case<i>(st, w, h);
        st.ctx.sample(vh::S() << "for_each_pixel " << INFO[i].name << ": count, order and mutation equal the concrete call, shapes 0.." << S << " x const/mutable x 3 views");
    }
};

} // namespace

VH_GROUP(fill)
{
    vh::ubsan_counts() = false;
    AlgoStats st{ctx, "fill_pixels"};
    mp::mp_for_each<mp::mp_iota_c<N * N>>(FillLoop{st, int(ctx.B("S", 3))});
}

VH_GROUP(foreach)
{
    vh::ubsan_counts() = false;
    AlgoStats st{ctx, "for_each_pixel"};
    mp::mp_for_each<mp::mp_iota_c<N>>(ForeachLoop{st, int(ctx.B("S", 3))});
}

VH_MAIN
