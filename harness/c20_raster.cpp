// C20 — rasterizers: bresenham line (every ordered end-point pair of a (2N+1)^2 window), trigonometric and
// midpoint circle (every radius 0..R, several centres), midpoint ellipse (every semi-axes pair 1..A).
// Oracles are the clauses of the property statement, evaluated in exact integer arithmetic; outputs go into
// exactly-sized guard buffers (ASan-poisoned + canary surroundings), apply_rasterizer draws into a gray8
// view that is exactly the bounding box (and one that is larger) carved out of a guard buffer.
#include <iterator>
#include "vh.hpp"
#include "guard.hpp"
#include <boost/gil.hpp>
#include <boost/gil/extension/rasterization/line.hpp>
#include <boost/gil/extension/rasterization/circle.hpp>
#include <boost/gil/extension/rasterization/ellipse.hpp>
#include <memory>
#include <set>

namespace gil = boost::gil;
using pt = gil::point_t;
typedef long long ll;

static const unsigned char SENT = 0x7B;
static inline bool is_sentinel(pt const& p)
{
    pt s; std::memset(&s, SENT, sizeof s);
    return p.x == s.x && p.y == s.y;
}

// exactly n points of output space; reused per size
struct PointBufs
{
    std::map<long, std::unique_ptr<vh::GuardBuf>> cache;
    vh::GuardBuf& get(long n)
    {
        auto& p = cache[n];
        if (!p) p.reset(new vh::GuardBuf(size_t(n) * sizeof(pt), SENT, 0, 4096));
        std::memset(p->data(), SENT, p->size());
        return *p;
    }
};

struct Caps
{
    vh::Ctx& ctx; long cap; std::map<std::string, long> n;
    void bad(std::string const& id, const char* sig, std::string const& d = "")
    {
        long k = ++n[sig];
        if (k <= cap) ctx.fail(id, sig, d); else ++ctx.counters[std::string("failures_not_printed:") + sig];
    }
    void reset() { n.clear(); }
};

static std::string pstr(pt p) { return "(" + std::to_string(p.x) + "," + std::to_string(p.y) + ")"; }

// gray8 canvas inside a guard buffer. pad = 0: the view is exactly w x h contiguous bytes (a write outside the
// view's memory hits the poisoned canary). pad > 0: every row is followed by `pad` zero bytes that belong to no
// pixel of the view, so a write at a view coordinate x >= w or x < 0 (which would alias a neighbouring row in the
// contiguous layout) is seen as a changed padding byte.
struct Canvas
{
    int w, h, pad; vh::GuardBuf buf;
    Canvas(int w_, int h_, int pad_ = 0) : w(w_), h(h_), pad(pad_), buf(size_t(h_ - 1) * size_t(w_ + pad_) + size_t(w_), 0, 0, 8192) {}
    gil::gray8_view_t view() { return gil::interleaved_view(w, h, reinterpret_cast<gil::gray8_pixel_t*>(buf.data()), w + pad); }
    bool painted(int x, int y) const { return buf.data()[size_t(y) * (w + pad) + x] != 0; }
    long count() const { long c = 0; for (int y = 0; y < h; ++y) for (int x = 0; x < w; ++x) c += painted(x, y); return c; }
    // no byte outside the view's pixels changed (row padding and the surroundings of the buffer)
    bool clean()
    {
        for (int y = 0; y + 1 < h; ++y) for (int x = w; x < w + pad; ++x) if (buf.data()[size_t(y) * (w + pad) + x] != 0) return false;
        return buf.intact();
    }
};
// sanitizer reports raised inside apply_rasterizer are counted, not attributed: ASan (recover mode) reports each
// faulting PC only once per process, so the case that gets the report depends on the sharding; the canaries decide.
static void drop_san(vh::Ctx& ctx, const char* what)
{
    if (vh::san().pending.size()) { ctx.counters[std::string("asan_reports_inside_") + what] += long(vh::san().pending.size()); vh::san().pending.clear(); }
}

// ------------------------------------------------------------------------------------------- line
VH_GROUP(line)
{
    vh::ubsan_counts() = false;
    const long N = ctx.B("N", 8);
    Caps caps{ctx, ctx.B("cap", 64)};
    PointBufs pbufs;
    for (long sx = -N; sx <= N; ++sx)
        for (long sy = -N; sy <= N; ++sy)
        {
            if (!ctx.take()) continue;
            caps.reset(); fflush(stdout);
            ctx.cur = "line/" + pstr({sx, sy}) + "->*";
            for (long ex = -N; ex <= N; ++ex)
                for (long ey = -N; ey <= N; ++ey)
                {
                    const pt s{sx, sy}, e{ex, ey};
                    auto id = [&]() { return "line/" + pstr(s) + "->" + pstr(e); };
                    const ll dx = ex - sx, dy = ey - sy, adx = dx < 0 ? -dx : dx, ady = dy < 0 ? -dy : dy;
                    gil::bresenham_line_rasterizer r(s, e);
                    const long n = long(r.point_count());
                    ++ctx.evaluations;
                    if (adx && ady && adx != ady) ++ctx.nontrivial;
                    {   // coverage witnesses: octants, axis-parallel, diagonal, single point, transposed branch
                        if (!adx && !ady) ++ctx.witness["line_single_point"];
                        else if (!adx || !ady) ++ctx.witness["line_axis_parallel"];
                        else if (adx == ady) ++ctx.witness["line_diagonal"];
                        else
                        {
                            int oct = (dx < 0 ? 1 : 0) | (dy < 0 ? 2 : 0) | (ady > adx ? 4 : 0);
                            ++ctx.witness["line_octant_" + std::to_string(oct)];
                            if (adx >= 4 * ady || ady >= 4 * adx) ++ctx.witness["line_shallow_4to1"];
                        }
                    }
                    if (n < 1 || n > 4 * N + 2) { caps.bad(id(), "point-count", "point_count()=" + std::to_string(n)); continue; }
                    bool count_ok = true;
                    vh::GuardBuf& out = pbufs.get(n);
                    pt* p = reinterpret_cast<pt*>(out.data());
                    r(p);
                    long written = 0; for (long i = 0; i < n; ++i) written += !is_sentinel(p[i]);
                    if (written != n) caps.bad(id(), "count:fewer-than-point_count", std::to_string(written) + " of " + std::to_string(n) + " written");
                    if (!out.intact()) { count_ok = false; caps.bad(id(), "count:wrote-past-point_count", "canary around the output array changed"); }
                    {
                        // the same line through an INSERTING output iterator: every assignment emits an element, so a point stored twice
                        // (harmless when overwriting a pre-sized array) shows as point_count()+1 elements; the sequence must be the same
                        std::vector<pt> ins; ins.reserve(size_t(n) + 4);
                        r(std::back_inserter(ins));
                        ++ctx.witness["line_through_back_inserter"];
                        if (long(ins.size()) != n) caps.bad(id(), "count:inserter-got-other-than-point_count", std::to_string(ins.size()) + " elements emitted, point_count()=" + std::to_string(n));
                        else if (written == n) for (long i = 0; i < n; ++i) if (!(ins[size_t(i)] == p[i])) { caps.bad(id(), "inserter-sequence-differs", "element " + std::to_string(i)); break; }
                    }
                    if (written == n)
                    {
                        if (!(p[0] == s)) caps.bad(id(), "first-not-start", "first=" + pstr(p[0]));
                        if (!(p[n - 1] == e)) caps.bad(id(), "last-not-end", "last=" + pstr(p[n - 1]));
                        const bool xmajor = adx >= ady, tie = adx == ady;
                        bool conn = true, mono_x = true, mono_y = true, inbox = true, near = true; std::string where;
                        for (long i = 0; i < n; ++i)
                        {
                            if (i)
                            {
                                ll sxx = p[i].x - p[i - 1].x, syy = p[i].y - p[i - 1].y;
                                if (sxx < -1 || sxx > 1 || syy < -1 || syy > 1) { if (conn) where += " gap " + pstr(p[i - 1]) + pstr(p[i]); conn = false; }
                                if (sxx * dx < 0 || (dx == 0 && sxx != 0)) mono_x = false;
                                if (syy * dy < 0 || (dy == 0 && syy != 0)) mono_y = false;
                            }
                            if (p[i].x < std::min(sx, ex) || p[i].x > std::max(sx, ex) || p[i].y < std::min(sy, ey) || p[i].y > std::max(sy, ey))
                            { if (inbox) where += " outside " + pstr(p[i]); inbox = false; }
                            // |minor - ideal| <= 1 along the minor axis, ideal = m0 + (M - M0) * d / D, in integers
                            if (adx || ady)
                            {
                                ll D = xmajor ? dx : dy, d = xmajor ? dy : dx;
                                ll M = xmajor ? p[i].x - sx : p[i].y - sy, m = xmajor ? p[i].y - sy : p[i].x - sx;
                                ll dev = m * D - M * d; if (dev < 0) dev = -dev;
                                if (dev > (D < 0 ? -D : D)) { if (near) where += " off-line " + pstr(p[i]); near = false; }
                            }
                        }
                        if (!conn) caps.bad(id(), "not-8-connected", where);
                        bool mono = tie ? (mono_x || mono_y) : (xmajor ? mono_x : mono_y);
                        if (!mono) caps.bad(id(), "not-monotone-major", where);
                        if (!inbox) caps.bad(id(), "outside-bbox", where);
                        if (!near) caps.bad(id(), "minor-deviation>1", where);
                        if (!inbox) ++ctx.counters["line_dir_outside_bbox"];
                    }
                    drop_san(ctx, "line_rasterizer");
                    // apply_rasterizer on a view that is exactly the bounding box: contiguous (memory) and padded (coordinates);
                    // skipped when the rasterizer writes past point_count() (it would overrun apply's heap vector and take
                    // the harness down; the violation is already recorded)
                    if (count_ok)
                    {
                        const long mx = std::min(sx, ex), my = std::min(sy, ey);
                        gil::bresenham_line_rasterizer r2({sx - mx, sy - my}, {ex - mx, ey - my});
                        Canvas cv(int(adx + 1), int(ady + 1), 16);
                        gil::apply_rasterizer(cv.view(), r2, gil::gray8_pixel_t(255));
                        if (!cv.clean()) caps.bad(id(), "apply:wrote-outside-view", "a byte outside the pixels of the bounding-box view changed (padded rows)");
                        if (cv.count() >= std::max(adx, ady) + 1) ++ctx.witness["line_apply_painted"];
                        Canvas cc(int(adx + 1), int(ady + 1), 0);
                        gil::apply_rasterizer(cc.view(), r2, gil::gray8_pixel_t(255));
                        if (!cc.clean()) caps.bad(id(), "apply:wrote-outside-buffer", "canary around the exactly-sized contiguous bounding-box image changed");
                        drop_san(ctx, "line_apply");
                    }
                    if (ctx.evaluations % 4096 == 1) ctx.sample(id() + ": " + std::to_string(n) + " points");
                }
            if (ctx.timed_out()) return;
        }
}

// ------------------------------------------------------------------------------------------- circles
// closed: the centre cannot be reached from outside the bounding box by 4-connected steps that avoid the set
static bool encloses(std::set<std::pair<ll, ll>> const& S, ll rx, ll ry)
{
    if (S.count({0, 0})) return true;
    const ll W = 2 * rx + 3, H = 2 * ry + 3;               // grid [-rx-1, rx+1] x [-ry-1, ry+1]
    std::vector<char> g(size_t(W * H), 0);
    auto at = [&](ll x, ll y) -> char& { return g[size_t((y + ry + 1) * W + (x + rx + 1))]; };
    for (auto const& q : S) if (q.first >= -rx - 1 && q.first <= rx + 1 && q.second >= -ry - 1 && q.second <= ry + 1) at(q.first, q.second) = 1;
    std::vector<std::pair<ll, ll>> st = {{-rx - 1, -ry - 1}};
    at(-rx - 1, -ry - 1) = 2;
    while (!st.empty())
    {
        auto c = st.back(); st.pop_back();
        static const int dxs[] = {1, -1, 0, 0}, dys[] = {0, 0, 1, -1};
        for (int k = 0; k < 4; ++k)
        {
            ll x = c.first + dxs[k], y = c.second + dys[k];
            if (x < -rx - 1 || x > rx + 1 || y < -ry - 1 || y > ry + 1 || at(x, y)) continue;
            if (x == 0 && y == 0) return false;
            at(x, y) = 2; st.push_back({x, y});
        }
    }
    return true;
}

template <class Rasterizer>
static bool circle_case(vh::Ctx& ctx, Caps& caps, PointBufs& pbufs, const char* kind, ll r, pt c, bool heavy)
{
    std::string id = std::string("circle/") + kind + "/r=" + std::to_string(r) + "/c=" + pstr(c);
    Rasterizer ras(c, r);
    const long n = long(ras.point_count());
    ++ctx.evaluations; if (r >= 2) ++ctx.nontrivial;
    ++ctx.witness[std::string("circle_") + kind];
    if (n < 1 || n > 64 * (r + 2)) { caps.bad(id, "point-count", "point_count()=" + std::to_string(n)); return false; }
    vh::GuardBuf& out = pbufs.get(n);
    pt* p = reinterpret_cast<pt*>(out.data());
    ras(p);
    long written = 0; for (long i = 0; i < n; ++i) written += !is_sentinel(p[i]);
    if (written != n) caps.bad(id, "count:fewer-than-point_count", std::to_string(written) + " of " + std::to_string(n) + " written");
    const bool count_ok = out.intact();
    if (!count_ok) caps.bad(id, "count:wrote-past-point_count", "canary around the output array changed");
    drop_san(ctx, "circle_rasterizer");
    if (written != n) return count_ok;
    std::set<std::pair<ll, ll>> S;
    bool near = true, inbox = true; std::string where;
    for (long i = 0; i < n; ++i)
    {
        ll x = p[i].x - c.x, y = p[i].y - c.y, d2 = x * x + y * y;
        S.insert({x, y});
        // within one pixel of the ideal circle: r-1 <= sqrt(d2) <= r+1
        bool ok = d2 <= (r + 1) * (r + 1) && (r < 1 || d2 >= (r - 1) * (r - 1));
        if (!ok) { if (near) where += " off-curve " + pstr(p[i]); near = false; }
        if (x < -r || x > r || y < -r || y > r) { if (inbox) where += " outside " + pstr(p[i]); inbox = false; }
    }
    if (!near) caps.bad(id, "off-curve>1", where);
    if (!inbox) caps.bad(id, "outside-bbox", where);
    bool sym = true;
    for (auto const& q : S)
    {
        const ll x = q.first, y = q.second;
        const std::pair<ll, ll> im[] = {{-x, y}, {x, -y}, {-x, -y}, {y, x}, {-y, x}, {y, -x}, {-y, -x}};
        for (auto const& m : im) if (!S.count(m)) { if (sym) where += " no mirror of " + pstr({x + c.x, y + c.y}); sym = false; }
    }
    if (!sym) caps.bad(id, "not-8-fold-symmetric", where);
    ctx.counters["circle_distinct_points"] += long(S.size());
    if (heavy)
    {
        if (r >= 1 && !encloses(S, r, r)) caps.bad(id, "not-closed", "the centre is 4-connected to the outside of the bounding box");
        if (r >= 2)
        {
            // a closed 8-connected curve: every point has at least two 8-neighbours in the set
            for (auto const& q : S)
            {
                int nb = 0;
                for (ll a = -1; a <= 1; ++a) for (ll b = -1; b <= 1; ++b) if ((a || b) && S.count({q.first + a, q.second + b})) ++nb;
                if (nb < 2) { caps.bad(id, "not-closed:dangling-point", pstr({q.first + c.x, q.second + c.y}) + " has " + std::to_string(nb) + " neighbour(s)"); break; }
            }
        }
    }
    return count_ok;
}

template <class Rasterizer>
static void circle_apply(vh::Ctx& ctx, Caps& caps, const char* kind, ll r, int margin_l, int margin_t, int margin_r, int margin_b)
{
    std::string id = std::string("circle/") + kind + "/r=" + std::to_string(r) + "/apply+" + std::to_string(margin_l) + std::to_string(margin_t) + std::to_string(margin_r) + std::to_string(margin_b);
    Rasterizer ras({r + margin_l, r + margin_t}, r);
    Canvas cv(int(2 * r + 1) + margin_l + margin_r, int(2 * r + 1) + margin_t + margin_b, 16);
    gil::apply_rasterizer(cv.view(), ras, gil::gray8_pixel_t(255));
    ++ctx.evaluations; ++ctx.witness["circle_apply"];
    if (!cv.clean()) caps.bad(id, "apply:wrote-outside-view", "a byte outside the pixels of the view changed (padded rows)");
    if (cv.count() > 0) ++ctx.witness["circle_apply_painted"];
    Canvas cc(int(2 * r + 1) + margin_l + margin_r, int(2 * r + 1) + margin_t + margin_b, 0);
    gil::apply_rasterizer(cc.view(), ras, gil::gray8_pixel_t(255));
    if (!cc.clean()) caps.bad(id, "apply:wrote-outside-buffer", "canary around the exactly-sized contiguous image changed");
    drop_san(ctx, "circle_apply");
}

VH_GROUP(circle)
{
    vh::ubsan_counts() = false;
    const long R = ctx.B("R", 64);
    Caps caps{ctx, 64};
    PointBufs pbufs;
    for (long r = 0; r <= R; ++r)
        for (int kind = 0; kind < 2; ++kind)
        {
            if (!ctx.take()) continue;
            caps.reset();
            ctx.cur = std::string("circle/") + (kind ? "midpoint" : "trigonometric") + "/r=" + std::to_string(r);
            const pt centres[] = {{0, 0}, {r, r}, {R + 3, 2 * R + 7}, {-5, 11}};
            bool count_ok = true;
            fflush(stdout);
            for (int ci = 0; ci < 4; ++ci)
            {
                if (kind) count_ok = circle_case<gil::midpoint_circle_rasterizer>(ctx, caps, pbufs, "midpoint", r, centres[ci], ci == 0) && count_ok;
                else count_ok = circle_case<gil::trigonometric_circle_rasterizer>(ctx, caps, pbufs, "trigonometric", r, centres[ci], ci == 0) && count_ok;
            }
            // apply_rasterizer is skipped when the rasterizer overruns point_count() (see the line group)
            if (!count_ok) continue;
            if (kind) { circle_apply<gil::midpoint_circle_rasterizer>(ctx, caps, "midpoint", r, 0, 0, 0, 0); circle_apply<gil::midpoint_circle_rasterizer>(ctx, caps, "midpoint", r, 2, 0, 1, 3); }
            else { circle_apply<gil::trigonometric_circle_rasterizer>(ctx, caps, "trigonometric", r, 0, 0, 0, 0); circle_apply<gil::trigonometric_circle_rasterizer>(ctx, caps, "trigonometric", r, 2, 0, 1, 3); }
            if (r % 16 == 5) ctx.sample(ctx.cur + ": 4 centres + 2 views ok");
            if (ctx.timed_out()) return;
        }
}

// ------------------------------------------------------------------------------------------- ellipse
// "within one pixel of the ideal curve" in exact integers: the curve x^2/a^2 + y^2/b^2 = 1 passes through the
// closed square [x-1,x+1] x [y-1,y+1], i.e. min f <= 0 <= max f over the square for f = b^2 x^2 + a^2 y^2 - a^2 b^2
static bool near_ellipse(ll x, ll y, ll a, ll b)
{
    ll ax = x < 0 ? -x : x, ay = y < 0 ? -y : y;
    ll lx = ax > 1 ? ax - 1 : 0, ly = ay > 1 ? ay - 1 : 0, hx = ax + 1, hy = ay + 1;
    ll fmin = b * b * lx * lx + a * a * ly * ly - a * a * b * b;
    ll fmax = b * b * hx * hx + a * a * hy * hy - a * a * b * b;
    return fmin <= 0 && fmax >= 0;
}

VH_GROUP(ellipse)
{
    vh::ubsan_counts() = false;
    const long A = ctx.B("A", 32);
    Caps caps{ctx, 64};
    for (long a = 1; a <= A; ++a)
        for (long b = 1; b <= A; ++b)
        {
            if (!ctx.take()) continue;
            caps.reset(); fflush(stdout);
            std::string id = "ellipse/a=" + std::to_string(a) + "/b=" + std::to_string(b);
            ctx.cur = id;
            ++ctx.evaluations; if (a != b && a > 1 && b > 1) ++ctx.nontrivial;
            if (a == b) ++ctx.witness["ellipse_circle_like"]; else if (a > 4 * b || b > 4 * a) ++ctx.witness["ellipse_thin"]; else ++ctx.witness["ellipse_general"];
            using pu = gil::point<unsigned int>;
            // (1) trajectory: first-quadrant points inside [0,a] x [0,b], within one pixel of the curve
            {
                gil::midpoint_ellipse_rasterizer ras(pu(unsigned(a + 1), unsigned(b + 1)), pu(unsigned(a), unsigned(b)));
                std::vector<pt> tr = ras.obtain_trajectory();
                std::string where; bool inbox = true, near = true;
                for (auto const& q : tr)
                {
                    if (q.x < 0 || q.x > a || q.y < 0 || q.y > b) { if (inbox) where += " outside " + pstr(q); inbox = false; }
                    if (!near_ellipse(q.x, q.y, a, b)) { if (near) where += " off-curve " + pstr(q); near = false; }
                }
                if (tr.empty()) caps.bad(id, "empty-trajectory");
                if (!inbox) caps.bad(id, "outside-bbox", where);
                if (!near) caps.bad(id, "off-curve>1", where);
                ctx.counters["ellipse_trajectory_points"] += long(tr.size());
            }
            // (2) drawing on a view = bounding box + one ring of margin (so that a point outside the bounding box is
            //     seen as a painted margin pixel), centre given 1-based as the rasterizer documents
            {
                Canvas cv(int(2 * a + 3), int(2 * b + 3), 16);
                gil::midpoint_ellipse_rasterizer ras(pu(unsigned(a + 2), unsigned(b + 2)), pu(unsigned(a), unsigned(b)));
                gil::apply_rasterizer(cv.view(), ras, gil::gray8_pixel_t(255));
                std::set<std::pair<ll, ll>> S;
                for (int y = 0; y < cv.h; ++y) for (int x = 0; x < cv.w; ++x) if (cv.painted(x, y)) S.insert({x - (a + 1), y - (b + 1)});
                std::string where; bool inbox = true, near = true, sym = true;
                for (auto const& q : S)
                {
                    if (q.first < -a || q.first > a || q.second < -b || q.second > b) { if (inbox) where += " outside " + pstr({q.first, q.second}); inbox = false; }
                    if (!near_ellipse(q.first, q.second, a, b)) { if (near) where += " off-curve " + pstr({q.first, q.second}); near = false; }
                    if (!S.count({-q.first, q.second}) || !S.count({q.first, -q.second}) || !S.count({-q.first, -q.second})) { if (sym) where += " no mirror of " + pstr({q.first, q.second}); sym = false; }
                }
                if (S.empty()) caps.bad(id, "nothing-drawn");
                if (!inbox) caps.bad(id, "outside-bbox", where);
                if (!near) caps.bad(id, "off-curve>1", where);
                if (!sym) caps.bad(id, "not-4-fold-symmetric", where);
                if (!encloses(S, a, b)) caps.bad(id, "not-closed", "the centre is 4-connected to the outside of the bounding box");
                if (!cv.clean()) caps.bad(id, "apply:wrote-outside-view", "view = bounding box + 1");
                ctx.counters["ellipse_painted_pixels"] += long(S.size());
            }
            // (3) view that is exactly the bounding box
            {
                gil::midpoint_ellipse_rasterizer ras(pu(unsigned(a + 1), unsigned(b + 1)), pu(unsigned(a), unsigned(b)));
                Canvas cv(int(2 * a + 1), int(2 * b + 1), 16);
                gil::apply_rasterizer(cv.view(), ras, gil::gray8_pixel_t(255));
                if (!cv.clean()) caps.bad(id, "apply:wrote-outside-view", "view = bounding box (padded rows)");
                if (cv.count() > 0) ++ctx.witness["ellipse_apply_painted"];
                Canvas cc(int(2 * a + 1), int(2 * b + 1), 0);
                gil::apply_rasterizer(cc.view(), ras, gil::gray8_pixel_t(255));
                if (!cc.clean()) caps.bad(id, "apply:wrote-outside-buffer", "canary around the exactly-sized contiguous image changed");
            }
            drop_san(ctx, "ellipse_apply");
            // (4) views smaller than the bounding box: ellipse.hpp clips (draw_curve's validity tests). Not a clause of
            //     C20 (the statement speaks of views that contain the bounding box): counted, never failed.
            for (int cut = 1; cut <= 2 && 2 * a + 1 - cut > 0 && 2 * b + 1 - cut > 0; ++cut)
            {
                Canvas cv(int(2 * a + 1 - cut), int(2 * b + 1 - cut), 16);
                gil::midpoint_ellipse_rasterizer ras(pu(unsigned(a + 1), unsigned(b + 1)), pu(unsigned(a), unsigned(b)));
                gil::apply_rasterizer(cv.view(), ras, gil::gray8_pixel_t(255));
                ++ctx.counters["ellipse_smaller_view_runs"];
                if (!cv.clean() || vh::san().pending.size()) ++ctx.counters["ellipse_smaller_view_written_outside"];
                vh::san().pending.clear();
            }
            if ((a * 31 + b) % 97 == 0) ctx.sample(id + " ok");
            if (ctx.timed_out()) return;
        }
}

VH_MAIN
