// C13 for TARGA: every generated TARGA seed (gen/seeds.py -> io_seeds.hpp) and the repo's sample files.
#include "c13_common.hpp"
#include "io_seeds.hpp"
#include <boost/gil/extension/io/targa.hpp>
#include <dirent.h>

namespace gil = boost::gil;
using c13::SeedView; using c13::Opts; using ioc::Flat; using ioc::Emit;

struct TgaFmt : c13::DefaultDevices
{
    using tag = gil::targa_tag;
    static const char* name() { return "targa"; }
    using conv_list = boost::mp11::mp_list<gil::gray8_image_t, gil::rgb8_image_t, gil::bgr8_image_t, gil::rgba8_image_t,
                                           gil::rgb16_image_t, gil::cmyk8_image_t>;
    using any_t = gil::any_image<gil::gray8_image_t, gil::rgb8_image_t, gil::rgba8_image_t>;

    template <class Img> static Flat to_expected_space(Flat const& full, int exp_channels) { return c13::first_channels(full, exp_channels); }

    template <class Img, class Info> static std::string depth_check(Info const& info, SeedView const& sv)
    {
        if (sv.file_bpp && int(info._bits_per_pixel) != sv.file_bpp)
            return std::string(vh::S() << "info._bits_per_pixel=" << int(info._bits_per_pixel) << " file declares " << sv.file_bpp);
        int img_bits = 8 * int(gil::num_channels<typename Img::view_t>::value);
        if (int(info._bits_per_pixel) != img_bits)
            return std::string(vh::S() << "info._bits_per_pixel=" << int(info._bits_per_pixel) << " native image has " << img_bits);
        return "";
    }

    // scanline rows: 24 -> bgr8, 32 -> bgra8
    template <class Img, class Reader> static int scan_row(Reader& r, gil::byte_t* p, std::vector<double>& out)
    {
        long w = r._info._width;
        if (r._info._bits_per_pixel == 24) { auto v = gil::interleaved_view(w, 1, reinterpret_cast<gil::bgr8_pixel_t const*>(p), std::ptrdiff_t(r._scanline_length)); for (long x = 0; x < w; ++x) ioc::flat_px(v(x, 0), out); return 3; }
        auto v = gil::interleaved_view(w, 1, reinterpret_cast<gil::bgra8_pixel_t const*>(p), std::ptrdiff_t(r._scanline_length)); for (long x = 0; x < w; ++x) ioc::flat_px(v(x, 0), out); return 4;
    }

    template <class Img> static void view_exact(Emit& e, ioc::Source const& src, int d, Flat const& full)
    { c13::view_exact_interleaved<TgaFmt, Img>(e, src, d, full); }
};

static void run_one(vh::Ctx& ctx, SeedView const& sv, bool rgba, Opts const& o)
{
    ioc::run_unit(ctx, sv.name, [&](Emit& e) {
        if (rgba) c13::check_seed<TgaFmt, gil::rgba8_image_t>(e, sv, o);
        else c13::check_seed<TgaFmt, gil::rgb8_image_t>(e, sv, o);
    });
}

VH_GROUP(seeds)
{
    vh::ubsan_counts() = false;
    long allrect = ctx.B("allrect", 0);
    Opts o; o.devmask = int(ctx.B("devmask", 7));
    for (Seed const& s : io_seeds())
    {
        if (std::string(s.format) != "targa") continue;
        if (!ctx.take()) continue;
        ctx.cur = s.name;
        ioc::ScratchFile file(std::string("c13-") + s.name, "tga", s.bytes);
        SeedView sv;
        sv.name = s.name; sv.bytes = &s.bytes; sv.path = file.path;
        sv.expected = &s.expected; sv.expected_alt = &s.expected_alt; sv.exp_channels = s.channels; sv.exp_w = s.w; sv.exp_h = s.h;
        sv.file_bpp = s.prop("bpp");
        sv.subrects = (allrect && s.w * s.h <= 20) || (s.w <= 5 && s.h <= 4);
        // GIL documents: the targa scanline reader handles only uncompressed files with a bottom-left origin
        sv.scan_expected = s.prop("tga_type") == 2 && !s.prop("tga_top");
        ++ctx.witness[std::string("tga_bpp") + std::to_string(s.prop("bpp"))];
        ++ctx.witness[s.prop("tga_type") == 10 ? "tga_rle" : "tga_raw"];
        ++ctx.witness[s.prop("tga_top") ? "tga_top_origin" : "tga_bottom_origin"];
        run_one(ctx, sv, s.prop("bpp") == 32, o);
        ctx.san_take(std::string(s.name) + "/<parent>");
        if (ctx.timed_out()) return;
    }
}

VH_GROUP(samples)
{
    vh::ubsan_counts() = false;
    std::string dir = "/repo/test/extension/io/images/targa";
    std::vector<std::string> names;
    if (DIR* d = opendir(dir.c_str()))
    {
        while (dirent* de = readdir(d)) { std::string n = de->d_name; if (n.size() > 4 && n.substr(n.size() - 4) == ".tga") names.push_back(n); }
        closedir(d);
    }
    std::sort(names.begin(), names.end());
    Opts o; o.devmask = int(ctx.B("devmask", 7));
    for (auto const& n : names)
    {
        if (!ctx.take()) continue;
        ctx.cur = n;
        std::vector<unsigned char> bytes;
        { FILE* f = fopen((dir + "/" + n).c_str(), "rb"); if (!f) continue; unsigned char b[65536]; size_t r; while ((r = fread(b, 1, sizeof b, f)) > 0) bytes.insert(bytes.end(), b, b + r); fclose(f); }
        if (bytes.size() < 18) continue;
        SeedView sv;
        sv.name = "sample:" + n; sv.bytes = &bytes; sv.path = dir + "/" + n;
        sv.file_bpp = bytes[16]; sv.subrects = false; sv.big = true;
        sv.scan_expected = bytes[2] == 2 && !(bytes[17] & 0x20);
        ++ctx.witness["sample_files"];
        run_one(ctx, sv, bytes[16] == 32, o);
        if (ctx.timed_out()) return;
    }
}

VH_MAIN
