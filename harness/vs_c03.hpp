// vs_c03.hpp — the C03 oracle, evaluated in every (addressable) state of the view search:
// every navigation path reaches the raw-model address of the pixel it should reach, locators are
// closed under every single move (=> under every sequence of moves, because a memory-based locator's
// whole state is (position, steps), which is checked), cached locations, y_distance_to, the
// random-access laws of the 1-D iterator and of the x / y (step) iterators for EVERY start and every
// pair of offsets that stays inside [begin, end], is_1d_traversable "only when".
#pragma once
#include "vs_explore.hpp"

namespace vs {

// pixel identity: for memory-based organisations the raw-model bit position of channel sc; for function-backed (virtual)
// views the function coordinate the locator / reference denotes, encoded as (x+50)*1000 + (y+50)
template <class Org, bool Addressable = Org::addressable> struct Ident
{
    template <class M> static long P(Root<Org>& root, M const& m, long x, long y, int sc) { return Org::chan_bitpos(root.g, m.sx(x, y), m.sy(x, y), sc); }
    template <class R> static long ref(unsigned char const* base, R&& r) { long v = -1; for_channels(r, [&](int i, auto&& ch) { if (i == 0) v = chan_refpos(base, ch); }); return v; }
    template <class It> static long it(unsigned char const* base, It const& i) { return iter_pos(base, i); }
    template <class L> static long loc(unsigned char const* base, L const& l) { return iter_pos(base, l.x()); }
    template <class L> static bool steps_same(L const& l, long px, long rs) { return l.pixel_size() == px && l.row_size() == rs; }
    template <class L> static long pixel_size(L const& l) { return l.pixel_size(); }
    template <class L> static long row_size(L const& l) { return l.row_size(); }
};
template <class Org> struct Ident<Org, false>
{
    static long enc(long fx, long fy) { return (fx + 50) * 1000 + (fy + 50); }
    template <class M> static long P(Root<Org>&, M const& m, long x, long y, int) { return enc(m.sx(x, y), m.sy(x, y)); }
    template <class R> static long ref(unsigned char const*, R&& r) { return enc(long(gil::at_c<0>(r)) - 10, long(gil::at_c<1>(r)) - 100); }
    template <class It> static long it(unsigned char const*, It const& i) { return enc(i.pos().x, i.pos().y); }
    template <class L> static long loc(unsigned char const*, L const& l) { return enc(l.pos().x, l.pos().y); }
    template <class L> static bool steps_same(L const&, long, long) { return true; }
    template <class L> static long pixel_size(L const&) { return 0; }
    template <class L> static long row_size(L const&) { return 0; }
};

struct C03Policy
{
    static constexpr bool allow_conv = false;
    template <class Org, class V, int Ch, bool Conv>
    static void visit(vh::Ctx& ctx, Root<Org>& root, V const& v, Model const& m, std::string const& id)
    {
        run<Org, V, Ch>(ctx, root, v, m, id, std::integral_constant<bool, !Conv>());
    }
    template <class Org, class V, int Ch>
    static void run(vh::Ctx&, Root<Org>&, V const&, Model const&, std::string const&, std::false_type) {}

    template <class Org, class V, int Ch>
    static void run(vh::Ctx& ctx, Root<Org>& root, V const& v, Model const& m, std::string const& id, std::true_type)
    {
        using loc_t = typename V::xy_locator;
        using point_t = typename V::point_t;
        using it1_t = typename V::iterator;
        unsigned char const* base = root.base();
        const long w = m.w, h = m.h, n = (w > 0 && h > 0) ? w * h : 0;
        const int sc = Ch ? m.k : 0;
        int bad = 0;
        auto fail = [&](const char* sig, std::string const& d) { if (bad++ < 4) ctx.fail(id, sig, d); };
        // raw-model bit position of channel sc of the source pixel behind view coordinate (x,y); linear,
        // so it also names the one-past positions a locator may legitimately stand on
        using Id = Ident<Org>;
        auto P = [&](long x, long y) { return Id::P(root, m, x, y, sc); };
        auto refpos = [&](auto&& ref) { return Id::ref(base, ref); };
        auto locpos = [&](loc_t const& l) { return Id::loc(base, l); };
        // a locator's x() of a channel view / planar view points at channel sc's position: same as P
        ++ctx.evaluations;

        // ---- empty and default-constructed views
        {
            V dv;
            if (!(dv.begin() == dv.end())) fail("default-view-begin!=end", "");
            if (dv.end() - dv.begin() != 0) fail("default-view-distance", "");
            if (dv.size() != 0) fail("default-view-size", "");
            ++ctx.counters["default_views"];
        }
        if (long(v.size()) != w * h) fail("size", vh::S() << v.size());
        if (long(v.end() - v.begin()) != w * h) fail("end-begin", vh::S() << (v.end() - v.begin()) << " != " << w * h);
        if (n == 0)
        {
            if (!(v.begin() == v.end()) && w * h == 0) fail("empty-view-begin!=end", "");
            if (!(v.begin() + 0 == v.begin())) fail("empty-view-it+0", "");
            ++ctx.counters["empty_views"];
            return;
        }
        ++ctx.nontrivial;

        // ---- (A) all access paths, every pixel
        for (long y = 0; y < h; ++y) for (long x = 0; x < w; ++x)
        {
            long i = y * w + x, want = P(x, y);
            auto chk = [&](const char* what, long got) { ++ctx.counters["path_checks"]; if (got != want) fail("path-mismatch", vh::S() << what << " at (" << x << "," << y << ") refers to bit " << got << ", pixel is at bit " << want); };
            chk("view(x,y)", refpos(v(x, y)));
            chk("view(point)", refpos(v(point_t(x, y))));
            chk("row_begin(y)[x]", refpos(v.row_begin(y)[x]));
            chk("col_begin(x)[y]", refpos(v.col_begin(x)[y]));
            chk("begin()[i]", refpos(v.begin()[i]));
            chk("view[i]", refpos(v[i]));
            chk("*at(x,y)", refpos(*v.at(x, y)));
            chk("*at(i)", refpos(*v.at(i)));
            chk("*at(point)", refpos(*v.at(point_t(x, y))));
            chk("rbegin()[n-1-i]", refpos(v.rbegin()[n - 1 - i]));
            chk("*xy_at(x,y)", refpos(*v.xy_at(x, y)));
            chk("*x_at(x,y)", refpos(*v.x_at(x, y)));
            chk("*y_at(x,y)", refpos(*v.y_at(x, y)));
            chk("pixels()(x,y)", refpos(v.pixels()(x, y)));
            chk("pixels()[point]", refpos(v.pixels()[point_t(x, y)]));
            chk("*axis_iterator<0>", refpos(*v.template axis_iterator<0>(point_t(x, y))));
            chk("*axis_iterator<1>", refpos(*v.template axis_iterator<1>(point_t(x, y))));
            chk("*(row_end(y)-(w-x))", refpos(*(v.row_end(y) - (w - x))));
            chk("*(col_end(x)-(h-y))", refpos(*(v.col_end(x) - (h - y))));
        }

        // ---- (B) locator closure under single moves; (C) cached locations; (D) y_distance_to
        const long px = Id::pixel_size(v.pixels()), rs = Id::row_size(v.pixels());
        if (locpos(v.pixels()) != P(0, 0)) fail("locator-origin", "");
        for (long y = 0; y <= h; ++y) for (long x = 0; x <= w; ++x)
        {
            loc_t l0 = v.pixels() + point_t(x, y);
            auto rep_ok = [&](loc_t const& l, long tx, long ty, const char* what) {
                ++ctx.counters["locator_moves"];
                if (locpos(l) != P(tx, ty) || !Id::steps_same(l, px, rs))
                    fail("locator-move", vh::S() << what << " from (" << x << "," << y << ") should stand on (" << tx << "," << ty << ")");
                if (tx >= 0 && tx < w && ty >= 0 && ty < h && refpos(*l) != P(tx, ty)) fail("locator-deref", what);
            };
            rep_ok(l0, x, y, "pixels()+(x,y)");
            if (x < w) { loc_t l = l0; ++l.x(); rep_ok(l, x + 1, y, "++x()"); }
            if (x > 0) { loc_t l = l0; --l.x(); rep_ok(l, x - 1, y, "--x()"); }
            if (y < h) { loc_t l = l0; ++l.y(); rep_ok(l, x, y + 1, "++y()"); }
            if (y > 0) { loc_t l = l0; --l.y(); rep_ok(l, x, y - 1, "--y()"); }
            if (x < w) { loc_t l = l0; ++l.template axis_iterator<0>(); rep_ok(l, x + 1, y, "++axis_iterator<0>()"); }
            if (y < h) { loc_t l = l0; ++l.template axis_iterator<1>(); rep_ok(l, x, y + 1, "++axis_iterator<1>()"); }
            for (long dy = -2; dy <= 2; ++dy) for (long dx = -2; dx <= 2; ++dx)
            {
                long tx = x + dx, ty = y + dy;
                if (tx < 0 || tx > w || ty < 0 || ty > h) continue;
                { loc_t l = l0; l += point_t(dx, dy); rep_ok(l, tx, ty, "+=(dx,dy)"); }
                { loc_t l = l0; l -= point_t(-dx, -dy); rep_ok(l, tx, ty, "-=(-dx,-dy)"); }
                rep_ok(l0.xy_at(dx, dy), tx, ty, "xy_at(dx,dy)");
                rep_ok(l0 + point_t(dx, dy), tx, ty, "loc+(dx,dy)");
                rep_ok(l0 - point_t(-dx, -dy), tx, ty, "loc-(-dx,-dy)");
                if (Id::it(base, l0.x_at(dx, dy)) != P(tx, ty)) fail("locator-x_at", "");
                if (Id::it(base, l0.y_at(dx, dy)) != P(tx, ty)) fail("locator-y_at", "");
                if (tx < w && ty < h)
                {
                    if (refpos(l0(dx, dy)) != P(tx, ty)) fail("locator-call", vh::S() << "loc(" << dx << "," << dy << ") from (" << x << "," << y << ")");
                    auto cl = l0.cache_location(dx, dy);
                    if (refpos(l0[cl]) != P(tx, ty)) fail("cached-location", vh::S() << "loc[cache_location(" << dx << "," << dy << ")] from (" << x << "," << y << ")");
                    auto cl2 = l0.cache_location(point_t(dx, dy));
                    if (refpos(l0[cl2]) != P(tx, ty)) fail("cached-location", "point overload");
                    ++ctx.counters["cached_locations"];
                }
            }
            // (D) y_distance_to every other position
            for (long y2 = 0; y2 <= h; ++y2) for (long x2 = 0; x2 <= w; ++x2)
            {
                loc_t l2 = v.pixels() + point_t(x2, y2);
                ++ctx.counters["y_distance"];
                if (l0.y_distance_to(l2, x2 - x) != y2 - y) fail("y_distance_to", vh::S() << "(" << x << "," << y << ")->(" << x2 << "," << y2 << ") gives " << l0.y_distance_to(l2, x2 - x));
            }
        }

        // ---- (E) 1-D iterator laws: every start i, every (a, b) staying inside [0, n]
        {
            it1_t b0 = v.begin();
            for (long i = 0; i <= n; ++i)
            {
                it1_t it = b0 + i;
                if (it - b0 != i) fail("it1:(b+i)-b", vh::S() << "i=" << i << " gives " << (it - b0));
                if (i < n && refpos(*it) != P(i % w, i / w)) fail("it1:deref", vh::S() << "begin()+" << i);
                {
                    // the converting constructor (iterator of the mutable view -> iterator of the const view) keeps the whole position
                    using CV = typename V::const_t; using cit_t = typename CV::iterator;
                    CV cv(v); cit_t cb = cv.begin();
                    cit_t cit(it);
                    ++ctx.counters["it1_const_conversions"];
                    if (cit - cb != i) fail("it1:const-conversion:distance", vh::S() << "i=" << i << " gives " << (cit - cb));
                    if (!(cit == cb + i)) fail("it1:const-conversion:equal", vh::S() << "i=" << i);
                    if (i < n && refpos(*cit) != P(i % w, i / w)) fail("it1:const-conversion:deref", vh::S() << "begin()+" << i);
                }
                if (i < n) { it1_t t = it; ++t; --t; if (!(t == it)) fail("it1:--(++it)", vh::S() << i); it1_t u = it; ++u; if (!(u == b0 + (i + 1))) fail("it1:++it==it+1", vh::S() << i); }
                if (i > 0) { it1_t t = it; --t; if (!(t == b0 + (i - 1))) fail("it1:--it==it-1", vh::S() << i); }
                for (long a = -i; a <= n - i; ++a)
                {
                    it1_t ia = it + a;
                    ++ctx.counters["it1_offsets"];
                    if (ia - it != a) fail("it1:(it+n)-it", vh::S() << "i=" << i << " n=" << a << " gives " << (ia - it));
                    if (!(ia == b0 + (i + a))) fail("it1:it+n==begin+(i+n)", vh::S() << "i=" << i << " n=" << a);
                    if ((it < ia) != (a > 0)) fail("it1:order", vh::S() << "i=" << i << " n=" << a);
                    if (i + a < n && refpos(it[a]) != P((i + a) % w, (i + a) / w)) fail("it1:it[n]", vh::S() << "i=" << i << " n=" << a);
                    { it1_t t = it; t += a; if (!(t == ia)) fail("it1:+=", ""); t -= a; if (!(t == it)) fail("it1:+=then-=", vh::S() << "i=" << i << " n=" << a); }
                    for (long c = -(i + a); c <= n - (i + a); ++c)
                    {
                        ++ctx.counters["it1_triples"];
                        if (!((ia + c) == (it + (a + c)))) fail("it1:assoc", vh::S() << "i=" << i << " n=" << a << " m=" << c);
                    }
                }
            }
            if (!(v.end() == b0 + n)) fail("it1:end", "");
        }
        // x iterators of every row, y iterators of every column
        for (long y = 0; y < h; ++y)
        {
            auto r0 = v.row_begin(y);
            for (long i = 0; i <= w; ++i) for (long a = -i; a <= w - i; ++a)
            {
                auto it = r0 + i; auto ia = it + a;
                ++ctx.counters["xit_offsets"];
                if (ia - it != a) fail("xit:(it+n)-it", vh::S() << "y=" << y << " i=" << i << " n=" << a << " gives " << (ia - it));
                if (!(ia == r0 + (i + a))) fail("xit:it+n", "");
                if ((it < ia) != (a > 0) || (ia < it) != (a < 0) || (it <= ia) != (a >= 0)) fail("xit:order", vh::S() << "y=" << y << " i=" << i << " n=" << a);
                if (i + a < w && refpos(it[a]) != P(i + a, y)) fail("xit:it[n]", "");
                for (long c = -(i + a); c <= w - (i + a); ++c) if (!((ia + c) == (it + (a + c)))) fail("xit:assoc", "");
                if (i < w) { auto t = it; ++t; --t; if (!(t == it)) fail("xit:--(++it)", ""); }
            }
            if (!(v.row_end(y) == r0 + w) || v.row_end(y) - r0 != w) fail("xit:row_end", "");
        }
        for (long x = 0; x < w; ++x)
        {
            auto c0 = v.col_begin(x);
            for (long i = 0; i <= h; ++i) for (long a = -i; a <= h - i; ++a)
            {
                auto it = c0 + i; auto ia = it + a;
                ++ctx.counters["yit_offsets"];
                if (ia - it != a) fail("yit:(it+n)-it", vh::S() << "x=" << x << " i=" << i << " n=" << a << " gives " << (ia - it));
                if (!(ia == c0 + (i + a))) fail("yit:it+n", "");
                if ((it < ia) != (a > 0) || (ia < it) != (a < 0) || (it <= ia) != (a >= 0)) fail("yit:order", vh::S() << "x=" << x << " i=" << i << " n=" << a);
                if (i + a < h && refpos(it[a]) != P(x, i + a)) fail("yit:it[n]", "");
                for (long c = -(i + a); c <= h - (i + a); ++c) if (!((ia + c) == (it + (a + c)))) fail("yit:assoc", "");
                if (i < h) { auto t = it; ++t; --t; if (!(t == it)) fail("yit:--(++it)", ""); }
            }
            if (!(v.col_end(x) == c0 + h) || v.col_end(x) - c0 != h) fail("yit:col_end", "");
        }

        // ---- (F) is_1d_traversable: true ONLY when stepping past the row end lands on the next row
        if (v.is_1d_traversable())
        {
            ++ctx.witness["traversable_true"];
            // the last row too: past its end lies where the raw model puts row h (that is what end() of a 1-D traversable view relies on);
            // for a one-row view this is the only row there is
            for (long y = 0; y < h; ++y)
                if (Id::it(base, v.row_begin(y) + w) != P(0, y + 1)) fail("is_1d_traversable-lies", vh::S() << "row " << y << (y + 1 == h ? " (last row)" : ""));
            if (h == 1 && w > 0) ++ctx.witness["traversable_true_one_row"];
        }
        else ++ctx.witness["traversable_false"];
        if (m.a < 0 || m.d < 0 || m.b < 0 || m.c < 0) ++ctx.witness["negative_step_states"];
        if (root.padmode) ++ctx.witness["padded_rows"];
        if (m.b != 0) ++ctx.witness["transposed_states"];
        if (m.k >= 0) ++ctx.witness["channel_states"];
        ctx.sample(id + " " + m.key());
    }
};

} // namespace vs
