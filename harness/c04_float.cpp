// C04 — TU: rgb32f, interleaved and planar (float channels: equal_pixels / image== with +0.0f vs -0.0f; the memmove and
// memcmp leaves with 12-byte pixels / 4-byte channels).
#include "c04_common.hpp"
using namespace c04;

using IF  = FamI<gil::rgb32f_pixel_t>;
using IFc = FamI<gil::rgb32f_pixel_t, true>;
using PF  = FamP<gil::float32_t>;

#define C04_BOUNDS vh::ubsan_counts() = false; int N = int(ctx.B("N", 4)), X0 = int(ctx.B("X0", 3));

VH_GROUP(pairs_f)
{
    C04_BOUNDS
    PairRunner<IF, IF, PF>::run(ctx, N, X0);
    PairRunner<IF, PF, IF>::run(ctx, N, X0);
    PairRunner<PF, IF, PF>::run(ctx, N, X0);
    PairRunner<PF, PF, IF>::run(ctx, N, X0);
}
VH_GROUP(equal_f)
{
    C04_BOUNDS
    EqualRunner<IF, IF>::run(ctx, N, X0);
    EqualRunner<IFc, IFc>::run(ctx, N, X0);
    EqualRunner<IF, PF>::run(ctx, N, X0);
    EqualRunner<PF, IF>::run(ctx, N, X0);
    EqualRunner<PF, PF>::run(ctx, N, X0);
    ImageEqRunner<gil::rgb32f_image_t, gil::rgb32f_image_t>::run(ctx, N, "rgb32f=rgb32f");
    ImageEqRunner<gil::rgb32f_planar_image_t, gil::rgb32f_planar_image_t>::run(ctx, N, "rgb32f_planar=rgb32f_planar");
}
VH_GROUP(dst_f)
{
    C04_BOUNDS
    run_dst<IF>(ctx, N, X0);
    run_dst<PF>(ctx, N, X0);
}
VH_MAIN
