// C04 — TU 5: bit-aligned pixels (gray1: 1 bit/pixel; rgb222: 6 bits/pixel — contiguous bit rows, byte-aligned
// rows, interior sub-views starting at a non-byte-aligned pixel) and packed pixels (rgb565 in a uint16, rgb222 in
// a byte); copies between packed and bit-aligned organisations of the same channels; converting copies from/to
// 8-bit pixels.
#include "c04_common.hpp"
using namespace c04;

using G1img   = gil::bit_aligned_image1_type<1, gil::gray_layout_t>::type;
using B222img = gil::bit_aligned_image3_type<2, 2, 2, gil::rgb_layout_t>::type;
using K565img = gil::packed_image3_type<uint16_t, 5, 6, 5, gil::rgb_layout_t>::type;
using K222img = gil::packed_image3_type<uint8_t, 2, 2, 2, gil::rgb_layout_t>::type;

namespace c04 {
template <> struct Name<G1img>   { static const char* get() { return "gray1"; } };
template <> struct Name<B222img> { static const char* get() { return "rgb222"; } };
template <> struct Name<K565img::value_type> { static const char* get() { return "rgb565p"; } };
template <> struct Name<K222img::value_type> { static const char* get() { return "rgb222p"; } };
}
using G1   = FamB<G1img>;
using B222 = FamB<B222img>;
using K565 = FamI<K565img::value_type>;
using K222 = FamI<K222img::value_type>;
using I8   = FamI<gil::rgb8_pixel_t>;
using G8   = FamI<gil::gray8_pixel_t>;

#define C04_BOUNDS vh::ubsan_counts() = false; int N = int(ctx.B("N", 4)), X0 = int(ctx.B("X0", 3));

VH_GROUP(pairs_gray1)  { C04_BOUNDS PairRunner<G1, G1, G1>::run(ctx, N, X0); }
VH_GROUP(pairs_rgb222) { C04_BOUNDS PairRunner<B222, B222, B222>::run(ctx, N, X0); }
VH_GROUP(pairs_packed)
{
    C04_BOUNDS
    PairRunner<K565, K565, K565>::run(ctx, N, X0);
    PairRunner<K222, B222, K222, false>::run(ctx, N, X0);
    PairRunner<B222, K222, B222, false>::run(ctx, N, X0);
}
VH_GROUP(dst_gray1) { C04_BOUNDS run_dst<G1>(ctx, N, X0); }
VH_GROUP(dst_bits)
{
    C04_BOUNDS
    run_dst<B222>(ctx, N, X0);
    run_dst<K565>(ctx, N, X0);
}
VH_GROUP(equal_gray1)
{
    C04_BOUNDS
    EqualRunner<G1, G1>::run(ctx, N, X0);
    ImageEqRunner<G1img, G1img>::run(ctx, N, "gray1=gray1");
}
VH_GROUP(equal_bits)
{
    C04_BOUNDS
    EqualRunner<B222, B222>::run(ctx, N, X0);
    EqualRunner<K565, K565>::run(ctx, N, X0);
    EqualRunner<K222, B222>::run(ctx, N, X0);
    ImageEqRunner<B222img, B222img>::run(ctx, N, "rgb222=rgb222");
    ImageEqRunner<K565img, K565img>::run(ctx, N, "rgb565=rgb565");
}
VH_GROUP(convert_bits)
{
    C04_BOUNDS
    PairRunner<I8, K565, I8, false>::run(ctx, N, X0);
    PairRunner<K565, I8, I8, false>::run(ctx, N, X0);
    PairRunner<I8, B222, I8, false>::run(ctx, N, X0);
    PairRunner<B222, I8, I8, false>::run(ctx, N, X0);
    PairRunner<G8, G1, G8, false>::run(ctx, N, X0);
    PairRunner<G1, G8, G8, false>::run(ctx, N, X0);
}
VH_MAIN
