# registry fragment for C19 (exec'd by tools/checks.py with CHECKS, ASSUME_COMMON, NOT_APPLICABLE in scope)
_c19_a = ['g8', 'g8s', 'g16', 'g16s', 'g8_u8', 'g16_l', 'rgb8_1', 'rgba16_3', 'd2_8', 'd2_8s', 'd2_8_10', 'rgb8_20', 'rgb16_01']
_c19_b = ['rgb8', 'rgb8s', 'rgb8_210', 'rgb16', 'rgba8_310', 'rgba8', 'rgba16s']
_c19_q4 = ['g8', 'g8s', 'g16', 'rgb8_1', 'd2_8', 'rgb8_20', 'rgb8', 'rgb8s', 'rgba8']
CHECKS['C19'] = dict(
    level='exploration',
    technique='exhaustive finite-domain enumeration of the real fill_histogram / histogram::fill / cumulative_histogram / '
              'sub_histogram / normalize / std-container fillers against a std::map model filled by the definition',
    rule='fill: 18 type configurations (uint8/int8/uint16/int16 channels, 1-4 channels, 1-D..4-D histograms, selected '
         'channel lists) x every shape with <= SH pixels (0x0,1x1,2x1,1x2,3x1,1x3,2x2; quick: 2x2 for 9 of the 18 configurations) x every content over PX pixel '
         'values x {no mask, every mask} x {no limits, every limit box of the list} x bin widths 1..BW x {replace, '
         'accumulate on previous contents, member fill} (+ 1-D: dense prefill x 10 ranges x setlimits x {replace, '
         'accumulate}); case = that tuple, distinct by construction; non-trivial = at least one pixel counted. '
         'cumulative / normalize / sub_histogram<axes> / sub_histogram<axes>(range) run on every distinct resulting '
         'histogram of a unit, and on EVERY histogram over a 7-key (1-D), 3x3 (2-D), 2x2x2 (3-D, 4-D) key grid with S '
         'states per bin. views: 12 view kinds x every content x every mask. stdfill: vector/array/map vs histogram<int>.',
    assumptions=ASSUME_COMMON + [
        'limits are compared with the binned key (the reading of DESIGN.md; identical to the raw reading for bin width 1)',
        'negative channel / bin width: floor and truncation are both accepted (consistently within a fill)',
        'a zero-count bin and an absent bin are the same thing for every count clause',
        'sub_histogram key range = every selected axis inside its own [low, high] (doc/histogram/subhistogram.rst)',
        'dense prefill only for non-negative lower <= upper; bin width >= 1',
    ],
    tus=[dict(name='c19_fill_a', src='harness/c19_fill_a.cpp', deps=['harness/c19_fill.hpp', 'harness/c19_model.hpp']),
         dict(name='c19_fill_b', src='harness/c19_fill_b.cpp', deps=['harness/c19_fill.hpp', 'harness/c19_model.hpp']),
         dict(name='c19_ops', src='harness/c19_ops.cpp', deps=['harness/c19_model.hpp'])],
    runs=dict(
        # quick: the 2x2 shape (256 contents x 17 masks) only for one configuration per channel type / dimension
        quick=[dict(tu='c19_fill_a', group=g, bounds=dict(A=4, PX=4, BW=3, LB=27, SH=(4 if g in _c19_q4 else 3)), shards=2) for g in _c19_a] +
              [dict(tu='c19_fill_b', group=g, bounds=dict(A=4, PX=4, BW=3, LB=27, SH=(4 if g in _c19_q4 else 3)), shards=2) for g in _c19_b] +
              [dict(tu='c19_ops', group='ops1d', bounds=dict(S=4), shards=1),
               dict(tu='c19_ops', group='ops2d', bounds=dict(S=3), shards=2),
               dict(tu='c19_ops', group='ops3d', bounds=dict(S=3), shards=2),
               dict(tu='c19_ops', group='ops4d', bounds=dict(S=3), shards=2),
               dict(tu='c19_ops', group='views', bounds=dict(PX=3, BW=2, SH=4), shards=2),
               dict(tu='c19_ops', group='stdfill', bounds=dict(PX=5, SH=4, SH16=2), shards=1), dict(tu='c19_ops', group='narrow_keys', shards=1)],
        thorough=[dict(tu='c19_fill_a', group=g, bounds=dict(A=6, PX=6, BW=4, LB=128, SH=4), shards=8) for g in _c19_a] +
                 [dict(tu='c19_fill_b', group=g, bounds=dict(A=6, PX=6, BW=4, LB=128, SH=4), shards=8) for g in _c19_b] +
                 [dict(tu='c19_fill_a', group='g8', bounds=dict(A=4, PX=3, BW=3, LB=27, SH=6), shards=8),
                  dict(tu='c19_ops', group='ops1d', bounds=dict(S=5), shards=2),
                  dict(tu='c19_ops', group='ops2d', bounds=dict(S=4), shards=8),
                  dict(tu='c19_ops', group='ops3d', bounds=dict(S=4), shards=8),
                  dict(tu='c19_ops', group='ops4d', bounds=dict(S=4), shards=8),
                  dict(tu='c19_ops', group='views', bounds=dict(PX=4, BW=3, SH=6), shards=8),
                  dict(tu='c19_ops', group='stdfill', bounds=dict(PX=5, SH=6, SH16=3), shards=4), dict(tu='c19_ops', group='narrow_keys', shards=1)]),
    witnesses_required=dict(all=['key_type_narrower_than_channel', 'cumulative_nd_non_integral_bin', 'mask_excluded', 'limit_excluded', 'bin_collision', 'accumulate_added', 'replace_cleared',
                                 'dense_zero_bins', 'negative_key', 'bin_width_gt1', 'default_args_path', 'cumulative_1d',
                                 'cumulative_nd', 'sub_axes', 'sub_axes_merged_bins', 'sub_range_dropped', 'sub_range_kept',
                                 'std_vector', 'std_array', 'std_map', 'view:planar', 'view:transposed', 'view:subsampled',
                                 'view:nth-channel<1>', 'view:const']),
    deadline=dict(quick=600, thorough=3000),
)
