// repro: g++ -std=c++14 -DNDEBUG -I/repo/include -c Fnew_C16_threshold_float32_repro.cpp
// threshold_binary / threshold_truncate do not compile for the float32_t channel (gray32f, rgb32f):
//   threshold.hpp:125: error: operands to '?:' have different types 'const float32_t' and 'int'
#include <boost/gil/image.hpp>
#include <boost/gil/typedefs.hpp>
#include <boost/gil/image_processing/threshold.hpp>
namespace gil = boost::gil;
int main()
{
    gil::gray32f_image_t src(2, 2), dst(2, 2);
    gil::threshold_binary(gil::const_view(src), gil::view(dst), 0.5f, 1.0f);
    gil::threshold_truncate(gil::const_view(src), gil::view(dst), 0.5f, gil::threshold_truncate_mode::zero);
}
