// C12 TIFF, part A: bit-aligned and 8-bit gray / rgb types
// the TIFF writer builds an x_iterator from a byte pointer: does not compile for the x-step view of a bit-aligned
// image (subsampled) -> not covered for gray1/2/4
#define TIFF_ORGS(Img) (gil::is_bit_aligned<typename Img::value_type>::value ? (1 | 2 | 8) : 31)
#include "c12_tiff.hpp"
using Tested = c12::Supported<Fmt::tag>;
using Part = mp::mp_list<gil::gray1_image_t, gil::gray2_image_t, gil::gray4_image_t, gil::gray8_image_t, gil::rgb8_image_t>;
// parts A, B, C together are exactly the computed list of supported types
using PartB = mp::mp_list<gil::gray16_image_t, gil::gray32f_image_t, gil::rgb16_image_t, gil::rgb32f_image_t, gil::bgr8_image_t>;
using PartC = mp::mp_list<gil::rgba8_image_t, gil::rgba16_image_t, gil::cmyk8_image_t, gil::cmyk16_image_t>;
static_assert(mp::mp_size<Tested>::value == mp::mp_size<Part>::value + mp::mp_size<PartB>::value + mp::mp_size<PartC>::value &&
              mp::mp_size<mp::mp_set_union<Part, PartB, PartC>>::value == mp::mp_size<Tested>::value, "TIFF parts must cover the supported list");
static_assert(mp::mp_all_of_q<Part, c12::IsRW<gil::tiff_tag>>::value, "part A types must be supported");
VH_GROUP(roundtrip) { tiff_roundtrip<Part>(ctx); }
VH_GROUP(matrix) { c12::record_matrix<Fmt::tag>(ctx, Fmt::name()); }
VH_MAIN
