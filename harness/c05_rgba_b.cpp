// C05 — rgba/bgra/argb/abgr packed 1-2-3-2 in one byte (all channel widths <= 3: every value is enumerated in thorough)
#include "c05_families.hpp"
using namespace c05;
VH_GROUP(rgba1232) { run_family<Rgba1232, Rgba1232>(ctx); }
// same families under a second name: the thorough tier runs them twice with different bounds (depth 3 / every value at depth 2)
VH_GROUP(rgba1232_v) { run_family<Rgba1232, Rgba1232>(ctx); }
VH_MAIN
