// TIFF read_and_convert_image: tiled files are reinterpreted with the destination pixel type; float files are misread
#include <boost/gil.hpp>
#include <boost/gil/extension/io/tiff.hpp>
#include <sstream>
#include <iostream>
using namespace boost::gil;
int main() {
    gray8_image_t a(5, 2); for (int y = 0; y < 2; ++y) for (int x = 0; x < 5; ++x) view(a)(x, y) = gray8_pixel_t(10 * y + x + 1);
    image_write_info<tiff_tag> wi; wi._is_tiled = true; wi._tile_width = 16; wi._tile_length = 16;
    std::stringstream ss(std::ios::in | std::ios::out | std::ios::binary); write_view(ss, const_view(a), wi);
    rgb8_image_t c; ss.seekg(0); read_and_convert_image(ss, c, tiff_tag());
    std::cout << "tiled gray8 1..5 as rgb8:"; for (int x = 0; x < 5; ++x) std::cout << " (" << int(view(c)(x,0)[0]) << "," << int(view(c)(x,0)[1]) << "," << int(view(c)(x,0)[2]) << ")"; std::cout << "\n";
    gray32f_image_t f(2, 1); view(f)(0, 0) = gray32f_pixel_t(0.25f); view(f)(1, 0) = gray32f_pixel_t(0.75f);
    std::stringstream s2(std::ios::in | std::ios::out | std::ios::binary); write_view(s2, const_view(f), tiff_tag());
    gray32f_image_t g; s2.seekg(0); read_and_convert_image(s2, g, tiff_tag());
    std::cout << "strip gray32f 0.25 0.75 via read_and_convert_image<gray32f>: " << float(view(g)(0,0)[0]) << " " << float(view(g)(1,0)[0]) << "\n";
}
