#include <boost/gil.hpp>
#include <boost/gil/extension/io/jpeg.hpp>
#include <sstream>
#include <cstdio>
namespace gil = boost::gil;
template <class Img> static std::string enc(int w, int h)
{
    Img img(w, h);
    unsigned v = 1;
    gil::for_each_pixel(gil::view(img), [&](typename Img::value_type& p) { for (int c = 0; c < int(gil::num_channels<Img>::value); ++c) p[c] = (unsigned char)(v = v * 73 + 11); });
    std::ostringstream os(std::ios::out | std::ios::binary);
    std::ostream& o = os;
    gil::write_view(o, gil::view(img), gil::image_write_info<gil::jpeg_tag>(90));
    return os.str();
}
static unsigned long h(std::string const& s) { unsigned long x = 1469598103934665603ul; for (unsigned char c : s) x = (x ^ c) * 1099511628211ul; return x; }
int main()
{
    std::string a = enc<gil::gray8_image_t>(8, 8), b = enc<gil::rgb8_image_t>(9, 7);
    printf("gray8 8x8 len=%zu hash=%016lx | rgb8 9x7 len=%zu hash=%016lx\n", a.size(), h(a), b.size(), h(b));
    FILE* f = fopen(getenv("OUT") ? getenv("OUT") : "/dev/null", "wb"); fwrite(b.data(), 1, b.size(), f); fclose(f);
}
