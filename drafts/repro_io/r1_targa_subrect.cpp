// F13: targa reader ignores top_left.y (reads the bottom dim.y rows of a bottom-origin file)
#include <boost/gil.hpp>
#include <boost/gil/extension/io/targa.hpp>
#include <sstream>
#include <iostream>
using namespace boost::gil;
int main() {
    rgb8_image_t a(2, 3);
    for (int y = 0; y < 3; ++y) for (int x = 0; x < 2; ++x) view(a)(x, y) = rgb8_pixel_t(10 * y + x, 0, 0);
    std::stringstream ss(std::ios::in | std::ios::out | std::ios::binary);
    write_view(ss, const_view(a), targa_tag());
    rgb8_image_t crop; ss.seekg(0);
    read_image(ss, crop, image_read_settings<targa_tag>(point_t(0, 0), point_t(2, 1)));   // top row
    std::cout << "expected red 0 1, got " << int(view(crop)(0, 0)[0]) << " " << int(view(crop)(1, 0)[0]) << "\n"; // 20 21
}
