// C18 — toolbox colour spaces: every rgb8 pixel -> {hsv,hsl,xyz,lab,ycbcr601,ycbcr709,cmyka} -> rgb8
// within the statement's tolerance, intermediate channels in their documented range;
// gray_alpha -> rgba carries alpha; toolbox luminance == core rgb->gray weights.
// Pure value enumeration (san=False, -O2).  Tolerances: see c18_common.hpp / DESIGN.md §3 C18.
#include "c18_common.hpp"
#include <boost/gil/extension/toolbox/color_converters/gray_to_rgba.hpp>
#include <boost/gil/extension/toolbox/color_converters/rgb_to_luminance.hpp>

using namespace c18;

// ---- per-space descriptions -------------------------------------------------------------------
// mid_t: the toolbox pixel; tol: round-trip tolerance in 8-bit levels; range(): documented range
// clause (returns the name of the violated channel or nullptr); branch(): coverage witness index.
struct HsvS
{
    using mid_t = gil::hsv32f_pixel_t;
    static const char* name() { return "hsv"; }
    static int tol() { return 0; }
    static const char* range(mid_t const& m)
    {
        if (!in01(m[0])) return "hue";
        if (!in01(m[1])) return "saturation";
        if (!in01(m[2])) return "value";
        return nullptr;
    }
    static int branch(mid_t const& m) { float s = float(m[1]); if (s < 0.0001f) return 6; int i = int(std::floor(float(m[0]) * 6.f)); return i < 0 ? 7 : i > 5 ? 7 : i; }
    static const char* branch_name(int i) { static const char* n[] = {"hsv_sector0", "hsv_sector1", "hsv_sector2", "hsv_sector3", "hsv_sector4", "hsv_sector5", "hsv_grey_path", "hsv_sector_other"}; return n[i]; }
    static std::string show(mid_t const& m) { return "h=" + fstr(m[0]) + " s=" + fstr(m[1]) + " v=" + fstr(m[2]); }
};
struct HslS
{
    using mid_t = gil::hsl32f_pixel_t;
    static const char* name() { return "hsl"; }
    static int tol() { return 0; }
    static const char* range(mid_t const& m)
    {
        if (!in01(m[0])) return "hue";
        if (!in01(m[1])) return "saturation";
        if (!in01(m[2])) return "lightness";
        return nullptr;
    }
    static int branch(mid_t const& m) { float s = float(m[1]); if (s < 0.0001f) return 6; int i = int(std::floor(float(m[0]) * 6.f)); return i < 0 ? 7 : i > 5 ? 7 : i; }
    static const char* branch_name(int i) { static const char* n[] = {"hsl_sector0", "hsl_sector1", "hsl_sector2", "hsl_sector3", "hsl_sector4", "hsl_sector5", "hsl_grey_path", "hsl_sector_other"}; return n[i]; }
    static std::string show(mid_t const& m) { return "h=" + fstr(m[0]) + " s=" + fstr(m[1]) + " l=" + fstr(m[2]); }
};
struct XyzS
{
    using mid_t = gil::xyz32f_pixel_t;
    static const char* name() { return "xyz"; }
    static int tol() { return 0; }
    // the statement spells out ranges only for hue/saturation/value; for xyz only "a number" is demanded
    static const char* range(mid_t const& m) { for (int k = 0; k < 3; ++k) if (!finite(m[k])) return k == 0 ? "x" : k == 1 ? "y" : "z"; return nullptr; }
    static int branch(mid_t const& m) { return float(m[1]) <= 0.0031308f ? 0 : 1; }
    static const char* branch_name(int i) { static const char* n[] = {"xyz_linear_segment", "xyz_gamma_segment"}; return n[i]; }
    static std::string show(mid_t const& m) { return "x=" + fstr(m[0]) + " y=" + fstr(m[1]) + " z=" + fstr(m[2]); }
};
struct LabS
{
    using mid_t = gil::lab32f_pixel_t;
    static const char* name() { return "lab"; }
    static int tol() { return 1; }
    static const char* range(mid_t const& m) { for (int k = 0; k < 3; ++k) if (!finite(m[k])) return k == 0 ? "L" : k == 1 ? "a" : "b"; return nullptr; }
    static int branch(mid_t const& m) { return float(m[0]) <= 8.0f ? 0 : 1; }
    static const char* branch_name(int i) { static const char* n[] = {"lab_linear_segment", "lab_cuberoot_segment"}; return n[i]; }
    static std::string show(mid_t const& m) { return "L=" + fstr(m[0]) + " a=" + fstr(m[1]) + " b=" + fstr(m[2]); }
};
struct Y601S
{
    using mid_t = gil::ycbcr_601_8_pixel_t;
    static const char* name() { return "ycbcr601"; }
    static int tol() { return 3; }
    static const char* range(mid_t const&) { return nullptr; }      // uint8 channels: nothing the statement enumerates
    static int branch(mid_t const& m) { return int(m[1]) < 128 ? 0 : 1; }
    static const char* branch_name(int i) { static const char* n[] = {"ycbcr601_cb_below_128", "ycbcr601_cb_from_128"}; return n[i]; }
    static std::string show(mid_t const& m) { return vh::S() << "y=" << int(m[0]) << " cb=" << int(m[1]) << " cr=" << int(m[2]); }
};
struct Y709S
{
    using mid_t = gil::ycbcr_709_8_pixel_t;
    static const char* name() { return "ycbcr709"; }
    static int tol() { return 2; }
    static const char* range(mid_t const&) { return nullptr; }
    static int branch(mid_t const& m) { return int(m[1]) < 128 ? 0 : 1; }
    static const char* branch_name(int i) { static const char* n[] = {"ycbcr709_cb_below_128", "ycbcr709_cb_from_128"}; return n[i]; }
    static std::string show(mid_t const& m) { return vh::S() << "y=" << int(m[0]) << " cb=" << int(m[1]) << " cr=" << int(m[2]); }
};

// pixel "holders": value pixels in two layouts and a planar proxy (planar_pixel_reference over three
// separate bytes) — the converters are templates over the pixel model, all must behave the same
template <class RGB> struct ValueHolder
{
    RGB p;
    RGB& ref() { return p; }
};
struct PlanarHolder
{
    uint8_t c[3];
    using ref_t = gil::planar_pixel_reference<uint8_t&, gil::rgb_t>;
    ref_t ref() { return ref_t(c[0], c[1], c[2]); }
};
template <class H> struct LayoutName;
template <> struct LayoutName<ValueHolder<gil::rgb8_pixel_t>> { static const char* s() { return "rgb8"; } };
template <> struct LayoutName<ValueHolder<gil::bgr8_pixel_t>> { static const char* s() { return "bgr8"; } };
template <> struct LayoutName<PlanarHolder> { static const char* s() { return "rgb8planar"; } };

template <class H> inline void set_rgb(H& h, int r, int g, int b)
{
    auto&& p = h.ref();
    gil::get_color(p, gil::red_t()) = uint8_t(r);
    gil::get_color(p, gil::green_t()) = uint8_t(g);
    gil::get_color(p, gil::blue_t()) = uint8_t(b);
}
template <class H> inline int ch(H& h, int k)
{
    auto&& p = h.ref();
    return k == 0 ? int(gil::get_color(p, gil::red_t())) : k == 1 ? int(gil::get_color(p, gil::green_t())) : int(gil::get_color(p, gil::blue_t()));
}
template <class Sp, class H> inline void there_and_back(H& src, typename Sp::mid_t& m, H& back)
{
    auto&& p = src.ref();
    gil::color_convert(p, m);
    auto&& q = back.ref();
    gil::color_convert(m, q);
}

// all 2^24 pixels, unit = one value of red (256 shardable units)
template <class Sp, class H> static void roundtrip_all(vh::Ctx& ctx)
{
    using mid_t = typename Sp::mid_t;
    const long cap = ctx.B("cap", 64);       // failures printed per unit and clause (0 = all; counters stay exact)
    const std::string sp = Sp::name();
    long hist[5] = {0, 0, 0, 0, 0}, rt_bad = 0, range_bad = 0, br[8] = {0, 0, 0, 0, 0, 0, 0, 0};
    int worst = -1; std::string worst_s;
    for (int r = 0; r < 256; ++r)
    {
        if (!ctx.take()) continue;
        ctx.cur = vh::S() << sp << "/" << LayoutName<H>::s() << " r=" << r;
        long unit_rt = 0, unit_rg = 0;
        for (int g = 0; g < 256; ++g)
            for (int b = 0; b < 256; ++b)
            {
                H p, q;
                set_rgb(p, r, g, b); set_rgb(q, 0, 0, 0);
                mid_t m;
                there_and_back<Sp>(p, m, q);
                ++ctx.evaluations;
                if (!(r == g && g == b)) ++ctx.nontrivial;
                ++br[Sp::branch(m)];
                int e = 0;
                e = std::max(e, std::abs(ch(q, 0) - r));
                e = std::max(e, std::abs(ch(q, 1) - g));
                e = std::max(e, std::abs(ch(q, 2) - b));
                ++hist[e > 3 ? 4 : e];
                if (e > worst)
                {
                    worst = e;
                    worst_s = vh::S() << sp << " worst: (" << r << "," << g << "," << b << ") -> " << Sp::show(m) << " -> ("
                                      << ch(q, 0) << "," << ch(q, 1) << ","
                                      << ch(q, 2) << ") err " << e;
                }
                if (e > Sp::tol())
                {
                    ++rt_bad;
                    if (cap == 0 || unit_rt++ < cap)
                        ctx.fail(rgbid(Sp::name(), LayoutName<H>::s(), r, g, b), vh::S() << "roundtrip-error>" << Sp::tol(),
                                 vh::S() << Sp::show(m) << " -> (" << ch(q, 0) << "," << ch(q, 1)
                                         << "," << ch(q, 2) << ") err=" << e);
                }
                if (const char* ch = Sp::range(m))
                {
                    ++range_bad;
                    if (cap == 0 || unit_rg++ < cap)
                        ctx.fail(rgbid(Sp::name(), LayoutName<H>::s(), r, g, b), std::string("range:") + ch, Sp::show(m));
                }
            }
        if ((r & 63) == 21)
        {
            H p, q; set_rgb(p, r, 200, 17); set_rgb(q, 0, 0, 0); mid_t m; there_and_back<Sp>(p, m, q);
            ctx.sample(vh::S() << sp << ": " << LayoutName<H>::s() << "(" << r << ",200,17) -> " << Sp::show(m) << " -> ("
                               << ch(q, 0) << "," << ch(q, 1) << "," << ch(q, 2) << ")");
        }
        if (ctx.timed_out()) break;
    }
    for (int k = 0; k < 5; ++k) ctx.counters[sp + (k < 4 ? "_err_eq_" + std::to_string(k) : std::string("_err_gt_3"))] += hist[k];
    ctx.counters[sp + "_roundtrip_fail_pixels"] += rt_bad;
    ctx.counters[sp + "_range_fail_pixels"] += range_bad;
    int nb = (std::is_same<Sp, HsvS>::value || std::is_same<Sp, HslS>::value) ? 8 : 2;
    for (int k = 0; k < nb; ++k) if (br[k]) ctx.witness[Sp::branch_name(k)] += br[k];
    ctx.witness[sp + "_pixels"] += hist[0] + hist[1] + hist[2] + hist[3] + hist[4];
    if (worst >= 0) ctx.sample(worst_s);
}

template <class Sp> static void roundtrip_layouts(vh::Ctx& ctx)
{
    long L = ctx.B("layouts", 1);
    roundtrip_all<Sp, ValueHolder<gil::rgb8_pixel_t>>(ctx);
    if (L >= 2) roundtrip_all<Sp, ValueHolder<gil::bgr8_pixel_t>>(ctx);      // second channel order
    if (L >= 3) roundtrip_all<Sp, PlanarHolder>(ctx);                        // thorough: planar proxy references
}

VH_GROUP(hsv) { roundtrip_layouts<HsvS>(ctx); }
VH_GROUP(hsl) { roundtrip_layouts<HslS>(ctx); }
VH_GROUP(xyz) { roundtrip_layouts<XyzS>(ctx); }
VH_GROUP(lab) { roundtrip_layouts<LabS>(ctx); }
VH_GROUP(ycbcr601) { roundtrip_layouts<Y601S>(ctx); }
VH_GROUP(ycbcr709) { roundtrip_layouts<Y709S>(ctx); }

// cmyka: this tree has cmyka->rgba and cmyka->cmyka only (no rgb->cmyka), so "to cmyka and back" is
// executed as core rgb8->cmyk8, append an opaque alpha, toolbox cmyka8->rgba8; tolerance = the one
// 8-bit level C09 allows rgb->cmyk->rgb.  What the toolbox does with a non-opaque alpha is not
// constrained by the statement: it is only counted.
VH_GROUP(cmyka)
{
    const long cap = ctx.B("cap", 64);
    long hist[5] = {0, 0, 0, 0, 0}, bad = 0, carried = 0, maxed = 0, other = 0;
    for (int r = 0; r < 256; ++r)
    {
        if (!ctx.take()) continue;
        ctx.cur = vh::S() << "cmyka r=" << r;
        long unit = 0;
        for (int g = 0; g < 256; ++g)
            for (int b = 0; b < 256; ++b)
            {
                gil::rgb8_pixel_t p(r, g, b);
                gil::cmyk8_pixel_t c;
                gil::color_convert(p, c);
                gil::cmyka8_pixel_t ca(c[0], c[1], c[2], c[3], 255);
                gil::rgba8_pixel_t q;
                gil::color_convert(ca, q);
                ++ctx.evaluations;
                if (!(r == g && g == b)) ++ctx.nontrivial;
                int e = std::max(std::abs(int(q[0]) - r), std::max(std::abs(int(q[1]) - g), std::abs(int(q[2]) - b)));
                ++hist[e > 3 ? 4 : e];
                if (e > 1)
                {
                    ++bad;
                    if (cap == 0 || unit++ < cap)
                        ctx.fail(rgbid("cmyka", "rgb8", r, g, b), "roundtrip-error>1",
                                 vh::S() << "cmyka=(" << int(c[0]) << "," << int(c[1]) << "," << int(c[2]) << "," << int(c[3]) << ",255) -> ("
                                         << int(q[0]) << "," << int(q[1]) << "," << int(q[2]) << "," << int(q[3]) << ") err=" << e);
                }
                if ((b & 7) == 5 && (g & 7) == 3)
                {
                    // the two sides of cmyka -> rgba differ in channel depth: the round trip must still hold within one 8-bit level
                    gil::rgba16_pixel_t q16; gil::color_convert(ca, q16);
                    int e16 = 0; const int want16[3] = {r * 257, g * 257, b * 257};
                    for (int k = 0; k < 3; ++k) e16 = std::max(e16, std::abs(int(q16[k]) - want16[k]));
                    ++ctx.evaluations; ++ctx.witness["cmyka_cross_depth"];
                    if (e16 > 257 + 128 && (cap == 0 || unit++ < cap))
                        ctx.fail(rgbid("cmyka8>rgba16", "rgb8", r, g, b), "roundtrip-error>1", vh::S() << "rgba16=(" << int(q16[0]) << "," << int(q16[1]) << "," << int(q16[2]) << "," << int(q16[3]) << ") err=" << e16 << "/65535");
                    gil::rgb32f_pixel_t pf(r / 255.0f, g / 255.0f, b / 255.0f); gil::cmyk32f_pixel_t cf; gil::color_convert(pf, cf);
                    gil::pixel<gil::float32_t, gil::cmyka_layout_t> caf(cf[0], cf[1], cf[2], cf[3], gil::float32_t(1.0f));
                    gil::rgba8_pixel_t qf; gil::color_convert(caf, qf);
                    int ef = std::max(std::abs(int(qf[0]) - r), std::max(std::abs(int(qf[1]) - g), std::abs(int(qf[2]) - b)));
                    ++ctx.evaluations;
                    if (ef > 1 && (cap == 0 || unit++ < cap))
                        ctx.fail(rgbid("cmyka32f>rgba8", "rgb8", r, g, b), "roundtrip-error>1", vh::S() << "rgba8=(" << int(qf[0]) << "," << int(qf[1]) << "," << int(qf[2]) << "," << int(qf[3]) << ") err=" << ef);
                }
                if ((b & 63) == 5 && (g & 31) == 3)
                {
                    const int alphas[] = {0, 1, 128, 254};
                    for (int a : alphas)
                    {
                        gil::cmyka8_pixel_t cb(c[0], c[1], c[2], c[3], a); gil::rgba8_pixel_t qa; gil::color_convert(cb, qa);
                        if (int(qa[3]) == a) ++carried; else if (int(qa[3]) == 255) ++maxed; else ++other;
                    }
                }
            }
        if (r == 77) { gil::rgb8_pixel_t p(r, 200, 17); gil::cmyk8_pixel_t c; gil::color_convert(p, c); gil::cmyka8_pixel_t ca(c[0], c[1], c[2], c[3], 255); gil::rgba8_pixel_t q; gil::color_convert(ca, q);
            ctx.sample(vh::S() << "cmyka: rgb8(77,200,17) -> cmyk8 -> cmyka8(" << int(ca[0]) << "," << int(ca[1]) << "," << int(ca[2]) << "," << int(ca[3]) << ",255) -> rgba8(" << int(q[0]) << "," << int(q[1]) << "," << int(q[2]) << "," << int(q[3]) << ")"); }
        if (ctx.timed_out()) break;
    }
    for (int k = 0; k < 5; ++k) ctx.counters[std::string("cmyka") + (k < 4 ? "_err_eq_" + std::to_string(k) : std::string("_err_gt_3"))] += hist[k];
    ctx.counters["cmyka_roundtrip_fail_pixels"] += bad;
    ctx.counters["cmyka_nonopaque_alpha_carried"] += carried;
    ctx.counters["cmyka_nonopaque_alpha_set_to_max"] += maxed;
    ctx.counters["cmyka_nonopaque_alpha_other"] += other;
    ctx.witness["cmyka_pixels"] += hist[0] + hist[1] + hist[2] + hist[3] + hist[4];
}

// gray_alpha -> rgba: alpha carried over (statement), grey replicated; all 2^16 (g,a) for 8-bit in
// both layouts and into four rgba layouts; wide=1 adds all 2^32 (g,a) of gray_alpha16 -> rgba16.
template <class GA, class RGBA> static void ga_one(vh::Ctx& ctx, const char* nm, int g, int a, long& nfail)
{
    GA s; gil::get_color(s, gil::gray_color_t()) = g; gil::get_color(s, gil::alpha_t()) = a;
    RGBA d; gil::color_convert(s, d);
    ++ctx.evaluations;
    if (a != 0 && a != 255 && g != 0 && g != 255) ++ctx.nontrivial;
    if (int(gil::get_color(d, gil::alpha_t())) != a && nfail++ < 64)
        ctx.fail(vh::S() << nm << "(g=" << g << ",a=" << a << ")", "alpha-not-carried", vh::S() << "alpha=" << int(gil::get_color(d, gil::alpha_t())));
    if ((int(gil::get_color(d, gil::red_t())) != g || int(gil::get_color(d, gil::green_t())) != g || int(gil::get_color(d, gil::blue_t())) != g) && nfail++ < 64)
        ctx.fail(vh::S() << nm << "(g=" << g << ",a=" << a << ")", "grey-not-replicated",
                 vh::S() << "rgb=(" << int(gil::get_color(d, gil::red_t())) << "," << int(gil::get_color(d, gil::green_t())) << "," << int(gil::get_color(d, gil::blue_t())) << ")");
}
VH_GROUP(gray_alpha)
{
    using ga8 = gil::gray_alpha8_pixel_t;
    // gil::alpha_gray8_pixel_t cannot be used: alpha_gray_layout_t is declared over the *layout* instead of the
    // colour space and get_color() on it does not compile (see design_notes/C18.md); the harness declares the
    // alpha-first layout the obvious way.
    using ag8 = gil::pixel<uint8_t, gil::layout<gil::gray_alpha_t, boost::mp11::mp_list_c<int, 1, 0>>>;
    long nf[8] = {0};
    for (int g = 0; g < 256; ++g)
    {
        if (!ctx.take()) continue;
        ctx.cur = vh::S() << "gray_alpha8 g=" << g;
        for (int a = 0; a < 256; ++a)
        {
            ga_one<ga8, gil::rgba8_pixel_t>(ctx, "gray_alpha8>rgba8", g, a, nf[0]);
            ga_one<ga8, gil::bgra8_pixel_t>(ctx, "gray_alpha8>bgra8", g, a, nf[1]);
            ga_one<ga8, gil::argb8_pixel_t>(ctx, "gray_alpha8>argb8", g, a, nf[2]);
            ga_one<ga8, gil::abgr8_pixel_t>(ctx, "gray_alpha8>abgr8", g, a, nf[3]);
            ga_one<ag8, gil::rgba8_pixel_t>(ctx, "alpha_gray8>rgba8", g, a, nf[4]);
            ga_one<ag8, gil::argb8_pixel_t>(ctx, "alpha_gray8>argb8", g, a, nf[5]);
        }
        ++ctx.witness["gray_alpha8_rows"];
    }
    { gil::gray_alpha8_pixel_t s(200, 31); gil::rgba8_pixel_t d; gil::color_convert(s, d);
      ctx.sample(vh::S() << "gray_alpha8(200,31) -> rgba8(" << int(d[0]) << "," << int(d[1]) << "," << int(d[2]) << "," << int(d[3]) << ")"); }
    // toolbox gray->rgba converter (color_converters/gray_to_rgba.hpp): alpha = max, grey replicated
    for (int v = 0; v < 65536; ++v)
    {
        if ((v & 255) == 0 && !ctx.take()) { v += 255; continue; }
        gil::gray16_pixel_t s(v); gil::rgba16_pixel_t d; gil::color_convert(s, d);
        ++ctx.evaluations; if (v != 0 && v != 65535) ++ctx.nontrivial;
        if (!(d[0] == v && d[1] == v && d[2] == v && d[3] == 65535) && nf[6]++ < 64)
            ctx.fail(vh::S() << "gray16>rgba16(" << v << ")", "gray-to-rgba", vh::S() << "(" << d[0] << "," << d[1] << "," << d[2] << "," << d[3] << ")");
        if (v < 256)
        {
            gil::gray8_pixel_t s8(v); gil::rgba8_pixel_t d8; gil::color_convert(s8, d8); ++ctx.evaluations;
            if (!(d8[0] == v && d8[1] == v && d8[2] == v && d8[3] == 255) && nf[7]++ < 64)
                ctx.fail(vh::S() << "gray8>rgba8(" << v << ")", "gray-to-rgba", vh::S() << "(" << int(d8[0]) << "," << int(d8[1]) << "," << int(d8[2]) << "," << int(d8[3]) << ")");
        }
        ++ctx.witness["gray_to_rgba_values"];
    }
    if (ctx.B("wide", 0))
    {
        long nfw = 0;
        for (long g = 0; g < 65536; ++g)
        {
            if ((g & 63) == 0 && !ctx.take()) { g += 63; continue; }
            ctx.cur = vh::S() << "gray_alpha16 g=" << g;
            for (long a = 0; a < 65536; ++a)
            {
                long go = g, ao = a; opaque(go); opaque(ao);        // keep the optimiser from proving the loop away
                gil::gray_alpha16_pixel_t s(go, ao); gil::rgba16_pixel_t d; gil::color_convert(s, d);
                if (!(d[3] == a) && nfw++ < 64) ctx.fail(vh::S() << "gray_alpha16>rgba16(g=" << g << ",a=" << a << ")", "alpha-not-carried", vh::S() << "alpha=" << d[3]);
                if (!(d[0] == g && d[1] == g && d[2] == g) && nfw++ < 64) ctx.fail(vh::S() << "gray_alpha16>rgba16(g=" << g << ",a=" << a << ")", "grey-not-replicated");
            }
            ctx.evaluations += 65536; ctx.nontrivial += (g != 0 && g != 65535) ? 65534 : 0;
            ++ctx.witness["gray_alpha16_rows"];
            if ((g & 1023) == 0 && ctx.timed_out()) break;
        }
    }
}

// toolbox luminance (rgb_to_luminance_fn<double,double,double,G>, reached through color_convert of
// pixel<double,rgb> -> pixel<double,gray>) agrees with the core rgb->gray weights: equals
// 0.30r+0.59g+0.11b (long double reference, 1e-9 relative) and is within one unit of what the
// core 8-bit converter returns for the same pixel.  All 2^24 (r,g,b) in 0..255.
VH_GROUP(luminance)
{
    using rgb64f = gil::pixel<double, gil::rgb_layout_t>;
    using gray64f = gil::pixel<double, gil::gray_layout_t>;
    long nf = 0, le_half = 0, gt_half = 0;
    for (int r = 0; r < 256; ++r)
    {
        if (!ctx.take()) continue;
        ctx.cur = vh::S() << "luminance r=" << r;
        for (int g = 0; g < 256; ++g)
            for (int b = 0; b < 256; ++b)
            {
                rgb64f p; p[0] = r; p[1] = g; p[2] = b; gray64f y;
                gil::color_convert(p, y);
                gil::rgb8_pixel_t p8(r, g, b); gil::gray8_pixel_t y8; gil::color_convert(p8, y8);
                ++ctx.evaluations; if (!(r == g && g == b)) ++ctx.nontrivial;
                long double ref = 0.30L * r + 0.59L * g + 0.11L * b;
                long double d1 = fabsl((long double)double(y[0]) - ref);
                long double d2 = fabsl((long double)double(y[0]) - (long double)int(y8[0]));
                if (d2 <= 0.5L) ++le_half; else ++gt_half;
                if (!(d1 <= 1e-9L * (1.0L + ref)) && nf++ < 64)
                    ctx.fail(vh::S() << "luminance/(" << r << "," << g << "," << b << ")", "toolbox-luminance-weights", vh::S() << "got " << double(y[0]) << " reference " << double(ref));
                if (!(d2 <= 1.0L) && nf++ < 64)
                    ctx.fail(vh::S() << "luminance/(" << r << "," << g << "," << b << ")", "toolbox-vs-core>1unit", vh::S() << "toolbox " << double(y[0]) << " core gray8 " << int(y8[0]));
            }
        ++ctx.witness["luminance_rows"];
        if (r == 100) { rgb64f p(100., 200., 17.); gray64f y; gil::color_convert(p, y); gil::rgb8_pixel_t p8(100, 200, 17); gil::gray8_pixel_t y8; gil::color_convert(p8, y8);
            ctx.sample(vh::S() << "luminance: toolbox(100,200,17) = " << double(y[0]) << ", core gray8 = " << int(y8[0])); }
        if (ctx.timed_out()) break;
    }
    ctx.counters["luminance_diff_to_core_le_half_unit"] += le_half;
    ctx.counters["luminance_diff_to_core_gt_half_unit"] += gt_half;
}

VH_MAIN
