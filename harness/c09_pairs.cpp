// C09 — every ordered pair of core colour spaces, layouts and channel depths on the value lattice.
// Compiled once per source channel depth (-DC09_PART=0 uint8, 1 uint16, 2 float32, 3 int8) to keep
// each TU's compile time down.  For a source depth S the pairs are:
//   all 8 source layouts (gray, rgb, bgr, rgba, bgra, argb, abgr, cmyk) at S
//     x ( all 8 layouts at S  +  the 4 canonical layouts at each other depth )
// (int8: canonical source layouts only).  Source pixels: every tuple over the per-depth lattice
// (c09_common.hpp); bound big=1 selects the larger lattices.  Pure value enumeration.
#include "c09_common.hpp"

using namespace c09;

#ifndef C09_PART
#define C09_PART 0
#endif

template <class T> using AllLayouts = mp::mp_list<
    gil::pixel<T, gil::gray_layout_t>, gil::pixel<T, gil::rgb_layout_t>, gil::pixel<T, gil::bgr_layout_t>,
    gil::pixel<T, gil::rgba_layout_t>, gil::pixel<T, gil::bgra_layout_t>, gil::pixel<T, gil::argb_layout_t>,
    gil::pixel<T, gil::abgr_layout_t>, gil::pixel<T, gil::cmyk_layout_t>>;
template <class T> using Canon = mp::mp_list<
    gil::pixel<T, gil::gray_layout_t>, gil::pixel<T, gil::rgb_layout_t>, gil::pixel<T, gil::rgba_layout_t>, gil::pixel<T, gil::cmyk_layout_t>>;

using Depths = mp::mp_list<uint8_t, uint16_t, gil::float32_t, int8_t>;
using SrcT = mp::mp_at_c<Depths, C09_PART>;
using OtherDepths = mp::mp_remove<Depths, SrcT>;

using Srcs = mp::mp_if_c<C09_PART == 3, Canon<SrcT>, AllLayouts<SrcT>>;
using Dsts = mp::mp_append<mp::mp_if_c<C09_PART == 3, Canon<SrcT>, AllLayouts<SrcT>>,
                           Canon<mp::mp_at_c<OtherDepths, 0>>, Canon<mp::mp_at_c<OtherDepths, 1>>, Canon<mp::mp_at_c<OtherDepths, 2>>>;

template <class SP> struct ForDst
{
    vh::Ctx& ctx; long big;
    template <class DP> void operator()(mp::mp_identity<DP>) const
    {
        if (!ctx.take()) return;
        ctx.cur = PName<SP>::s() + ">" + PName<DP>::s();
        Pair<SP, DP> p(ctx);
        p.lattice_run(big);
        if (!std::is_same<typename SP::layout_t, typename DP::layout_t>::value) ++ctx.witness["pairs_layouts_differ"];
        if (std::is_same<typename SP::layout_t, gil::bgr_layout_t>::value || std::is_same<typename SP::layout_t, gil::argb_layout_t>::value ||
            std::is_same<typename SP::layout_t, gil::abgr_layout_t>::value || std::is_same<typename SP::layout_t, gil::bgra_layout_t>::value)
            ++ctx.witness["pairs_reordered_source_layout"];
    }
};
struct ForSrc
{
    vh::Ctx& ctx; long big;
    template <class SP> void operator()(mp::mp_identity<SP>) const
    {
        if (ctx.timed_out()) return;
        mp::mp_for_each<mp::mp_transform<mp::mp_identity, Dsts>>(ForDst<SP>{ctx, big});
    }
};

VH_GROUP(pairs)
{
    vh::ubsan_counts() = false;      // the statement does not speak about undefined behaviour
    mp::mp_for_each<mp::mp_transform<mp::mp_identity, Srcs>>(ForSrc{ctx, ctx.B("big", 0)});
}

VH_MAIN
