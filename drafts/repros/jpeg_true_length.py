import sys,hashlib
def true_len(b):
    assert b[0:2]==b'\xff\xd8'
    i=2
    while True:
        assert b[i]==0xFF, i
        m=b[i+1]
        L=(b[i+2]<<8)|b[i+3]
        i+=2+L
        if m==0xDA: break
    while True:
        if b[i]==0xFF and b[i+1]!=0 and not (0xD0<=b[i+1]<=0xD7):
            assert b[i+1]==0xD9, hex(b[i+1]); return i+2
        i+=1
for f in sys.argv[1:]:
    b=open(f,'rb').read(); n=true_len(b); print(f, len(b), n, hashlib.sha1(b[:n]).hexdigest()[:12])
