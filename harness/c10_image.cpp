// C10 — image is a leak-free deep-value container over any operation history (DESIGN.md §2 C10).
// Explicit-state breadth-first search over operation histories on two image slots (plus a fixed image
// of the other planarity as source of converting copy/assign).  Every history is replayed from scratch
// on fresh objects (images hold raw pointers), the canonical state reached is hashed for
// deduplication, and the invariant is evaluated after EVERY transition.  Monitors: a checking allocator
// with a global ledger (every allocate recorded with size and allocator id; every deallocate matched
// against a live record), a counting element type (census of constructed elements by address), ASan.
// Deviations: an allocation / element-construction failure injected at every possible point of every
// transition.
#include "vh.hpp"
#include <boost/gil.hpp>
#include <map>
#include <set>
#include <deque>
#include <new>
#include <memory>
#include <stdexcept>

namespace gil = boost::gil;

// ------------------------------------------------------------------ ledger
struct Ledger
{
    struct Rec { std::size_t size; int aid; void* base; };
    std::map<void*, Rec> live;
    std::vector<std::string> errors;
    long allocs = 0, deallocs = 0;
    long fail_at = -1, armed_allocs = 0; bool armed = false, want = false;
    int misalign = 0;
    void reset() { for (auto& kv : live) std::free(kv.second.base); live.clear(); errors.clear(); allocs = deallocs = 0; fail_at = -1; armed = false; want = false; armed_allocs = 0; }
    void* allocate(std::size_t n, int aid)
    {
        if (armed) { if (armed_allocs++ == fail_at) throw std::bad_alloc(); }
        ++allocs;
        void* base = nullptr;
        if (posix_memalign(&base, 64, n + 64) != 0) throw std::bad_alloc();
        void* p = static_cast<unsigned char*>(base) + misalign;
        live[p] = Rec{n, aid, base};
        return p;
    }
    void deallocate(void* p, std::size_t n, int aid)
    {
        ++deallocs;
        auto it = live.find(p);
        if (it == live.end()) { errors.push_back("deallocate-of-unknown-or-already-freed-block"); return; }
        if (it->second.size != n) errors.push_back("deallocate-size-mismatch");
        if (it->second.aid != aid) errors.push_back("deallocate-by-other-allocator");
        std::free(it->second.base);
        live.erase(it);
    }
};
static Ledger& L() { static Ledger l; return l; }

// allocator kinds: 0 = stateless (always equal, empty class), 1 = stateful propagating, 2 = stateful sticky
template <class T, int Kind> struct CheckAlloc
{
    using value_type = T;
    using propagate_on_container_copy_assignment = std::integral_constant<bool, Kind == 1>;
    using propagate_on_container_move_assignment = std::integral_constant<bool, Kind == 1>;
    using propagate_on_container_swap = std::integral_constant<bool, Kind == 1>;
    using is_always_equal = std::false_type;
    int id;
    CheckAlloc(int i = 1) : id(i) {}
    template <class U> CheckAlloc(CheckAlloc<U, Kind> const& o) : id(o.id) {}
    template <class U> struct rebind { using other = CheckAlloc<U, Kind>; };
    T* allocate(std::size_t n) { return static_cast<T*>(L().allocate(n * sizeof(T), id)); }
    void deallocate(T* p, std::size_t n) { L().deallocate(p, n * sizeof(T), id); }
    bool operator==(CheckAlloc const& o) const { return id == o.id; }
    bool operator!=(CheckAlloc const& o) const { return id != o.id; }
    int get_id() const { return id; }
    static bool propagate_swap_or_equal(CheckAlloc const& a, CheckAlloc const& b) { return Kind == 1 || a.id == b.id; }
};
template <class T> struct CheckAlloc<T, 0>
{
    using value_type = T;
    using is_always_equal = std::true_type;
    CheckAlloc(int = 1) {}
    template <class U> CheckAlloc(CheckAlloc<U, 0> const&) {}
    template <class U> struct rebind { using other = CheckAlloc<U, 0>; };
    T* allocate(std::size_t n) { return static_cast<T*>(L().allocate(n * sizeof(T), 1)); }
    void deallocate(T* p, std::size_t n) { L().deallocate(p, n * sizeof(T), 1); }
    bool operator==(CheckAlloc const&) const { return true; }
    bool operator!=(CheckAlloc const&) const { return false; }
    int get_id() const { return 1; }
    static bool propagate_swap_or_equal(CheckAlloc const&, CheckAlloc const&) { return true; }
};

// ------------------------------------------------------------------ counting channel (non-trivial element)
struct Census
{
    std::set<void const*> live;
    std::vector<std::string> errors;
    long constructions = 0, fail_at = -1, armed_ctors = 0; bool armed = false, want = false;
    void reset() { live.clear(); errors.clear(); constructions = 0; fail_at = -1; armed = false; want = false; armed_ctors = 0; }
    void born(void const* p)
    {
        if (armed) { if (armed_ctors++ == fail_at) throw std::runtime_error("element construction failed"); }
        ++constructions;
        if (!live.insert(p).second) errors.push_back("element-constructed-twice-at-one-address");
    }
    void died(void const* p) { if (!live.erase(p)) errors.push_back("destroyed-element-never-constructed"); }
};
static Census& C() { static Census c; return c; }

struct CChan
{
    using value_type = CChan; using reference = CChan&; using const_reference = CChan const&;
    using pointer = CChan*; using const_pointer = CChan const*;
    static constexpr bool is_mutable = true;
    static CChan min_value() { return CChan(0); }
    static CChan max_value() { return CChan(255); }
    unsigned char v;
    CChan() : v(0) { C().born(this); }
    CChan(int x) : v((unsigned char)x) { C().born(this); }
    CChan(CChan const& o) : v(o.v) { C().born(this); }
    CChan& operator=(CChan const& o) { v = o.v; return *this; }
    ~CChan() { C().died(this); }
    operator int() const { return v; }
};
inline bool operator==(CChan const& a, CChan const& b) { return a.v == b.v; }
inline bool operator!=(CChan const& a, CChan const& b) { return a.v != b.v; }

// faults are injected (and fault points counted) only while the real GIL call runs, never in harness code
struct ArmScope
{
    ArmScope() { L().armed = L().want; C().armed = C().want; }
    ~ArmScope() { L().armed = false; C().armed = false; }
};
#define GIL_CALL(stmt) do { ArmScope arm_scope_; stmt; } while (0)

// ------------------------------------------------------------------ configurations
template <int Kind> struct CfgRgb8
{
    using A = CheckAlloc<unsigned char, Kind>;
    using Img = gil::image<gil::rgb8_pixel_t, false, A>;
    using XImg = gil::image<gil::rgb8_pixel_t, true, A>;
    static constexpr bool has_x = true, counting = false;
    static const char* name() { return "rgb8"; }
    static gil::rgb8_pixel_t make(int t) { return gil::rgb8_pixel_t((unsigned char)t, (unsigned char)(t ^ 0x55), (unsigned char)(t * 3 + 1)); }
    template <class P> static long read(P const& p) { return long(gil::at_c<0>(p)) | long(gil::at_c<1>(p)) << 8 | long(gil::at_c<2>(p)) << 16; }
    template <class V> static unsigned char const* row_addr(V const& v, long y, int) { return reinterpret_cast<unsigned char const*>(&v(0, y)); }
    static int planes() { return 1; }
    static gil::rgb8_pixel_t fillv(int t) { return make(t); }
    static typename Img::const_view_t src_view(Img& i) { return gil::const_view(i); }
};
template <int Kind> struct CfgRgb8Planar
{
    using A = CheckAlloc<unsigned char, Kind>;
    using Img = gil::image<gil::rgb8_pixel_t, true, A>;
    using XImg = gil::image<gil::rgb8_pixel_t, false, A>;
    static constexpr bool has_x = true, counting = false;
    static const char* name() { return "rgb8_planar"; }
    static gil::rgb8_pixel_t make(int t) { return CfgRgb8<Kind>::make(t); }
    template <class P> static long read(P const& p) { return long(gil::at_c<0>(p)) | long(gil::at_c<1>(p)) << 8 | long(gil::at_c<2>(p)) << 16; }
    template <class V> static unsigned char const* row_addr(V const& v, long y, int pl)
    {
        auto r = v(0, y);
        return pl == 0 ? &gil::at_c<0>(r) : pl == 1 ? &gil::at_c<1>(r) : &gil::at_c<2>(r);
    }
    static int planes() { return 3; }
    static gil::rgb8_pixel_t fillv(int t) { return make(t); }
    static typename Img::const_view_t src_view(Img& i) { return gil::const_view(i); }
};
template <int Kind> struct CfgGray16
{
    using A = CheckAlloc<unsigned char, Kind>;
    using Img = gil::image<gil::gray16_pixel_t, false, A>;
    using XImg = Img;
    static constexpr bool has_x = false, counting = false;
    static const char* name() { return "gray16"; }
    static gil::gray16_pixel_t make(int t) { return gil::gray16_pixel_t((unsigned short)(t * 257 + 3)); }
    template <class P> static long read(P const& p) { return long(gil::at_c<0>(p)); }
    template <class V> static unsigned char const* row_addr(V const& v, long y, int) { return reinterpret_cast<unsigned char const*>(&v(0, y)); }
    static int planes() { return 1; }
    static gil::gray16_pixel_t fillv(int t) { return make(t); }
    static typename Img::const_view_t src_view(Img& i) { return gil::const_view(i); }
};
template <int Kind> struct CfgCount
{
    using A = CheckAlloc<unsigned char, Kind>;
    using pix_t = gil::pixel<CChan, gil::gray_layout_t>;
    using Img = gil::image<pix_t, false, A>;
    using XImg = Img;
    static constexpr bool has_x = false, counting = true;
    static const char* name() { return "counting_gray"; }
    static pix_t make(int t) { return pix_t(CChan(t & 255)); }
    template <class P> static long read(P const& p) { return long(int(gil::at_c<0>(p))); }
    template <class V> static unsigned char const* row_addr(V const& v, long y, int) { return reinterpret_cast<unsigned char const*>(&v(0, y)); }
    static int planes() { return 1; }
    static pix_t fillv(int t) { return make(t); }
    static typename Img::const_view_t src_view(Img& i) { return gil::const_view(i); }
};
template <int Kind> struct CfgBits1
{
    using A = CheckAlloc<unsigned char, Kind>;
    using Img = typename gil::bit_aligned_image1_type<1, gil::gray_layout_t, A>::type;
    using XImg = Img;
    static constexpr bool has_x = false, counting = false;
    static const char* name() { return "bits_gray1"; }
    static typename Img::value_type make(int t) { typename Img::value_type p; gil::at_c<0>(p) = (t & 1); return p; }
    template <class P> static long read(P const& p) { return long(int(gil::at_c<0>(p))); }
    template <class V> static unsigned char const* row_addr(V const& v, long y, int) { return v.row_begin(y).bit_range().current_byte(); }
    static int planes() { return 1; }
    // the Pixel parameter of a bit-aligned image is the reference proxy: a fill value is a proxy onto a harness byte
    static typename Img::view_t::reference fillv(int t) { static unsigned char cell[4]; cell[0] = (unsigned char)(t & 1); return typename Img::view_t::reference(cell, 0); }
    // image(const_view) does not compile for bit-aligned images (uninitialized_copy builds a mutable proxy from a const one): use the mutable view
    static typename Img::view_t src_view(Img& i) { return gil::view(i); }
};

// ------------------------------------------------------------------ the machine
struct Op { int code, slot, dim, align, aid; };
enum { CTOR, CTOR_FILL, CTOR_DEFAULT, CTOR_COPY, CTOR_MOVE, CTOR_VIEW, CTOR_CONV, DESTROY, ASSIGN, ASSIGN_SELF, ASSIGN_CONV, MOVE_ASSIGN, MOVE_ASSIGN_SELF,
       RECREATE, RECREATE_FILL, RECREATE_ALLOC, RECREATE_FILL_ALLOC, SWAP, SWAP_FREE, POKE, NCODES };
static const char* opname[] = {"ctor", "ctor_fill", "ctor_default", "ctor_copy", "ctor_move", "ctor_view", "ctor_conv", "destroy", "assign", "assign_self", "assign_conv",
                               "move_assign", "move_assign_self", "recreate", "recreate_fill", "recreate_alloc", "recreate_fill_alloc", "swap", "swap_free", "poke"};
static const long DIMS[][2] = {{0, 0}, {1, 1}, {3, 2}, {2, 3}, {4, 4}, {0, 3}, {5, 1}};

static std::string op_str(Op const& o)
{
    vh::S s; s << opname[o.code] << "(s" << o.slot;
    if (o.dim >= 0) s << "," << DIMS[o.dim][0] << "x" << DIMS[o.dim][1];
    if (o.align >= 0) s << ",a" << o.align;
    if (o.aid > 0) s << ",alloc" << o.aid;
    s << ")";
    return s;
}
static std::string hist_str(std::vector<Op> const& h) { std::string r; for (auto& o : h) r += (r.empty() ? "" : ";") + op_str(o); return r.empty() ? "<init>" : r; }

template <class Cfg> struct Machine
{
    using Img = typename Cfg::Img; using XImg = typename Cfg::XImg; using A = typename Cfg::A;
    using point_t = typename Img::point_t;
    typename std::aligned_storage<sizeof(Img), alignof(Img)>::type store[2];
    bool alive[2] = {false, false};
    std::unique_ptr<XImg> x;
    struct MS { long w = 0, h = 0; long align = 0; bool known = false; std::vector<long> px; } ms[2];
    vh::Ctx& ctx;
    std::vector<std::string> fails;      // (sig) collected for the transition in flight
    bool threw = false;

    Machine(vh::Ctx& c) : ctx(c)
    {
        L().reset(); C().reset();
        if (Cfg::has_x) { x.reset(new XImg(3, 2, 0, A(1))); long i = 0; for (auto it = gil::view(*x).begin(); it != gil::view(*x).end(); ++it, ++i) *it = Cfg::make(int(200 + i)); }
    }
    ~Machine() { for (int s = 0; s < 2; ++s) if (alive[s]) { img(s).~Img(); alive[s] = false; } x.reset(); }
    Img& img(int s) { return *reinterpret_cast<Img*>(&store[s]); }

    static int paint_tag(int s, long i) { return int((s * 97 + i * 7 + 1) % 251); }
    void paint(int s)
    {
        auto v = gil::view(img(s));
        ms[s].w = v.width(); ms[s].h = v.height(); ms[s].px.clear();
        long i = 0;
        for (long y = 0; y < v.height(); ++y) for (long xx = 0; xx < v.width(); ++xx, ++i) { v(xx, y) = Cfg::make(paint_tag(s, i)); ms[s].px.push_back(Cfg::read(Cfg::make(paint_tag(s, i)))); }
        ms[s].known = true;
    }
    void fail(std::string const& sig) { fails.push_back(sig); }

    // -- apply one op; exceptions from GIL are caught and recorded (threw = true)
    void apply(Op const& o)
    {
        const int s = o.slot, t = 1 - s;
        point_t d(0, 0); if (o.dim >= 0) d = point_t(DIMS[o.dim][0], DIMS[o.dim][1]);
        std::size_t al = o.align >= 0 ? std::size_t(o.align) : 0;
        A a(o.aid > 0 ? o.aid : 1);
        threw = false;
        unsigned char* old_mem = alive[s] ? img(s)._memory : nullptr;
        std::size_t old_cap = alive[s] ? img(s)._allocated_bytes : 0;
        bool old_same_alloc = alive[s] && (o.aid <= 0 || img(s)._alloc == typename Img::allocator_type(a));
        try
        {
            switch (o.code)
            {
            case CTOR: GIL_CALL(new (&store[s]) Img(d, al, a)); alive[s] = true; ms[s].align = long(al); paint(s); if (long(img(s).width()) != d.x || long(img(s).height()) != d.y) fail("ctor-dimensions"); break;
            case CTOR_FILL: { auto fv = Cfg::fillv(77); GIL_CALL(new (&store[s]) Img(d, fv, al, a)); } alive[s] = true; ms[s].align = long(al); fill_observed(s, 77); paint(s); if (long(img(s).width()) != d.x || long(img(s).height()) != d.y) fail("ctor-dimensions"); break;
            case CTOR_DEFAULT: GIL_CALL(new (&store[s]) Img(al, a)); alive[s] = true; ms[s].align = long(al); ms[s].w = ms[s].h = 0; ms[s].px.clear(); ms[s].known = true; break;
            case CTOR_COPY: GIL_CALL(new (&store[s]) Img(img(t))); alive[s] = true; ms[s] = ms[t]; ms[s].align = 0; break;
            case CTOR_MOVE: GIL_CALL(new (&store[s]) Img(std::move(img(t)))); alive[s] = true; ms[s] = ms[t]; ms[s].align = 0; moved_from(t); break;
            case CTOR_VIEW: { auto sv = Cfg::src_view(img(t)); GIL_CALL(new (&store[s]) Img(sv, al, a)); } alive[s] = true; ms[s] = ms[t]; ms[s].align = long(al); break;
            case CTOR_CONV: GIL_CALL(new (&store[s]) Img(*x)); alive[s] = true; from_x(s); ms[s].align = 0; break;
            case DESTROY: GIL_CALL(img(s).~Img()); alive[s] = false; ms[s] = MS(); break;
            case ASSIGN: GIL_CALL(img(s) = img(t)); { long al0 = ms[s].align; bool same = ms[s].w == ms[t].w && ms[s].h == ms[t].h; ms[s] = ms[t]; ms[s].align = same ? al0 : 0; } break;
            case ASSIGN_SELF: { Img& r = img(s); GIL_CALL(img(s) = r); } break;
            case ASSIGN_CONV: GIL_CALL(img(s) = *x); { long al0 = ms[s].align; bool same = ms[s].w == 3 && ms[s].h == 2; from_x(s); ms[s].align = same ? al0 : 0; } break;
            case MOVE_ASSIGN: GIL_CALL(img(s) = std::move(img(t))); ms[s] = ms[t]; ms[s].align = 0; moved_from(t); break;
            case MOVE_ASSIGN_SELF: { Img& r = img(s); GIL_CALL(img(s) = std::move(r)); } break;
            case RECREATE: GIL_CALL(img(s).recreate(d, al)); ms[s].align = long(al); paint(s); after_recreate(s, d, al, old_mem, old_cap, true); break;
            case RECREATE_FILL: { auto fv = Cfg::fillv(99); GIL_CALL(img(s).recreate(d, fv, al)); } ms[s].align = long(al); fill_observed(s, 99); paint(s); after_recreate(s, d, al, old_mem, old_cap, true); break;
            case RECREATE_ALLOC: GIL_CALL(img(s).recreate(d, al, a)); ms[s].align = long(al); paint(s); after_recreate(s, d, al, old_mem, old_cap, old_same_alloc); break;
            case RECREATE_FILL_ALLOC: { auto fv = Cfg::fillv(98); GIL_CALL(img(s).recreate(d, fv, al, a)); } ms[s].align = long(al); fill_observed(s, 98); paint(s); after_recreate(s, d, al, old_mem, old_cap, old_same_alloc); break;
            case SWAP: GIL_CALL(img(s).swap(img(t))); std::swap(ms[s], ms[t]); break;
            case SWAP_FREE: { using gil::swap; GIL_CALL(swap(img(s), img(t))); std::swap(ms[s], ms[t]); } break;
            case POKE: { auto v = gil::view(img(s)); v(0, 0) = Cfg::make(250); ms[s].px[0] = Cfg::read(Cfg::make(250)); } break;
            }
        }
        catch (std::bad_alloc const&) { threw = true; }
        catch (std::runtime_error const&) { threw = true; }
        if (threw)
        {
            // a constructor that threw leaves the slot dead; any other op leaves a (still valid) image of unspecified value
            if (o.code <= CTOR_CONV) { alive[s] = false; ms[s] = MS(); }
            else { for (int k = 0; k < 2; ++k) if (alive[k]) { ms[k].known = false; ms[k].align = 0; ms[k].w = img(k).width(); ms[k].h = img(k).height(); } }
        }
    }
    void moved_from(int t) { ms[t].known = false; ms[t].w = img(t).width(); ms[t].h = img(t).height(); if (ms[t].w * ms[t].h == 0) { ms[t].known = true; ms[t].px.clear(); } }
    void from_x(int s) { ms[s].w = 3; ms[s].h = 2; ms[s].px.clear(); for (long i = 0; i < 6; ++i) ms[s].px.push_back(Cfg::read(Cfg::make(int(200 + i)))); ms[s].known = true; }
    // The statement does not say what the pixels hold after a fill-constructor / recreate-with-fill, so this is only
    // observed (evidence counters), never failed: e.g. image(dims, fill) of a bit-aligned image leaves the pixels unfilled.
    void fill_observed(int s, int tag)
    {
        auto v = gil::const_view(img(s)); bool all = true;
        for (long y = 0; y < v.height(); ++y) for (long xx = 0; xx < v.width(); ++xx) if (Cfg::read(v(xx, y)) != Cfg::read(Cfg::make(tag))) all = false;
        if (v.width() * v.height() > 0) ++ctx.counters[all ? "fill_value_applied" : "fill_value_not_applied"];
    }
    void after_recreate(int s, point_t d, std::size_t al, unsigned char* old_mem, std::size_t old_cap, bool same_alloc)
    {
        if (long(img(s).width()) != d.x || long(img(s).height()) != d.y) fail("recreate-dimensions");
        // "existing storage is reused when large enough": large enough = at least what a fresh image of this shape obtains
        if (old_mem && same_alloc)
        {
            std::size_t need; { Img probe(d, al, A(1)); need = probe._allocated_bytes; }
            if (need > 0 && old_cap >= need) { ++ctx.witness["recreate_reuse_expected"]; if (img(s)._memory != old_mem) fail("recreate-did-not-reuse-storage"); }
            else ++ctx.witness["recreate_realloc_expected"];
        }
    }

    // -- invariant after every transition (row alignment is promised after construction with an alignment and after
    //    recreate; ms[s].align == 0 means 'not promised here', e.g. for copies and assignment targets)
    void invariant()
    {
        for (auto& e : L().errors) fail("ledger:" + e);
        L().errors.clear();
        for (auto& e : C().errors) fail("census:" + e);
        C().errors.clear();
        std::set<void*> owned;
        if (x && x->_memory) owned.insert(x->_memory);
        long elems = 0;
        for (int s = 0; s < 2; ++s)
        {
            if (!alive[s]) continue;
            Img& im = img(s);
            long w = im.width(), h = im.height();
            if (w * h > 0 && !im._memory) fail("non-empty-image-without-storage");
            // "owns exactly one live allocation of the size it recorded (or none when empty)": no block, no recorded size
            if (!im._memory && im._allocated_bytes != 0) fail("recorded-size-without-allocation");
            if (im._memory)
            {
                auto it = L().live.find(im._memory);
                if (it == L().live.end()) fail("image-memory-not-a-live-allocation");
                else
                {
                    if (it->second.size != im._allocated_bytes) fail("recorded-size-differs-from-allocation");
                    if (it->second.aid != im._alloc.get_id()) fail("block-owned-by-image-with-other-allocator");
                    if (!owned.insert(im._memory).second) fail("two-images-share-one-allocation");
                    // every row start inside the block and aligned as requested
                    unsigned char const* lo = im._memory; unsigned char const* hi = lo + it->second.size;
                    auto v = gil::const_view(im);
                    for (long y = 0; y < h && w > 0; ++y) for (int pl = 0; pl < Cfg::planes(); ++pl)
                    {
                        unsigned char const* r = Cfg::row_addr(v, y, pl);
                        if (r < lo || r >= hi) fail("row-outside-allocation");
                        if (ms[s].align > 0 && (reinterpret_cast<std::size_t>(r) % std::size_t(ms[s].align)) != 0) fail("row-start-not-aligned");
                    }
                }
            }
            if (w != ms[s].w || h != ms[s].h) fail("dimensions-differ-from-model");
            else if (ms[s].known)
            {
                auto v = gil::const_view(im); long i = 0; bool bad = false;
                for (long y = 0; y < h; ++y) for (long xx = 0; xx < w; ++xx, ++i) if (Cfg::read(v(xx, y)) != ms[s].px[std::size_t(i)]) bad = true;
                if (bad) fail("contents-differ-from-model");
            }
            elems += w * h;
        }
        for (auto& kv : L().live) if (!owned.count(kv.first)) { fail("leak:live-allocation-owned-by-no-image"); break; }
        if (Cfg::counting && long(C().live.size()) != elems) fail(long(C().live.size()) > elems ? "census:more-live-elements-than-pixels" : "census:fewer-live-elements-than-pixels");
    }
    void teardown_check()
    {
        for (int s = 0; s < 2; ++s) if (alive[s]) { img(s).~Img(); alive[s] = false; }
        x.reset();
        for (auto& e : L().errors) fail("teardown:ledger:" + e);
        for (auto& e : C().errors) fail("teardown:census:" + e);
        if (!L().live.empty()) fail("teardown:leak");
        if (!C().live.empty()) fail("teardown:elements-never-destroyed");
        L().errors.clear(); C().errors.clear();
    }
    std::string key()
    {
        vh::S k;
        for (int s = 0; s < 2; ++s)
        {
            if (!alive[s]) { k << "-|"; continue; }
            Img& im = img(s);
            uint64_t h = 7; for (long v : ms[s].px) h = vh::mix(h, uint64_t(v));
            k << im.width() << "x" << im.height() << ",a" << im._align_in_bytes << ",ma" << ms[s].align << ",id" << im._alloc.get_id() << ",cap" << im._allocated_bytes
              << ",m" << (im._memory ? 1 : 0) << ",k" << ms[s].known << ",c" << (h & 0xffffff) << "|";
        }
        return k;
    }
    // enabled operations in this state
    std::vector<Op> enabled(long ndims, std::vector<int> const& aligns, int naids)
    {
        std::vector<Op> r;
        for (int s = 0; s < 2; ++s)
        {
            int t = 1 - s;
            if (!alive[s])
            {
                for (int d = 0; d < ndims; ++d) for (int al : aligns) for (int id = 1; id <= naids; ++id)
                {
                    if (DIMS[d][0] * DIMS[d][1] == 0 && (DIMS[d][0] || DIMS[d][1])) continue;   // ctor of 0xN: dims not promised by the statement
                    r.push_back({CTOR, s, d, al, id}); r.push_back({CTOR_FILL, s, d, al, id});
                }
                for (int id = 1; id <= naids; ++id) r.push_back({CTOR_DEFAULT, s, -1, aligns.back(), id});
                if (alive[t]) { r.push_back({CTOR_COPY, s, -1, -1, 0}); r.push_back({CTOR_MOVE, s, -1, -1, 0}); for (int id = 1; id <= naids; ++id) r.push_back({CTOR_VIEW, s, -1, aligns.back(), id}); }
                if (Cfg::has_x) r.push_back({CTOR_CONV, s, -1, -1, 0});
            }
            else
            {
                r.push_back({DESTROY, s, -1, -1, 0});
                for (int d = 0; d < ndims; ++d) for (int al : aligns)
                {
                    r.push_back({RECREATE, s, d, al, 0}); r.push_back({RECREATE_FILL, s, d, al, 0});
                    for (int id = 1; id <= naids; ++id) { r.push_back({RECREATE_ALLOC, s, d, al, id}); r.push_back({RECREATE_FILL_ALLOC, s, d, al, id}); }
                }
                r.push_back({ASSIGN_SELF, s, -1, -1, 0}); r.push_back({MOVE_ASSIGN_SELF, s, -1, -1, 0});
                if (Cfg::has_x) r.push_back({ASSIGN_CONV, s, -1, -1, 0});
                if (img(s).width() * img(s).height() > 0 && ms[s].known) r.push_back({POKE, s, -1, -1, 0});
                if (alive[t])
                {
                    r.push_back({ASSIGN, s, -1, -1, 0}); r.push_back({MOVE_ASSIGN, s, -1, -1, 0});
                    // swapping containers whose non-propagating allocators differ is undefined for any allocator-aware container: not in the alphabet
                    bool swappable = A::propagate_swap_or_equal(img(s)._alloc, img(t)._alloc);
                    if (swappable && s == 0) { r.push_back({SWAP, s, -1, -1, 0}); r.push_back({SWAP_FREE, s, -1, -1, 0}); }
                }
            }
        }
        return r;
    }
};

// ------------------------------------------------------------------ explorer
template <class Cfg> struct Explorer
{
    vh::Ctx& ctx; std::string cfgname;
    long depth, ndims; std::vector<int> aligns; int naids; bool faults;
    long fup = 1;      // post-fault follow-ups: for a fault fired in the (|H|+1)-th operation with |H| <= fup, every enabled operation is applied once more
    std::set<std::string> seen;
    std::deque<std::vector<Op>> queue;

    void report(Machine<Cfg>& m, std::string const& id)
    {
        std::set<std::string> uniq(m.fails.begin(), m.fails.end());
        for (auto& f : uniq) ctx.fail(cfgname + "/" + id, f, "");
        m.fails.clear();
        ctx.san_take(cfgname + "/" + id);
    }
    // returns the canonical key of the state reached (empty if the op threw without injection: cannot happen fault-free)
    std::string transition(std::vector<Op> const& H, Op const& op, long& n_alloc, long& n_ctor)
    {
        Machine<Cfg> m(ctx);
        for (auto& o : H) m.apply(o);
        m.fails.clear();                       // prefixes were checked when first reached
        L().want = true; L().fail_at = -1; L().armed_allocs = 0;
        C().want = true; C().fail_at = -1; C().armed_ctors = 0;
        m.apply(op);
        n_alloc = L().armed_allocs; n_ctor = C().armed_ctors;
        L().want = false; C().want = false;
        if (m.threw) m.fail("exception-without-injected-fault");
        m.invariant();
        std::string k = m.key();
        std::vector<Op> H2 = H; H2.push_back(op);
        std::string id = hist_str(H2);
        report(m, id);
        m.teardown_check();
        report(m, id + "/teardown");
        ++ctx.evaluations; ++ctx.transitions; ++ctx.traces;
        return k;
    }
    void fault_run(std::vector<Op> const& H, Op const& op, bool alloc_fault, long f)
    {
        Machine<Cfg> m(ctx);
        for (auto& o : H) m.apply(o);
        m.fails.clear();
        L().want = alloc_fault; L().fail_at = f; L().armed_allocs = 0;
        C().want = !alloc_fault; C().fail_at = f; C().armed_ctors = 0;
        m.apply(op);
        L().want = false; C().want = false;
        if (m.threw) ++ctx.witness[alloc_fault ? "alloc_faults_fired" : "ctor_faults_fired"];
        m.invariant();
        std::vector<Op> H2 = H; H2.push_back(op);
        std::string id = hist_str(H2) + (alloc_fault ? "/fail-alloc#" : "/fail-ctor#") + std::to_string(f);
        report(m, id);
        std::vector<Op> next;                        // what is enabled in the post-fault state (taken before the teardown below destroys the images)
        if (m.threw && long(H.size()) <= fup) next = m.enabled(ndims, aligns, naids);
        m.teardown_check();
        report(m, id + "/teardown");
        ++ctx.evaluations; ++ctx.counters["fault_executions"];
        // "the target still holds a valid image": the history goes on after the exception.  Every operation enabled in the post-fault state is
        // applied once, fault-free, to a fresh replay of (H, op with the same fault); the model knows the dimensions of the surviving images
        // but neither their contents nor an alignment promise, and each operation re-establishes what the statement says about it.
        if (m.threw && long(H.size()) <= fup)
        {
            for (Op const& op2 : next)
            {
                Machine<Cfg> m2(ctx);
                for (auto& o : H) m2.apply(o);
                L().want = alloc_fault; L().fail_at = f; L().armed_allocs = 0;
                C().want = !alloc_fault; C().fail_at = f; C().armed_ctors = 0;
                m2.apply(op);
                L().want = false; C().want = false; L().fail_at = -1; C().fail_at = -1;
                if (!m2.threw) { ctx.fail(cfgname + "/" + id, "harness:fault-replay-diverged", ""); break; }
                m2.fails.clear();
                m2.apply(op2);
                if (m2.threw) m2.fail("exception-without-injected-fault");
                m2.invariant();
                std::string id2 = id + ";" + op_str(op2);
                report(m2, id2);
                m2.teardown_check();
                report(m2, id2 + "/teardown");
                ++ctx.evaluations; ++ctx.counters["post_fault_followups"];
                ++ctx.witness["post_fault_followups"];
                if (op2.code >= RECREATE && op2.code <= RECREATE_FILL_ALLOC && op.code >= RECREATE && op.code <= RECREATE_FILL_ALLOC && op2.slot == op.slot) ++ctx.witness["recreate_retried_after_failed_recreate"];
            }
        }
    }
    void run()
    {
        queue.push_back({});
        { Machine<Cfg> m0(ctx); seen.insert(m0.key()); }
        long first_level = 0;
        while (!queue.empty())
        {
            std::vector<Op> H = std::move(queue.front()); queue.pop_front();
            std::vector<Op> ops;
            { Machine<Cfg> m(ctx); for (auto& o : H) m.apply(o); ops = m.enabled(ndims, aligns, naids); }
            for (auto& op : ops)
            {
                if (H.empty() && !ctx.take()) continue;            // shard on the first operation
                ctx.cur = cfgname + "/" + hist_str(H) + ";" + op_str(op);
                long na = 0, nc = 0;
                std::string k = transition(H, op, na, nc);
                if (faults)
                {
                    for (long f = 0; f < na; ++f) fault_run(H, op, true, f);
                    if (Cfg::counting) for (long f = 0; f < nc; ++f) fault_run(H, op, false, f);
                }
                if (op.code == MOVE_ASSIGN) ++ctx.witness["move_assign"];
                if (op.code >= RECREATE && op.code <= RECREATE_FILL_ALLOC) ++ctx.witness["recreate"];
                if (seen.insert(k).second)
                {
                    ++ctx.states; ++ctx.nontrivial;
                    std::vector<Op> H2 = H; H2.push_back(op);
                    if (long(H2.size()) < depth) queue.push_back(H2);
                    ctx.sample(cfgname + ": " + hist_str(H2) + " -> " + k);
                }
                else ++ctx.counters["merged"];
                if (ctx.timed_out()) return;
            }
            (void)first_level;
        }
    }
};

template <class Cfg> void run_cfg(vh::Ctx& ctx, const char* kindname, int naids)
{
    vh::ubsan_counts() = false;
    Explorer<Cfg> ex{ctx};
    ex.cfgname = std::string(Cfg::name()) + "/" + kindname;
    ex.depth = ctx.B("depth", 3); ex.ndims = ctx.B("ndims", 5); ex.naids = naids; ex.faults = ctx.B("faults", 1) != 0; ex.fup = ctx.B("fup", 1);
    long am = ctx.B("aligns", 2);
    ex.aligns = am == 1 ? std::vector<int>{0} : am == 2 ? std::vector<int>{0, 8} : am == 3 ? std::vector<int>{0, 1, 4, 16} : std::vector<int>{0, 1, 2, 4, 8, 16, 32};
    L().misalign = int(ctx.B("misalign", 0));
    ex.run();
    ++ctx.witness[std::string("cfg_") + Cfg::name() + "_" + kindname];
}

VH_GROUP(rgb8_stateless) { run_cfg<CfgRgb8<0>>(ctx, "stateless", 1); }
VH_GROUP(rgb8_propagating) { run_cfg<CfgRgb8<1>>(ctx, "propagating", 2); }
VH_GROUP(rgb8_sticky) { run_cfg<CfgRgb8<2>>(ctx, "sticky", 2); }
VH_GROUP(planar_stateless) { run_cfg<CfgRgb8Planar<0>>(ctx, "stateless", 1); }
VH_GROUP(planar_sticky) { run_cfg<CfgRgb8Planar<2>>(ctx, "sticky", 2); }
VH_GROUP(gray16_propagating) { run_cfg<CfgGray16<1>>(ctx, "propagating", 2); }
VH_GROUP(counting_stateless) { run_cfg<CfgCount<0>>(ctx, "stateless", 1); }
VH_GROUP(counting_sticky) { run_cfg<CfgCount<2>>(ctx, "sticky", 2); }
VH_GROUP(bits1_stateless) { run_cfg<CfgBits1<0>>(ctx, "stateless", 1); }
VH_GROUP(bits1_sticky) { run_cfg<CfgBits1<2>>(ctx, "sticky", 2); }
VH_MAIN
