// C01 (view part) — every pixel of every reachable view state is touched through every accessor and the
// pixel algorithms inside an exactly-sized, guarded buffer (DESIGN.md §2 C01).  UBSan reports are recorded but do not count (see design note).
#include "vs_c01.hpp"
using namespace vs;
#define VS_POLICY C01Policy
#define VS_UBSAN false
#include "vs_groups.hpp"
VH_MAIN
