// C02 — view transformations are exact, copy-free coordinate remappings (state search; DESIGN.md §2 C02)
#include "vs_c02.hpp"
using namespace vs;
#define VS_POLICY C02Policy
#define VS_UBSAN false
#include "vs_groups.hpp"
VH_MAIN
