#include <boost/gil.hpp>
#include <cstdio>
namespace gil = boost::gil;
int main()
{
    gil::bgr8_image_t img(3, 2);
    int n = 0;
    for (int y = 0; y < 2; ++y) for (int x = 0; x < 3; ++x, ++n)
        gil::view(img)(x, y) = gil::bgr8_pixel_t((unsigned char)(200 + n), (unsigned char)(100 + n), (unsigned char)(10 + n));   // b, g, r
    auto cc = gil::color_converted_view<gil::rgb8_pixel_t>(gil::const_view(img));       // rgb = (10+n, 100+n, 200+n)
    int bad = 0;
    for (int k = 0; k < 3; ++k)
    {
        auto ch = gil::nth_channel_view(cc, k);
        auto fl = gil::flipped_left_right_view(ch);
        auto tr = gil::transposed_view(ch);
        auto ss = gil::subsampled_view(ch, 2, 1);
        auto ud = gil::flipped_up_down_view(ch);
        for (int y = 0; y < 2; ++y) for (int x = 0; x < 3; ++x)
        {
            int want = int(gil::at_c<0>(cc(x, y))) * (k == 0) + int(gil::at_c<1>(cc(x, y))) * (k == 1) + int(gil::at_c<2>(cc(x, y))) * (k == 2);
            int a = ch(x, y)[0], b = fl(2 - x, y)[0], c = tr(y, x)[0], d = ud(x, 1 - y)[0];
            if (a != want) { ++bad; printf("nth_channel_view(cc,%d)(%d,%d) = %d, want %d\n", k, x, y, a, want); }
            if (b != want) { ++bad; printf("flipped_left_right(nth_channel_view(cc,%d))(%d,%d) = %d, want %d\n", k, 2 - x, y, b, want); }
            if (c != want) { ++bad; printf("transposed(nth_channel_view(cc,%d))(%d,%d) = %d, want %d\n", k, y, x, c, want); }
            if (d != want) { ++bad; printf("flipped_up_down(nth_channel_view(cc,%d))(%d,%d) = %d, want %d\n", k, x, 1 - y, d, want); }
            if (x % 2 == 0 && ss(x / 2, y)[0] != want) { ++bad; printf("subsampled(nth_channel_view(cc,%d),2,1)(%d,%d) = %d, want %d\n", k, x / 2, y, int(ss(x / 2, y)[0]), want); }
        }
    }
    printf(bad ? "FAIL %d\n" : "PASS\n", bad);
    return bad != 0;
}
