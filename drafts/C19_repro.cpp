// C19 repros: g++ -std=c++14 -I/repo/include C19_repro.cpp && ./a.out     (three independent defects in histogram.hpp)
#include <boost/gil.hpp>
#include <boost/gil/histogram.hpp>
#include <cstdio>
namespace gil = boost::gil;
int main()
{
    // (a) signed channel, bin width 3: -2 / size_t(3) is computed in unsigned arithmetic -> bin key 84 (expected 0 or -1)
    gil::gray8s_image_t s(1, 1); gil::view(s)(0, 0)[0] = -2;
    gil::histogram<int> h; gil::fill_histogram(gil::view(s), h, 3);
    printf("(a) pixel -2, bin width 3 -> bin key %d\n", std::get<0>(h.begin()->first));
    // (b) accumulate=true with sparsefill=false: the dense pre-fill assigns 0 to every bin in [lower,upper], wiping what was there
    gil::gray8_image_t g(1, 1); gil::view(g)(0, 0)[0] = 5;
    gil::histogram<int> a; a(1) = 3;
    gil::fill_histogram(gil::view(g), a, 1, /*accumulate*/ true, /*sparsefill*/ false, false, {}, std::make_tuple(0), std::make_tuple(7), false);
    printf("(b) accumulate over bin(1)=3 with dense pre-fill [0,7]: bin(1)=%g (expected 3), bin(5)=%g\n", a(1), a(5));
    // (c) sub_histogram<0,2>(low,high) compares the selected keys lexicographically: blue=50 is kept for blue range [2,10]
    gil::histogram<int, int, int> c; c(11, 2, 3) = 1; c(11, 3, 50) = 4; c(1, 2, 1) = 3;
    auto sub = c.sub_histogram<0, 2>(std::make_tuple(10, 0, 2), std::make_tuple(20, 0, 10));
    for (auto& kv : sub) printf("(c) red in [10,20] and blue in [2,10] keeps (%d,%d,%d)\n", std::get<0>(kv.first), std::get<1>(kv.first), std::get<2>(kv.first));
    return 0;
}
