// F15: equal_pixels / image== disagree with per-pixel == for float channels holding +0.0f vs -0.0f
#include <boost/gil.hpp>
#include <cstdio>
namespace gil = boost::gil;
int main() {
    gil::rgb32f_image_t a(2, 2), b(2, 2), pa(2, 2, 16), pb(2, 2, 16);   // p*: padded rows -> row-by-row path
    gil::rgb32f_pixel_t z(0.0f, 0.5f, 1.0f), nz(-0.0f, 0.5f, 1.0f);
    gil::fill_pixels(gil::view(a), z);  gil::fill_pixels(gil::view(pa), z);
    gil::fill_pixels(gil::view(b), nz); gil::fill_pixels(gil::view(pb), nz);
    bool loop = true;
    for (int y = 0; y < 2; ++y) for (int x = 0; x < 2; ++x) loop = loop && gil::view(a)(x, y) == gil::view(b)(x, y);
    printf("per-pixel loop says equal: %d\n", loop);                                                       // 1
    printf("equal_pixels(contiguous, contiguous): %d\n", gil::equal_pixels(gil::view(a), gil::view(b)));    // 0  <-- memcmp
    printf("equal_pixels(padded, padded):         %d\n", gil::equal_pixels(gil::view(pa), gil::view(pb)));  // 0  <-- memcmp per row
    printf("image ==:                             %d\n", a == b);                                           // 0
    printf("equal_pixels(flipped, flipped):       %d\n", gil::equal_pixels(gil::flipped_left_right_view(gil::view(a)), gil::flipped_left_right_view(gil::view(b)))); // 1 (generic path)
    return 0;
}
