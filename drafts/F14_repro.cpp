// F14 stand-alone repro: g++ -std=c++14 -DNDEBUG -I /repo/include F14_repro.cpp && ./a.out
// channel_multiply is not commutative for integral channels that use the generic
// channel_multiplier_unsigned (a / double(max) * b, truncated): packed_channel_value<8,10,11,12,14,15,16>,
// uint32_t and (through the signed wrapper) int32_t.
#include <boost/gil/channel_algorithm.hpp>
#include <cstdio>
int main()
{
    namespace gil = boost::gil;
    using p8 = gil::packed_channel_value<8>;
    int ab = gil::channel_multiply(p8(51), p8(155)), ba = gil::channel_multiply(p8(155), p8(51));
    std::printf("packed8: 51*155 -> %d, 155*51 -> %d   (exact 51*155/255 = 31)\n", ab, ba);
    long n = 0;
    for (int a = 0; a < 256; ++a) for (int b = 0; b < 256; ++b)
        if (int(gil::channel_multiply(p8(a), p8(b))) != int(gil::channel_multiply(p8(b), p8(a)))) ++n;
    std::printf("packed8: %ld ordered pairs with r(a,b) != r(b,a)\n", n);
    std::uint32_t x = 1110, y = 3149642683u;   // 1110 * y / max = 814 exactly
    std::printf("uint32: %u*%u -> %u, swapped -> %u\n", x, y, gil::channel_multiply(x, y), gil::channel_multiply(y, x));
    return ab != ba ? 1 : 0;
}
