#!/usr/bin/env python3
"""validate_gdk.py -- optional development aid: decode every seed written by `gen/seeds.py <outdir>` with
gdk-pixbuf (system library, via ctypes; no python packages) and compare with the encoder's expected pixels.
Not used by any registered run.   usage: python3 gen/validate_gdk.py <outdir>"""
import ctypes, json, sys, glob

def main(outdir):
    g = ctypes.CDLL('libgdk_pixbuf-2.0.so.0')
    g.gdk_pixbuf_new_from_file.restype = ctypes.c_void_p
    g.gdk_pixbuf_new_from_file.argtypes = [ctypes.c_char_p, ctypes.c_void_p]
    for f in ('gdk_pixbuf_get_width', 'gdk_pixbuf_get_height', 'gdk_pixbuf_get_rowstride', 'gdk_pixbuf_get_n_channels'):
        getattr(g, f).argtypes = [ctypes.c_void_p]; getattr(g, f).restype = ctypes.c_int
    g.gdk_pixbuf_get_pixels.argtypes = [ctypes.c_void_p]; g.gdk_pixbuf_get_pixels.restype = ctypes.POINTER(ctypes.c_ubyte)
    ok = bad = fail = 0
    for j in sorted(glob.glob(outdir + '/*.json')):
        m = json.load(open(j)); path = j[:-5] + '.' + m['ext']
        pb = g.gdk_pixbuf_new_from_file(path.encode(), None)
        if not pb:
            print('LOADFAIL', m['name']); fail += 1; continue
        w, h = g.gdk_pixbuf_get_width(pb), g.gdk_pixbuf_get_height(pb)
        rs, nc = g.gdk_pixbuf_get_rowstride(pb), g.gdk_pixbuf_get_n_channels(pb)
        px = g.gdk_pixbuf_get_pixels(pb)
        ch = m['channels']
        if (w, h) != (m['width'], m['height']):
            print('DIM', m['name'], w, h); bad += 1; continue

        def ndiff(e):
            d = 0
            for y in range(h):
                for x in range(w):
                    for c in range(3):                      # gdk delivers rgb(a); gray seeds are compared on all three
                        ev = e[(y * w + x) * ch + (c if ch > 1 else 0)]
                        if ev >= 0 and px[y * rs + x * nc + c] != ev: d += 1
            return d
        d = ndiff(m['expected']); d2 = ndiff(m['expected_alt']) if m['expected_alt'] else None
        if d == 0 or d2 == 0: ok += 1
        else: bad += 1; print('MISMATCH', m['name'], 'primary', d, 'alt', d2)
    print('identical', ok, 'different', bad, 'not loadable', fail)
    return 0 if not fail else 1

if __name__ == '__main__':
    sys.exit(main(sys.argv[1]))
