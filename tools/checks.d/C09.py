# registry fragment for C09 (exec'd by tools/checks.py with CHECKS, ASSUME_COMMON, NOT_APPLICABLE in scope)
_c09_parts = [('c09_pairs_u8', 0), ('c09_pairs_u16', 1), ('c09_pairs_f32', 2), ('c09_pairs_s8', 3)]
CHECKS['C09'] = dict(
    level='exploration',
    technique='exhaustive finite-domain enumeration of the real default colour converters against the clauses of the '
              'statement (independent integer / long double reference arithmetic; channel_convert and channel_multiply '
              'are taken from the layers C06/C07 validate)',
    rule='case = (source pixel type, destination pixel type, source pixel); distinct by construction (loop indices are the '
         'channel values); non-trivial = at least one source channel strictly between min and max. Enumerations: all 2^24 '
         'rgb8 (and bgr8) pixels -> gray8, cmyk8 -> back, rgba8/argb8; all 2^16 (r|g|b, a) planes of rgba8 and (c|m|y, k) '
         'planes of cmyk8 x the other two channels in {0,1,127,128,254,255} (thorough: all 2^32 rgba8 and cmyk8 pixels); '
         'every ordered pair of {gray,rgb,bgr,rgba,bgra,argb,abgr,cmyk} x {uint8,uint16,float32,int8} pixel types that '
         'shares a depth or uses a canonical layout (544 pairs) on the full channel lattice (8 points per 8-bit channel, '
         '17 per 16-bit/float channel; thorough 16/33/33); rgb16/rgb32f/rgb8s -> cmyk -> rgb on the half-level lattice '
         '{257k, 257k+128, 257k+129}; 44 image type pairs (interleaved/planar, derived views) x all lattice tuples packed '
         'into 3x3 images for color_converted_view / copy_and_convert_pixels.',
    assumptions=ASSUME_COMMON + [
        'range clause is vacuous by type for integral destination channels (checked for float32 destinations)',
        'cmyk black = K at max or C=M=Y at max; cmyk white = all channels at min; gray is not part of the neutral clause',
        '"one unit" of the luminance clause = the coarser of source and destination channel step (float32 counted as 1/65535)',
        'rgb->cmyk->rgb is evaluated with one channel type for all three pixels; tolerance one 8-bit level = range/255',
        'alpha premultiplication = channel_multiply (validated by C07); for uint8 additionally the independent round(c*a/255)',
        'what gray->cmyk puts into K and what rgb->rgba does to colour channels is not constrained by the statement and not examined',
    ],
    tus=[dict(name='c09_exhaust', src='harness/c09_exhaust.cpp', deps=['harness/c09_common.hpp'], san=False, opt=2)]
        + [dict(name=n, src='harness/c09_pairs.cpp', deps=['harness/c09_common.hpp'], san=False, opt=2, flags=['-DC09_PART=%d' % i]) for n, i in _c09_parts]
        + [dict(name='c09_views%d' % i, src='harness/c09_views.cpp', deps=['harness/c09_common.hpp'], san=False, opt=1, flags=['-DC09_VPART=%d' % i]) for i in (0, 1)],
    runs=dict(
        quick=[dict(tu='c09_exhaust', group='rgb8_all', bounds=dict(more=0), shards=4),
               dict(tu='c09_exhaust', group='rgba8_planes', bounds=dict(full=0), shards=2),
               dict(tu='c09_exhaust', group='cmyk8_planes', bounds=dict(full=0), shards=1),
               dict(tu='c09_exhaust', group='deep_roundtrip', bounds=dict(dense=0), shards=3)]
              + [dict(tu=n, group='pairs', bounds=dict(big=0), shards=1) for n, i in _c09_parts]
              + [dict(tu='c09_views%d' % i, group='views', bounds=dict(big=0), shards=1) for i in (0, 1)]
              + [dict(tu='c09_views0', group='virtual_views', shards=2), dict(tu='c09_views0', group='stacked_adaptors', shards=1)],
        thorough=[dict(tu='c09_exhaust', group='rgb8_all', bounds=dict(more=1), shards=6),
                  dict(tu='c09_exhaust', group='rgba8_planes', bounds=dict(full=1), shards=32),
                  dict(tu='c09_exhaust', group='cmyk8_planes', bounds=dict(full=1), shards=16),
                  dict(tu='c09_exhaust', group='deep_roundtrip', bounds=dict(dense=1), shards=24)]
                 + [dict(tu=n, group='pairs', bounds=dict(big=1), shards=6) for n, i in _c09_parts]
                 + [dict(tu='c09_views%d' % i, group='views', bounds=dict(big=1), shards=4) for i in (0, 1)]
                 + [dict(tu='c09_views0', group='virtual_views', shards=4), dict(tu='c09_views0', group='stacked_adaptors', shards=1)]),
    witnesses_required=dict(all=[
        'rgb8_all_red_slices', 'rgba8_plane_rows', 'cmyk8_plane_rows', 'deep_roundtrip_slices', 'deep_roundtrip_signed_slices',
        'virtual_source_views', 'conversion_stacked_on_stateful_adaptor', 'pairs', 'pairs_cross_depth', 'pairs_layouts_differ', 'pairs_reordered_source_layout',
        'clause_range', 'clause_black', 'clause_white', 'clause_grey_exact_8bit', 'clause_grey_to_rgb',
        'clause_luminance_weights', 'clause_luminance_monotone', 'clause_rgb_cmyk_rgb', 'clause_from_rgba_premultiplied',
        'clause_from_rgba_premultiplied_independent_u8', 'clause_to_rgba_alpha_max', 'clause_to_rgba_alpha_carried',
        'clause_same_space_channel_convert', 'branch_rgb_to_cmyk_k_is_max', 'branch_luminance_fixed_point_u8',
        'branch_luminance_float', 'premultiplication_changes_pixel',
        'view_pairs', 'view_pairs_planar_source', 'view_pairs_planar_destination', 'view_pairs_identity_shortcut', 'derived_source_views']),
    deadline=dict(quick=600, thorough=3000),
)
